"""Worker process of the C12 check (history / cache / hash-seed independence).

Protocol: one JSON job per line on stdin, one JSON answer per line on stdout.  The process imports
sympde once (from $SYMPDE_REPO); every job is executed in a *forked child*, i.e. in an interpreter
whose only history is the import of sympde: pristine sympy cache, pristine class-level state.  The
hash seed (PYTHONHASHSEED) and the cache switch (SYMPY_USE_CACHE) are those of the process.

job  = {"steps": [step, ...]}          step = {"r": recipe, "p": params} | {"r": "clear"}
answer = {"out": [result per step]}    result = {"s": printed, "t": structural, "mut": [...]} | {"err": ...}

mode `identity` (argv[1]): prints the identity table learnt from the live classes (see
harness/translate/identity.py) and exits.
"""
import json
import os
import sys

REPO = os.environ.get('SYMPDE_REPO', '/repo')


def boot():
    os.environ['SYMPDE_VERIF'] = '1'
    if REPO not in sys.path:
        sys.path.insert(0, REPO)
    import sympde
    got = os.path.realpath(os.path.dirname(os.path.dirname(sympde.__file__)))
    if got != os.path.realpath(REPO):
        raise RuntimeError('sympde imported from %s, expected %s' % (got, REPO))


# --------------------------------------------------------------------------- structural dumps

IGNORED_ATTRS = {'_mhash', '_assumptions', '_prop_handler', '_hash', '_coordinates'}   # lazily filled memo attributes


def dump(x, depth=0):
    """structural form of a result: class names and argument order, atoms with their printed form"""
    from sympy import Basic
    from sympy.matrices.matrices import MatrixBase
    if depth > 60:
        return '...'
    if isinstance(x, MatrixBase):
        return 'Matrix%s[%s]' % (x.shape, ', '.join(dump(a, depth + 1) for a in x))
    if isinstance(x, Basic):
        extra = ''
        d = getattr(x, 'dim', None) if type(x).__module__.startswith('sympde.topology') else None
        if isinstance(d, int) or (d is not None and getattr(d, 'is_Integer', False)):
            extra = '{dim=%s}' % d
        if not x.args:
            return '%s:%s%s' % (type(x).__name__, x, extra)
        return '%s%s(%s)' % (type(x).__name__, extra, ', '.join(dump(a, depth + 1) for a in x.args))
    if isinstance(x, (list, tuple)):
        return '[%s]' % ', '.join(dump(a, depth + 1) for a in x)
    if isinstance(x, dict):
        return '{%s}' % ', '.join('%s: %s' % (dump(k, depth + 1), dump(v, depth + 1)) for k, v in x.items())
    return repr(x)


def short(v):
    from sympy import Basic
    if isinstance(v, Basic):
        return '%s:%s' % (type(v).__name__, v)
    if isinstance(v, dict):
        return '{%s}' % ', '.join('%s: %s' % (k, short(x)) for k, x in v.items())
    if isinstance(v, (list, tuple)):
        return '[%s]' % ', '.join(short(x) for x in v)
    if hasattr(v, '_data') and isinstance(getattr(v, '_data'), dict):      # Connectivity
        return 'Connectivity{%s}' % ', '.join(
            '%s: (%s, %s, %s)' % (k, i.minus, i.plus, i.ornt) for k, i in v._data.items())
    if callable(v):
        return '<callable>'
    return repr(v)


def snap(objs):
    """observable state of the inputs of a computation: structure + every instance attribute of every node"""
    from sympy import Basic, preorder_traversal
    out = []
    seen = set()
    for name, o in objs:
        if isinstance(o, Basic):
            nodes = list(preorder_traversal(o))
        else:
            nodes = [o]
        for n in nodes:
            if id(n) in seen:
                continue
            seen.add(id(n))
            try:
                attrs = vars(n)
            except TypeError:
                attrs = {}
            a = sorted((k, short(v)) for k, v in attrs.items() if k not in IGNORED_ATTRS)
            out.append('%s/%s:%s %s' % (name, type(n).__name__, short(n) if isinstance(n, Basic) else repr(n), a))
        if isinstance(o, (list, dict)):
            out.append('%s=%r' % (name, short(o)))
    return out


def diff_snap(a, b):
    if a == b:
        return []
    sa, sb = set(a), set(b)
    return sorted(sa - sb)[:4] + ['=>'] + sorted(sb - sa)[:4]


# --------------------------------------------------------------------------- object specifications

def mk_domain(d):
    """d = ['abs', name, dim] | ['cube', name, dim, lo] | ['map', mname, mtype, name, dim, lo]"""
    from sympde.topology import Domain, Line, Square, Cube, Mapping, PolarMapping, IdentityMapping
    if d[0] == 'abs':
        return Domain(d[1], dim=d[2])
    if d[0] == 'cube':
        name, dim, lo = d[1], d[2], d[3]
        if dim == 1:
            return Line(name, bounds=(lo, lo + 1))
        if dim == 2:
            return Square(name, bounds1=(lo, lo + 1), bounds2=(0, 1))
        return Cube(name, bounds1=(lo, lo + 1), bounds2=(0, 1), bounds3=(0, 1))
    if d[0] == 'map':
        mname, mtype, name, dim, lo = d[1:]
        P = mk_domain(['cube', name, dim, lo])
        if mtype == 'polar' and dim == 2:
            M = PolarMapping(mname, dim=2, c1=0, c2=0, rmin=0, rmax=1)
        elif mtype == 'identity':
            M = IdentityMapping(mname, dim=dim)
        else:
            M = Mapping(mname, dim=dim)
        return M(P)
    raise ValueError(d)


def mk_space(s, dom):
    """s = ['S', name, kind] | ['V', name, kind]"""
    from sympde.topology import ScalarFunctionSpace, VectorFunctionSpace
    kw = {} if s[2] is None else {'kind': s[2]}
    if s[0] == 'S':
        return ScalarFunctionSpace(s[1], dom, **kw)
    return VectorFunctionSpace(s[1], dom, **kw)


def result(res, inputs, before):
    after = snap(inputs)
    return {'s': str(res), 't': dump(res), 'mut': diff_snap(before, after)}


# --------------------------------------------------------------------------- recipes

def r_tgrad(p):
    from sympde.topology import element_of
    from sympde.calculus import grad, laplace, dot
    from sympde.expr.evaluation import TerminalExpr
    O = mk_domain(p['dom'])
    V = mk_space(p['sp'], O)
    u = element_of(V, p['fn'])
    e = {'grad': lambda: grad(u), 'lap': lambda: laplace(u), 'gg': lambda: dot(grad(u), grad(u)) + u}[p.get('op', 'grad')]()
    ins = [('O', O), ('V', V), ('u', u), ('e', e)]
    b = snap(ins)
    return result(TerminalExpr(e, O), ins, b)


def r_tvec(p):
    from sympde.topology import element_of
    from sympde.calculus import div, curl, rot, grad, dot
    from sympde.expr.evaluation import TerminalExpr
    O = mk_domain(p['dom'])
    V = mk_space(p['sp'], O)
    F = element_of(V, p['fn'])
    e = {'div': lambda: div(F), 'curl': lambda: curl(F), 'rot': lambda: rot(F), 'dotFF': lambda: dot(F, F)}[p['op']]()
    ins = [('O', O), ('V', V), ('F', F), ('e', e)]
    b = snap(ins)
    return result(TerminalExpr(e, O), ins, b)


def r_form(p):
    from sympde.topology import element_of
    from sympde.calculus import grad, dot
    from sympde.expr import BilinearForm, LinearForm, integral
    from sympde.expr.evaluation import TerminalExpr
    O = mk_domain(p['dom'])
    V = mk_space(p['sp'], O)
    u, v = element_of(V, p['fn']), element_of(V, p['fn2'])
    terms = [integral(O, dot(grad(u), grad(v))), integral(O, u * v)]
    if p.get('bnd') and O.boundary is not None:
        from sympde.topology.basic import Union
        faces = list(O.boundary.args) if isinstance(O.boundary, Union) else [O.boundary]
        for k in p['bnd']:
            terms.append(integral(faces[k % len(faces)], (k + 2) * u * v))
    terms = [terms[i] for i in p.get('order', range(len(terms)))]
    expr = terms[0]
    for t in terms[1:]:
        expr = expr + t
    a = BilinearForm((u, v), expr)
    ins = [('O', O), ('V', V), ('u', u), ('v', v), ('a', a)]
    b = snap(ins)
    res = TerminalExpr(a, O)
    res = sorted(res, key=lambda x: str(x.target)) if p.get('sort_result') else list(res)
    return result(res, ins, b)


def r_logical(p):
    from sympde.topology import element_of, LogicalExpr, dx, dy
    from sympde.calculus import grad, div, dot
    O = mk_domain(p['dom'])
    V = mk_space(p['sp'], O)
    u = element_of(V, p['fn'])
    if p['sp'][0] == 'S':
        e = {'dx': lambda: dx(u), 'grad': lambda: grad(u), 'dxdy': lambda: dx(dy(u))}[p.get('op', 'dx')]()
    else:
        e = {'div': lambda: div(u), 'dot': lambda: dot(u, u)}[p.get('op', 'div')]()
    ins = [('O', O), ('V', V), ('u', u), ('e', e)]
    b = snap(ins)
    return result(LogicalExpr(e, O), ins, b)


def r_symbolic(p):
    from sympde.topology import element_of, dx, dy, SymbolicExpr
    O = mk_domain(p['dom'])
    V = mk_space(p['sp'], O)
    u = element_of(V, p['fn'])
    e = dx(dy(u)) + 2 * dx(u) if O.dim > 1 else dx(dx(u)) + 2 * dx(u)
    ins = [('u', u), ('e', e)]
    b = snap(ins)
    return result(SymbolicExpr(e), ins, b)


def r_idxder(p):
    from sympde.topology import element_of, dx, dy
    from sympde.topology.derivatives import get_index_derivatives, get_atom_derivatives, sort_partial_derivatives
    O = mk_domain(p['dom'])
    V = mk_space(p['sp'], O)
    u = element_of(V, p['fn'])
    e = dx(dy(u)) if O.dim > 1 else dx(dx(u))
    ins = [('e', e)]
    b = snap(ins)
    res = [sorted(get_index_derivatives(e).items()), get_atom_derivatives(e)]
    return result(res, ins, b)


def r_hodge(p):
    from sympde.exterior import DifferentialForm, hodge, d, infere_type
    v = DifferentialForm(p['name'], p['k'], p['n'])
    ins = [('v', v)]
    b = snap(ins)
    res = [hodge(hodge(-v)), d(2 * v)]
    try:
        res.append(str(infere_type(hodge(v))))
    except Exception as e:
        res.append(type(e).__name__)
    return result(res, ins, b)


def r_union(p):
    from sympde.topology.basic import Union, InteriorDomain
    objs = [InteriorDomain(n, dim=p['dim']) for n in p['names']]
    objs = [objs[i] for i in p.get('order', range(len(objs)))]
    ins = [('m%d' % i, o) for i, o in enumerate(objs)]
    b = snap(ins)
    U = Union(*objs)
    return result([U, None if U is None else hash(U) == hash(Union(*reversed(objs)))], ins, b)


def r_join(p):
    from sympde.topology import Domain
    ps = [mk_domain(d) for d in p['patches']]
    conns = [tuple(tuple(x) if isinstance(x, list) else x for x in cn) for cn in p['conns']]
    conns = [conns[i] for i in p.get('order', range(len(conns)))]
    ins = [('p%d' % i, o) for i, o in enumerate(ps)] + [('conns', conns), ('patches', ps)]
    b = snap(ins)
    mb = mapping_state(ps)
    D = Domain.join(ps, conns, p['name'])
    y = D.todict()
    res = [json.dumps(y, sort_keys=True), str(D.interfaces), str(D.boundary), str(D.interior)]
    r = result(res, ins, b)
    ma = mapping_state(ps)
    if ma != mb:
        r['mut'] = r['mut'] + ['mappings of the input patches (name, is_plus, is_minus, == identically built mapping, same hash): %s => %s' % (mb, ma)]
    return r


def mapping_state(patches):
    """the mappings of mapped patches as a caller sees them: flags, and equality with an identically constructed mapping"""
    from sympde.topology import Mapping
    out = []
    for P in patches:
        M = getattr(P, 'mapping', None)
        if M is None:
            continue
        try:
            twin = type(M)(str(M.name), dim=int(P.dim)) if type(M) is Mapping else None
        except Exception:
            twin = None
        out.append((str(M.name), bool(getattr(M, 'is_plus', False)), bool(getattr(M, 'is_minus', False)),
                    None if twin is None else bool(M == twin), None if twin is None else hash(M) == hash(twin)))
    return out


def r_joinlow(p):
    """two mapped patches D1 = F1(A), D2 = F2(B); optionally `Domain.join([D1, D2])` first; then a form on the single
    patch D2 is lowered LogicalExpr -> TerminalExpr -> SymbolicExpr with the SAME objects"""
    from sympy import sin
    from sympde.topology import Domain, element_of, LogicalExpr, SymbolicExpr
    from sympde.expr import BilinearForm, integral
    from sympde.expr.evaluation import TerminalExpr
    dim = p['dim']
    D1 = mk_domain(['map', p['maps'][0], 'plain', p['names'][0], dim, 0])
    D2 = mk_domain(['map', p['maps'][1], 'plain', p['names'][1], dim, 1])
    ins = [('D1', D1), ('D2', D2)]
    b = snap(ins)
    mb = mapping_state([D1, D2])
    if p.get('join_first'):
        ornt = {2: (1,), 3: ((1, 1, 1),)}[dim]
        Domain.join([D1, D2], [((0, 0, 1), (1, 0, -1)) + ornt], p['name'])
    ma = mapping_state([D1, D2])
    target = D2 if p.get('side', 'plus') == 'plus' else D1
    V = mk_space(['S', p['sp'], None], target)
    u, v = element_of(V, p['fn']), element_of(V, p['fn'] + 't')
    x = target.coordinates[0]
    a = BilinearForm((u, v), integral(target, sin(x) * u * v))
    t = TerminalExpr(LogicalExpr(a, target), target.logical_domain)
    r = result([SymbolicExpr(t[0].expr), str(t[0].expr)], ins, b)
    if ma != mb:
        r['mut'] = r['mut'] + ['mappings of the patches given to Domain.join (name, is_plus, is_minus, == identically built mapping, same hash): %s => %s' % (mb, ma)]
    return r


def r_symprod(p):
    """symmetric / antisymmetric products whose two operands are built from the SAME functions with different nesting
    depth (both operands of one class): op(a, b) against op(b, a) in one interpreter"""
    from sympde.topology import element_of
    from sympde.calculus import grad, curl, div, rot, dot, inner, cross, laplace
    from sympde.expr import LinearForm, integral
    from sympde.expr.evaluation import TerminalExpr
    O = mk_domain(p['dom'])
    dim = int(O.dim)
    V, W = mk_space(['S', p['sp'], None], O), mk_space(['V', p['sp'] + 'v', None], O)
    u, w = element_of(V, p['fn']), element_of(V, p['fn'] + 't')
    F = element_of(W, 'F' + p['fn'])
    pairs = {
        'gg_lap': lambda: (dot, grad(u), grad(laplace(u)), 1),
        'cc': lambda: (dot, curl(F), curl(curl(F)), 1),
        'f_cf': lambda: (dot, F, curl(F), 1),
        'inner_gg': lambda: (inner, grad(F), grad(grad(div(F))), 1),
        'gdiv': lambda: (dot, grad(div(F)), grad(div(grad(div(F)))), 1),
        'cross_cc': lambda: (cross, curl(F), curl(curl(F)), -1),
    }
    op, a, b2, sign = pairs[p['pair']]()
    ops = [a, b2]
    ops = [ops[i] for i in p.get('order', [0, 1])]
    ins = [('a', a), ('b', b2)]
    b = snap(ins)
    P, Q = op(ops[0], ops[1]), op(ops[1], ops[0])
    bad = []
    if sign == 1:
        if not (P == Q and hash(P) == hash(Q) and str(P) == str(Q)):
            bad.append('%s vs swapped %s: == %s, same hash %s, same print %s' % (P, Q, P == Q, hash(P) == hash(Q), str(P) == str(Q)))
        if not (P - Q == 0):
            bad.append('difference %s is not 0' % (P - Q))
        if not (LinearForm(w, integral(O, w * P)) == LinearForm(w, integral(O, w * Q))):
            bad.append('the linear forms built from the two orders differ')
    else:
        if not (P + Q == 0):
            bad.append('antisymmetric product: %s + %s is not 0' % (P, Q))
    P0 = P if (sign == 1 or list(p.get('order', [0, 1])) == [0, 1]) else -P      # cross(b, a) = -cross(a, b)
    r = result([P0, [str(k) for k in TerminalExpr(LinearForm(w, integral(O, w * P)), O)] if sign == 1 else None], ins, b)
    r['bad'] = bad
    return r


def r_comm(p):
    from sympde.topology import element_of
    from sympde.calculus import dot, inner, grad, cross
    from sympde.expr.evaluation import TerminalExpr
    O = mk_domain(p['dom'])
    V = mk_space(p['sp'], O)
    fs = [element_of(V, n) for n in p['fns']]
    fs = [fs[i] for i in p.get('order', range(len(fs)))]
    F, G = fs[0], fs[1]
    e = dot(F, G) + inner(grad(F), grad(G))
    ins = [('F', F), ('G', G), ('e', e)]
    b = snap(ins)
    return result([e, TerminalExpr(e, O)], ins, b)


def r_equation(p):
    from sympde.topology import element_of
    from sympde.expr import BilinearForm, LinearForm, integral, EssentialBC, Equation
    O = mk_domain(p['dom'])
    V, W = mk_space(['S', p['sp'], None], O), mk_space(['S', p['sp'] + '2', None], O)
    u, v = element_of(V, p['fn']), element_of(V, p['fn'] + 't')
    q, r = element_of(W, 'q' + p['fn']), element_of(W, 'r' + p['fn'])
    a = BilinearForm(((q, u), (r, v)), integral(O, u * v + q * r))
    l = LinearForm((r, v), integral(O, v + r))
    bc = [EssentialBC(u, 0, O.boundary), EssentialBC(q, 1, O.boundary)]
    if p.get('single'):
        bc = bc[0]
    ins = [('a', a), ('l', l), ('bc', bc)] + [('bc%d' % i, c) for i, c in enumerate(bc if isinstance(bc, list) else [bc])]
    b = snap(ins)
    eq = Equation(a, l, tests=(r, v), trials=(q, u), bc=bc)
    res = [[(str(c.variable), c.position, str(c.boundary)) for c in eq.bc], str(eq.lhs.expr)]
    return result(res, ins, b)


def r_mapped(p):
    """MappedDomain is @cacheit: F(A) for patches that print alike"""
    D = mk_domain(p['dom'])
    ins = []
    b = snap(ins)
    I = D.interior
    res = [str(D), D.dim, str(D.boundary), [str(x) for x in (I.min_coords, I.max_coords)] if hasattr(I, 'min_coords') else None,
           json.dumps(D.todict(), sort_keys=True)]
    return result(res, ins, b)


def r_tkeys(p):
    """classes of the cache key of TerminalExpr.eval(expr, domain): `==`, hash and type of both arguments"""
    from sympde.topology import element_of
    from sympde.calculus import grad, laplace
    pairs = []
    for q in p['objs']:
        O = mk_domain(q['dom'])
        u = element_of(mk_space(q['sp'], O), q['fn'])
        e = grad(u) if q.get('op', 'grad') == 'grad' else laplace(u)
        pairs.append((e, O))
    cls = []
    for i, (e, O) in enumerate(pairs):
        k = i
        for j in range(i):
            f, P = pairs[j]
            if type(e) is type(f) and type(O) is type(P) and e == f and O == P and hash(e) == hash(f) and hash(O) == hash(P):
                k = cls[j]
                break
        cls.append(k)
    return {'s': json.dumps(cls), 't': '', 'mut': []}


def r_idxmut(p):
    """a caller that modifies the dictionary returned by get_index_derivatives (its own copy, it believes)"""
    from sympde.topology import element_of, dx, dy
    from sympde.topology.derivatives import get_index_derivatives
    O = mk_domain(p['dom'])
    u = element_of(mk_space(p['sp'], O), p['fn'])
    e = dx(dy(u)) if O.dim > 1 else dx(dx(u))
    d = get_index_derivatives(e)
    d['x'] += 5
    return {'s': str(sorted(d.items())), 't': '', 'mut': []}


def r_chain(p):
    """a chain of coordinate operators applied one after the other (innermost first): the result of
    each application must not depend on which other chains over the same function were built before"""
    from sympde.topology import element_of
    from sympde.topology import derivatives as dv
    O = mk_domain(p['dom'])
    u = element_of(mk_space(p['sp'], O), p['fn'])
    e = u
    for name in p['ops']:
        e = getattr(dv, name)(e)
    ins = [('u', u)]
    b = snap(ins)
    return result(e, ins, b)


def r_amap(p):
    """an analytical (catalogue) mapping applied to a square, its parameters numeric, partly numeric or left symbolic:
    the expressions of the mapped domain's mapping and a lowered derivative must be those of THIS parameter set
    (MappedDomain.__new__ is cached); the symbolic constants of the mapping (`Mapping.constants`) are part of the result"""
    from sympde.topology import analytical_mapping as am, element_of, LogicalExpr, dx, dy
    cls = getattr(am, p['mcls'])
    M = cls(p['mname'], dim=2, **p['params'])
    A = mk_domain(p['dom'])
    ins = [('A', A)]
    b = snap(ins)
    D = M(A)
    V = mk_space(p['sp'], D)
    u = element_of(V, p['fn'])
    res = [[str(x) for x in D.mapping.expressions], [str(x) for x in M.expressions],
           LogicalExpr(dx(u) if p.get('op', 'dx') == 'dx' else dy(u), D) if p.get('lower', True) else None,
           [str(c) for c in M.constants], [str(c) for c in D.mapping.constants]]
    return result(res, ins, b)


def mk_catalogue(spec):
    """spec = [name, class name, {parameter: number}] -> a 2-D mapping of the catalogue ('Mapping' = symbolic)"""
    from sympde.topology import analytical_mapping as am, Mapping
    if spec[1] == 'Mapping':
        return Mapping(spec[0], dim=2)
    return getattr(am, spec[1])(spec[0], dim=2, **spec[2])


def r_mjoin(p):
    """two squares side by side, each with its own catalogue mapping (numeric parameters), joined along x1: what the
    interface knows about the geometry (its mapping's minus / plus expressions and Jacobians, its logical interface) and,
    with `lower`, the kernels of a form over the interface lowered on the logical domain.  Ground truth for an affine
    mapping: the Jacobian is the matrix of the recipe's own coefficients."""
    from sympy import Matrix, simplify
    from sympde.topology import Domain, element_of, LogicalExpr
    from sympde.calculus import jump, avg, Dn
    from sympde.expr import BilinearForm, integral
    from sympde.expr.evaluation import TerminalExpr
    A, B = mk_domain(['cube', p['names'][0], 2, 0]), mk_domain(['cube', p['names'][1], 2, 1])
    Ms = [mk_catalogue(m) for m in p['amaps']]
    D1, D2 = Ms[0](A), Ms[1](B)
    ins = [('A', A), ('B', B), ('D1', D1), ('D2', D2)]
    b = snap(ins)
    D = Domain.join([D1, D2], [((0, 0, 1), (1, 0, -1), p.get('ornt', 1))], p['name'])
    I = D.interfaces
    res = [str(I), str(I.logical_domain)]
    bad = []
    for side, spec in (('minus', p['amaps'][0]), ('plus', p['amaps'][1])):
        m = getattr(I.mapping, side)
        J = Matrix(m.jacobian_expr)
        res.append([side, str(m.name), [str(x) for x in m.expressions], str(J)])
        if spec[1] == 'AffineMapping' and len(spec[2]) == 6:
            q = spec[2]
            want = Matrix([[q['a11'], q['a12']], [q['a21'], q['a22']]])
            if any(simplify(x) != 0 for x in (J - want)):
                bad.append('the %s side of the interface of %s carries the Jacobian %s, the patch was mapped with %s' % (side, p['name'], J.tolist(), want.tolist()))
    if p.get('lower'):
        V = mk_space(['S', p['sp'], 'h1'], D)
        u, v = element_of(V, p['fn']), element_of(V, p['fn'] + 't')
        e = {'jj': lambda: jump(u) * jump(v), 'aj': lambda: avg(u) * jump(v)}[p.get('bil', 'jj')]()
        a = BilinearForm((u, v), integral(I, e))
        res.append([str(k) for k in TerminalExpr(LogicalExpr(a, D), D.logical_domain)])
    r = result(res, ins, b)
    r['bad'] = bad
    return r


def r_corners(p):
    """an nx x ny arrangement of unit squares joined along all inner edges: the shared corners (Domain.corners, 2-D only).
    Ground truth = elementary geometry on the recipe's own table patch -> lower-left vertex: a vertex is shared when at
    least two patches have a corner there; every shared vertex is listed once, with exactly the patch corners meeting there"""
    from sympde.topology import Domain, Square
    from sympde.topology.basic import Union
    nx, ny = p['grid']
    names = p['names']
    geo = {names[j * nx + i]: (i, j) for j in range(ny) for i in range(nx)}
    sq = {n: Square(n, bounds1=(x, x + 1), bounds2=(y, y + 1)) for n, (x, y) in geo.items()}
    at = {(x, y): n for n, (x, y) in geo.items()}
    conns = []
    for (x, y), n in sorted(at.items()):
        if (x + 1, y) in at:
            conns.append(((sq[n], 0, 1), (sq[at[(x + 1, y)]], 0, -1), 1))
        if (x, y + 1) in at:
            conns.append(((sq[n], 1, 1), (sq[at[(x, y + 1)]], 1, -1), 1))
    conns = [conns[i] for i in p.get('corder', range(len(conns)))]
    patches = [sq[n] for n in (p.get('porder') or sorted(sq))]
    ins = [('p_' + n, sq[n]) for n in sorted(sq)]
    b = snap(ins)
    D = Domain.join(patches, conns, p['name'])
    C = D.corners
    groups = list(C.args) if isinstance(C, Union) else ([] if C is None else [C])
    got = [[(str(cb.domain.name), tuple((int(x.axis), int(x.ext)) for x in cb.boundaries)) for cb in ci.corners] for ci in groups]
    want = {}
    for n, (x, y) in geo.items():
        for e0 in (-1, 1):
            for e1 in (-1, 1):
                want.setdefault((x + (e0 + 1) // 2, y + (e1 + 1) // 2), []).append((n, ((0, e0), (1, e1))))
    want = sorted(sorted(v) for v in want.values() if len(v) > 1)
    bad = []
    if sorted(sorted(g) for g in got) != want:
        bad.append('Domain.corners of the %dx%d arrangement lists the vertices %s; by geometry the shared vertices are %s' % (nx, ny, got, want))
    r = result([str(C), got, C], ins, b)
    r['bad'] = [x if len(x) < 900 else x[:900] + ' ...' for x in bad]
    return r


def r_intsum(p):
    """a sum of integrals over DIFFERENT regions, built in a given operand order and association; compared in the
    same interpreter with the sum built left-nested in the reference order: args, print, ==, hash, forms, kernels"""
    from sympde.topology import element_of
    from sympde.topology.basic import Union
    from sympde.calculus import grad, dot
    from sympde.expr import BilinearForm, LinearForm, integral
    from sympde.expr.evaluation import TerminalExpr
    O = mk_domain(p['dom'])
    V = mk_space(p['sp'], O)
    u, v = element_of(V, p['fn']), element_of(V, p['fn'] + 't')
    faces = list(O.boundary.args) if isinstance(O.boundary, Union) else [O.boundary]
    regions = [O if k == 0 else faces[(k - 1) % len(faces)] for k in p['regions']]

    def terms(bil):
        ts = []
        for i, R in enumerate(regions):
            if bil:
                ts.append(integral(R, dot(grad(u), grad(v)) if (R is O and i % 2 == 0) else (i + 2) * u * v))
            else:
                ts.append(integral(R, (i + 2) * v))
        return ts

    def build(ts, order, shape):
        ts = [ts[i] for i in order]
        if len(ts) == 2:
            return ts[0] + ts[1]
        if shape == 'right':
            return ts[0] + (ts[1] + ts[2])
        return (ts[0] + ts[1]) + ts[2]

    n = len(regions)
    order = p.get('order', list(range(n)))
    ins = [('O', O), ('u', u), ('v', v)]
    b = snap(ins)
    out, bad = [], []
    for bil in (True, False):
        ref = build(terms(bil), list(range(n)), 'left')
        e = build(terms(bil), order, p.get('shape', 'left'))
        fr = BilinearForm((u, v), ref) if bil else LinearForm(v, ref)
        fe = BilinearForm((u, v), e) if bil else LinearForm(v, e)
        kind = 'bilinear' if bil else 'linear'
        if not (e == ref and hash(e) == hash(ref)):
            bad.append('%s sum: == %s, same hash %s; args %s vs %s' % (kind, e == ref, hash(e) == hash(ref),
                                                                         [str(x) for x in e.args], [str(x) for x in ref.args]))
        if not (fe == fr and hash(fe) == hash(fr)):
            bad.append('%s form: == %s, same hash %s; %s vs %s' % (kind, fe == fr, hash(fe) == hash(fr), fe, fr))
        out.append([[str(x) for x in e.args], str(e), str(fe), [str(k) for k in TerminalExpr(fe, O)]])
    r = result(out, ins, b)
    r['bad'] = bad
    return r


def r_iface(p):
    """forms over the interface of a two-patch domain: explicit normals, Dn, jump / avg / minus / plus; the kernels
    go through `_split_expr_over_interface` (sets of atoms, normal reversal on the plus side)"""
    from sympde.topology import Domain, element_of, NormalVector
    from sympde.calculus import jump, avg, minus, plus, Dn, dot, grad
    from sympde.expr import BilinearForm, LinearForm, integral
    from sympde.expr.evaluation import TerminalExpr
    dim = p['dim']
    A, B = mk_domain(['cube', p['names'][0], dim, 0]), mk_domain(['cube', p['names'][1], dim, 1])
    ornt = {1: (), 2: (1,), 3: ((1, 1, 1),)}[dim]
    D = Domain.join([A, B], [((0, 0, 1), (1, 0, -1)) + ornt], p['name'])
    I = D.interfaces
    V, W = mk_space(['S', p['sp'], None], D), mk_space(['V', p['sp'] + 'v', None], D)
    u, v = element_of(V, p['fn']), element_of(V, p['fn'] + 't')
    f, g = element_of(W, 'F' + p['fn']), element_of(W, 'G' + p['fn'])
    n = NormalVector(p.get('normal', 'n'))
    bil = {
        'jn_jdn': lambda: ((f, v), dot(jump(f), n) * jump(Dn(v))),
        'jj': lambda: ((u, v), jump(u) * jump(v)),
        'adn_j': lambda: ((u, v), avg(u) * jump(Dn(v)) + jump(Dn(u)) * avg(v)),
        'mp': lambda: ((u, v), minus(u) * plus(v) + plus(u) * minus(v)),
        'jn_a': lambda: ((f, v), dot(jump(f), n) * avg(v)),
        'fn_gn': lambda: ((f, g), dot(jump(f), n) * dot(jump(g), n)),
        'dn_n': lambda: ((f, v), dot(minus(f), n) * plus(Dn(v)) + dot(plus(f), n) * minus(Dn(v))),
    }
    lin = {
        'jdn': lambda: (v, jump(Dn(v))),
        'jn': lambda: (g, dot(jump(g), n)),
        'a_dnp': lambda: (v, avg(v) + plus(Dn(v))),
    }
    ins = [('D', D), ('n', n)]
    b = snap(ins)
    res = []
    for k in p['bil']:
        try:
            args, e = bil[k]()
            res.append([k, [str(x) for x in TerminalExpr(BilinearForm(args, integral(I, e)), D)]])
        except Exception as ex:
            res.append([k, 'raised ' + type(ex).__name__])
    for k in p['lin']:
        try:
            arg, e = lin[k]()
            res.append([k, [str(x) for x in TerminalExpr(LinearForm(arg, integral(I, e)), D)]])
        except Exception as ex:
            res.append([k, 'raised ' + type(ex).__name__])
    return result(res, ins, b)


def r_mpatch(p):
    """a multi-patch domain built DIRECTLY with Domain(name, interiors=[...], boundaries=[...]) from n-cube patches of
    different bounds (and, possibly, undefined InteriorDomains) supplied in a given order.  Ground truth = the recipe's
    own table name -> (type, bounds): entry k of Domain.dtype / todict()['dtype'] must describe patch k of
    Domain.interior, whatever order sympde puts the patches in, and export / from_file must give every patch its bounds"""
    import tempfile
    from sympde.topology import Domain, Line, Square, Cube, InteriorDomain, Boundary
    from sympde.topology.basic import Union
    cells = p['cells']
    table, objs = {}, {}
    for name, bounds in cells:
        if bounds is None:                       # an undefined interior: no dtype
            table[name] = None
            objs[name] = InteriorDomain(name, dim=p['pdim'])
            continue
        dim = len(bounds)
        kw = {'bounds': tuple(bounds[0])} if dim == 1 else {'bounds%d' % (i + 1): tuple(b) for i, b in enumerate(bounds)}
        objs[name] = {1: Line, 2: Square, 3: Cube}[dim](name, **kw)
        table[name] = {'type': {1: 'Line', 2: 'Square', 3: 'Cube'}[dim],
                       'parameters': {k: [float(x) for x in v] for k, v in kw.items()}}
    order = list(p.get('order', range(len(cells))))
    names = [cells[i][0] for i in order]
    interiors, boundaries = [], []
    for n in names:
        O = objs[n]
        if table[n] is None:
            interiors.append(O)
            boundaries.append(Boundary('G_' + n, O))
            continue
        interiors.append(O.interior)
        faces = list(O.boundary.args) if isinstance(O.boundary, Union) else [O.boundary]
        keep = p.get('faces')                    # None = all faces, else indices (mod the number of faces)
        boundaries += faces if keep is None else [faces[k % len(faces)] for k in sorted({k % len(faces) for k in keep})]
    if p.get('brev'):
        boundaries.reverse()
    ins = [('o_' + n, objs[n]) for n in sorted(objs)] + [('interiors', interiors), ('boundaries', boundaries)]
    b = snap(ins)
    D = Domain(p['name'], interiors=interiors, boundaries=boundaries)
    I = D.interior
    got = [str(i.name) for i in (I.args if isinstance(I, Union) else [I])]
    bad = []
    if sorted(got) != sorted(names):
        bad.append('the patches of the domain are %s, supplied were %s' % (got, names))
    dt = D.dtype if len(got) > 1 else [D.dtype]
    want = [table.get(n) for n in got]
    if list(dt) != want:
        bad.append('patches supplied as %s: Domain.interior = %s but Domain.dtype = %s (entry k must describe patch k: %s)'
                   % (names, got, json.dumps(dt), json.dumps(want)))
    y = D.todict()
    yi = y['interior'] if isinstance(y['interior'], list) else [y['interior']]
    yd = y['dtype'] if isinstance(y['dtype'], list) else [y['dtype']]
    ywant = [table.get(i['name']) for i in yi]
    if [None if d == 'None' else d for d in yd] != ywant:
        bad.append('patches supplied as %s: todict() lists the patches %s with dtype %s (expected %s)'
                   % (names, [i['name'] for i in yi], json.dumps(yd), json.dumps(ywant)))
    back = None
    if len(got) > 1 and len(boundaries) > 1 and all(table[n] is not None for n in names):
        tmp = tempfile.mkdtemp()
        fn = os.path.join(tmp, 'D.h5')
        try:
            D.export(fn)
            R = Domain.from_file(fn)
            RI = R.interior
            back = sorted((str(i.name), [list(map(float, i.min_coords)), list(map(float, i.max_coords))])
                          for i in (RI.args if isinstance(RI, Union) else [RI]))
        finally:
            if os.path.exists(fn):
                os.remove(fn)
            os.rmdir(tmp)
        bwant = sorted((n, [[float(lo) for lo, _ in bs], [float(hi) for _, hi in bs]]) for n, bs in cells)
        if back != bwant:
            bad.append('patches supplied as %s: export + from_file gives the patches (name, min, max) %s, built were %s' % (names, back, bwant))
    res = [got, json.dumps(dt, sort_keys=True), json.dumps(y, sort_keys=True), str(D.boundary), str(D.dim), json.dumps(back)]
    r = result(res, ins, b)
    r['bad'] = [x if len(x) < 700 else x[:700] + ' ...' for x in bad]
    return r


RECIPES = {'mjoin': r_mjoin, 'corners': r_corners, 'mpatch': r_mpatch, 'joinlow': r_joinlow, 'symprod': r_symprod, 'iface': r_iface, 'amap': r_amap, 'intsum': r_intsum, 'chain': r_chain, 'tkeys': r_tkeys, 'idxmut': r_idxmut, 'tgrad': r_tgrad, 'tvec': r_tvec, 'form': r_form, 'logical': r_logical, 'symbolic': r_symbolic,
           'idxder': r_idxder, 'hodge': r_hodge, 'union': r_union, 'join': r_join, 'comm': r_comm,
           'equation': r_equation, 'mapped': r_mapped}


def run_job(job):
    out = []
    for st in job['steps']:
        if st['r'] == 'clear':
            from sympy.core.cache import clear_cache
            clear_cache()
            out.append({'s': 'cleared'})
            continue
        try:
            out.append(RECIPES[st['r']](st['p']))
        except Exception as e:
            out.append({'err': '%s: %s' % (type(e).__name__, str(e)[:200])})
    return {'out': out}


def serve():
    boot()
    for line in sys.stdin:
        line = line.strip()
        if not line:
            continue
        job = json.loads(line)
        r, w = os.pipe()
        pid = os.fork()
        if pid == 0:
            os.close(r)
            try:
                ans = run_job(job)
            except BaseException as e:
                ans = {'crash': repr(e)}
            with os.fdopen(w, 'w') as f:
                f.write(json.dumps(ans))
            os._exit(0)
        os.close(w)
        with os.fdopen(r) as f:
            data = f.read()
        os.waitpid(pid, 0)
        sys.stdout.write((data or json.dumps({'crash': 'no answer'})) + '\n')
        sys.stdout.flush()


if __name__ == '__main__':
    if len(sys.argv) > 1 and sys.argv[1] == 'identity':
        boot()
        sys.path.insert(0, os.path.dirname(os.path.dirname(os.path.abspath(__file__))))
        from harness.translate.identity import learn
        print(json.dumps(learn()))
    else:
        serve()
