/-
  Model of memoised entry points (sympy's `@cacheit`, used by sympde on `TerminalExpr.eval`,
  `DifferentialOperator.eval`, `Grad_*d.eval`, `SymbolicExpr.eval`, `MappedDomain.__new__`, `has`,
  `is_zero`, … and by sympy itself on `Function.__new__`), of the identity table that decides
  whether memoisation is transparent, and of operations on a store of mutable objects.
  Core Lean only.

  An object `o : α` is seen by the cache through its *key* `key o : κ` — what `==` and `hash` read —
  while the function may read anything of `o`.  The cache of one interpreter is one table keyed by
  (function, key); `clear_cache()` empties it; with `SYMPY_USE_CACHE=no` calls go straight to the
  function.
-/
import SympdeModel.Model.Sexp
namespace Sympde
namespace Memo

inductive Op (φ α : Type) where
  | call (f : φ) (o : α)           -- a call of the cached entry point `f` on the object `o`
  | clear                          -- `sympy.core.cache.clear_cache()`
  | cacheOff                       -- calls bypass the table (`SYMPY_USE_CACHE=no`)
  | cacheOn

structure State (φ κ ρ : Type) where
  table : List ((φ × κ) × ρ)
  on : Bool

def init {φ κ ρ : Type} : State φ κ ρ := ⟨[], true⟩

section
variable {φ κ α ρ : Type} [DecidableEq φ] [DecidableEq κ]

def lookup (t : List ((φ × κ) × ρ)) (k : φ × κ) : Option ρ :=
  match t with
  | [] => none
  | e :: rest => if e.1 = k then some e.2 else lookup rest k

/-- one operation: new state and the value returned by a call -/
def step (key : α → κ) (F : φ → α → ρ) (s : State φ κ ρ) : Op φ α → State φ κ ρ × Option ρ
  | .call f o =>
      if s.on then
        match lookup s.table (f, key o) with
        | some r => (s, some r)                                            -- hit: the stored value
        | none => (⟨((f, key o), F f o) :: s.table, s.on⟩, some (F f o))    -- miss: compute and store
      else (s, some (F f o))
  | .clear => (⟨[], s.on⟩, none)
  | .cacheOff => (⟨s.table, false⟩, none)
  | .cacheOn => (⟨s.table, true⟩, none)

def exec (key : α → κ) (F : φ → α → ρ) : State φ κ ρ → List (Op φ α) → State φ κ ρ
  | s, [] => s
  | s, op :: ops => exec key F (step key F s op).1 ops

/-- the value of `last` after the history `h`, starting from a fresh interpreter -/
def run (key : α → κ) (F : φ → α → ρ) (h : List (Op φ α)) (last : Op φ α) : Option ρ :=
  (step key F (exec key F init h) last).2

/-- the values returned by every operation of a history -/
def trace (key : α → κ) (F : φ → α → ρ) : State φ κ ρ → List (Op φ α) → List (Option ρ)
  | _, [] => []
  | s, op :: ops => (step key F s op).2 :: trace key F (step key F s op).1 ops

end

/-! ### the identity table -/

/-- one row: two instances of `cls` that differ only in the constructor attribute `attr` -/
structure Row where
  cls : String
  attr : String
  eq : Bool               -- they compare `==`
  hashEq : Bool           -- they have the same hash
  reads : List String     -- entry points whose *uncached* result differs between the two
  deriving DecidableEq, Repr

/-- the attribute is invisible to the cache key but visible to a cached entry point -/
def Row.leaks (r : Row) : Bool := r.eq && r.hashEq && !r.reads.isEmpty

def leaks (t : List Row) : List Row := t.filter Row.leaks

/-- `a == b` with different hashes: the hash contract of Python is broken -/
def contractBreaks (t : List Row) : List Row := t.filter (fun r => r.eq && !r.hashEq)

/-! ### a store of mutable objects -/

/-- an operation on a store `σ`: a result and the store it leaves behind -/
structure HOp (σ ρ : Type) where
  act : σ → ρ × σ

def execH {σ ρ : Type} : σ → List (HOp σ ρ) → σ
  | s, [] => s
  | s, op :: ops => execH (op.act s).2 ops

/-! ### driver: run a history on objects given by (key id, value) -/

def opOfSexp (objs : List (Nat × String)) : Sexp → Option (Op Nat (Nat × String))
  | .atom "clear" => some .clear
  | .atom "off" => some .cacheOff
  | .atom "on" => some .cacheOn
  | .list [.atom "call", f, i] => do
      let i ← i.toNat?
      let o ← objs[i]?
      some (.call (← f.toNat?) o)
  | _ => none

def objOfSexp : Sexp → Option (Nat × String)
  | .list [k, .str v] => do some (← k.toNat?, v)
  | _ => none

/-- `run (objs (key "value") …) (ops (call f i) | clear | off | on …)`: the function of the model is
    "return the object's own fresh value", so the answer names which value each call returns -/
def handle (args : List Sexp) : String :=
  match args with
  | [.atom "run", .list (.atom "objs" :: os), .list (.atom "ops" :: ops)] =>
      match os.mapM objOfSexp with
      | none => "bad-op"
      | some objs =>
          match ops.mapM (opOfSexp objs) with
          | none => "bad-op"
          | some ops =>
              let vals := trace (fun (o : Nat × String) => o.1) (fun (_ : Nat) (o : Nat × String) => o.2) init ops
              "ok " ++ toString (Sexp.list (vals.map (fun v =>
                match v with | some s => Sexp.str s | none => Sexp.atom "-")))
  | _ => "bad-op"

end Memo
end Sympde
