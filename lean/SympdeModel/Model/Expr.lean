/-
  The shared expression AST (DESIGN.md 5.1) for C01, C02, C05, C11, …: sympde/sympy
  expression trees *as the implementation sees them* (n-ary `add`/`mul` keep sympy's argument
  order).  Core Lean only.
-/
import SympdeModel.Model.Sexp
namespace Sympde

inductive Kind where | h1 | hcurl | hdiv | l2 | undef
  deriving Repr, DecidableEq, Inhabited

inductive Coord where | x | y | z | x1 | x2 | x3
  deriving Repr, DecidableEq, Inhabited

def Coord.idx : Coord → Nat
  | .x => 0 | .y => 1 | .z => 2 | .x1 => 0 | .x2 => 1 | .x3 => 2

def Coord.logical : Coord → Bool
  | .x1 => true | .x2 => true | .x3 => true | _ => false

def Coord.name : Coord → String
  | .x => "x" | .y => "y" | .z => "z" | .x1 => "x1" | .x2 => "x2" | .x3 => "x3"

def Coord.ofName : String → Option Coord
  | "x" => some .x | "y" => some .y | "z" => some .z
  | "x1" => some .x1 | "x2" => some .x2 | "x3" => some .x3 | _ => none

def Coord.ofIdx (logical : Bool) : Nat → Coord
  | 0 => if logical then .x1 else .x
  | 1 => if logical then .x2 else .y
  | _ => if logical then .x3 else .z

inductive Op1 where
  | grad | curl | rot | div | laplace | hessian
  | jump | avg | minus | plus | dn
  | transpose | trace | det | inverse
  deriving Repr, DecidableEq, Inhabited

inductive Op2 where
  | dot | cross | inner | outer | convect | bracket
  deriving Repr, DecidableEq, Inhabited

inductive E where
  | num (p : Int) (q : Nat)          -- Integer / Rational (floats are sent as exact rationals)
  | cst (n : String)                 -- sympde Constant (is_number, commutative)
  | sym (n : String)                 -- plain Symbol: coordinates x y z x1 x2 x3, parameters
  | sf  (n : String) (k : Kind)      -- ScalarFunction
  | vf  (n : String) (k : Kind)      -- VectorFunction (non commutative)
  | idx (b : E) (i : Nat)            -- IndexedVectorFunction F[i]
  | add (as : List E)
  | mul (as : List E)
  | pow (b e : E)
  | fn  (f : String) (a : E)         -- unary elementary function sin cos exp log sqrt Abs …
  | pd  (c : Coord) (a : E)          -- dx dy dz dx1 dx2 dx3 node (unevaluated)
  | op1 (o : Op1) (a : E)
  | op2 (o : Op2) (a b : E)
  | mat (r c : Nat) (es : List E)    -- dense matrix, row major
  | tup (as : List E)
  | normal (k : String)              -- NormalVector / MinusNormalVector / PlusNormalVector
  | other (tag : String) (as : List E)
  deriving Repr, Inhabited

mutual
/-- structural equality of expression trees, written out (what `deriving BEq` computes; the
    derived instance of a nested inductive is an opaque `partial def` about which nothing can
    be proved — `E.eq_of_beq`, `E.beq_refl` are in Lemmas/ExprEq.lean) -/
def E.beq : E → E → Bool
  | .num p q, .num p' q' => p == p' && q == q'
  | .cst n, .cst n' => n == n'
  | .sym n, .sym n' => n == n'
  | .sf n k, .sf n' k' => n == n' && k == k'
  | .vf n k, .vf n' k' => n == n' && k == k'
  | .idx b i, .idx b' i' => E.beq b b' && i == i'
  | .add as, .add as' => E.beqList as as'
  | .mul as, .mul as' => E.beqList as as'
  | .pow b e, .pow b' e' => E.beq b b' && E.beq e e'
  | .fn f a, .fn f' a' => f == f' && E.beq a a'
  | .pd c a, .pd c' a' => c == c' && E.beq a a'
  | .op1 o a, .op1 o' a' => o == o' && E.beq a a'
  | .op2 o a b, .op2 o' a' b' => o == o' && E.beq a a' && E.beq b b'
  | .mat r c es, .mat r' c' es' => r == r' && c == c' && E.beqList es es'
  | .tup as, .tup as' => E.beqList as as'
  | .normal k, .normal k' => k == k'
  | .other t as, .other t' as' => t == t' && E.beqList as as'
  | _, _ => false
def E.beqList : List E → List E → Bool
  | [], [] => true
  | a :: as, b :: bs => E.beq a b && E.beqList as bs
  | _, _ => false
end

instance : BEq E := ⟨E.beq⟩

namespace E

def zero : E := num 0 1
def one : E := num 1 1
def int (n : Int) : E := num n 1
def neg (a : E) : E := mul [num (-1) 1, a]
def sub (a b : E) : E := add [a, neg b]

def Op1.name : Op1 → String
  | .grad => "Grad" | .curl => "Curl" | .rot => "Rot" | .div => "Div" | .laplace => "Laplace"
  | .hessian => "Hessian" | .jump => "Jump" | .avg => "Avg" | .minus => "Minus" | .plus => "Plus"
  | .dn => "Dn" | .transpose => "Transpose" | .trace => "Trace" | .det => "Det" | .inverse => "Inverse"

def Op1.ofName : String → Option Op1
  | "Grad" => some .grad | "Curl" => some .curl | "Rot" => some .rot | "Div" => some .div
  | "Laplace" => some .laplace | "Hessian" => some .hessian | "Jump" => some .jump
  | "Avg" => some .avg | "Minus" => some .minus | "Plus" => some .plus | "Dn" => some .dn
  | "Transpose" => some .transpose | "Trace" => some .trace | "Det" => some .det
  | "Inverse" => some .inverse | _ => none

def Op2.name : Op2 → String
  | .dot => "Dot" | .cross => "Cross" | .inner => "Inner" | .outer => "Outer"
  | .convect => "Convect" | .bracket => "Bracket"

def Op2.ofName : String → Option Op2
  | "Dot" => some .dot | "Cross" => some .cross | "Inner" => some .inner | "Outer" => some .outer
  | "Convect" => some .convect | "Bracket" => some .bracket | _ => none

def kindName : Kind → String
  | .h1 => "h1" | .hcurl => "hcurl" | .hdiv => "hdiv" | .l2 => "l2" | .undef => "undefined"

def kindOfName : String → Option Kind
  | "h1" => some .h1 | "hcurl" => some .hcurl | "hdiv" => some .hdiv | "l2" => some .l2
  | "undefined" => some .undef | _ => none

/-! ### S-expression I/O -/

partial def ofSexp : Sexp → Option E
  | .list [.atom "num", p, q] => do some (num (← p.toInt?) (← q.toNat?))
  | .list [.atom "cst", .str s] => some (cst s)
  | .list [.atom "sym", .str s] => some (sym s)
  | .list [.atom "sf", .str s, .atom k] => do some (sf s (← kindOfName k))
  | .list [.atom "vf", .str s, .atom k] => do some (vf s (← kindOfName k))
  | .list [.atom "idx", b, i] => do some (idx (← ofSexp b) (← i.toNat?))
  | .list (.atom "add" :: xs) => do some (add (← xs.mapM ofSexp))
  | .list (.atom "mul" :: xs) => do some (mul (← xs.mapM ofSexp))
  | .list [.atom "pow", b, e] => do some (pow (← ofSexp b) (← ofSexp e))
  | .list [.atom "fn", .str f, a] => do some (fn f (← ofSexp a))
  | .list [.atom "pd", .atom c, a] => do some (pd (← Coord.ofName c) (← ofSexp a))
  | .list (.atom "mat" :: r :: c :: xs) => do some (mat (← r.toNat?) (← c.toNat?) (← xs.mapM ofSexp))
  | .list (.atom "tup" :: xs) => do some (tup (← xs.mapM ofSexp))
  | .list [.atom "normal", .str s] => some (normal s)
  | .list (.atom "other" :: .str t :: xs) => do some (other t (← xs.mapM ofSexp))
  | .list [.atom o, a] => do some (op1 (← Op1.ofName o) (← ofSexp a))
  | .list [.atom o, a, b] => do some (op2 (← Op2.ofName o) (← ofSexp a) (← ofSexp b))
  | _ => none

partial def toSexp : E → Sexp
  | num p q => .list [.atom "num", Sexp.ofInt p, Sexp.ofNat q]
  | cst s => .list [.atom "cst", .str s]
  | sym s => .list [.atom "sym", .str s]
  | sf s k => .list [.atom "sf", .str s, .atom (kindName k)]
  | vf s k => .list [.atom "vf", .str s, .atom (kindName k)]
  | idx b i => .list [.atom "idx", toSexp b, Sexp.ofNat i]
  | add as => .list (.atom "add" :: as.map toSexp)
  | mul as => .list (.atom "mul" :: as.map toSexp)
  | pow b e => .list [.atom "pow", toSexp b, toSexp e]
  | fn f a => .list [.atom "fn", .str f, toSexp a]
  | pd c a => .list [.atom "pd", .atom c.name, toSexp a]
  | op1 o a => .list [.atom (Op1.name o), toSexp a]
  | op2 o a b => .list [.atom (Op2.name o), toSexp a, toSexp b]
  | mat r c es => .list (.atom "mat" :: Sexp.ofNat r :: Sexp.ofNat c :: es.map toSexp)
  | tup as => .list (.atom "tup" :: as.map toSexp)
  | normal s => .list [.atom "normal", .str s]
  | other t as => .list (.atom "other" :: .str t :: as.map toSexp)

end E

/-- the small error enum shared by the models (Python exception classes) -/
inductive Err where
  | notImplemented | typeError | valueError | nameError | argumentType | attributeError
  | indexError | assertion | linearity | other
  deriving Repr, DecidableEq, Inhabited

def Err.name : Err → String
  | .notImplemented => "NotImplementedError" | .typeError => "TypeError"
  | .valueError => "ValueError" | .nameError => "NameError"
  | .argumentType => "ArgumentTypeError" | .attributeError => "AttributeError"
  | .indexError => "IndexError" | .assertion => "AssertionError"
  | .linearity => "UnconsistentLinearExpressionError" | .other => "Exception"

end Sympde
