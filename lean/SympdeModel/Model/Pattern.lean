/-
  Model of sympde/core/utils.py `expand_name_patterns` (extracted from sympy.symbols) and of
  sympde/topology/space.py `element_of` / `elements_of` with their recursive helpers,
  transcribed branch for branch.  Core Lean only.

  Strings are `List Char`.  Python facts used (ASCII fragment; see notes/C20.md for the limits):
  `str.strip/split()` use `str.isspace`; `re` classes `[0-9]`, `[a-zA-Z]` are ASCII;
  `int()` accepts an optional sign and single underscores between digits.
-/
import SympdeModel.Model.Sexp
namespace Sympde
namespace Pat

abbrev Str := List Char

/-! ### constants of the source (compared with the `ast` extraction on every run) -/

/-- utils.py:17  `_range = re.compile('([0-9]*:[0-9]+|[a-zA-Z]?:[a-zA-Z])')` -/
def rangeRegex : String := "([0-9]*:[0-9]+|[a-zA-Z]?:[a-zA-Z])"

/-- utils.py:65  `literals = [r'\,', r'\:', r'\ ']` -/
def literalsSrc : List Str := [['\\', ','], ['\\', ':'], ['\\', ' ']]

/-! ### character classes -/

/-- Python `str.isspace` (complete list for all of Unicode) -/
def isSpace (c : Char) : Bool :=
  let n := c.toNat
  (9 ≤ n && n ≤ 13) || (28 ≤ n && n ≤ 32) || n == 0x85 || n == 0xA0 || n == 0x1680 ||
  (0x2000 ≤ n && n ≤ 0x200A) || n == 0x2028 || n == 0x2029 || n == 0x202F || n == 0x205F ||
  n == 0x3000

/-- `[0-9]`, `string.digits` -/
def isDigit (c : Char) : Bool := 48 ≤ c.toNat && c.toNat ≤ 57

/-- `[a-zA-Z]` -/
def isAlpha (c : Char) : Bool :=
  (97 ≤ c.toNat && c.toNat ≤ 122) || (65 ≤ c.toNat && c.toNat ≤ 90)

/-! ### Python string primitives -/

def lstrip (s : Str) : Str := s.dropWhile isSpace
def rstrip (s : Str) : Str := (s.reverse.dropWhile isSpace).reverse
def strip (s : Str) : Str := rstrip (lstrip s)

/-- `pat in s` -/
def hasSub (pat : Str) : Str → Bool
  | [] => pat.isEmpty
  | c :: cs => pat.isPrefixOf (c :: cs) || hasSub pat cs

/-- `s.replace(pat, rep)` for a non-empty `pat`; `k` = characters of a match still to skip -/
def replaceAux (pat rep : Str) : Str → Nat → Str
  | [], _ => []
  | _ :: cs, k + 1 => replaceAux pat rep cs k
  | c :: cs, 0 =>
      if pat.isPrefixOf (c :: cs) then rep ++ replaceAux pat rep cs (pat.length - 1)
      else c :: replaceAux pat rep cs 0

def replaceSub (pat rep s : Str) : Str := replaceAux pat rep s 0

/-- `s.split(sep)` for a one-character separator (always at least one field) -/
def splitOn (sep : Char) : Str → List Str
  | [] => [[]]
  | c :: cs =>
      if c == sep then [] :: splitOn sep cs
      else match splitOn sep cs with
        | w :: ws => (c :: w) :: ws
        | [] => [[c]]

/-- `s.split()` : maximal runs of non-whitespace characters -/
def splitWs : Str → List Str
  | [] => []
  | c :: cs =>
      if isSpace c then splitWs cs
      else match cs with
        | [] => [[c]]
        | d :: _ =>
            if isSpace d then [c] :: splitWs cs
            else match splitWs cs with
              | w :: ws => (c :: w) :: ws
              | [] => [[c]]

/-- `s.index(pat)` starting the count at `i` -/
def subIndex (pat : Str) : Str → Nat → Option Nat
  | [], i => if pat.isEmpty then some i else none
  | c :: cs, i => if pat.isPrefixOf (c :: cs) then some i else subIndex pat cs (i + 1)

/-- `string.ascii_letters` -/
def asciiLetters : Str :=
  ['a', 'b', 'c', 'd', 'e', 'f', 'g', 'h', 'i', 'j', 'k', 'l', 'm', 'n', 'o', 'p', 'q', 'r', 's', 't', 'u', 'v', 'w', 'x', 'y', 'z', 'A', 'B', 'C', 'D', 'E', 'F', 'G', 'H', 'I', 'J', 'K', 'L', 'M', 'N', 'O', 'P', 'Q', 'R', 'S', 'T', 'U', 'V', 'W', 'X', 'Y', 'Z']

/-- digits with single underscores between them (the body of a Python decimal int literal) -/
def natLitAux : Str → Nat → Bool → Option Nat
  | [], acc, prevDigit => if prevDigit then some acc else none
  | c :: cs, acc, prevDigit =>
      if isDigit c then natLitAux cs (acc * 10 + (c.toNat - 48)) true
      else if c == '_' && prevDigit then natLitAux cs acc false
      else none

def natLit (s : Str) : Option Nat := natLitAux s 0 false

/-- Python `int(s)` on ASCII input -/
def pyInt (s : Str) : Option Int :=
  match strip s with
  | '+' :: r => (natLit r).map Int.ofNat
  | '-' :: r => (natLit r).map (fun n => - Int.ofNat n)
  | r => (natLit r).map Int.ofNat

/-- Python `str(c)` for an int -/
def intRepr (c : Int) : Str :=
  if c < 0 then '-' :: Nat.toDigits 10 c.natAbs else Nat.toDigits 10 c.natAbs

/-- Python `range(a, b)` -/
def intRange (a b : Int) : List Int := (List.range (b - a).toNat).map (fun (i : Nat) => a + Int.ofNat i)

/-! ### the `_range` scanner -/

/-- first alternative `[0-9]*:[0-9]+` anchored at the head: (match, rest) -/
def matchNum (s : Str) : Option (Str × Str) :=
  match s.dropWhile isDigit with
  | ':' :: r =>
      let es := r.takeWhile isDigit
      if es.isEmpty then none
      else some (s.takeWhile isDigit ++ ':' :: es, r.dropWhile isDigit)
  | _ => none

/-- second alternative `[a-zA-Z]?:[a-zA-Z]` anchored at the head -/
def matchAlpha : Str → Option (Str × Str)
  | ':' :: b :: r => if isAlpha b then some ([':', b], r) else none
  | a :: ':' :: b :: r => if isAlpha a && isAlpha b then some ([a, ':', b], r) else none
  | _ => none

/-- `_range.match` at the head, first alternative first -/
def matchRange (s : Str) : Option (Str × Str) :=
  match matchNum s with
  | some m => some m
  | none => matchAlpha s

/-- `_range.split(name)` (one capturing group): text, match, text, match, …, text.
    `fuel` bounds the number of scanner steps; `name.length + 1` always suffices. -/
def rangeSplitAux : Nat → Str → List Str
  | 0, _ => [[]]
  | _ + 1, [] => [[]]
  | fuel + 1, c :: cs =>
      match matchRange (c :: cs) with
      | some (m, rest) => [] :: m :: rangeSplitAux fuel rest
      | none =>
          match rangeSplitAux fuel cs with
          | p :: ps => (c :: p) :: ps
          | [] => [[c]]

def rangeSplit (name : Str) : List Str := rangeSplitAux (name.length + 1) name

/-- the condition of utils.py:117-119 for position `i ≥ 1` -/
def parenCond (prev cur next : Str) : Bool :=
  cur.contains ':' && cur != [':'] && prev.getLast? == some '(' && next.head? == some ')'

/-- utils.py:116-121, positions `i = 1 … len-2` from left to right on the mutated list;
    `prev = split[i-1]`, `cur = split[i]`, the list is `split[i+1:]` -/
def stripParensAux (prev cur : Str) : List Str → List Str
  | [] => [prev, cur]
  | next :: rest =>
      if parenCond prev cur next then prev.dropLast :: stripParensAux cur next.tail rest
      else prev :: stripParensAux cur next rest

def stripParens : List Str → List Str
  | p0 :: p1 :: rest => stripParensAux p0 p1 rest
  | l => l

inductive Err where
  | noSymbols        -- ValueError('no symbols given')
  | missingComma     -- ValueError('missing symbol between commas')
  | missingSymbol    -- ValueError('missing symbol')
  | missingEndRange  -- ValueError('missing end range')
  | badRange         -- ValueError raised by int() / str.index / tuple unpacking inside a range
  | seqType          -- TypeError('type(seq) must be bool')
  | spaceType        -- TypeError(space)              (element_of / elements_of)
  | multiple         -- ValueError("To create multiple elements of same space, use 'elements_of'.")
  | productElement   -- NotImplementedError('TODO')   (ProductSpace.element)
  deriving Repr, DecidableEq

/-- `b[-1] in string.digits` -/
def lastIsDigit (b : Str) : Bool :=
  match b.getLast? with
  | some c => isDigit c
  | none => false

/-- utils.py:127-130: numeric range `a:b` -/
def numPiece (a b : Str) : Except Err (List Str) :=
  match (if a.isEmpty then some 0 else pyInt a), pyInt b with
  | some a', some b' => .ok ((intRange a' b').map intRepr)
  | _, _ => .error .badRange

/-- utils.py:131-135: alphabetic range `a:b` (inclusive) -/
def alphaPiece (a b : Str) : Except Err (List Str) :=
  match subIndex (if a.isEmpty then ['a'] else a) asciiLetters 0, subIndex b asciiLetters 0 with
  | some ia, some ib =>
      .ok ((List.range (ib + 1 - ia)).map (fun i => (asciiLetters.drop (ia + i)).take 1))
  | _, _ => .error .badRange

/-- utils.py:122-139: one piece of the split -/
def expandPiece (s : Str) : Except Err (List Str) :=
  if s.contains ':' then
    if s.getLast? == some ':' then .error .missingEndRange
    else match splitOn ':' s with
      | [a, b] => if lastIsDigit b then numPiece a b else alphaPiece a b
      | _ => .error .badRange
  else .ok [s]

/-- the `for i, s in enumerate(split)` loop with its `break`: `none` = left by `break` -/
def expandPieces : List Str → Except Err (Option (List (List Str)))
  | [] => .ok (some [])
  | s :: rest =>
      match expandPiece s with
      | .error e => .error e
      | .ok xs =>
          if xs.isEmpty then .ok none
          else match expandPieces rest with
            | .error e => .error e
            | .ok none => .ok none
            | .ok (some r) => .ok (some (xs :: r))

/-- `[''.join(s) for s in cartes(*split)]` (first factor varies slowest) -/
def cartes : List (List Str) → List Str
  | [] => [[]]
  | xs :: rest => xs.flatMap (fun x => (cartes rest).map (fun y => x ++ y))

/-! ### escapes -/

/-- `while chr(marker) in names: marker += 1` -/
def nextMarker (names : Str) : Nat → Nat → Nat
  | 0, m => m
  | fuel + 1, m => if names.contains (Char.ofNat m) then nextMarker names fuel (m + 1) else m

structure EscState where
  names : Str
  marker : Nat
  lits : List (Char × Str)

/-- utils.py:66-74, one turn of the loop -/
def escapeStep (st : EscState) (lit : Str) : EscState :=
  if hasSub lit st.names then
    let m := nextMarker st.names (st.names.length + 1) st.marker
    { names := replaceSub lit [Char.ofNat m] st.names, marker := m + 1,
      lits := st.lits ++ [(Char.ofNat m, lit.drop 1)] }
  else st

def escapeAll (names : Str) : EscState :=
  literalsSrc.foldl escapeStep { names := names, marker := 0, lits := [] }

/-- utils.py:75-79 -/
def literal (lits : List (Char × Str)) (s : Str) : Str :=
  lits.foldl (fun s cl => replaceSub [cl.1] cl.2 s) s

/-! ### one name, the loop over names, the string case -/

/-- utils.py:106-149 for one name: (names appended to `result`, whether `seq` was set) -/
def expandName (lits : List (Char × Str)) (name : Str) : Except Err (List Str × Bool) :=
  if name.isEmpty then .error .missingSymbol
  else if !name.contains ':' then .ok ([literal lits name], false)
  else
    match expandPieces (stripParens (rangeSplit name)) with
    | .error e => .error e
    | .ok none => .ok ([], false)
    | .ok (some split) =>
        let names := match split with
          | [xs] => xs
          | _ => cartes split
        .ok (names.map (literal lits), true)

def expandNames (lits : List (Char × Str)) : List Str → Except Err (List Str × Bool)
  | [] => .ok ([], false)
  | n :: ns =>
      match expandName lits n with
      | .error e => .error e
      | .ok (xs, s1) =>
          match expandNames lits ns with
          | .error e => .error e
          | .ok (ys, s2) => .ok (xs ++ ys, s1 || s2)

inductive SeqArg where
  | none | some (b : Bool) | bad
  deriving Repr, DecidableEq

inductive Kind where | list | tuple
  deriving Repr, DecidableEq

/-- results: a name, or a container of results (`tuple` for a pattern string) -/
inductive Res where
  | name (s : Str)
  | cont (k : Kind) (items : List Res)
  deriving Repr, Inhabited

/-- the text after escape replacement, `strip`, and removal of one trailing comma -/
def body (names : Str) : Str × Bool :=
  let s := strip names
  if s.getLast? == some ',' then (rstrip s.dropLast, true) else (s, false)

/-- utils.py:151-156 -/
def finish (seq : Bool) (result : List Str) : Res :=
  if !seq && result.length ≤ 1 then
    match result with
    | [] => .cont .tuple []
    | x :: _ => .name x
  else .cont .tuple (result.map .name)

/-- utils.py:63-156: `names` is a `str` -/
def expandStr (seq : SeqArg) (names0 : Str) : Except Err Res :=
  let st := escapeAll names0
  let (names, asSeq) := body st.names
  if names.isEmpty then .error .noSymbols
  else
    let fields := (splitOn ',' names).map strip
    if fields.any (·.isEmpty) then .error .missingComma
    else
      let ns := fields.flatMap splitWs
      match (match seq with
             | .none => some asSeq
             | .some b => some b
             | .bad => none) with
      | none => .error .seqType
      | some seq0 =>
          match expandNames st.lits ns with
          | .error e => .error e
          | .ok (result, s) => .ok (finish (seq0 || s) result)

/-- patterns: a string or a list/tuple of patterns -/
inductive Pattern where
  | str (s : Str)
  | cont (k : Kind) (items : List Pattern)
  deriving Repr, Inhabited

mutual
/-- `expand_name_patterns(names, seq=seq)`; utils.py:158-163: in a container `seq` is ignored -/
def expand (seq : SeqArg) : Pattern → Except Err Res
  | .str s => expandStr seq s
  | .cont k items =>
      match expandList items with
      | .error e => .error e
      | .ok rs => .ok (.cont k rs)
def expandList : List Pattern → Except Err (List Res)
  | [] => .ok []
  | p :: ps =>
      match expand .none p with
      | .error e => .error e
      | .ok r =>
          match expandList ps with
          | .error e => .error e
          | .ok rs => .ok (r :: rs)
end

/-! ### element_of / elements_of (space.py:43-123) -/

inductive Space where
  | scalar (name : String)
  | vector (name : String)
  | product (spaces : List Space)   -- `ProductSpace.spaces` (flattened by its constructor)
  | notSpace                        -- anything that is not a `BasicFunctionSpace`
  deriving Repr, Inhabited

inductive Elem where
  | fn (vector : Bool) (name : Str) (space : String)
  | cont (k : Kind) (items : List Elem)
  deriving Repr, Inhabited

/-- `space.element(name)` -/
def Space.element : Space → Str → Except Err Elem
  | .scalar v, n => .ok (.fn false n v)
  | .vector v, n => .ok (.fn true n v)
  | _, _ => .error .productElement

mutual
/-- `_recursive_element_of(space, names)` -/
def recElem : Space → Res → Except Err Elem
  | sp, .name s => sp.element s
  | .product sps, .cont k items =>
      match recElemZip sps items with
      | .error e => .error e
      | .ok es => .ok (.cont k es)
  | _, .cont _ _ => .error .multiple
/-- `[_recursive_element_of(s, n) for s, n in zip(spaces, names)]` -/
def recElemZip : List Space → List Res → Except Err (List Elem)
  | sp :: sps, r :: rs =>
      match recElem sp r with
      | .error e => .error e
      | .ok e =>
          match recElemZip sps rs with
          | .error e' => .error e'
          | .ok es => .ok (e :: es)
  | _, _ => .ok []
end

mutual
/-- `_recursive_elements_of(space, names)` -/
def recElems : Space → Res → Except Err Elem
  | sp, .name s => sp.element s
  | .product sps, .cont k items =>
      match recElemsZip sps items with
      | .error e => .error e
      | .ok es => .ok (.cont k es)
  | sp, .cont k items =>
      match recElemsAll sp items with
      | .error e => .error e
      | .ok es => .ok (.cont k es)
def recElemsZip : List Space → List Res → Except Err (List Elem)
  | sp :: sps, r :: rs =>
      match recElems sp r with
      | .error e => .error e
      | .ok e =>
          match recElemsZip sps rs with
          | .error e' => .error e'
          | .ok es => .ok (e :: es)
  | _, _ => .ok []
/-- `[_recursive_elements_of(space, n) for n in names]` -/
def recElemsAll (sp : Space) : List Res → Except Err (List Elem)
  | [] => .ok []
  | r :: rs =>
      match recElems sp r with
      | .error e => .error e
      | .ok e =>
          match recElemsAll sp rs with
          | .error e' => .error e'
          | .ok es => .ok (e :: es)
end

def isSpaceObj : Space → Bool
  | .notSpace => false
  | _ => true

/-- `element_of(space, name)` -/
def elementOf (sp : Space) (p : Pattern) : Except Err Elem :=
  if !isSpaceObj sp then .error .spaceType
  else match expand .none p with
    | .error e => .error e
    | .ok r => recElem sp r

/-- `elements_of(space, names)` -/
def elementsOf (sp : Space) (p : Pattern) : Except Err Elem :=
  if !isSpaceObj sp then .error .spaceType
  else match expand (.some true) p with
    | .error e => .error e
    | .ok r => recElems sp r

/-! ### S-expression I/O (strings travel as lists of code points) -/

def strOfSexp : Sexp → Option Str
  | .list (.atom "s" :: cs) => cs.mapM (fun c => c.toNat?.map Char.ofNat)
  | _ => none

def strToSexp (s : Str) : Sexp := .list (.atom "s" :: s.map (fun c => Sexp.ofNat c.toNat))

partial def patOfSexp : Sexp → Option Pattern
  | .list (.atom "s" :: cs) => (strOfSexp (.list (.atom "s" :: cs))).map .str
  | .list (.atom "list" :: xs) => do some (.cont .list (← xs.mapM patOfSexp))
  | .list (.atom "tuple" :: xs) => do some (.cont .tuple (← xs.mapM patOfSexp))
  | _ => none

def kindAtom : Kind → Sexp
  | .list => .atom "list"
  | .tuple => .atom "tuple"

partial def resToSexp : Res → Sexp
  | .name s => strToSexp s
  | .cont k items => .list (kindAtom k :: items.map resToSexp)

partial def spaceOfSexp : Sexp → Option Space
  | .list [.atom "scalar", .str v] => some (.scalar v)
  | .list [.atom "vector", .str v] => some (.vector v)
  | .list (.atom "product" :: xs) => do some (.product (← xs.mapM spaceOfSexp))
  | .atom "notspace" => some .notSpace
  | _ => none

partial def elemToSexp : Elem → Sexp
  | .fn v n sp => .list [.atom (if v then "vector" else "scalar"), strToSexp n, .str sp]
  | .cont k items => .list (kindAtom k :: items.map elemToSexp)

def seqOfSexp : Sexp → Option SeqArg
  | .atom "none" => some .none
  | .atom "true" => some (.some true)
  | .atom "false" => some (.some false)
  | .atom "bad" => some .bad
  | _ => none

def Err.toString : Err → String
  | .noSymbols => "ValueError no-symbols-given"
  | .missingComma => "ValueError missing-symbol-between-commas"
  | .missingSymbol => "ValueError missing-symbol"
  | .missingEndRange => "ValueError missing-end-range"
  | .badRange => "ValueError other"
  | .seqType => "TypeError seq"
  | .spaceType => "TypeError space"
  | .multiple => "ValueError multiple"
  | .productElement => "NotImplementedError todo"

/-- one request line → one response line -/
def handle (args : List Sexp) : String :=
  match args with
  | [.atom "expand", sq, p] =>
      match seqOfSexp sq, patOfSexp p with
      | some sq, some p =>
          match expand sq p with
          | .ok r => "ok " ++ toString (resToSexp r)
          | .error e => "err " ++ e.toString
      | _, _ => "bad-op"
  | [.atom "split", s] =>
      match strOfSexp s with
      | some s => "ok " ++ toString (Sexp.list ((rangeSplit s).map strToSexp))
      | none => "bad-op"
  | [.atom "elem", sp, p] =>
      match spaceOfSexp sp, patOfSexp p with
      | some sp, some p =>
          match elementOf sp p with
          | .ok r => "ok " ++ toString (elemToSexp r)
          | .error e => "err " ++ e.toString
      | _, _ => "bad-op"
  | [.atom "elems", sp, p] =>
      match spaceOfSexp sp, patOfSexp p with
      | some sp, some p =>
          match elementsOf sp p with
          | .ok r => "ok " ++ toString (elemToSexp r)
          | .error e => "err " ++ e.toString
      | _, _ => "bad-op"
  | [.atom "consts"] =>
      "ok " ++ toString (Sexp.list (Sexp.str rangeRegex :: literalsSrc.map (fun l => Sexp.str (String.ofList l))))
  | _ => "bad-op"

end Pat
end Sympde
