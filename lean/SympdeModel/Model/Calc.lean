/-
  Model of the rewriting that the generic operator constructors of sympde/calculus/core.py apply
  at construction (C02): Dot/Cross/Inner/Outer/Convect.__new__, Grad/Curl/Rot/Div/Laplace/
  Hessian/Bracket.eval, Jump/Average/Minus/Plus/NormalDerivative.eval — branch for branch.
  Results are raw trees (`add`/`mul` not canonicalised); the harness rebuilds them with sympy
  before comparing, modulo the ring axioms and the (anti)symmetric argument order of
  Dot/Inner/Cross/Bracket (the model never swaps: the theorems hold for either order).
  Core Lean only.
-/
import SympdeModel.Model.PDeriv
namespace Sympde
namespace Calc
open E

mutual
/-- `has(expr, (VectorFunction, ScalarFunction))` -/
def hasF : E → Bool
  | sf _ _ => true
  | vf _ _ => true
  | idx b _ => hasF b
  | add as => hasFList as
  | mul as => hasFList as
  | pow b e => hasF b || hasF e
  | fn _ a => hasF a
  | pd _ a => hasF a
  | op1 _ a => hasF a
  | op2 _ a b => hasF a || hasF b
  | mat _ _ es => hasFList es
  | tup as => hasFList as
  | other _ as => hasFList as
  | _ => false
def hasFList : List E → Bool
  | [] => false
  | a :: as => hasF a || hasFList as
end

/-- `_is_sympde_atom`: ScalarFunction, VectorFunction, minus(..), plus(..) -/
def isAtom : E → Bool
  | sf _ _ => true
  | vf _ _ => true
  | op1 .minus _ => true
  | op1 .plus _ => true
  | _ => false

mutual
/-- sympy `is_commutative` in dimension `d` (scalar-valued by sympde's convention) -/
def isComm (d : Nat) : E → Bool
  | vf _ _ => false
  | add as => allComm d as
  | mul as => allComm d as
  | pow b e => isComm d b && isComm d e
  | fn _ a => isComm d a
  | op1 .grad _ => false
  | op1 .curl a => d == 2 && isAtom a
  | op1 .rot _ => false
  | op1 .div _ => true
  | op1 .laplace _ => true
  | op1 .hessian _ => false
  | op1 .dn _ => false
  | op1 _ a => isComm d a
  | op2 .dot _ _ => true
  | op2 .cross _ _ => false
  | op2 .inner _ _ => true
  | op2 .outer _ _ => false
  | op2 .convect _ _ => false
  | op2 .bracket _ _ => true
  | mat _ _ _ => false
  | tup _ => false
  | normal _ => false
  | other _ _ => false
  | _ => true
def allComm (d : Nat) : List E → Bool
  | [] => true
  | a :: as => isComm d a && allComm d as
end

def isNumber := PD.isNumber
def isCoef := PD.isCoef
def mulOf := PD.mulOf

/-- `Add(*xs)` on a sub-list of the terms of a canonical sum -/
def addOf : List E → E
  | [] => zero
  | [x] => x
  | xs => add xs

def isZeroNum : E → Bool
  | num p _ => p == 0
  | _ => false

/-- `is_zero(x)`: `x == 0`, or a matrix of zeros -/
def isZeroV : E → Bool
  | num p _ => p == 0
  | mat _ _ es => es.all isZeroNum
  | _ => false

def factors : E → List E
  | mul as => as
  | e => [e]

inductive BK where | dot | cross | inner | outer | convect
  deriving Repr, DecidableEq

def BK.op : BK → Op2
  | .dot => .dot | .cross => .cross | .inner => .inner | .outer => .outer | .convect => .convect

/-- factor extraction and node construction for two non-sum arguments -/
def mkCore (d : Nat) (k : BK) (a1 a2 : E) : Except Err E :=
  if k == .cross && a1 == a2 then .ok zero
  else if (if k == .convect then isZeroV a1 || isNumber a2 else isZeroV a1 || isZeroV a2) then .ok zero
  else
    let fa := factors a1
    let fb := factors a2
    let n1 := fa.filter (fun x => !isComm d x)
    let c1 := fa.filter (fun x => isComm d x)
    -- Convect differentiates its second argument: after the `fix:` commit only coefficients
    -- (`_coeffs_registery`: numbers, Constants) are taken out of it; before it every
    -- commutative factor (scalar functions, coordinates) was
    let n2 := if k == .convect then fb.filter (fun x => !isCoef x) else fb.filter (fun x => !isComm d x)
    let c2 := if k == .convect then fb.filter (fun x => isCoef x) else fb.filter (fun x => isComm d x)
    if k == .convect && n2.isEmpty then .ok zero          -- `if not args_2: return S.Zero`
    else if n1.isEmpty || n2.isEmpty then .error .typeError    -- reduce() of empty sequence
    else .ok (mul [mulOf c1, mulOf c2, op2 k.op (mulOf n1) (mulOf n2)])

/-- distribution over the terms of a sum: terms with functions one by one, the rest together
    (two or more function-free terms make the real constructor recurse for ever) -/
def splitAdd (f : E → Except Err E) (as : List E) : Except Err E :=
  let a := as.filter hasF
  let b := as.filter (fun x => !hasF x)
  match b with
  | _ :: _ :: _ => .error .other                     -- RecursionError
  | _ => do
      let ra ← a.mapM f
      let rb ← (match b with
                 | [x] => f x
                 | _ => .ok zero)
      .ok (add (ra ++ [rb]))

def mkRight (d : Nat) (k : BK) (a1 a2 : E) : Except Err E :=
  if k == .cross && a1 == a2 then .ok zero
  else if (if k == .convect then isZeroV a1 || isNumber a2 else isZeroV a1 || isZeroV a2) then .ok zero
  else match a2 with
    | add bs => splitAdd (fun t => mkCore d k a1 t) bs
    | _ => mkCore d k a1 a2

/-- `Dot(a1, a2)`, `Cross`, `Inner`, `Outer`, `Convect` -/
def mkBilin (d : Nat) (k : BK) (a1 a2 : E) : Except Err E :=
  if k == .cross && a1 == a2 then .ok zero
  else if (if k == .convect then isZeroV a1 || isNumber a2 else isZeroV a1 || isZeroV a2) then .ok zero
  else match a1 with
    | add as => splitAdd (fun t => mkRight d k t a2) as
    | _ => mkRight d k a1 a2

/-! ### differential operators -/

def kindOf : E → Option Kind
  | sf _ k => some k
  | vf _ k => some k
  | _ => none

/-- space-kind admissibility of an atom for each operator (`ArgumentTypeError` otherwise) -/
def kindOk (o : Op1) (k : Kind) : Bool :=
  match o with
  | .grad => k == .undef || k == .h1
  | .curl => k == .undef || k == .hcurl || k == .h1
  | .rot => k == .undef || k == .h1
  | .div => k == .undef || k == .hdiv || k == .h1
  | .laplace => k == .undef
  | .hessian => k == .undef
  | _ => true

/-- the final branch: kind check on an atom, then the unevaluated node -/
def atomNode (o : Op1) (e : E) : Except Err E :=
  match e with
  | sf _ k => if kindOk o k then .ok (op1 o e) else .error .argumentType
  | vf _ k => if kindOk o k then .ok (op1 o e) else .error .argumentType
  | op1 .minus a =>
      (match kindOf a with
       | some k => if kindOk o k then .ok (op1 o e) else .error .argumentType
       | none => .error .attributeError)           -- `expr.space` of a non-function
  | op1 .plus a =>
      (match kindOf a with
       | some k => if kindOk o k then .ok (op1 o e) else .error .argumentType
       | none => .error .attributeError)
  | _ => .ok (op1 o e)

/-- all results, or the first error -/
def seqE : List (Except Err E) → Except Err (List E)
  | [] => .ok []
  | x :: xs => do
      let r ← x
      let rs ← seqE xs
      .ok (r :: rs)

/-- sum branch shared by all differential operators -/
def sumBranch (o : Op1) (ev : E → Except Err E) (as : List E) : Except Err E :=
  let a := as.filter hasF
  let b := as.filter (fun x => !hasF x)
  do
    let ra ← a.mapM ev
    let rest := addOf b
    let rb : E := if isNumber rest then zero else op1 o rest
    .ok (add (ra ++ [rb]))

/-- Grad of a product of commutative function-bearing factors `b2 = f1*f2*…`, given each factor
    with its gradient: `f1 * grad(f2*…) + grad(f1) * (f2*…)` recursively -/
def gradProd : List (E × Except Err E) → Except Err E
  | [] => .ok zero
  | [(_, g)] => g
  | (f, g) :: rest => do
      let g1 ← g
      let g2 ← gradProd rest
      .ok (add [mul [f, g2], mul [g1, mulOf (rest.map (·.1))]])

/-- `e - 1`, folded when `e` is an integer literal (sympy evaluates `n - 1`) -/
def predExp (e : E) : E :=
  match PD.intLit e with
  | some n => num (n - 1) 1
  | none => add [e, num (-1) 1]

mutual
def gradEval (d : Nat) : E → Except Err E
  | add as => if !hasFList as then (if PD.allNumber as then .ok zero else .ok (op1 .grad (add as)))
              else do
                let a := as.zip (gradEvalListE d as)
                let ra ← seqE ((a.filter (fun p => hasF p.1)).map (·.2))
                let rest := addOf (as.filter (fun x => !hasF x))
                let rb : E := if isNumber rest then zero else op1 .grad rest
                .ok (add (ra ++ [rb]))
  | mul as =>
      if !hasFList as then (if PD.allNumber as then .ok zero else .ok (op1 .grad (mul as)))
      else
        let comm := as.filter (isComm d)
        let ncomm := as.filter (fun x => !isComm d x)
        let coeffs := comm.filter isNumber
        let free := comm.filter (fun x => !isNumber x && !hasF x)
        let cf := (as.zip (gradEvalListE d as)).filter
                    (fun p => isComm d p.1 && !isNumber p.1 && hasF p.1)
        let a := mulOf coeffs
        let b1 := mulOf free
        let b2 := mulOf (cf.map (·.1))
        if !ncomm.isEmpty then
          .ok (mul [a, op1 .grad (mul [b1, b2, mulOf ncomm])])
        else if !free.isEmpty then do
          let db2 ← gradProd cf
          .ok (add [mul [a, b1, db2], mul [a, op1 .grad b1, b2]])
        else if !cf.isEmpty then do
          let db2 ← gradProd cf
          .ok (mul [a, db2])
        else .ok zero
  | pow b e =>
      if !(hasF b || hasF e) then
        (if isNumber b && isNumber e then .ok zero else .ok (op1 .grad (pow b e)))
      else do
        -- e * b**(e-1) * grad(b)  [+ log(b) * b**e * grad(e)  when the exponent is not a number]
        let a ← gradEval d b
        let t1 := mul [e, a, pow b (predExp e)]
        if isNumber e then .ok t1
        else do
          let ge ← gradEval d e
          .ok (add [t1, mul [fn "log" b, pow b e, ge]])
  | e =>
      if !hasF e then (if isNumber e then .ok zero else .ok (op1 .grad e))
      else atomNode .grad e
def gradEvalListE (d : Nat) : List E → List (Except Err E)
  | [] => []
  | a :: as => gradEval d a :: gradEvalListE d as
end

/-- Curl / Rot / Hessian (`lin = true`: no product rule) and the shared prelude -/
def numCoeffs (as : List E) : List E := as.filter isNumber
def nonNum (as : List E) : List E := as.filter (fun x => !isNumber x)

mutual
def curlEval (d : Nat) : E → Except Err E
  | add as => if !hasFList as then (if PD.allNumber as then .ok zero else .ok (op1 .curl (add as)))
              else do
                let a := as.zip (curlEvalListE d as)
                let ra ← seqE ((a.filter (fun p => hasF p.1)).map (·.2))
                let rest := addOf (as.filter (fun x => !hasF x))
                let rb : E := if isNumber rest then zero else op1 .curl rest
                .ok (add (ra ++ [rb]))
  | mul as =>
      if !hasFList as then (if PD.allNumber as then .ok zero else .ok (op1 .curl (mul as)))
      else .ok (mul [mulOf (numCoeffs as), op1 .curl (mulOf (nonNum as))])
  | op1 .grad a => if !hasF a then (if isNumber (op1 .grad a) then .ok zero else .ok (op1 .curl (op1 .grad a))) else .ok zero
  | e =>
      if !hasF e then (if isNumber e then .ok zero else .ok (op1 .curl e))
      else atomNode .curl e
def curlEvalListE (d : Nat) : List E → List (Except Err E)
  | [] => []
  | a :: as => curlEval d a :: curlEvalListE d as
end

mutual
/-- Rot and Hessian share the purely linear shape -/
def linEval (o : Op1) : E → Except Err E
  | add as => if !hasFList as then (if PD.allNumber as then .ok zero else .ok (op1 o (add as)))
              else do
                let a := as.zip (linEvalListE o as)
                let ra ← seqE ((a.filter (fun p => hasF p.1)).map (·.2))
                let rest := addOf (as.filter (fun x => !hasF x))
                let rb : E := if isNumber rest then zero else op1 o rest
                .ok (add (ra ++ [rb]))
  | mul as =>
      if !hasFList as then (if PD.allNumber as then .ok zero else .ok (op1 o (mul as)))
      else .ok (mul [mulOf (numCoeffs as), op1 o (mulOf (nonNum as))])
  | e =>
      if !hasF e then (if isNumber e then .ok zero else .ok (op1 o e))
      else atomNode o e
def linEvalListE (o : Op1) : List E → List (Except Err E)
  | [] => []
  | a :: as => linEval o a :: linEvalListE o as
end

def isVecLike : E → Bool
  | vf _ _ => true
  | tup _ => true
  | _ => false

mutual
def divEval (d : Nat) : E → Except Err E
  | add as => if !hasFList as then (if PD.allNumber as then .ok zero else .ok (op1 .div (add as)))
              else do
                let a := as.zip (divEvalListE d as)
                let ra ← seqE ((a.filter (fun p => hasF p.1)).map (·.2))
                let rest := addOf (as.filter (fun x => !hasF x))
                let rb : E := if isNumber rest then zero else op1 .div rest
                .ok (add (ra ++ [rb]))
  | mul as =>
      if !hasFList as then (if PD.allNumber as then .ok zero else .ok (op1 .div (mul as)))
      else
        let c := mulOf (numCoeffs as)
        match nonNum as with
        | [a, b] =>
            -- div(f F) = f div F + F . grad f   (after the `fix:` commits the numeric
            -- coefficient is kept — before them the variable holding it was overwritten, and
            -- the bare `except` fallback returned Div(a*b) without it)
            if isVecLike a then
              (match gradEval d b with
               | .ok gb => (match mkBilin d .dot a gb with
                            | .ok dt => .ok (mul [c, add [mul [b, op1 .div a], dt]])
                            | .error _ => .ok (mul [c, op1 .div (mul [a, b])]))
               | .error _ => .ok (mul [c, op1 .div (mul [a, b])]))
            else if isVecLike b then
              (match gradEval d a with
               | .ok ga => (match mkBilin d .dot b ga with
                            | .ok dt => .ok (mul [c, add [mul [a, op1 .div b], dt]])
                            | .error _ => .ok (mul [c, op1 .div (mul [a, b])]))
               | .error _ => .ok (mul [c, op1 .div (mul [a, b])]))
            else .ok (mul [c, op1 .div (mul [a, b])])
        | vs => .ok (mul [c, op1 .div (mulOf vs)])
  | op2 .cross a b =>
      if !(hasF a || hasF b) then .ok (op1 .div (op2 .cross a b))
      else do
        -- div(a x b) = b . curl a - a . curl b
        let ca ← curlEval d a
        let cb ← curlEval d b
        let t1 ← mkBilin d .dot b ca
        let t2 ← mkBilin d .dot a cb
        .ok (add [t1, mul [num (-1) 1, t2]])
  | op1 .curl a => if !hasF a then .ok (op1 .div (op1 .curl a)) else .ok zero
  | e =>
      if !hasF e then (if isNumber e then .ok zero else .ok (op1 .div e))
      else atomNode .div e
def divEvalListE (d : Nat) : List E → List (Except Err E)
  | [] => []
  | a :: as => divEval d a :: divEvalListE d as
end

mutual
def laplaceEval (d : Nat) : E → Except Err E
  | add as => if !hasFList as then (if PD.allNumber as then .ok zero else .ok (op1 .laplace (add as)))
              else do
                let a := as.zip (laplaceEvalListE d as)
                let ra ← seqE ((a.filter (fun p => hasF p.1)).map (·.2))
                let rest := addOf (as.filter (fun x => !hasF x))
                let rb : E := if isNumber rest then zero else op1 .laplace rest
                .ok (add (ra ++ [rb]))
  | mul as =>
      if !hasFList as then (if PD.allNumber as then .ok zero else .ok (op1 .laplace (mul as)))
      else
        let c := mulOf (numCoeffs as)
        let ps := (as.zip (laplaceEvalListE d as)).filter (fun p => !isNumber p.1)
        match ps with
        | [(f, lf), (g, lg)] =>
          if !(isComm d f && isComm d g) then .ok (mul [c, op1 .laplace (mulOf (nonNum as))])
          else do
            -- laplace(f g) = f laplace g + g laplace f + 2 grad f . grad g
            let lf ← lf
            let lg ← lg
            let gf ← gradEval d f
            let gg ← gradEval d g
            let dt ← mkBilin d .dot gf gg
            .ok (mul [c, add [mul [f, lg], mul [g, lf], mul [num 2 1, dt]]])
        | _ => .ok (mul [c, op1 .laplace (mulOf (nonNum as))])
  | e =>
      if !hasF e then (if isNumber e then .ok zero else .ok (op1 .laplace e))
      else atomNode .laplace e
def laplaceEvalListE (d : Nat) : List E → List (Except Err E)
  | [] => []
  | a :: as => laplaceEval d a :: laplaceEvalListE d as
end

/-! ### Poisson bracket -/

/-- Σ_i (Π_{j<i} f_j) · r_i · (Π_{j>i} f_j)  for the factor list paired with the brackets -/
def leibnizTerms : List E → List (E × E) → List E
  | _, [] => []
  | pre, (f, r) :: rest => mul (pre ++ [r] ++ rest.map (·.1)) :: leibnizTerms (pre ++ [f]) rest

mutual
/-- `Bracket.eval(a1, a2)`: recursion on the first argument, then on the second -/
def brRight (a1 : E) : E → E
  | add bs => add (brRightList a1 bs)
  | mul bs =>
      let cs := bs.filter isCoef
      let ps := (bs.zip (brRightList a1 bs)).filter (fun p => !isCoef p.1)
      mul [mulOf cs, add (leibnizTerms [] ps)]
  | b => if isCoef b then zero
         else if isNumber a1 || isNumber b then zero
         else if a1 == b then zero
         else op2 .bracket a1 b
def brRightList (a1 : E) : List E → List E
  | [] => []
  | b :: bs => (if isNumber a1 || isNumber b || a1 == b then zero else brRight a1 b) :: brRightList a1 bs
end

mutual
def brLeft (a2 : E) : E → E
  | add as => add (brLeftList a2 as)
  | mul as =>
      let cs := as.filter isCoef
      let ps := (as.zip (brLeftList a2 as)).filter (fun p => !isCoef p.1)
      mul [mulOf cs, add (leibnizTerms [] ps)]
  | a => if isCoef a then zero else brRight a a2
def brLeftList (a2 : E) : List E → List E
  | [] => []
  | a :: as => (if isNumber a || isNumber a2 || a == a2 then zero else brLeft a2 a) :: brLeftList a2 as
end

def bracketEval (a1 a2 : E) : E :=
  if isNumber a1 || isNumber a2 then zero
  else if a1 == a2 then zero
  else brLeft a2 a1

/-! ### interface operators (after the `fix:` commit: restrictions are multiplicative) -/

inductive IK where | jump | avg | minus | plus | dn
  deriving Repr, DecidableEq

def IK.op : IK → Op1
  | .jump => .jump | .avg => .avg | .minus => .minus | .plus => .plus | .dn => .dn

def half : E := num 1 2
def quarter : E := num 1 4

/-- (jump, average) of a product of factors given as (factor, jump factor, average factor):
    [fg] = {f}[g] + [f]{g},   {fg} = {f}{g} + [f][g]/4 -/
def jaProd : List (E × E × E) → E × E
  | [] => (zero, one)
  | [(_, j, a)] => (j, a)
  | (_, j, a) :: rest =>
      let (jr, ar) := jaProd rest
      (add [mul [a, jr], mul [j, ar]], add [mul [a, ar], mul [quarter, j, jr]])

/-- restriction to one side is multiplicative -/
def sideProd : List (E × E) → E
  | [] => one
  | [(_, r)] => r
  | (_, r) :: rest => mul [r, sideProd rest]

/-- the normal derivative is a derivation -/
def dnProd : List (E × E) → E
  | [] => zero
  | [(_, r)] => r
  | (f, r) :: rest => add [mul [f, dnProd rest], mul [r, mulOf (rest.map (·.1))]]

def okOrNone : Except Err E → Option E
  | .ok r => some r
  | .error _ => none

/-- all results present, else `none` (the real code wraps the product branch in a bare `try`) -/
def allSome : List (E × Option E) → Option (List (E × E))
  | [] => some []
  | (f, some r) :: rest => (allSome rest).map (fun l => (f, r) :: l)
  | (_, none) :: _ => none

def sideNormal : IK → E
  | .minus => normal "MinusNormalVector:n"
  | _ => normal "PlusNormalVector:n"

def isNormal : E → Bool
  | normal s => s == "NormalVector:n"
  | _ => false

mutual
/-- `cls.eval(expr)` for Jump / Average / Minus / Plus / NormalDerivative -/
def ifaceEval (d : Nat) (k : IK) : E → Except Err E
  | add as => do .ok (add (← ifaceEvalList d k as))
  | mul as =>
      let cs := as.filter isCoef
      let vs := as.filter (fun x => !isCoef x)
      let fallback : E := op1 k.op (mulOf vs)
      let pick (kk : IK) : List (E × Option E) :=
        ((as.zip (ifaceEvalListE d kk as)).filter (fun p => !isCoef p.1)).map (fun p => (p.1, okOrNone p.2))
      let body : E :=
        -- a product of coefficients only: its jump / normal derivative vanishes (after the
        -- `fix:` commit; before it the product itself was returned, as for Average/Minus/Plus)
        if vs.isEmpty then (if k == .jump || k == .dn then zero else one)
        else match k with
          | .jump | .avg =>
              (match allSome (pick .jump), allSome (pick .avg) with
               | some js, some av =>
                   let r := jaProd ((js.zip av).map (fun p => (p.1.1, p.1.2, p.2.2)))
                   (match vs with
                    | [_] => (match allSome (pick k) with
                              | some [(_, r1)] => r1
                              | _ => fallback)
                    | _ => if k == .jump then r.1 else r.2)
               | _, _ =>
                   (match vs, allSome (pick k) with
                    | [_], some [(_, r1)] => r1
                    | _, _ => fallback))
          | .dn => (match allSome (pick .dn) with
                    | some rs => dnProd rs
                    | none => fallback)
          | s => (match allSome (pick s) with
                  | some rs => sideProd rs
                  | none => fallback)
      .ok (mul [mulOf cs, body])
  | op1 .dn u =>
      (match k with
       | .minus | .plus => do
           -- Dot(Grad(cls(u)), cls(n))
           let su ← ifaceEval d k u
           let gu ← gradEval d su
           mkBilin d .dot gu (sideNormal k)
       | _ => .ok (op1 k.op (op1 .dn u)))
  | mat r c es =>
      (match k with
       | .minus | .plus => do .ok (mat r c (← ifaceEvalList d k es))
       | _ => .ok (op1 k.op (mat r c es)))
  | e =>
      match k with
      | .minus | .plus =>
          if isNormal e then .ok (sideNormal k)
          else if isZeroNum e then .ok zero
          else .ok (op1 k.op e)
      | _ => .ok (op1 k.op e)
def ifaceEvalList (d : Nat) (k : IK) : List E → Except Err (List E)
  | [] => .ok []
  | a :: as => do
      let r ← ifaceEval d k a
      let rs ← ifaceEvalList d k as
      .ok (r :: rs)
def ifaceEvalListE (d : Nat) (k : IK) : List E → List (Except Err E)
  | [] => []
  | a :: as => ifaceEval d k a :: ifaceEvalListE d k as
end

/-! ### S-expression interface -/

def bkOfName : String → Option BK
  | "Dot" => some .dot | "Cross" => some .cross | "Inner" => some .inner
  | "Outer" => some .outer | "Convect" => some .convect | _ => none

def ikOfName : String → Option IK
  | "Jump" => some .jump | "Avg" => some .avg | "Minus" => some .minus
  | "Plus" => some .plus | "Dn" => some .dn | _ => none

def answer : Except Err E → String
  | .ok r => "ok " ++ toString (E.toSexp r)
  | .error err => "err " ++ err.name

def handle (args : List Sexp) : String :=
  match args with
  | [.atom "mk2", dim, .atom o, a, b] =>
      match dim.toNat?, E.ofSexp a, E.ofSexp b with
      | some d, some a, some b =>
          (match bkOfName o with
           | some k => answer (mkBilin d k a b)
           | none => if o == "Bracket" then answer (.ok (bracketEval a b)) else "bad-op")
      | _, _, _ => "bad-op"
  | [.atom "mk1", dim, .atom o, a] =>
      match dim.toNat?, E.ofSexp a with
      | some d, some a =>
          (match o with
           | "Grad" => answer (gradEval d a)
           | "Curl" => answer (curlEval d a)
           | "Rot" => answer (linEval .rot a)
           | "Hessian" => answer (linEval .hessian a)
           | "Div" => answer (divEval d a)
           | "Laplace" => answer (laplaceEval d a)
           | _ => (match ikOfName o with
                   | some k => answer (ifaceEval d k a)
                   | none => "bad-op"))
      | _, _ => "bad-op"
  | _ => "bad-op"

end Calc
end Sympde
