/-
  Model of the integrand assembly of `Norm.__new__` / `SemiNorm.__new__`
  (sympde/expr/expr.py:530-672, after the `fix:` commit d2c4266): which generic expression is
  integrated for an L2 / H1 / H2 (semi-)norm of a scalar or vector expression.  The operator
  nodes are left unevaluated (their construction-time rewriting is C02, their lowering C01).
  Core Lean only.
-/
import SympdeModel.Model.Lower
namespace Sympde
namespace Norm
open E

inductive NK where | l2 | h1 | h2
  deriving Repr, DecidableEq

def sq (e : E) : E := mul [e, e]
def gradSq (e : E) : E := op2 .dot (op1 .grad e) (op1 .grad e)
def hessSq (e : E) : E := op2 .inner (op1 .hessian e) (op1 .hessian e)

/-- scalar argument -/
def scalarIntegrand (semi : Bool) (k : NK) (e : E) : E :=
  match k, semi with
  | .l2, _ => sq e
  | .h1, true => gradSq e
  | .h1, false => add [gradSq e, sq e]
  | .h2, true => hessSq e
  | .h2, false => add [hessSq e, gradSq e, sq e]

def vecSq (es : List E) : E := op2 .dot (tup es) (tup es)
def vecGradSq (es : List E) : E := op2 .inner (op1 .grad (tup es)) (op1 .grad (tup es))
def vecHessSq (es : List E) : E := add (es.map hessSq)

/-- vector argument (a column of scalar expressions) -/
def vectorIntegrand (semi : Bool) (k : NK) (es : List E) : E :=
  match k, semi with
  | .l2, _ => vecSq es
  | .h1, true => vecGradSq es
  | .h1, false => add [vecGradSq es, vecSq es]
  | .h2, true => vecHessSq es
  | .h2, false => add [vecHessSq es, vecGradSq es, vecSq es]

def nkOfName : String → Option NK
  | "l2" => some .l2 | "h1" => some .h1 | "h2" => some .h2 | _ => none

/-- the kernel: assembled integrand, lowered in dimension `d` -/
def kernel (d : Nat) (lg : Bool) (semi : Bool) (k : NK) (arg : E) : Except Err E :=
  match arg with
  | tup es => Lower.lower d lg (vectorIntegrand semi k es)
  | e => Lower.lower d lg (scalarIntegrand semi k e)

def handle (args : List Sexp) : String :=
  match args with
  | [.atom "kernel", dim, lg, semi, .atom k, e] =>
      match dim.toNat?, lg.toBool?, semi.toBool?, nkOfName k, E.ofSexp e with
      | some d, some lg, some semi, some k, some e =>
          match kernel d lg semi k e with
          | .ok r => "ok " ++ toString (E.toSexp r)
          | .error err => "err " ++ err.name
      | _, _, _, _, _ => "bad-op"
  | _ => "bad-op"

end Norm
end Sympde
