/-
  Model of the form branch of `TerminalExpr.eval` (sympde/expr/evaluation.py:634-754), of
  `_to_matrix_form` (160-232) and of `_split_expr_over_interface` (235-432) at the level at which
  C06 / C07 speak: an integrand is a sum of monomials, each tagged with the scalar test component
  and the scalar trial component it contains (after `expand`), a form is a list of integrals each
  over a list of regions.  Core Lean only.

    * grouping:  d_expr[d] = Σ of the integrals whose domain contains region d        (`group`)
    * blocks:    M[i][j]   = the integrand with every other test / trial component := 0 (`extract`)
    * interface: the same extraction with the two *sides* of the interface as index set
-/
import SympdeModel.Model.Sexp
namespace Sympde
namespace Forms

/-- a monomial of the expanded integrand: an opaque identifier (its coefficient and derivative
    pattern), the test component and the trial component it contains (`none` = it contains none) -/
structure Mono where
  id : Nat
  test : Option Nat
  trial : Option Nat
  deriving Repr, DecidableEq, Inhabited

/-- `expr.subs({v: 0 for v in tests if v != test})`: a monomial survives iff it contains no other
    test component -/
def keepTest (i : Nat) (m : Mono) : Bool :=
  match m.test with
  | none => true
  | some t => t == i

def keepTrial (j : Nat) (m : Mono) : Bool :=
  match m.trial with
  | none => true
  | some t => t == j

/-- entry (i,j) of the kernel of a bilinear form, as `_to_matrix_form` computes it -/
def extract (P : List Mono) (i j : Nat) : List Mono :=
  (P.filter (keepTest i)).filter (keepTrial j)

/-- entry i of the kernel of a linear form -/
def extractLin (P : List Mono) (i : Nat) : List Mono := P.filter (keepTest i)

/-- the specification: the monomials that couple test component i with trial component j -/
def block (P : List Mono) (i j : Nat) : List Mono :=
  P.filter (fun m => m.test == some i && m.trial == some j)

def blockLin (P : List Mono) (i : Nat) : List Mono := P.filter (fun m => m.test == some i)

/-- all entries, row by row -/
def allEntries (P : List Mono) (nt nu : Nat) : List Mono :=
  (List.range nt).flatMap (fun i => (List.range nu).flatMap (fun j => extract P i j))

/-- bilinear integrand: every monomial contains exactly one test and one trial component -/
def Bilinear (P : List Mono) (nt nu : Nat) : Prop :=
  ∀ m ∈ P, (∃ t, m.test = some t ∧ t < nt) ∧ (∃ u, m.trial = some u ∧ u < nu)

def LinearIn (P : List Mono) (nt : Nat) : Prop := ∀ m ∈ P, ∃ t, m.test = some t ∧ t < nt

/-! ### grouping of integrals by region -/

/-- an integral of the form: the regions of its domain (a Union contributes several) and its
    integrand (an opaque identifier) -/
structure Term where
  regions : List Nat
  body : Nat
  deriving Repr, DecidableEq, Inhabited

/-- `d_expr[d] += a for d in domains(a)`: the integrands accumulated for region `d`, in order -/
def group (ts : List Term) (d : Nat) : List Nat :=
  (ts.filter (fun t => t.regions.contains d)).map (·.body)

def dedup : List Nat → List Nat
  | [] => []
  | a :: as => if (dedup as).contains a then dedup as else a :: dedup as

/-- all regions of the form, without duplicates -/
def regionsOf (ts : List Term) : List Nat := dedup (ts.flatMap (·.regions))

/-- the kernels: one per region that occurs -/
def kernels (ts : List Term) : List (Nat × List Nat) :=
  (regionsOf ts).map (fun d => (d, group ts d))

/-! ### S-expression interface -/

def monoOfSexp : Sexp → Option Mono
  | .list [i, t, u] => do
      let i ← i.toNat?
      let t := match t with | .atom "none" => none | x => x.toNat?
      let u := match u with | .atom "none" => none | x => x.toNat?
      some ⟨i, t, u⟩
  | _ => none

def idsToSexp (ms : List Mono) : Sexp := .list (ms.map (fun m => Sexp.ofNat m.id))

def termOfSexp : Sexp → Option Term
  | .list [.list rs, b] => do some ⟨← rs.mapM Sexp.toNat?, ← b.toNat?⟩
  | _ => none

def handle (args : List Sexp) : String :=
  match args with
  | [.atom "blocks", nt, nu, .list ms] =>
      match nt.toNat?, nu.toNat?, ms.mapM monoOfSexp with
      | some nt, some nu, some P =>
          "ok " ++ toString (Sexp.list ((List.range nt).map (fun i =>
            Sexp.list ((List.range nu).map (fun j => idsToSexp (extract P i j))))))
      | _, _, _ => "bad-op"
  | [.atom "blocksLin", nt, .list ms] =>
      match nt.toNat?, ms.mapM monoOfSexp with
      | some nt, some P =>
          "ok " ++ toString (Sexp.list ((List.range nt).map (fun i => idsToSexp (extractLin P i))))
      | _, _ => "bad-op"
  | [.atom "group", .list ts] =>
      match ts.mapM termOfSexp with
      | some ts =>
          "ok " ++ toString (Sexp.list ((kernels ts).map (fun p =>
            Sexp.list [Sexp.ofNat p.1, Sexp.list (p.2.map Sexp.ofNat)])))
      | none => "bad-op"
  | _ => "bad-op"

end Forms
end Sympde
