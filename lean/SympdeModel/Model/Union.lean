/-
  Model of `sympde.topology.basic.Union` (sympde/topology/basic.py:112-193): `__new__`,
  `complement`/`__sub__`, `as_tuple`, `__len__`, `__iter__`, `_sympystr`, transcribed branch for
  branch.  Core Lean only.

  A member of a union is seen by the code through exactly three observations: its identity
  (`==`/`hash`, used by `set(...)` and by `in`), its string `str(a)` (the sort key) and `a.dim`.
  `Atom` carries the last two; identity is structural equality of `Atom`s.  sympde objects
  compare by class and name, so the harness gives every object a hygienic unique name; under
  that convention identity and `key` coincide (hypothesis `KeyInj` of the theorems).

  The iteration model is the code *after* the commit `fix: Union.__iter__ returns an independent
  iterator`: `iter(U)` is a fresh tuple iterator over `U.args`; the state of the world is the
  position of every iterator created so far.  The machine of the old code (one `index` stored
  on the Union object, `__iter__` returning `self`) is kept as `Legacy` for the regression
  counterexample.
-/
import SympdeModel.Model.Sexp
namespace Sympde
namespace USet

/-! ### canonical list of a finite set: `sorted(set(xs), key=str)` (basic.py:137) -/

section canon
variable {α : Type} [DecidableEq α]

/-- `set(xs)`: one representative per `==` class (iteration order of the set is irrelevant
    because of the sort that follows) -/
def dedup : List α → List α
  | [] => []
  | a :: as => if a ∈ as then dedup as else a :: dedup as

/-- insertion before the first element whose key is not smaller (stable, like `sorted`) -/
def insertBy (key : α → String) (a : α) : List α → List α
  | [] => [a]
  | b :: bs => if key a ≤ key b then a :: b :: bs else b :: insertBy key a bs

/-- `sorted(xs, key=key)` (stable) -/
def sortBy (key : α → String) : List α → List α
  | [] => []
  | a :: as => insertBy key a (sortBy key as)

/-- `sorted(set(xs), key=str)` -/
def canon (key : α → String) (xs : List α) : List α := sortBy key (dedup xs)

end canon

/-! ### members and arguments -/

structure Atom where
  key : String          -- str(a)
  dim : Option Nat      -- a.dim (None for an InteriorDomain built without `dim`)
  deriving DecidableEq, Repr, Inhabited

/-- one positional argument of `Union(*args)` as the implementation sees it -/
inductive Arg where
  | none                                  -- Python `None` (an empty union)
  | atom (a : Atom)                       -- a BasicDomain that is not a Union
  | union (hd : Atom) (tl : List Atom)    -- an existing Union object, `args = hd :: tl`
  | bad                                   -- anything that is not a BasicDomain
  deriving DecidableEq, Repr, Inhabited

inductive Err where
  | typeError | valueError
  deriving DecidableEq, Repr

/-- what `Union(...)` returns: `None`, the single member itself, or a Union object -/
inductive Res where
  | null
  | single (a : Atom)
  | union (ms : List Atom)
  deriving DecidableEq, Repr, Inhabited

instance : DecidableEq (Except Err Res) := fun a b =>
  match a, b with
  | .ok x, .ok y => if h : x = y then isTrue (by rw [h]) else isFalse (fun e => h (by cases e; rfl))
  | .error x, .error y => if h : x = y then isTrue (by rw [h]) else isFalse (fun e => h (by cases e; rfl))
  | .ok _, .error _ => isFalse (fun e => by cases e)
  | .error _, .ok _ => isFalse (fun e => by cases e)

def Arg.isNone : Arg → Bool
  | .none => true
  | _ => false

def Arg.isBad : Arg → Bool
  | .bad => true
  | _ => false

def Arg.isUnion : Arg → Bool
  | .union _ _ => true
  | _ => false

/-- `a.dim`; for a Union it is `self.args[0].dim` (basic.py:152).  Only evaluated on
    arguments that passed the `None` filter and the type check. -/
def Arg.dim : Arg → Option Nat
  | .atom a => a.dim
  | .union hd _ => hd.dim
  | _ => Option.none

/-- the domains an argument contributes after flattening (`as_tuple()` for a Union) -/
def Arg.members : Arg → List Atom
  | .atom a => [a]
  | .union hd tl => hd :: tl
  | _ => []

/-- basic.py:142-149: no domain -> None, one -> the domain itself, several -> a Union -/
def pack : List Atom → Res
  | [] => .null
  | [a] => .single a
  | ms => .union ms

/-- `Union.__new__(cls, *args)` (basic.py:114-149) -/
def mkUnion (args : List Arg) : Except Err Res :=
  let args := args.filter (fun a => !a.isNone)                         -- :117
  if args.any Arg.isBad then .error .typeError                         -- :120-121
  else if (dedup (args.map Arg.dim)).length > 1 then .error .valueError -- :124-128
  else
    let unions := args.filter Arg.isUnion                              -- :131
    let atoms  := args.filter (fun a => !a.isUnion)                    -- :132
    let flat   := atoms.flatMap Arg.members ++ unions.flatMap Arg.members   -- :133-134
    .ok (pack (canon Atom.key flat))                                   -- :137-149

/-- the members of a result (`()` for None, `(a,)` for a single domain, `args` for a Union) -/
def Res.members : Res → List Atom
  | .null => []
  | .single a => [a]
  | .union ms => ms

/-- a result passed on as an argument of another `Union(...)` call.  A Union *object* always has
    at least two members; shorter lists cannot come out of `pack`. -/
def Res.toArg : Res → Arg
  | .null => .none
  | .single a => .atom a
  | .union [] => .none
  | .union (hd :: tl) => .union hd tl

/-- the argument of `complement` -/
inductive CArg where
  | none                                  -- None
  | atom (a : Atom)                       -- a BasicDomain
  | union (hd : Atom) (tl : List Atom)    -- a Union
  | seq (l : List Atom)                   -- a list / tuple of domains: falls through the
                                          --   un-raised `TypeError(...)` (basic.py:172) and is
                                          --   used by `i not in arg`
  | bad                                   -- a non-container (int, …): `i not in arg` raises TypeError
  deriving DecidableEq, Repr

/-- `Union.complement(self, arg)` (basic.py:164-174); `self` is a Union object with args `ms` -/
def complement (ms : List Atom) : CArg → Except Err Res
  | .none => .ok (.union ms)                                           -- :169-170 returns self
  | .bad => .error .typeError
  | .atom a => mkUnion ((ms.filter (fun i => i ∉ [a])).map Arg.atom)    -- :167-168, :174
  | .union hd tl => mkUnion ((ms.filter (fun i => i ∉ hd :: tl)).map Arg.atom)   -- :165-166, :174
  | .seq l => mkUnion ((ms.filter (fun i => i ∉ l)).map Arg.atom)

/-- `_sympystr` (basic.py:198-201) -/
def render (ms : List Atom) : String :=
  "Union(" ++ ", ".intercalate (ms.map Atom.key) ++ ")"

/-! ### iteration: every `iter(U)` is an independent tuple iterator over `U.args` -/

inductive Op where
  | iter                -- `it_k = iter(U)`; k = number of iterators created before
  | next (i : Nat)      -- `next(it_i)`
  deriving DecidableEq, Repr

inductive Ev where
  | made (id : Nat)     -- answer to `iter`
  | elem (a : Atom)     -- `next` returned a member
  | stop                -- `next` raised StopIteration
  | noIter              -- `next` on an iterator that does not exist (harness error, never sent)
  deriving DecidableEq, Repr

/-- the world: position of every iterator created so far -/
abbrev World := List Nat

def step (ms : List Atom) (w : World) : Op → World × Ev
  | .iter => (w ++ [0], .made w.length)
  | .next i =>
      match w[i]? with
      | Option.none => (w, .noIter)
      | some pos =>
          match ms[pos]? with
          | some a => (w.set i (pos + 1), .elem a)
          | Option.none => (w, .stop)

def run (ms : List Atom) : World → List Op → List Ev
  | _, [] => []
  | w, o :: os => (step ms w o).2 :: run ms (step ms w o).1 os

/-- the world reached after a sequence of operations -/
def exec (ms : List Atom) : World → List Op → World
  | w, [] => w
  | w, o :: os => exec ms (step ms w o).1 os

/-- the answers given to the `next i` requests of a run, in order -/
def answersTo (i : Nat) : List Op → List Ev → List Ev
  | .next j :: os, e :: es => if j = i then e :: answersTo i os es else answersTo i os es
  | _ :: os, _ :: es => answersTo i os es
  | _, _ => []

def countNext (i : Nat) : List Op → Nat
  | [] => 0
  | .next j :: os => (if j = i then 1 else 0) + countNext i os
  | _ :: os => countNext i os

/-- what an independent iterator standing at `pos` answers to `n` successive `next` calls -/
def expected (ms : List Atom) (pos : Nat) : Nat → List Ev
  | 0 => []
  | n + 1 =>
      match ms[pos]? with
      | some a => .elem a :: expected ms (pos + 1) n
      | Option.none => .stop :: expected ms pos n

namespace Legacy
/-! the machine of the code before the fix: `__iter__` sets `self.index = 0` and returns `self`;
    `__next__` reads `self.args[self.index]` — ONE index shared by all iterations -/

def step (ms : List Atom) (index : Nat) : Op → Nat × Ev
  | .iter => (0, .made 0)
  | .next _ =>
      match ms[index]? with
      | some a => (index + 1, .elem a)
      | Option.none => (index, .stop)

def run (ms : List Atom) : Nat → List Op → List Ev
  | _, [] => []
  | ix, o :: os => (step ms ix o).2 :: run ms (step ms ix o).1 os

end Legacy

/-! ### S-expression I/O -/

def dimOfSexp : Sexp → Option (Option Nat)
  | .atom "None" => some Option.none
  | s => (s.toNat?).map some

def dimToSexp : Option Nat → Sexp
  | Option.none => .atom "None"
  | some n => Sexp.ofNat n

def atomOfSexp : Sexp → Option Atom
  | .list [.atom "a", .str k, d] => do some ⟨k, ← dimOfSexp d⟩
  | _ => Option.none

def atomToSexp (a : Atom) : Sexp := .list [.atom "a", .str a.key, dimToSexp a.dim]

def argOfSexp : Sexp → Option Arg
  | .atom "none" => some .none
  | .atom "bad" => some .bad
  | .list (.atom "u" :: h :: t) => do some (.union (← atomOfSexp h) (← t.mapM atomOfSexp))
  | s => (atomOfSexp s).map Arg.atom

def cargOfSexp : Sexp → Option CArg
  | .atom "none" => some .none
  | .atom "bad" => some .bad
  | .list (.atom "u" :: h :: t) => do some (.union (← atomOfSexp h) (← t.mapM atomOfSexp))
  | .list (.atom "seq" :: t) => do some (.seq (← t.mapM atomOfSexp))
  | s => (atomOfSexp s).map CArg.atom

def resToString : Except Err Res → String
  | .ok .null => "ok null"
  | .ok (.single a) => "ok " ++ toString (Sexp.list [.atom "single", atomToSexp a])
  | .ok (.union ms) => "ok " ++ toString (Sexp.list (.atom "union" :: ms.map atomToSexp))
  | .error .typeError => "err TypeError"
  | .error .valueError => "err ValueError"

def opOfSexp : Sexp → Option Op
  | .atom "iter" => some .iter
  | .list [.atom "next", i] => i.toNat?.map Op.next
  | _ => Option.none

def evToSexp : Ev → Sexp
  | .made i => .list [.atom "made", Sexp.ofNat i]
  | .elem a => .list [.atom "elem", atomToSexp a]
  | .stop => .atom "stop"
  | .noIter => .atom "no-iter"

/-- one request line → one response line -/
def handle (args : List Sexp) : String :=
  match args with
  | .atom "union" :: xs =>
      match xs.mapM argOfSexp with
      | some as => resToString (mkUnion as)
      | Option.none => "bad-op"
  | [.atom "compl", .list (.atom "members" :: ms), a] =>
      match ms.mapM atomOfSexp, cargOfSexp a with
      | some ms, some a => resToString (complement ms a)
      | _, _ => "bad-op"
  | [.atom "iter", .list (.atom "members" :: ms), .list ops] =>
      match ms.mapM atomOfSexp, ops.mapM opOfSexp with
      | some ms, some ops => "ok " ++ toString (Sexp.list ((run ms [] ops).map evToSexp))
      | _, _ => "bad-op"
  | [.atom "legacy-iter", .list (.atom "members" :: ms), .list ops] =>
      match ms.mapM atomOfSexp, ops.mapM opOfSexp with
      | some ms, some ops => "ok " ++ toString (Sexp.list ((Legacy.run ms 0 ops).map evToSexp))
      | _, _ => "bad-op"
  | [.atom "str", .list (.atom "members" :: ms)] =>
      match ms.mapM atomOfSexp with
      | some ms => "ok " ++ toString (Sexp.str (render ms))
      | Option.none => "bad-op"
  | _ => "bad-op"

end USet
end Sympde
