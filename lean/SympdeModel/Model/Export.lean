/-
  Model of the export / re-import of a domain's topology, transcribed branch for branch:

  * `todict` of Domain (sympde/topology/domain.py:308-327), InteriorDomain (basic.py:105-107),
    Boundary (basic.py:346-354), Union (basic.py:171-172), Connectivity (basic.py:533-551);
  * `Domain.from_file` (domain.py:347-414): reconstruction through the NCube constructors
    (domain.py:846-915), `Mapping.__call__`, `Domain.get_boundary` (domain.py:260-279) and
    `Domain.join` (domain.py:417-585);
  * `Domain.export` / the reading half of `from_file` (YAML inside HDF5) are the identity on
    dictionaries (trusted; exercised with real files by the correspondence run).

  Core Lean only.  The state of the code modelled is the one after the commits
  `fix: export/from_file keep the interface orientation`, `fix: … closed multi-patch domain`,
  `fix: Domain.from_file identifies a patch by (logical name, mapping name)`.

  Not modelled: the logical twin (`logical_domain`, `MultiPatchMapping`) that `join` builds when
  all patches are mapped (it does not take part in `todict`), coordinates, corners.
-/
import SympdeModel.Model.Sexp
import SympdeModel.Model.Union
namespace Sympde
namespace Export
open USet (canon sortBy)

inductive Err where
  | valueError | typeError | keyError | assertionError | attributeError | indexError
  | unboundLocalError
  deriving DecidableEq, Repr

def Err.toString : Err → String
  | .valueError => "ValueError"
  | .typeError => "TypeError"
  | .keyError => "KeyError"
  | .assertionError => "AssertionError"
  | .attributeError => "AttributeError"
  | .indexError => "IndexError"
  | .unboundLocalError => "UnboundLocalError"

/-- the exact value `p / q` (`q > 0`) of a Python float bound -/
abbrev Coord := Int × Nat

def Coord.lt (a b : Coord) : Bool := a.1 * (b.2 : Int) < b.1 * (a.2 : Int)

/-- the `dtype` dictionary `{'type': …, 'parameters': {…}}` (domain.py:879-898) -/
inductive DType where
  | line (b : Coord × Coord)                      -- {'bounds': [lo, hi]}
  | square (b1 b2 : Coord × Coord)                -- {'bounds1': …, 'bounds2': …}
  | cube (b1 b2 b3 : Coord × Coord)
  | ncube (dim : Nat) (mins maxs : List Coord)    -- {'dim', 'min_coords', 'max_coords'}
  deriving DecidableEq, Repr, Inhabited

/-- a single-patch domain made by `Line/Square/Cube/NCube(name, …)`, possibly mapped by
    `Mapping(mname, dim)(patch)`; `lname` is the name given to the constructor (the name of the
    logical patch) -/
structure Patch where
  lname : String
  dim : Nat
  dtype : DType
  mapping : Option String
  deriving DecidableEq, Repr, Inhabited

/-- `NCube.__new__(cls, name, dim, min_coords, max_coords)` (domain.py:846-915) -/
def ncubeNew (name : String) (dim : Nat) (mins maxs : List Coord) : Except Err Patch :=
  if name.isEmpty then .error .valueError                                        -- :853
  else if dim < 1 then .error .valueError                                        -- :856
  else if !(dim == mins.length && mins.length == maxs.length) then .error .valueError   -- :859
  else if !((mins.zip maxs).all (fun p => p.1.lt p.2)) then .error .valueError    -- :862
  else
    let dt : DType :=
      match dim, mins, maxs with
      | 1, [a], [b] => .line (a, b)                                              -- :884
      | 2, [a1, a2], [b1, b2] => .square (a1, b1) (a2, b2)                        -- :888
      | 3, [a1, a2, a3], [b1, b2, b3] => .cube (a1, b1) (a2, b2) (a3, b3)         -- :893
      | _, _, _ => .ncube dim mins maxs                                          -- :900
    .ok ⟨name, dim, dt, none⟩

/-- `globals()[dt['type']](name, **dt['parameters'])` (domain.py:380-381, :929-978) -/
def construct (name : String) : DType → Except Err Patch
  | .line b => ncubeNew name 1 [b.1] [b.2]
  | .square b1 b2 => ncubeNew name 2 [b1.1, b2.1] [b1.2, b2.2]
  | .cube b1 b2 b3 => ncubeNew name 3 [b1.1, b2.1, b3.1] [b1.2, b2.2, b3.2]
  | .ncube d mins maxs => ncubeNew name d mins maxs

/-- `str` of the patch's interior: the name, or `M(name)` for a mapped patch (mapping.py:642) -/
def Patch.name (p : Patch) : String :=
  match p.mapping with
  | none => p.lname
  | some m => m ++ "(" ++ p.lname ++ ")"

/-- a boundary face `Boundary(r'\Gamma_i', interior, axis, ext)` of a patch -/
structure Face where
  patch : Patch
  axis : Nat
  ext : Int
  deriving DecidableEq, Repr, Inhabited

/-- domain.py:798-808: faces are numbered 1, 2, … in the order (axis 0, -1), (axis 0, +1), … -/
def gammaName (axis : Nat) (ext : Int) : String :=
  "\\Gamma_" ++ toString (2 * axis + (if ext == -1 then 1 else 2))

/-- `str(boundary)` = `'{domain}_{name}'` (basic.py:338) -/
def Face.str (f : Face) : String := f.patch.name ++ "_" ++ gammaName f.axis f.ext

/-- the boundaries created by `NCubeInterior.__new__` (domain.py:798-808), in creation order -/
def facesOf (p : Patch) : List Face :=
  (List.range p.dim).flatMap (fun ax => [⟨p, ax, -1⟩, ⟨p, ax, 1⟩])

/-- orientation of an interface: `None` (1D), an int (2D), a tuple of ints (3D) -/
inductive Ornt where
  | none
  | int (v : Int)
  | tup (l : List Int)
  deriving DecidableEq, Repr, Inhabited

structure Iface where
  name : String
  minus : Face
  plus : Face
  ornt : Ornt
  deriving DecidableEq, Repr, Inhabited

/-- what `todict` reads of a `Domain` object -/
structure Dom where
  name : String
  dim : Nat
  interiors : List Patch           -- `interior`: one InteriorDomain, or the args of a Union
  boundary : List Face             -- `boundary`: None (`[]`), one Boundary, or the args of a Union
  conn : List (String × Iface)     -- `connectivity._data`, in insertion order
  deriving DecidableEq, Repr, Inhabited

/-- the `Domain` object of a single patch: `Square(...)` or `M(Square(...))`;
    its boundary is `Union(*faces)`, hence sorted by `str` -/
def patchDom (p : Patch) : Dom := ⟨p.name, p.dim, [p], canon Face.str (facesOf p), []⟩

/-- `Domain.get_boundary(axis, ext)` (domain.py:260-279) -/
def getBoundary (d : Dom) (axis : Nat) (ext : Int) : Except Err Face :=
  match d.boundary with
  | [] => .error .valueError                                   -- boundary is None: final raise
  | [b] => if b.axis == axis && b.ext == ext then .ok b else .error .valueError   -- :275-279
  | bs =>                                                      -- :268-273
      match bs.find? (fun i => i.ext == ext && i.axis == axis) with
      | some b => .ok b
      | none => .error .valueError

/-- optional third entry of a connection given to `Domain.join` -/
inductive OrntIn where
  | int (v : Int)
  | seq (l : List Int)
  deriving DecidableEq, Repr

/-- `((patch_minus, axis, ext), (patch_plus, axis, ext)[, ornt])`, patches given by index -/
structure Conn where
  mi : Nat
  maxis : Nat
  mext : Int
  pi : Nat
  paxis : Nat
  pext : Int
  ornt : Option OrntIn
  deriving DecidableEq, Repr

/-- domain.py:527-533 -/
def joinOrnt (dim : Nat) (o : Option OrntIn) : Except Err Ornt :=
  if dim == 1 then .ok .none
  else if dim == 2 then
    match o with
    | none => .ok (.int 1)
    | some (.int v) => .ok (.int v)
    | some (.seq l) => .ok (.tup l)
  else if dim == 3 then
    match o with
    | none => .ok (.tup [1, 1, 1])
    | some (.int _) => .error .typeError                 -- `cn[2][0]` on an int
    | some (.seq (a :: b :: c :: _)) => .ok (.tup [a, b, c])
    | some (.seq _) => .error .indexError
  else .error .unboundLocalError                         -- `ornt` is never assigned for dim >= 4

/-- `Boundary.join` → `Interface.__new__` (basic.py:318-334, :437-457) -/
def mkIface (m p : Face) (o : Ornt) : Except Err Iface :=
  if m.axis != p.axis then .error .assertionError         -- basic.py:453
  else .ok ⟨m.patch.name ++ "|" ++ p.patch.name, m, p, o⟩

/-- `interfaces[name] = interface` on an insertion-ordered dict -/
def dictSet (d : List (String × Iface)) (k : String) (v : Iface) : List (String × Iface) :=
  if d.any (fun e => e.1 == k) then d.map (fun e => if e.1 == k then (k, v) else e)
  else d ++ [(k, v)]

abbrev JState := List (String × Iface) × List Face

/-- one turn of the loop domain.py:518-541 -/
def joinStep (patches : List Dom) (dim : Nat) (st : JState) (cn : Conn) : Except Err JState := do
  let pm ← match patches[cn.mi]? with | some p => .ok p | none => .error Err.indexError
  let pp ← match patches[cn.pi]? with | some p => .ok p | none => .error Err.indexError
  let bm ← getBoundary pm cn.maxis cn.mext
  let bp ← getBoundary pp cn.paxis cn.pext
  let o ← joinOrnt dim cn.ornt
  let i ← mkIface bm bp o
  let i ← if st.1.any (fun e => e.1 == i.name) then mkIface bp bm o else .ok i   -- :536-537
  .ok (dictSet st.1 i.name i, st.2 ++ [bm, bp])

def joinLoop (patches : List Dom) (dim : Nat) : JState → List Conn → Except Err JState
  | st, [] => .ok st
  | st, cn :: cs => do
      let st' ← joinStep patches dim st cn
      joinLoop patches dim st' cs

/-- `Domain.join(patches, connectivity, name)` (domain.py:417-585), patches given by index -/
def join (patches : List Dom) (conns : List Conn) (name : String) : Except Err Dom :=
  match patches with
  | [] => .error .indexError                                          -- `patches[0]` (:510)
  | [p] => if conns.length == 0 then .ok p else .error .assertionError -- :504-507
  | p0 :: _ =>
    if !(patches.all (fun p => p.dim == p0.dim)) then .error .assertionError   -- :509
    else do
      let st ← joinLoop patches p0.dim ([], []) conns
      -- :548-563  external boundary = all faces of all patches that are in no interface
      let allB := patches.flatMap (fun p => p.boundary)
      let ext := canon Face.str (allB.filter (fun b => b ∉ st.2))      -- `Union(*[...])`
      -- :566  `Union(*[p.interior for p in patches])`
      let ints := canon Patch.name (patches.flatMap (fun p => p.interiors))
      match ints with
      | i0 :: _ :: _ =>
          -- `Domain.__new__` (domain.py:131-160) applies `Union` once more to both
          .ok ⟨name, i0.dim, canon Patch.name ints, canon Face.str ext, st.1⟩
      | _ => .error .typeError        -- :568 iterating a single InteriorDomain

/-! ### the dictionary written to / read from the file -/

/-- `Boundary.todict()` -/
structure FaceD where
  axis : Nat          -- str(axis), read back with int()
  ext : Int           -- str(ext),  read back with int()
  name : String
  patch : String
  mapping : String
  deriving DecidableEq, Repr

/-- `InteriorDomain.todict()` -/
structure IntD where
  name : String
  mapping : String
  deriving DecidableEq, Repr

/-- a dict (single object) or a list of dicts (Union) -/
inductive Many (α : Type) where
  | one (a : α)
  | many (l : List α)
  deriving DecidableEq, Repr

/-- `[minus, plus]` or `[minus, plus, ornt]` -/
structure ConnD where
  minus : FaceD
  plus : FaceD
  ornt : Ornt
  deriving DecidableEq, Repr

structure DomD where
  name : String
  dim : Nat           -- str(dim), read back with int()
  dtype : Many DType
  interior : Many IntD
  boundary : Many FaceD
  connectivity : List (String × ConnD)
  deriving DecidableEq, Repr

def mappingStr : Option String → String
  | none => "None"
  | some m => m

/-- basic.py:346-354 -/
def Face.todict (f : Face) : FaceD :=
  ⟨f.axis, f.ext, gammaName f.axis f.ext, f.patch.lname, mappingStr f.patch.mapping⟩

/-- basic.py:105-107 -/
def Patch.todict (p : Patch) : IntD := ⟨p.lname, mappingStr p.mapping⟩

/-- basic.py:533-551 -/
def connTodict (c : List (String × Iface)) : List (String × ConnD) :=
  (sortBy (fun e => e.1) c).map (fun e => (e.1, ⟨e.2.minus.todict, e.2.plus.todict, e.2.ornt⟩))

/-- `Domain.todict()` (domain.py:308-327) -/
def toDict (d : Dom) : Except Err DomD :=
  match d.interiors with
  | [] => .error .attributeError
  | [p] =>
      .ok ⟨d.name, d.dim, .one p.dtype, .one p.todict,
        (match d.boundary with | [b] => .one b.todict | bs => .many (bs.map Face.todict)),
        connTodict d.conn⟩
  | ps =>
      .ok ⟨d.name, d.dim, .many (ps.map (·.dtype)), .many (ps.map Patch.todict),
        (match d.boundary with | [b] => .one b.todict | bs => .many (bs.map Face.todict)),
        connTodict d.conn⟩

/-- index of the last entry with the given key (a dict comprehension keeps the last) -/
def lastIndex : List (String × String) → String × String → Option Nat
  | [], _ => none
  | x :: xs, k =>
      match lastIndex xs k with
      | some i => some (i + 1)
      | none => if x = k then some 0 else none

def orntIn : Ornt → Option OrntIn
  | .none => none
  | .int v => some (.int v)
  | .tup l => some (.seq l)

def lookupPatch (keys : List (String × String)) (f : FaceD) : Except Err Nat :=
  match lastIndex keys (f.patch, f.mapping) with
  | some i => .ok i
  | none => .error .keyError

def readBoundary (keys : List (String × String)) (doms : List Dom) : List FaceD → Except Err Unit
  | [] => .ok ()
  | bd :: rest => do
      let i ← lookupPatch keys bd
      let d ← match doms[i]? with | some d => .ok d | none => .error Err.indexError
      let _ ← getBoundary d bd.axis bd.ext
      readBoundary keys doms rest

def readConn (keys : List (String × String)) : List (String × ConnD) → Except Err (List Conn)
  | [] => .ok []
  | (_, c) :: rest => do
      let mi ← lookupPatch keys c.minus
      let pi ← lookupPatch keys c.plus
      let cs ← readConn keys rest
      .ok (⟨mi, c.minus.axis, c.minus.ext, pi, c.plus.axis, c.plus.ext, orntIn c.ornt⟩ :: cs)

def constructAll : List (IntD × DType) → Except Err (List Patch)
  | [] => .ok []
  | (i, dt) :: rest => do
      let p ← construct i.name dt
      let ps ← constructAll rest
      .ok (p :: ps)

/-- `Domain.from_file` after the YAML has been loaded (domain.py:363-414) -/
def fromDict (y : DomD) : Except Err Dom := do
  let (ints, dts) ← match y.interior, y.dtype with
    | .one i, .one dt => Except.ok ([i], [dt])            -- :374-376
    | .many is, .many dts => .ok (is, dts)
    | _, _ => .error Err.typeError                       -- `dt['type']` on a list / a key string
  let pats ← constructAll (ints.zip dts)                 -- :378-379
  let doms := (pats.zip ints).map (fun (p, i) =>         -- :380-381
    patchDom (if i.mapping != "None" then { p with mapping := some i.mapping } else p))
  let keys := ints.map (fun i => (i.name, i.mapping))    -- :384
  match y.boundary with                                  -- :387-393
  | .one _ => .error Err.typeError                       -- iterating a dict gives its keys
  | .many bs => readBoundary keys doms bs
  let conns ← readConn keys y.connectivity               -- :395-415
  match doms with
  | [d] => .ok d                                         -- :417-418
  | _ => join doms conns y.name

/-- the re-read domain differs from the exported one at most in the insertion order of the
    connectivity dictionary (sorted by key on the way through the file) -/
def Dom.normalize (d : Dom) : Dom := { d with conn := sortBy (fun e => e.1) d.conn }

/-! ### the exportable domains

  `Exportable d` singles out the `Dom` values that are single NCube patches (plain or mapped) or
  well-formed multi-patch domains as `Domain.join` builds them: valid patches sorted by name,
  a connectivity whose keys are the interface names `minus|plus`, whose faces are faces of the
  patches with one common axis and an orientation of the shape `join` gives in this dimension,
  and an external boundary consisting of all faces that are in no interface.  It is a computable
  check, evaluated by the correspondence run on every real domain that is exported. -/

instance {α : Type} [DecidableEq α] : DecidableEq (Except Err α) := fun a b =>
  match a, b with
  | .ok x, .ok y => if h : x = y then isTrue (by rw [h]) else isFalse (fun e => h (by cases e; rfl))
  | .error x, .error y => if h : x = y then isTrue (by rw [h]) else isFalse (fun e => h (by cases e; rfl))
  | .ok _, .error _ => isFalse (fun e => by cases e)
  | .error _, .ok _ => isFalse (fun e => by cases e)

def validPatchB (p : Patch) : Bool :=
  decide (construct p.lname p.dtype = .ok { p with mapping := none }) && decide (p.mapping ≠ some "None")

def strictSortedB {α : Type} (key : α → String) : List α → Bool
  | [] => true
  | [_] => true
  | a :: b :: t => decide (key a < key b) && strictSortedB key (b :: t)

def nodupB : List String → Bool
  | [] => true
  | a :: t => decide (a ∉ t) && nodupB t

def faceOKB (d : Dom) (f : Face) : Bool :=
  decide (f.patch ∈ d.interiors) && decide (f.axis < f.patch.dim) && (f.ext == -1 || f.ext == 1)

def ifaceFaces (e : String × Iface) : List Face := [e.2.minus, e.2.plus]

def ifaceOKB (d : Dom) (e : String × Iface) : Bool :=
  decide (e.1 = e.2.name) && decide (e.2.name = e.2.minus.patch.name ++ "|" ++ e.2.plus.patch.name)
    && faceOKB d e.2.minus && faceOKB d e.2.plus && decide (e.2.minus.axis = e.2.plus.axis)
    && decide (joinOrnt d.dim (orntIn e.2.ornt) = .ok e.2.ornt)

/-- all faces of all patches, as `join` collects them -/
def allFaces (ps : List Patch) : List Face := ps.flatMap (fun p => canon Face.str (facesOf p))

def multiOKB (d : Dom) : Bool :=
  d.interiors.all validPatchB && decide (2 ≤ d.interiors.length)
    && strictSortedB Patch.name d.interiors && d.interiors.all (fun p => p.dim == d.dim)
    && nodupB (d.conn.map (·.1)) && d.conn.all (ifaceOKB d)
    && decide (d.boundary = canon Face.str ((allFaces d.interiors).filter
          (fun b => b ∉ d.conn.flatMap ifaceFaces)))
    && decide (d.boundary.length ≠ 1)     -- a single Boundary is written as a dict, which from_file cannot read

def exportableB (d : Dom) : Bool :=
  match d.interiors with
  | [p] => validPatchB p && decide (d = patchDom p)
  | _ => multiOKB d

/-! ### S-expression I/O -/

def coordOfSexp : Sexp → Option Coord
  | .list [p, q] => do some (← p.toInt?, ← q.toNat?)
  | _ => none

def coordToSexp (c : Coord) : Sexp := .list [Sexp.ofInt c.1, Sexp.ofNat c.2]

def bndOfSexp : Sexp → Option (Coord × Coord)
  | .list [a, b] => do some (← coordOfSexp a, ← coordOfSexp b)
  | _ => none

def bndToSexp (b : Coord × Coord) : Sexp := .list [coordToSexp b.1, coordToSexp b.2]

def dtypeOfSexp : Sexp → Option DType
  | .list [.atom "Line", b] => do some (.line (← bndOfSexp b))
  | .list [.atom "Square", b1, b2] => do some (.square (← bndOfSexp b1) (← bndOfSexp b2))
  | .list [.atom "Cube", b1, b2, b3] => do some (.cube (← bndOfSexp b1) (← bndOfSexp b2) (← bndOfSexp b3))
  | .list [.atom "NCube", d, .list mins, .list maxs] => do
      some (.ncube (← d.toNat?) (← mins.mapM coordOfSexp) (← maxs.mapM coordOfSexp))
  | _ => none

def dtypeToSexp : DType → Sexp
  | .line b => .list [.atom "Line", bndToSexp b]
  | .square b1 b2 => .list [.atom "Square", bndToSexp b1, bndToSexp b2]
  | .cube b1 b2 b3 => .list [.atom "Cube", bndToSexp b1, bndToSexp b2, bndToSexp b3]
  | .ncube d mins maxs => .list [.atom "NCube", Sexp.ofNat d, .list (mins.map coordToSexp), .list (maxs.map coordToSexp)]

def optStrOfSexp : Sexp → Option (Option String)
  | .atom "None" => some none
  | .str s => some (some s)
  | _ => none

def optStrToSexp : Option String → Sexp
  | none => .atom "None"
  | some s => .str s

def patchOfSexp : Sexp → Option Patch
  | .list [.atom "patch", .str n, d, dt, m] => do
      some ⟨n, ← d.toNat?, ← dtypeOfSexp dt, ← optStrOfSexp m⟩
  | _ => none

def patchToSexp (p : Patch) : Sexp :=
  .list [.atom "patch", .str p.lname, Sexp.ofNat p.dim, dtypeToSexp p.dtype, optStrToSexp p.mapping]

def faceOfSexp : Sexp → Option Face
  | .list [.atom "face", p, a, e] => do some ⟨← patchOfSexp p, ← a.toNat?, ← e.toInt?⟩
  | _ => none

def faceToSexp (f : Face) : Sexp :=
  .list [.atom "face", patchToSexp f.patch, Sexp.ofNat f.axis, Sexp.ofInt f.ext]

def orntOfSexp : Sexp → Option Ornt
  | .atom "None" => some .none
  | .list [.atom "int", v] => do some (.int (← v.toInt?))
  | .list (.atom "tup" :: vs) => do some (.tup (← vs.mapM Sexp.toInt?))
  | _ => none

def orntToSexp : Ornt → Sexp
  | .none => .atom "None"
  | .int v => .list [.atom "int", Sexp.ofInt v]
  | .tup l => .list (.atom "tup" :: l.map Sexp.ofInt)

def ifaceOfSexp : Sexp → Option (String × Iface)
  | .list [.atom "iface", .str k, .str n, m, p, o] => do
      some (k, ⟨n, ← faceOfSexp m, ← faceOfSexp p, ← orntOfSexp o⟩)
  | _ => none

def ifaceToSexp (e : String × Iface) : Sexp :=
  .list [.atom "iface", .str e.1, .str e.2.name, faceToSexp e.2.minus, faceToSexp e.2.plus, orntToSexp e.2.ornt]

def domOfSexp : Sexp → Option Dom
  | .list [.atom "dom", .str n, d, .list ps, .list fs, .list cs] => do
      some ⟨n, ← d.toNat?, ← ps.mapM patchOfSexp, ← fs.mapM faceOfSexp, ← cs.mapM ifaceOfSexp⟩
  | _ => none

def domToSexp (d : Dom) : Sexp :=
  .list [.atom "dom", .str d.name, Sexp.ofNat d.dim, .list (d.interiors.map patchToSexp),
    .list (d.boundary.map faceToSexp), .list (d.conn.map ifaceToSexp)]

def faceDOfSexp : Sexp → Option FaceD
  | .list [.atom "fd", a, e, .str n, .str p, .str m] => do some ⟨← a.toNat?, ← e.toInt?, n, p, m⟩
  | _ => none

def faceDToSexp (f : FaceD) : Sexp :=
  .list [.atom "fd", Sexp.ofNat f.axis, Sexp.ofInt f.ext, .str f.name, .str f.patch, .str f.mapping]

def intDOfSexp : Sexp → Option IntD
  | .list [.atom "id", .str n, .str m] => some ⟨n, m⟩
  | _ => none

def intDToSexp (i : IntD) : Sexp := .list [.atom "id", .str i.name, .str i.mapping]

def manyOfSexp {α : Type} (f : Sexp → Option α) : Sexp → Option (Many α)
  | .list [.atom "one", a] => do some (.one (← f a))
  | .list (.atom "many" :: l) => do some (.many (← l.mapM f))
  | _ => none

def manyToSexp {α : Type} (f : α → Sexp) : Many α → Sexp
  | .one a => .list [.atom "one", f a]
  | .many l => .list (.atom "many" :: l.map f)

def connDOfSexp : Sexp → Option (String × ConnD)
  | .list [.atom "cd", .str k, m, p, o] => do
      some (k, ⟨← faceDOfSexp m, ← faceDOfSexp p, ← orntOfSexp o⟩)
  | _ => none

def connDToSexp (e : String × ConnD) : Sexp :=
  .list [.atom "cd", .str e.1, faceDToSexp e.2.minus, faceDToSexp e.2.plus, orntToSexp e.2.ornt]

def domDOfSexp : Sexp → Option DomD
  | .list [.atom "dict", .str n, d, dt, i, b, .list cs] => do
      some ⟨n, ← d.toNat?, ← manyOfSexp dtypeOfSexp dt, ← manyOfSexp intDOfSexp i,
        ← manyOfSexp faceDOfSexp b, ← cs.mapM connDOfSexp⟩
  | _ => none

def domDToSexp (y : DomD) : Sexp :=
  .list [.atom "dict", .str y.name, Sexp.ofNat y.dim, manyToSexp dtypeToSexp y.dtype,
    manyToSexp intDToSexp y.interior, manyToSexp faceDToSexp y.boundary,
    .list (y.connectivity.map connDToSexp)]

def connOfSexp : Sexp → Option Conn
  | .list [.atom "cn", mi, ma, me, pi, pa, pe, o] => do
      let oi ← match o with
        | .atom "None" => some none
        | .list [.atom "int", v] => do some (some (OrntIn.int (← v.toInt?)))
        | .list (.atom "seq" :: vs) => do some (some (OrntIn.seq (← vs.mapM Sexp.toInt?)))
        | _ => none
      some ⟨← mi.toNat?, ← ma.toNat?, ← me.toInt?, ← pi.toNat?, ← pa.toNat?, ← pe.toInt?, oi⟩
  | _ => none

def exceptToString {α : Type} (f : α → Sexp) : Except Err α → String
  | .ok a => "ok " ++ toString (f a)
  | .error e => "err " ++ e.toString

/-- one request line → one response line -/
def handle (args : List Sexp) : String :=
  match args with
  | [.atom "new", .str n, d, .list mins, .list maxs] =>
      match d.toNat?, mins.mapM coordOfSexp, maxs.mapM coordOfSexp with
      | some d, some mins, some maxs => exceptToString patchToSexp (ncubeNew n d mins maxs)
      | _, _, _ => "bad-op"
  | [.atom "patchdom", p] =>
      match patchOfSexp p with
      | some p => "ok " ++ toString (domToSexp (patchDom p))
      | none => "bad-op"
  | [.atom "join", .list ps, .list cs, .str n] =>
      match ps.mapM domOfSexp, cs.mapM connOfSexp with
      | some ps, some cs => exceptToString domToSexp (join ps cs n)
      | _, _ => "bad-op"
  | [.atom "todict", d] =>
      match domOfSexp d with
      | some d => exceptToString domDToSexp (toDict d)
      | none => "bad-op"
  | [.atom "fromdict", y] =>
      match domDOfSexp y with
      | some y => exceptToString domToSexp (fromDict y)
      | none => "bad-op"
  | [.atom "exportable", d] =>
      match domOfSexp d with
      | some d => "ok " ++ toString (Sexp.ofBool (exportableB d))
      | none => "bad-op"
  | [.atom "roundtrip", d] =>
      match domOfSexp d with
      | some d => exceptToString domToSexp (toDict d >>= fromDict)
      | none => "bad-op"
  | _ => "bad-op"

end Export
end Sympde
