/-
  Model of the expression branches of `TerminalExpr.eval` (sympde/expr/evaluation.py:522-831):
  lowering of generic vector-calculus expressions to partial-derivative form.  The
  dimension-specific component formulas are NOT written here: they come from the table
  `Gen.leafTable`, regenerated from the current source on every run (T1, DESIGN.md section 3).
  Core Lean only.
-/
import SympdeModel.Model.PDeriv
import SympdeModel.Gen.Leaf
namespace Sympde
namespace Lower
open E

/-- signature of a lowered argument, as the leaf classes distinguish them -/
def sigOf (d : Nat) : E → Option Char
  | mat r c _ => if c == 1 && r == d then some 'v' else if r == d && c == d then some 'm' else none
  | tup as => if as.length == d then some 't' else none
  | pd _ _ => if d == 1 then some 'd' else some 's'
  | _ => some 's'

def lookup (cname sigs : String) : Option Gen.LeafOut :=
  (Gen.leafTable.find? (fun r => r.1 == cname && r.2.1 == sigs)).map (·.2.2)

/-- does the catalogue know the class at all (a missing class is a `NameError` in `eval(...)`) -/
def classKnown (cname : String) : Bool :=
  Gen.leafTable.any (fun r => r.1 == cname && (match r.2.2 with | .absent => false | _ => true))

def nth (es : List E) (n : Nat) : E := es.getD n zero

/-- binding of the placeholder atoms of argument `k` to the components of the lowered argument -/
def bindArg (d k : Nat) (a : E) : List (String × E) :=
  let p := "@" ++ toString k
  match a with
  | mat r c es =>
      if c == 1 then (List.range r).map (fun i => (p ++ "_" ++ toString i, nth es i))
      else (List.range r).flatMap (fun i => (List.range c).map (fun j =>
              (p ++ "_" ++ toString i ++ "_" ++ toString j, nth es (i * c + j))))
  | tup as => (List.range as.length).map (fun i => (p ++ "_" ++ toString i, nth as i))
  | e => [(p, e)] ++ (if d == 1 then [] else [])

def findBind (σ : List (String × E)) (n : String) : Option E :=
  (σ.find? (fun p => p.1 == n)).map (·.2)

mutual
/-- instantiate a leaf formula: placeholders are replaced by the argument components and every
    derivative node is *evaluated* (the real code calls `dx(...)` on the actual component) -/
def inst (d : Nat) (σ : List (String × E)) : E → Except Err E
  | sf n k => .ok ((findBind σ n).getD (sf n k))
  | pd c a => do
      let a' ← inst d σ a
      PD.dEval d c a'
  | add as => do .ok (add (← instList d σ as))
  | mul as => do .ok (mul (← instList d σ as))
  | mat r c es => do .ok (mat r c (← instList d σ es))
  | tup as => do .ok (tup (← instList d σ as))
  | e => .ok e
def instList (d : Nat) (σ : List (String × E)) : List E → Except Err (List E)
  | [] => .ok []
  | a :: as => do
      let r ← inst d σ a
      let rs ← instList d σ as
      .ok (r :: rs)
end

def excOfName : String → Err
  | "NotImplementedError" => .notImplemented
  | "TypeError" => .typeError
  | "ValueError" => .valueError
  | "NameError" => .nameError
  | "IndexError" => .indexError
  | "AttributeError" => .attributeError
  | _ => .other

/-- apply the dimension-specific class `cname` to already lowered arguments -/
def applyLeaf (d : Nat) (cname : String) (args : List E) : Except Err E :=
  if !classKnown cname then .error .nameError
  else
    match args.mapM (sigOf d) with
    | none => .error .other          -- an argument shape outside the modelled ones
    | some sigs =>
      match lookup cname (String.ofList sigs) with
      | some (.formula f) =>
          let σ := (args.zipIdx.flatMap (fun (a, k) => bindArg d k a))
          inst d σ f
      | some (.raises exc) => .error (excOfName exc)
      | some .absent => .error .nameError
      | none => .error .other

def isMat : E → Bool
  | mat _ _ _ => true
  | _ => false

/-- sympy `a + b` on lowered values -/
def addV (a b : E) : Except Err E :=
  match a, b with
  | mat r c es, mat r' c' es' =>
      if r == r' && c == c' then .ok (mat r c ((es.zip es').map (fun p => add [p.1, p.2])))
      else .error .other             -- ShapeError
  -- a 1x1 matrix and a scalar (1D: F -> [[F[0]]], grad(h) -> dx(h)): the scalar is wrapped into a
  -- 1x1 matrix (evaluation.py, `Add` branch, after the `fix:` commit); other shapes: TypeError
  | mat r c es, s =>
      (match s with
       | tup _ => .error .typeError
       | _ => if r == 1 && c == 1 then .ok (mat 1 1 ((es.zip [s]).map (fun p => add [p.1, p.2])))
              else .error .typeError)
  | s, mat r c es =>
      (match s with
       | tup _ => .error .typeError
       | _ => if r == 1 && c == 1 then .ok (mat 1 1 (([s].zip es).map (fun p => add [p.1, p.2])))
              else .error .typeError)
  | tup _, _ => .error .other
  | _, tup _ => .error .other
  | a, b => .ok (add [a, b])

def dotRowCol (row col : List E) : E := add ((row.zip col).map (fun p => mul [p.1, p.2]))

def rowOf (c : Nat) (es : List E) (i : Nat) : List E := (List.range c).map (fun j => nth es (i * c + j))
def colOf (r c : Nat) (es : List E) (j : Nat) : List E := (List.range r).map (fun i => nth es (i * c + j))

/-- sympy `a * b` on lowered values: scalar·scalar, scalar·matrix (entry-wise), matrix product -/
def mulV (a b : E) : Except Err E :=
  match a, b with
  | mat r c es, mat r' c' es' =>
      if c == r' then
        .ok (mat r c' ((List.range r).flatMap (fun i => (List.range c').map (fun j =>
              dotRowCol (rowOf c es i) (colOf r' c' es' j)))))
      else .error .other             -- ShapeError
  | mat r c es, s => if isMat s then .error .other else
      (match s with
       | tup _ => .error .other
       | _ => .ok (mat r c (es.map (fun e => mul [e, s]))))
  | s, mat r c es =>
      (match s with
       | tup _ => .error .other
       | _ => .ok (mat r c (es.map (fun e => mul [s, e]))))
  | tup _, _ => .error .other
  | _, tup _ => .error .other
  | a, b => .ok (mul [a, b])

def foldV (f : E → E → Except Err E) : List E → Except Err E
  | [] => .error .indexError         -- `args[0]` of an empty argument list
  | a :: as => as.foldlM f a

def op1Class : Op1 → Option String
  | .grad => some "Grad" | .curl => some "Curl" | .rot => some "Rot" | .div => some "Div"
  | .laplace => some "Laplace" | .hessian => some "Hessian" | _ => none

mutual
/-- `TerminalExpr.eval(expr, domain)` for an expression, in dimension `d`; `lg` = the domain
    has no mapping (logical operators and coordinates are used) -/
def lower (d : Nat) (lg : Bool) : E → Except Err E
  | add as => do foldV addV (← lowerList d lg as)
  | mul as => do foldV mulV (← lowerList d lg as)
  | pow b e => do
      let b' ← lower d lg b
      let e' ← lower d lg e
      if isMat b' || isMat e' then .error .other else .ok (pow b' e')
  | fn f a => do .ok (fn f (← lower d lg a))   -- elementary functions lower their argument (`fix:` commit)
  | sf s k => .ok (sf s k)
  | vf s k => .ok (mat d 1 ((List.range d).map (fun i => idx (vf s k) i)))
  | op1 .minus a => do .ok (op1 .minus (← lower d lg a))
  | op1 .plus a => do .ok (op1 .plus (← lower d lg a))
  | op1 o a =>
      match op1Class o with
      | some cn => do
          let a' ← lower d lg a
          applyLeaf d ((if lg then "Logical" else "") ++ cn ++ "_" ++ toString d ++ "d") [a']
      | none => .ok (op1 o a)
  | op2 .bracket a b => do
      let a' ← lower d lg a
      let b' ← lower d lg b
      applyLeaf d ((if lg then "Logical" else "") ++ "Bracket_" ++ toString d ++ "d") [a', b']
  | op2 o a b => do
      let a' ← lower d lg a
      let b' ← lower d lg b
      applyLeaf d (Op2.name o ++ "_" ++ toString d ++ "d") [a', b']
  | mat r c es => do .ok (mat r c (← lowerList d lg es))
  | e => .ok e
def lowerList (d : Nat) (lg : Bool) : List E → Except Err (List E)
  | [] => .ok []
  | a :: as => do
      let r ← lower d lg a
      let rs ← lowerList d lg as
      .ok (r :: rs)
end

def handle (args : List Sexp) : String :=
  match args with
  | [.atom "lower", dim, lg, e] =>
      match dim.toNat?, lg.toBool?, E.ofSexp e with
      | some d, some lg, some e =>
          match lower d lg e with
          | .ok r => "ok " ++ toString (E.toSexp r)
          | .error err => "err " ++ err.name
      | _, _, _ => "bad-op"
  | _ => "bad-op"

end Lower
end Sympde
