/-
  Model of `linearize` (sympde/expr/expr.py:675-739) on one integrand: the first-order
  coefficient in ε of `g(u + ε du)`, i.e. the formal directional (Gateaux) derivative of the
  integrand with respect to the field(s) in the direction(s) du — what
  `((g1-g0)/eps).expand().series(eps, 0, 2).subs(eps, 0)` computes.  Generic operators are
  linear / bilinear, derivatives commute with the directional derivative.  Core Lean only.
-/
import SympdeModel.Model.PDeriv
namespace Sympde
namespace Lin
open E

/-- fields and their directions: (field name, direction name); scalar and vector fields share
    the table (a name is a scalar or a vector function, never both) -/
abbrev Dirs := List (String × String)

def dirOf (ds : Dirs) (n : String) : Option String := (ds.find? (fun p => p.1 == n)).map (·.2)

mutual
/-- does the expression mention one of the fields? -/
def hasField (ds : Dirs) : E → Bool
  | sf n _ => (dirOf ds n).isSome
  | vf n _ => (dirOf ds n).isSome
  | idx b _ => hasField ds b
  | add as => hasFieldList ds as
  | mul as => hasFieldList ds as
  | pow b e => hasField ds b || hasField ds e
  | fn _ a => hasField ds a
  | pd _ a => hasField ds a
  | op1 _ a => hasField ds a
  | op2 _ a b => hasField ds a || hasField ds b
  | mat _ _ es => hasFieldList ds es
  | tup as => hasFieldList ds as
  | other _ as => hasFieldList ds as
  | _ => false
def hasFieldList (ds : Dirs) : List E → Bool
  | [] => false
  | a :: as => hasField ds a || hasFieldList ds as
end

/-- Σ_k a_0 … a_k' … a_n  (n-ary Leibniz rule on (factor, derivative) pairs) -/
def leibniz : List E → List (E × E) → List E
  | _, [] => []
  | pre, (f, df) :: rest => mul (pre ++ [df] ++ rest.map (·.1)) :: leibniz (pre ++ [f]) rest

mutual
/-- the Gateaux derivative of an integrand -/
def gd (ds : Dirs) : E → E
  | sf n k => match dirOf ds n with | some d => sf d k | none => zero
  | vf n k => match dirOf ds n with | some d => vf d k | none => zero
  | idx b i => if hasField ds b then idx (gd ds b) i else zero
  | add as => add (gdList ds as)
  | mul as => add (leibniz [] (as.zip (gdList ds as)))
  | pow b e =>
      match PD.intLit e with
      | some n => mul [num n 1, pow b (num (n - 1) 1), gd ds b]
      | none => PD.powRule b e (gd ds b) (gd ds e)
  | fn f a => mul [PD.fnDeriv f a, gd ds a]
  | pd c a => pd c (gd ds a)
  | op1 o a => if hasField ds a then op1 o (gd ds a) else zero   -- linear operators
  | op2 o a b =>                                                  -- bilinear operators
      add [if hasField ds a then op2 o (gd ds a) b else zero,
           if hasField ds b then op2 o a (gd ds b) else zero]
  | mat r c es => mat r c (gdList ds es)
  | tup as => tup (gdList ds as)
  | _ => zero
def gdList (ds : Dirs) : List E → List E
  | [] => []
  | a :: as => gd ds a :: gdList ds as
end

def dirsOfSexp : Sexp → Option Dirs
  | .list ps => ps.mapM (fun p => match p with
      | .list [.str a, .str b] => some (a, b)
      | _ => none)
  | _ => none

def handle (args : List Sexp) : String :=
  match args with
  | [.atom "gd", ds, e] =>
      match dirsOfSexp ds, E.ofSexp e with
      | some ds, some e => "ok " ++ toString (E.toSexp (gd ds e))
      | _, _ => "bad-op"
  | _ => "bad-op"

end Lin
end Sympde
