/-
  Model of the transformation of integrals to logical coordinates (C04):
  `LogicalExpr.eval`, Integral branch (sympde/topology/mapping.py 1211-1228), the lowering of
  `JacobianSymbol(mapping, axis)` (sympde/expr/evaluation.py 550-603: column deletion on a face,
  the 1×1 identity on the end point of a 1-D patch) and of `sqrt(det(JᵀJ))`, and the splitting of
  an integral over a multi-patch domain into one integral per patch, each with the patch's own
  mapping.  The integrand itself is transformed by the C03 model (`PB.logical`) for square
  mappings; on a surface (pdim > ldim) only derivative-free integrands are transformable
  (coordinates are replaced by the mapping components).  Core Lean only.
-/
import SympdeModel.Model.Pullback
namespace Sympde
namespace IM
open E PD PB

/-- rectangular Jacobian: `p` components, `l` logical directions -/
structure RJac where
  p : Nat
  l : Nat
  J : Nat → Nat → E

/-- the columns `JacobianSymbol(mapping, axis)` keeps: all of them for a domain integral,
    all but `axis` on a face -/
def keptCols (l : Nat) : Option Nat → List Nat
  | none => List.range l
  | some a => (List.range l).filter (fun k => k != a)

/-- entry of the Gram matrix JᵀJ of the columns `a`, `b` -/
def gramE (j : RJac) (a b : Nat) : E :=
  sum3 j.p (fun i => mul [j.J i a, j.J i b])

/-- determinant of the Gram matrix of the kept columns (1, 2 or 3 of them) -/
def detGram (j : RJac) : List Nat → E
  | [a] => gramE j a a
  | [a, b] => sub (mul [gramE j a a, gramE j b b]) (mul [gramE j a b, gramE j b a])
  | [a, b, c] =>
      add [mul [gramE j a a, sub (mul [gramE j b b, gramE j c c]) (mul [gramE j b c, gramE j c b])],
           neg (mul [gramE j a b, sub (mul [gramE j b a, gramE j c c]) (mul [gramE j b c, gramE j c a])]),
           mul [gramE j a c, sub (mul [gramE j b a, gramE j c b]) (mul [gramE j b b, gramE j c a])]]
  | _ => one

def half : E := num 1 2

/-- the volume / surface element `sqrt(det(JᵀJ))`; on the end point of a 1-D patch the
    implementation uses the 1×1 identity, i.e. the element 1 -/
def element (j : RJac) (axis : Option Nat) : E :=
  match axis, j.l with
  | some _, 1 => one
  | _, _ => pow (detGram j (keptCols j.l axis)) half

/-- Jacobian of a mapping given by `p` components in `l` logical directions -/
def rjacOf (name : String) (F : List E) (l : Nat) : Except Err RJac := do
  let rows ← F.mapM (fun f => (List.range l).mapM (fun k => ldiff name (lc k) f))
  .ok { p := F.length, l := l, J := fun i k => (rows.getD i []).getD k zero }

mutual
/-- derivative-free integrands on a surface: coordinates become mapping components -/
def substCoords (p : Nat) (F : Nat → E) : E → Except Err E
  | num a b => .ok (num a b)
  | cst s => .ok (cst s)
  | sym s =>
      match physIdx s with
      | some i => if i < p then .ok (F i) else .ok (sym s)
      | none => .ok (sym s)
  | sf s k => match k with
      | .h1 => .ok (sf s k)
      | .undef => .ok (sf s k)
      | _ => .error .notImplemented
  | add as => do .ok (add (← substCoordsList p F as))
  | mul as => do .ok (mul (← substCoordsList p F as))
  | pow b e => do .ok (pow (← substCoords p F b) (← substCoords p F e))
  | fn f a => do .ok (fn f (← substCoords p F a))
  | _ => .error .notImplemented
def substCoordsList (p : Nat) (F : Nat → E) : List E → Except Err (List E)
  | [] => .ok []
  | a :: as => do
      let r ← substCoords p F a
      let rs ← substCoordsList p F as
      .ok (r :: rs)
end

/-- a region of a patch: the interior (`none`) or the face (axis, ext) -/
structure Region where
  patch : String
  face : Option (Nat × Int)
  deriving Repr, BEq, DecidableEq

/-- the logical counterpart: the same patch (by its logical name), the same axis and side -/
def Region.logical (r : Region) (logicalName : String) : Region := { patch := logicalName, face := r.face }

/-- one patch: logical name, mapping name, components, logical dimension -/
structure Patch where
  lname : String
  mname : String
  F : List E
  l : Nat

/-- the transformed integrand: the C03 model for a square mapping, substitution of the coordinates
    on a surface -/
def bodyOf (P : Patch) (body : E) : Except Err E :=
  let comp (i : Nat) : E := P.F.getD i zero
  if P.F.length = P.l then do
    let j ← jacOf { name := P.mname, d := P.l, F := P.F }
    logical P.mname j comp body
  else substCoords P.F.length comp body

/-- `LogicalExpr(Integral(body, region))` lowered: the logical region and the kernel
    `logical(body) · sqrt(det(JᵀJ))` with the Jacobian of THIS patch restricted to the region -/
def transform (P : Patch) (face : Option (Nat × Int)) (body : E) : Except Err (Option (Nat × Int) × E) := do
  let rj ← rjacOf P.mname P.F P.l
  let lb ← bodyOf P body
  .ok (face, mul [lb, element rj (face.map (·.1))])

/-- an integral over a multi-patch domain or a union of faces: one integral per member, each
    transformed with the mapping of the patch it lives on -/
def transformAll (patches : List Patch) (ints : List (Nat × Option (Nat × Int) × E)) :
    List (Except Err (String × Option (Nat × Int) × E)) :=
  ints.map (fun (pi, face, body) =>
    match patches[pi]? with
    | none => .error .indexError
    | some P => do
        let (f, k) ← transform P face body
        .ok (P.lname, f, k))

/-! ### driver -/

def parseFace : Sexp → Option (Option (Nat × Int))
  | .atom "interior" => some none
  | .list [.atom "face", a, e] => do some (some (← a.toNat?, ← e.toInt?))
  | _ => none

def showFace : Option (Nat × Int) → String
  | none => "interior"
  | some (a, e) => "(face " ++ toString a ++ " " ++ toString e ++ ")"

def parsePatch : Sexp → Option Patch
  | .list [.str ln, .str mn, l, .list comps] => do
      some { lname := ln, mname := mn, F := ← comps.mapM E.ofSexp, l := ← l.toNat? }
  | _ => none

def handle (args : List Sexp) : String :=
  match args with
  | [.atom "integral", patch, face, body] =>
      match parsePatch patch, parseFace face, E.ofSexp body with
      | some P, some f, some b =>
          if P.l = 0 ∨ P.l > 3 ∨ P.F.length > 3 ∨ P.F.length < P.l then "bad-op" else
          match transform P f b with
          | .ok (f', k) => "ok " ++ toString (Sexp.str P.lname) ++ " " ++ showFace f' ++ " " ++ toString (E.toSexp k)
          | .error err => "err " ++ err.name
      | _, _, _ => "bad-op"
  | [.atom "element", patch, face] =>
      match parsePatch patch, parseFace face with
      | some P, some f =>
          if P.l = 0 ∨ P.l > 3 ∨ P.F.length > 3 ∨ P.F.length < P.l then "bad-op" else
          match rjacOf P.mname P.F P.l with
          | .ok rj => "ok " ++ toString (E.toSexp (element rj (f.map (·.1))))
          | .error err => "err " ++ err.name
      | _, _ => "bad-op"
  | _ => "bad-op"

end IM
end Sympde
