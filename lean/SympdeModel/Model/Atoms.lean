/-
  Model of the derivative-atom bookkeeping (C17), over the shared expression AST:

  * sympde/topology/derivatives.py: `find_partial_derivatives`, `get_number_derivatives`,
    `sort_partial_derivatives`, `get_index_derivatives`, `get_index_logical_derivatives`,
    `get_atom_derivatives`, `get_atom_logical_derivatives`, `get_index_derivatives_atom`,
    `get_index_logical_derivatives_atom`, `get_max_partial_derivatives`,
    `get_max_logical_partial_derivatives`;
  * sympde/topology/mapping.py: `SymbolicExpr.eval`.

  Core Lean only.  The model is of the tree *after* the `fix:` commits of C17 (traversal of
  function arguments / exponents / matrices, chains mixing physical and logical derivatives,
  symbolic exponents); notes/C17.md lists what the unchanged tree did.
-/
import SympdeModel.Model.Expr
namespace Sympde
namespace Atoms
open E

/-! ### chains -/

/-- `get_atom_derivatives` (`logical = false`) / `get_atom_logical_derivatives` (`true`):
    strip the leading derivatives of one kind -/
def stripKind (logical : Bool) : E → E
  | pd c a => if c.logical == logical then stripKind logical a else pd c a
  | e => e

/-- `_get_atom_all_derivatives`: strip derivatives of both kinds -/
def stripAll : E → E
  | pd _ a => stripAll a
  | e => e

/-- `get_number_derivatives`: number of leading *physical* derivatives -/
def numD : E → Nat
  | pd c a => if c.logical then 0 else 1 + numD a
  | _ => 0

mutual
/-- number of `pd c` nodes anywhere in the tree (`preorder_traversal` in `get_index_derivatives`
    / `get_index_logical_derivatives`) -/
def countPd (c : Coord) : E → Nat
  | pd c' a => (if c' == c then 1 else 0) + countPd c a
  | add as => countPdList c as
  | mul as => countPdList c as
  | pow b e => countPd c b + countPd c e
  | fn _ a => countPd c a
  | idx b _ => countPd c b
  | op1 _ a => countPd c a
  | op2 _ a b => countPd c a + countPd c b
  | mat _ _ es => countPdList c es
  | tup as => countPdList c as
  | other _ as => countPdList c as
  | _ => 0
def countPdList (c : Coord) : List E → Nat
  | [] => 0
  | a :: as => countPd c a + countPdList c as
end

/-- the three directions of one kind -/
def dirs (logical : Bool) : List Coord := if logical then [.x1, .x2, .x3] else [.x, .y, .z]

/-- `get_index_derivatives(expr)` / `get_index_logical_derivatives(expr)` as a triple -/
def indexOf (logical : Bool) (e : E) : Nat × Nat × Nat :=
  (countPd (Coord.ofIdx logical 0) e, countPd (Coord.ofIdx logical 1) e, countPd (Coord.ofIdx logical 2) e)

mutual
/-- `find_partial_derivatives`: the outermost node of every derivative chain, anywhere -/
def findPd : E → List E
  | pd c a => [pd c a]
  | add as => findPdList as
  | mul as => findPdList as
  | pow b e => findPd b ++ findPd e
  | fn _ a => findPd a
  | idx b _ => findPd b
  | op1 _ a => findPd a
  | op2 _ a b => findPd a ++ findPd b
  | mat _ _ es => findPdList es
  | tup as => findPdList as
  | other _ as => findPdList as
  | _ => []
def findPdList : List E → List E
  | [] => []
  | a :: as => findPd a ++ findPdList as
end

/-- insertion into a list sorted from high to low, without duplicates -/
def insertDesc (k : Nat) : List Nat → List Nat
  | [] => [k]
  | x :: xs => if k == x then x :: xs else if x < k then k :: x :: xs else x :: insertDesc k xs

/-- `sort_partial_derivatives`: grouped by `get_number_derivatives`, high to low, each group in
    order of appearance -/
def sortPd (e : E) : List E :=
  let ops := findPd e
  let keys := (ops.map numD).foldl (fun acc k => insertDesc k acc) []
  keys.flatMap (fun k => ops.filter (fun a => numD a == k))

/-- a function, a vector function or a component of one -/
def isAtomLike : E → Bool
  | sf _ _ => true
  | vf _ _ => true
  | idx (vf _ _) _ => true
  | _ => false

/-- `a == atom` (sympy): functions and components compare by name (and, here, space kind: the
    harness keeps names unique), anything else structurally -/
def sameAtom : E → E → Bool
  | sf n k, sf n' k' => n == n' && k == k'
  | vf n k, vf n' k' => n == n' && k == k'
  | idx (vf n k) i, idx (vf n' k') i' => n == n' && k == k' && i == i'
  | a, b => if isAtomLike a || isAtomLike b then false else a == b

/-- `get_index_derivatives_atom(expr, atom)` / `get_index_logical_derivatives_atom` -/
def indexAtom (logical : Bool) (e atom : E) : List (Nat × Nat × Nat) :=
  ((sortPd e).filter (fun i => sameAtom (stripKind logical i) atom || sameAtom (stripAll i) atom)).map
    (indexOf logical)

mutual
/-- `expr.atoms(ScalarFunction) + expr.atoms(VectorFunction) + expr.atoms(IndexedVectorFunction)`
    (with repetitions, which a maximum does not see) -/
def funAtoms : E → List E
  | sf n k => [sf n k]
  | vf n k => [vf n k]
  | idx b i => idx b i :: funAtoms b
  | pd _ a => funAtoms a
  | add as => funAtomsList as
  | mul as => funAtomsList as
  | pow b e => funAtoms b ++ funAtoms e
  | fn _ a => funAtoms a
  | op1 _ a => funAtoms a
  | op2 _ a b => funAtoms a ++ funAtoms b
  | mat _ _ es => funAtomsList es
  | tup as => funAtomsList as
  | other _ as => funAtomsList as
  | _ => []
def funAtomsList : List E → List E
  | [] => []
  | a :: as => funAtoms a ++ funAtomsList as
end

def max3 (a b : Nat × Nat × Nat) : Nat × Nat × Nat := (max a.1 b.1, max a.2.1 b.2.1, max a.2.2 b.2.2)

/-- `get_max_partial_derivatives(expr, F)` / `get_max_logical_partial_derivatives(expr, F)` -/
def maxOrders (logical : Bool) (e : E) (F : Option E) : Nat × Nat × Nat :=
  let indices := match F with
    | none => (funAtoms e).flatMap (indexAtom logical e)
    | some f => indexAtom logical e f
  indices.foldl max3 (0, 0, 0)

/-! ### SymbolicExpr -/

/-- `k*n` for the three directions in sorted key order -/
def codeChars (logical : Bool) (n : Nat × Nat × Nat) : List Char :=
  if logical then
    (List.replicate n.1 ['x', '1']).flatten ++ (List.replicate n.2.1 ['x', '2']).flatten ++
      (List.replicate n.2.2 ['x', '3']).flatten
  else List.replicate n.1 'x' ++ List.replicate n.2.1 'y' ++ List.replicate n.2.2 'z'

/-- `'{code}_{outer}'.format(…) if outer else code` -/
def joinCode (own : List Char) (outer : Option (List Char)) : List Char :=
  match outer with
  | some o => if o.isEmpty then own else own ++ '_' :: o
  | none => own

/-- `'{name}_{code}'.format(…) if code else name` -/
def withCode (name : List Char) (code : Option (List Char)) : List Char :=
  match code with
  | some c => if c.isEmpty then name else name ++ '_' :: c
  | none => name

def incr (n : Nat × Nat × Nat) (c : Coord) : Nat × Nat × Nat :=
  match c.idx with
  | 0 => (n.1 + 1, n.2.1, n.2.2)
  | 1 => (n.1, n.2.1 + 1, n.2.2)
  | _ => (n.1, n.2.1, n.2.2 + 1)

/-- the code in force once the pending leading block (if any) is closed -/
def closeBlock (pend : Option (Bool × (Nat × Nat × Nat))) (outer : Option (List Char)) :
    Option (List Char) :=
  match pend with
  | none => outer
  | some (lg, n) => some (joinCode (codeChars lg n) outer)

mutual
/-- `SymbolicExpr.eval(expr, code=outer)`.  `pend` is the leading block of derivatives of one
    kind that is being stripped (`get_atom_(logical_)derivatives`) together with its counts
    (`get_index_…(expr) - get_index_…(atom)`); it is closed, i.e. turned into a code in front of
    `outer`, at the first node that is not a derivative of that kind. -/
def symbP (pend : Option (Bool × (Nat × Nat × Nat))) (outer : Option (List Char)) : E → Except Err E
  | pd c a =>
      match pend with
      | none => symbP (some (c.logical, incr (0, 0, 0) c)) outer a
      | some (lg, n) =>
          if c.logical == lg then symbP (some (lg, incr n c)) outer a
          else symbP (some (c.logical, incr (0, 0, 0) c)) (closeBlock pend outer) a
  | add as => (symbList (closeBlock pend outer) as).map add
  | mul as => (symbList (closeBlock pend outer) as).map mul
  | pow b e =>
      match symbP none (closeBlock pend outer) b, symbP none (closeBlock pend outer) e with
      | .ok b', .ok e' => .ok (pow b' e')
      | .error x, _ => .error x
      | _, .error x => .error x
  | num p q => .ok (num p q)
  | cst n => .ok (cst n)
  | tup as => (symbList (closeBlock pend outer) as).map tup
  | mat r c es => (symbList (closeBlock pend outer) es).map (mat r c)
  | sf n _ => .ok (sym (String.ofList (withCode n.toList (closeBlock pend outer))))
  | vf n _ => .ok (sym (String.ofList (withCode n.toList (closeBlock pend outer))))
  | op1 .minus a => symbP none (closeBlock pend outer) a
  | op1 .plus a => symbP none (closeBlock pend outer) a
  | idx (vf n _) i =>
      .ok (sym (String.ofList (withCode (n.toList ++ '_' :: Nat.toDigits 10 i) (closeBlock pend outer))))
  | sym n => .ok (sym n)
  | fn f a => (symbP none (closeBlock pend outer) a).map (fn f)
  | _ => .error .notImplemented
def symbList (code : Option (List Char)) : List E → Except Err (List E)
  | [] => .ok []
  | a :: as =>
      match symbP none code a, symbList code as with
      | .ok a', .ok as' => .ok (a' :: as')
      | .error x, _ => .error x
      | _, .error x => .error x
end

/-- `SymbolicExpr(expr)` -/
def symb (e : E) : Except Err E := symbP none none e

/-! ### the fragment on which the bookkeeping is exact -/

def isFunAtom : E → Bool
  | sf _ _ => true
  | idx (vf _ _) _ => true
  | _ => false

mutual
/-- every derivative chain is applied to a scalar function or a vector component (what
    `DifferentialOperator.eval` produces) -/
def canon : E → Bool
  | pd c a => isFunAtom (stripAll (pd c a))
  | add as => canonList as
  | mul as => canonList as
  | pow b e => canon b && canon e
  | fn _ a => canon a
  | idx b _ => canon b
  | op1 _ a => canon a
  | op2 _ a b => canon a && canon b
  | mat _ _ es => canonList es
  | tup as => canonList as
  | other _ as => canonList as
  | _ => true
def canonList : List E → Bool
  | [] => true
  | a :: as => canon a && canonList as
end

/-! ### S-expression I/O -/

def tripleToSexp (n : Nat × Nat × Nat) : Sexp :=
  .list [Sexp.ofNat n.1, Sexp.ofNat n.2.1, Sexp.ofNat n.2.2]

/-- one request line → one response line -/
def handle (args : List Sexp) : String :=
  match args with
  | [.atom "symb", e] =>
      match E.ofSexp e with
      | some e =>
          match symb e with
          | .ok r => "ok " ++ toString (E.toSexp r)
          | .error x => "err " ++ x.name
      | none => "bad-op"
  | [.atom "max", lg, e, f] =>
      match lg.toBool?, E.ofSexp e with
      | some lg, some e =>
          let F : Option (Option E) := match f with
            | .atom "None" => some none
            | s => (E.ofSexp s).map some
          match F with
          | some F => "ok " ++ toString (tripleToSexp (maxOrders lg e F))
          | none => "bad-op"
      | _, _ => "bad-op"
  | [.atom "index", lg, e, f] =>
      match lg.toBool?, E.ofSexp e, E.ofSexp f with
      | some lg, some e, some f => "ok " ++ toString (Sexp.list ((indexAtom lg e f).map tripleToSexp))
      | _, _, _ => "bad-op"
  | [.atom "find", e] =>
      match E.ofSexp e with
      | some e => "ok " ++ toString (Sexp.list ((sortPd e).map E.toSexp))
      | none => "bad-op"
  | [.atom "canon", e] =>
      match E.ofSexp e with
      | some e => "ok " ++ toString (Sexp.ofBool (canon e))
      | none => "bad-op"
  | _ => "bad-op"

end Atoms
end Sympde
