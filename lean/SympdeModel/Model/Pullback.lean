/-
  Model of the pull-back to logical coordinates (sympde/topology/mapping.py: `PullBack`
  680-734, `Jacobian`/`Covariant` 737-841, `LogicalExpr.eval` 905-1263) composed with the
  lowering of the result (`TerminalExpr` of `Jacobian`, `Inverse`, `Transpose`, determinant:
  sympde/expr/evaluation.py 550-632) on *terminal* expressions: the route
  `LogicalExpr(TerminalExpr(e, D), D)` of property C03.

  A mapping of a `d`-dimensional patch is given by its `d` components as expressions of the
  logical coordinates: `idx (vf M undef) i` for a symbolic mapping `M`, explicit expressions for
  an analytical one.  The model computes the Jacobian entries with its own (total, structural)
  logical differentiator `ldiff`, the determinant and the adjugate by the closed formulas for
  d = 1, 2, 3, and transcribes the rules of `LogicalExpr.eval`:

    coordinate symbol x_i      ->  F_i
    function of kind κ         ->  H1/undefined: û   L2: û/det   (components) Hcurl: (J⁻ᵀ û)_i
                                   Hdiv: (J û)_i/det
    dx_i(a)                    ->  Covariant(F, LogicalGrad(logical a))[i] = Σ_j (J⁻¹)_ji ∂̂_j(logical a)
    Add / Mul / Pow / Function ->  homomorphically

  The result is compared with the implementation as a rational function of the atoms (both are
  evaluated at random points), so the syntactic shape of sums and products is irrelevant.
  Core Lean only.
-/
import SympdeModel.Model.PDeriv
namespace Sympde
namespace PB
open E PD

/-- a mapping: name of the symbolic mapping object ("" for none), dimension, components -/
structure Mp where
  name : String
  d : Nat
  F : List E
  deriving Inhabited

def Mp.comp (M : Mp) (i : Nat) : E := M.F.getD i zero

def lc (j : Nat) : Coord := Coord.ofIdx true j

/-- the elementary functions of coordinate expressions the model differentiates (`PD.fnDeriv`;
    `log` is left out: its derivative needs a non-vanishing argument) -/
def knownFnB (f : String) : Bool :=
  f == "sin" || f == "cos" || f == "exp" || f == "sinh" || f == "cosh" || f == "tan"

/-- a rational, non-integer literal (the exponent of a square root) -/
def isRatLit : E → Bool
  | num _ q => q != 1
  | _ => false

/-- derivative of a power; `b^0` is the constant 1; a rational literal exponent uses
    `r·b'·b⁻¹·b^r` (no logarithm) -/
def ldiffPow (b e db de : E) : E :=
  if intLit e = some 0 then zero
  else if isRatLit e then mul [e, db, pow b (num (-1) 1), pow b e]
  else powRule b e db de

mutual
/-- does the expression contain a genuine field (a function that is not the mapping)? -/
def hasField (m : String) : E → Bool
  | sf _ _ => true
  | vf s _ => s != m
  | idx b _ => hasField m b
  | pd _ a => hasField m a
  | add as => hasFieldList m as
  | mul as => hasFieldList m as
  | pow b e => hasField m b || hasField m e
  | fn _ a => hasField m a
  | _ => false
def hasFieldList (m : String) : List E → Bool
  | [] => false
  | a :: as => hasField m a || hasFieldList m as
end

mutual
/-- logical derivative `∂/∂c` of a terminal logical expression (`dx1`, `dx2`, `dx3` with
    `evaluate=True`): atoms keep an unevaluated derivative node, sums, products, powers and
    elementary functions of coordinate/mapping expressions are expanded; an elementary function
    of a field is refused like the implementation does -/
def ldiff (m : String) (c : Coord) : E → Except Err E
  | num _ _ => .ok zero
  | cst _ => .ok zero
  | sym s => .ok (if s = c.name then one else zero)
  | sf s k => .ok (pd c (sf s k))
  | idx b i => .ok (pd c (idx b i))
  | pd c' a => .ok (pd c (pd c' a))
  | add as => do
      let rs ← ldiffList m c as
      .ok (add rs)
  | mul as => ldiffProd m c as
  | pow b e => do
      let db ← ldiff m c b
      let de ← ldiff m c e
      .ok (ldiffPow b e db de)
  | fn f a =>
      if hasField m a || !knownFnB f then .error .notImplemented
      else do
        let da ← ldiff m c a
        .ok (mul [fnDeriv f a, da])
  | _ => .error .notImplemented
def ldiffList (m : String) (c : Coord) : List E → Except Err (List E)
  | [] => .ok []
  | a :: as => do
      let r ← ldiff m c a
      let rs ← ldiffList m c as
      .ok (r :: rs)
/-- Leibniz: (a · rest)' = a' · rest + a · rest' -/
def ldiffProd (m : String) (c : Coord) : List E → Except Err E
  | [] => .ok zero
  | a :: as => do
      let da ← ldiff m c a
      let r ← ldiffProd m c as
      .ok (add [mul (da :: as), mul [a, r]])
end

/-- sum over the first `d ≤ 3` indices -/
def sum3 (d : Nat) (f : Nat → E) : E :=
  match d with
  | 0 => zero
  | 1 => f 0
  | 2 => add [f 0, f 1]
  | _ => add [f 0, f 1, f 2]

/-- the Jacobian as a function of (row = component, column = logical direction) -/
structure Jac where
  d : Nat
  J : Nat → Nat → E

def detJ (j : Jac) : E :=
  let a := j.J
  match j.d with
  | 1 => a 0 0
  | 2 => sub (mul [a 0 0, a 1 1]) (mul [a 0 1, a 1 0])
  | _ => add [mul [a 0 0, sub (mul [a 1 1, a 2 2]) (mul [a 1 2, a 2 1])],
              neg (mul [a 0 1, sub (mul [a 1 0, a 2 2]) (mul [a 1 2, a 2 0])]),
              mul [a 0 2, sub (mul [a 1 0, a 2 1]) (mul [a 1 1, a 2 0])]]

/-- adjugate: `adj i k` with `Σ_k adj i k · J k l = det · δ_il` -/
def adjJ (j : Jac) (i k : Nat) : E :=
  let a := j.J
  match j.d with
  | 1 => one
  | 2 =>
    match i, k with
    | 0, 0 => a 1 1
    | 0, 1 => neg (a 0 1)
    | 1, 0 => neg (a 1 0)
    | _, _ => a 0 0
  | _ =>
    let i1 := (i + 1) % 3; let i2 := (i + 2) % 3
    let k1 := (k + 1) % 3; let k2 := (k + 2) % 3
    -- cofactor of entry (k, i)
    sub (mul [a k1 i1, a k2 i2]) (mul [a k1 i2, a k2 i1])

def invDet (j : Jac) : E := pow (detJ j) (num (-1) 1)

/-- entry (i, k) of the inverse Jacobian -/
def invJ (j : Jac) (i k : Nat) : E := mul [adjJ j i k, invDet j]

/-- the Jacobian of a mapping: `J i l = ∂̂_l F_i` -/
def jacOf (M : Mp) : Except Err Jac := do
  let rows ← (List.range M.d).mapM (fun i =>
    (List.range M.d).mapM (fun l => ldiff M.name (lc l) (M.comp i)))
  .ok { d := M.d, J := fun i l => (rows.getD i []).getD l zero }

def physIdx : String → Option Nat
  | "x" => some 0 | "y" => some 1 | "z" => some 2 | _ => none

/-- pull-back of the `i`-th component of a vector function by kind -/
def pbVec (j : Jac) (s : String) (k : Kind) (i : Nat) : E :=
  let u (l : Nat) : E := idx (vf s k) l
  match k with
  | .hcurl => sum3 j.d (fun l => mul [invJ j l i, u l])
  | .hdiv => mul [sum3 j.d (fun l => mul [j.J i l, u l]), invDet j]
  | .l2 => mul [u i, invDet j]
  | _ => u i

def pick3 (g0 g1 g2 : E) (l : Nat) : E :=
  match l with
  | 0 => g0
  | 1 => g1
  | _ => g2

/-- component `l` of `LogicalGrad(la)` in dimension `d` (0 beyond the dimension) -/
def lgrad (m : String) (d : Nat) (la : E) (l : Nat) : Except Err E :=
  if l < d then ldiff m (lc l) la else .ok zero

mutual
/-- `LogicalExpr(e, D)` for a terminal expression `e` of the physical domain -/
def logical (m : String) (j : Jac) (F : Nat → E) : E → Except Err E
  | num p q => .ok (num p q)
  | cst s => .ok (cst s)
  | sym s =>
      match physIdx s with
      | some i => if i < j.d then .ok (F i) else .ok (sym s)
      | none => .ok (sym s)
  | sf s k => .ok (match k with
      | .l2 => mul [sf s k, invDet j]
      | _ => sf s k)
  | idx (vf s k) i => if i < j.d then .ok (pbVec j s k i) else .error .indexError
  | add as => do
      let rs ← logicalList m j F as
      .ok (add rs)
  | mul as => do
      let rs ← logicalList m j F as
      .ok (mul rs)
  | pow b e => do
      let lb ← logical m j F b
      let le ← logical m j F e
      .ok (pow lb le)
  | fn f a => do
      let la ← logical m j F a
      .ok (fn f la)
  | pd c a =>
      if c.logical then .ok (pd c a)
      else if c.idx < j.d then do
        let la ← logical m j F a
        let g0 ← lgrad m j.d la 0
        let g1 ← lgrad m j.d la 1
        let g2 ← lgrad m j.d la 2
        .ok (sum3 j.d (fun l => mul [invJ j l c.idx, pick3 g0 g1 g2 l]))
      else .error .indexError
  | _ => .error .notImplemented
def logicalList (m : String) (j : Jac) (F : Nat → E) : List E → Except Err (List E)
  | [] => .ok []
  | a :: as => do
      let r ← logical m j F a
      let rs ← logicalList m j F as
      .ok (r :: rs)
end

/-- the whole pipeline for a mapping given by its components -/
def logicalOf (M : Mp) (e : E) : Except Err E := do
  let j ← jacOf M
  logical M.name j M.comp e

/-! ### generic-operator rules of `LogicalExpr.eval` on fields (the commuting relations) -/

/-- 2-D scalar curl (`rot`) of a logical vector field: ∂̂_0 u_1 − ∂̂_1 u_0 -/
def lcurl2 (u : Nat → E) : E := sub (pd .x1 (u 1)) (pd .x2 (u 0))

/-- i-th component of the 3-D logical curl -/
def lcurl3 (u : Nat → E) (i : Nat) : E :=
  let i1 := (i + 1) % 3; let i2 := (i + 2) % 3
  sub (pd (lc i1) (u i2)) (pd (lc i2) (u i1))

/-- logical divergence -/
def ldiv (d : Nat) (u : Nat → E) : E := sum3 d (fun l => pd (lc l) (u l))

/-- `curl(u)`, `u` of kind H(curl):  `(1/det) curl̂ û` in 2-D, `(J/det) curl̂ û` in 3-D -/
def curlRule (j : Jac) (s : String) (i : Nat) : E :=
  let u (l : Nat) : E := idx (vf s .hcurl) l
  match j.d with
  | 2 => mul [lcurl2 u, invDet j]
  | _ => mul [sum3 3 (fun l => mul [j.J i l, lcurl3 u l]), invDet j]

/-- `div(u)`, `u` of kind H(div):  `(1/det) div̂ û` -/
def divRule (j : Jac) (s : String) : E :=
  mul [ldiv j.d (fun l => idx (vf s .hdiv) l), invDet j]

/-- `grad(u)`, scalar `u` of kind H1 / undefined:  `J⁻ᵀ ∇̂ û` -/
def gradRule (j : Jac) (s : String) (k : Kind) (i : Nat) : E :=
  sum3 j.d (fun l => mul [invJ j l i, pd (lc l) (sf s k)])

/-! ### driver -/

def parseMp (name : Sexp) (comps : List Sexp) : Option Mp := do
  let F ← comps.mapM E.ofSexp
  match name with
  | .str s => some { name := s, d := F.length, F := F }
  | _ => none

def handle (args : List Sexp) : String :=
  match args with
  | [.atom "logical", name, .list comps, e] =>
      match parseMp name comps, E.ofSexp e with
      | some M, some e =>
          if M.d = 0 ∨ M.d > 3 then "bad-op" else
          match logicalOf M e with
          | .ok r => "ok " ++ toString (E.toSexp r)
          | .error err => "err " ++ err.name
      | _, _ => "bad-op"
  | [.atom "jac", name, .list comps] =>
      match parseMp name comps with
      | some M =>
          if M.d = 0 ∨ M.d > 3 then "bad-op" else
          match jacOf M with
          | .ok j =>
              let ents := (List.range M.d).flatMap (fun i => (List.range M.d).map (fun l => j.J i l))
              "ok " ++ toString (E.toSexp (mat M.d M.d ents)) ++ " " ++ toString (E.toSexp (detJ j))
          | .error err => "err " ++ err.name
      | none => "bad-op"
  | [.atom "rule", .atom r, name, .list comps, .str s, i] =>
      match parseMp name comps, i.toNat? with
      | some M, some i =>
          if M.d = 0 ∨ M.d > 3 then "bad-op" else
          match jacOf M with
          | .ok j =>
              match r with
              | "curl" => if M.d = 1 then "err NotImplementedError" else "ok " ++ toString (E.toSexp (curlRule j s i))
              | "div" => "ok " ++ toString (E.toSexp (divRule j s))
              | "grad" => "ok " ++ toString (E.toSexp (gradRule j s .h1 i))
              | _ => "bad-op"
          | .error err => "err " ++ err.name
      | _, _ => "bad-op"
  | _ => "bad-op"

end PB
end Sympde
