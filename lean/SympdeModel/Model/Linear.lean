/-
  Model of `is_linear_expression` (sympde/expr/expr.py:742-808) and of the verdicts of
  `LinearForm(...)` / `BilinearForm(...)`.  Core Lean only.

  The test substitutes fresh functions for the arguments (`expr.subs`, which rebuilds every
  changed node with its constructor, i.e. re-runs the rewriting of the operator constructors —
  `Model/Calc.lean` — and of `dx`, `F[i]` on sums and constant multiples), and compares
  * additivity:   `e[a ↦ l + r]`  with  `e[a ↦ l] + e[a ↦ r]`,
  * homogeneity:  `e[a ↦ α·l]`    with  `α · e[a ↦ l]`,
  by `(x - y).expand() == 0` (`RingEq.ringEq`).
-/
import SympdeModel.Model.RingEq
import SympdeModel.Model.Calc
namespace Sympde
namespace Linear
open E
open Sympde.Sub

/-- coefficient factors of a product and the rest -/
def coefs (as : List E) : List E := as.filter Calc.isCoef
def nonCoefs (as : List E) : List E := as.filter (fun x => !Calc.isCoef x)

/-- `dx(t)` for one term of a sum: numeric / Constant factors are pulled out -/
def pdTerm (c : Coord) : E → E
  | mul fs => if (coefs fs).isEmpty then pd c (mul fs) else mul (coefs fs ++ [pd c (Calc.mulOf (nonCoefs fs))])
  | t => pd c t

/-- `dx(expr)` on what the linearity test produces (sums and constant multiples of derivative
    atoms): linear distribution -/
def pdLin (c : Coord) : E → E
  | add ts => add (ts.map (pdTerm c))
  | t => pdTerm c t

/-- scalar factors of `IndexedVectorFunction(Mul, i)`: coefficients and scalar functions -/
def isScalarFactor : E → Bool
  | sf _ _ => true
  | t => Calc.isCoef t

def idxTerm (i : Nat) : E → E
  | mul fs =>
      if (fs.filter isScalarFactor).isEmpty then idx (mul fs) i
      else mul (fs.filter isScalarFactor ++ [idx (Calc.mulOf (fs.filter (fun x => !isScalarFactor x))) i])
  | t => idx t i

/-- `IndexedVectorFunction(base, i)`: distributes over sums, pulls scalar factors out -/
def idxLin (i : Nat) : E → E
  | add ts => add (ts.map (idxTerm i))
  | t => idxTerm i t

/-- a unary operator constructor on an already evaluated argument -/
def apply1 (d : Nat) (o : Op1) (a : E) : Except Err E :=
  match o with
  | .grad => Calc.gradEval d a
  | .curl => Calc.curlEval d a
  | .rot => Calc.linEval .rot a
  | .hessian => Calc.linEval .hessian a
  | .div => Calc.divEval d a
  | .laplace => Calc.laplaceEval d a
  | .jump => Calc.ifaceEval d .jump a
  | .avg => Calc.ifaceEval d .avg a
  | .minus => Calc.ifaceEval d .minus a
  | .plus => Calc.ifaceEval d .plus a
  | .dn => Calc.ifaceEval d .dn a
  | o => .ok (op1 o a)

/-- a binary operator constructor on already evaluated arguments -/
def apply2 (d : Nat) (o : Op2) (a b : E) : Except Err E :=
  match o with
  | .dot => Calc.mkBilin d .dot a b
  | .cross => Calc.mkBilin d .cross a b
  | .inner => Calc.mkBilin d .inner a b
  | .outer => Calc.mkBilin d .outer a b
  | .convect => Calc.mkBilin d .convect a b
  | .bracket => .ok (Calc.bracketEval a b)

/-! ### sympy's trivial canonicalisation of sums and products

  The constructors of Model/Calc.lean return raw trees such as `mul [1, 1, l]`; sympy's `Mul` /
  `Add` flatten them and drop the neutral elements, so that the next constructor sees `l`. -/

def isZeroNum : E → Bool
  | num p _ => p == 0
  | _ => false

def isOneNum : E → Bool
  | num p q => p == 1 && q == 1
  | _ => false

def flatAdd : List E → List E
  | [] => []
  | add ys :: xs => ys ++ flatAdd xs
  | x :: xs => x :: flatAdd xs

def flatMul : List E → List E
  | [] => []
  | mul ys :: xs => ys ++ flatMul xs
  | x :: xs => x :: flatMul xs

def mkAdd : List E → E
  | [] => num 0 1
  | [x] => x
  | xs => add xs

def mkMul : List E → E
  | [] => num 1 1
  | [x] => x
  | xs => mul xs

mutual
def clean : E → E
  | add as => mkAdd ((flatAdd (cleanList as)).filter (fun x => !isZeroNum x))
  | mul as =>
      if ((flatMul (cleanList as)).filter (fun x => !isOneNum x)).any isZeroNum then num 0 1
      else mkMul ((flatMul (cleanList as)).filter (fun x => !isOneNum x))
  | pow b e => pow (clean b) (clean e)
  | fn f a => fn f (clean a)
  | idx b i => idx (clean b) i
  | pd c a => pd c (clean a)
  | op1 o a => op1 o (clean a)
  | op2 o a b => op2 o (clean a) (clean b)
  | mat r c es => mat r c (cleanList es)
  | tup as => tup (cleanList as)
  | other t as => other t (cleanList as)
  | e => e
def cleanList : List E → List E
  | [] => []
  | a :: as => clean a :: cleanList as
end

mutual
/-- bottom-up re-construction of a tree (`func(*args)` at every node), canonicalised -/
def reeval (d : Nat) : E → Except Err E
  | add as => (reevalList d as).map (fun l => clean (add l))
  | mul as => (reevalList d as).map (fun l => clean (mul l))
  | pow b e =>
      match reeval d b, reeval d e with
      | .ok b', .ok e' => .ok (pow b' e')
      | .error x, _ => .error x
      | _, .error x => .error x
  | fn f a => (reeval d a).map (fn f)
  | idx b i => (reeval d b).map (fun b' => clean (idxLin i b'))
  | pd c a => (reeval d a).map (fun a' => clean (pdLin c a'))
  | op1 o a =>
      match reeval d a with
      | .ok a' => (apply1 d o a').map clean
      | .error x => .error x
  | op2 o a b =>
      match reeval d a, reeval d b with
      | .ok a', .ok b' => (apply2 d o a' b').map clean
      | .error x, _ => .error x
      | _, .error x => .error x
  | mat r c es => (reevalList d es).map (mat r c)
  | tup as => (reevalList d as).map tup
  | e => .ok e
def reevalList (d : Nat) : List E → Except Err (List E)
  | [] => .ok []
  | a :: as =>
      match reeval d a, reevalList d as with
      | .ok a', .ok as' => .ok (a' :: as')
      | .error x, _ => .error x
      | _, .error x => .error x
end

/-- the fresh function standing for argument number `k` (expr.py:761-773: `for arg in args:
    tag = random_string(4); left = ScalarFunction(arg.space, name='l_' + tag) …` — a NEW tag for
    every component of a product argument, so two components, also of the same kind, are never
    replaced by the same function; the random tag is modelled by the position `k`, the names are
    pairwise different by `Nat.repr_injective`, see `fresh_ne` in Lemmas/LinearProduct.lean).
    An integrand in which no argument occurs is left unchanged by the substitution: it is then
    compared with twice itself and rejected unless it is zero (there is no early exit). -/
def fresh (pre : String) (k : Nat) : E → E
  | sf _ kd => sf (pre ++ toString k) kd
  | vf _ kd => vf (pre ++ toString k) kd
  | t => t

def freshList (pre : String) (args : List E) : List E :=
  (args.zip (List.range args.length)).map (fun p => fresh pre p.2 p.1)

/-- the constant `alpha_…` of the homogeneity test -/
def alpha : E := cst "alpha#"

/-- two passes of re-evaluation: `expr.subs(...)` rebuilds (and thereby evaluates) the nodes above a
    replaced argument, and `_evaluate_operators` (expr.py, added by the repair of finding
    C08-unevaluated-operator-rejected) evaluates every operator of the result once more — on BOTH sides of
    both comparisons.  One pass can leave `Dot(B, Grad(l) + Grad(r))` behind a factor that the
    constructor pulled out of a sum; the second pass distributes it. -/
def reeval2 (d : Nat) (e : E) : Except Err E :=
  match reeval d e with
  | .ok n => reeval d n
  | .error x => .error x

/-- `e[args ↦ vals]`, re-evaluated -/
def substEval (d : Nat) (args vals : List E) (e : E) : Except Err E := reeval2 d (subst (args.zip vals) e)

/-- the additivity test on one integrand -/
def additive (d : Nat) (args : List E) (e : E) : Except Err Bool :=
  let ls := freshList "l#" args
  let rs := freshList "r#" args
  match substEval d args (List.zipWith (fun l r => add [l, r]) ls rs) e, substEval d args ls e, substEval d args rs e with
  | .ok n, .ok l, .ok r => .ok (RingEq.ringEq d n (add [l, r]))
  | .error x, _, _ => .error x
  | _, .error x, _ => .error x
  | _, _, .error x => .error x

/-- the homogeneity test on one integrand -/
def homogeneous (d : Nat) (args : List E) (e : E) : Except Err Bool :=
  let ls := freshList "l#" args
  match substEval d args (ls.map (fun l => mul [alpha, l])) e, substEval d args ls e with
  | .ok n, .ok l => .ok (RingEq.ringEq d n (mul [alpha, l]))
  | .error x, _ => .error x
  | _, .error x => .error x

def allOK : List (Except Err Bool) → Except Err Bool
  | [] => .ok true
  | .error x :: _ => .error x
  | .ok b :: rest =>
      match allOK rest with
      | .ok r => .ok (b && r)
      | .error x => .error x

/-- `is_linear_expression(expr, args)` on the integrals of `expr`.  The code substitutes in the
    whole `IntAdd` and compares `(a - b).expand() == 0`; integrals over different regions stay
    different terms of that difference (sympde merges only integrals over the SAME region), so the
    comparison holds iff it holds region by region: one verdict per integral, conjunction over the
    integrals (`isLinear_true_iff` in Lemmas/LinearSum.lean) — the integrands are never added up
    across regions.  Inside one integrand the comparison is made on the WHOLE integrand after
    expansion (`RingEq.ringEq` normalises powers and products of sums), not summand by summand:
    `(v+f)**2 - v**2 - f**2` is accepted.
    Numbers: the exchange format sends a sympy `Float` as its exact rational value (`num p q`,
    harness/exprser.py), so the model decides the comparison in exact arithmetic.  The code
    compares `(a - b).expand() == 0` OR `a.expand() == b.expand()`: with floats the first may leave
    a rounding residue (`0.1 + 0.2 - 0.1 - 0.2`), the second compares two sides that were rounded
    the same way; the model stands for their disjunction. -/
def isLinear (d : Nat) (args : List E) (ints : List (String × E)) : Except Err Bool :=
  match allOK (ints.map (fun p => additive d args p.2)) with
  | .error x => .error x
  | .ok false => .ok false
  | .ok true => allOK (ints.map (fun p => homogeneous d args p.2))

/-- the verdict of `BilinearForm((trials, tests), expr)`: linear in the trial functions, then in
    the test functions -/
def isBilinear (d : Nat) (trials tests : List E) (ints : List (String × E)) : Except Err Bool :=
  match isLinear d trials ints with
  | .error x => .error x
  | .ok false => .ok false
  | .ok true => isLinear d tests ints

/-! ### S-expression I/O -/

def intsOfSexp (xs : List Sexp) : Option (List (String × E)) :=
  xs.mapM (fun s => match s with
    | .list [.atom "int", .str dom, e] => (E.ofSexp e).map (fun e => (dom, e))
    | _ => none)

def answer : Except Err Bool → String
  | .ok b => "ok " ++ toString (Sexp.ofBool b)
  | .error x => "err " ++ x.name

def handle (args : List Sexp) : String :=
  match args with
  | [.atom "linear", dim, .list (.atom "args" :: as), .list (.atom "ints" :: is)] =>
      match dim.toNat?, as.mapM E.ofSexp, intsOfSexp is with
      | some d, some as, some is => answer (isLinear d as is)
      | _, _, _ => "bad-op"
  | [.atom "bilinear", dim, .list (.atom "trials" :: tr), .list (.atom "tests" :: te), .list (.atom "ints" :: is)] =>
      match dim.toNat?, tr.mapM E.ofSexp, te.mapM E.ofSexp, intsOfSexp is with
      | some d, some tr, some te, some is => answer (isBilinear d tr te is)
      | _, _, _, _ => "bad-op"
  | [.atom "reeval", dim, e] =>
      match dim.toNat?, E.ofSexp e with
      | some d, some e =>
          (match reeval d e with
           | .ok r => "ok " ++ toString (E.toSexp r)
           | .error x => "err " ++ x.name)
      | _, _ => "bad-op"
  | _ => "bad-op"

end Linear
end Sympde
