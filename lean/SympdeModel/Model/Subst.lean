/-
  Simultaneous structural substitution on the shared expression AST — the model of sympy's
  `Basic._xreplace(rule)` as used by `LinearForm.__call__` / `BilinearForm.__call__`
  (sympde/expr/expr.py) — and a lawful structural equality on `E` (the derived `BEq` of a nested
  inductive comes without lemmas).  Core Lean only.

  `_xreplace`: a node that is a key of the rule is replaced by its value (and the value is not
  visited again); otherwise the arguments are visited and the node is rebuilt.  The rebuilding
  (`self.func(*args)`, which re-runs the operator constructors) is not part of this file: results
  are raw trees, the harness re-applies the real constructors before comparing.
-/
import SympdeModel.Model.Expr
namespace Sympde
namespace Sub
open E

mutual
/-- structural equality -/
def eqb : E → E → Bool
  | num p q, num p' q' => p == p' && q == q'
  | cst n, cst n' => n == n'
  | sym n, sym n' => n == n'
  | sf n k, sf n' k' => n == n' && k == k'
  | vf n k, vf n' k' => n == n' && k == k'
  | idx b i, idx b' i' => eqb b b' && i == i'
  | add as, add bs => eqbList as bs
  | mul as, mul bs => eqbList as bs
  | pow b e, pow b' e' => eqb b b' && eqb e e'
  | fn f a, fn f' a' => f == f' && eqb a a'
  | pd c a, pd c' a' => c == c' && eqb a a'
  | op1 o a, op1 o' a' => o == o' && eqb a a'
  | op2 o a b, op2 o' a' b' => o == o' && eqb a a' && eqb b b'
  | mat r c es, mat r' c' es' => r == r' && c == c' && eqbList es es'
  | tup as, tup bs => eqbList as bs
  | normal k, normal k' => k == k'
  | other t as, other t' bs => t == t' && eqbList as bs
  | _, _ => false
def eqbList : List E → List E → Bool
  | [], [] => true
  | a :: as, b :: bs => eqb a b && eqbList as bs
  | _, _ => false
end

/-- a substitution: list of (key, value); the first matching key wins -/
abbrev Rule := List (E × E)

/-- `rule[self]` if `self in rule` -/
def lookup (σ : Rule) (e : E) : Option E :=
  match σ with
  | [] => none
  | (k, v) :: rest => if eqb k e then some v else lookup rest e

mutual
/-- `expr._xreplace(rule)[0]` -/
def subst (σ : Rule) : E → E
  | idx b i => (lookup σ (idx b i)).getD (idx (subst σ b) i)
  | add as => (lookup σ (add as)).getD (add (substList σ as))
  | mul as => (lookup σ (mul as)).getD (mul (substList σ as))
  | pow b e => (lookup σ (pow b e)).getD (pow (subst σ b) (subst σ e))
  | fn f a => (lookup σ (fn f a)).getD (fn f (subst σ a))
  | pd c a => (lookup σ (pd c a)).getD (pd c (subst σ a))
  | op1 o a => (lookup σ (op1 o a)).getD (op1 o (subst σ a))
  | op2 o a b => (lookup σ (op2 o a b)).getD (op2 o (subst σ a) (subst σ b))
  | mat r c es => (lookup σ (mat r c es)).getD (mat r c (substList σ es))
  | tup as => (lookup σ (tup as)).getD (tup (substList σ as))
  | other t as => (lookup σ (other t as)).getD (other t (substList σ as))
  | e => (lookup σ e).getD e
def substList (σ : Rule) : List E → List E
  | [] => []
  | a :: as => subst σ a :: substList σ as
end

/-- sequential application of the pairs one after the other (what `_xreplace` is *not*) -/
def substSeq (σ : Rule) (e : E) : E := σ.foldl (fun acc p => subst [p] acc) e

mutual
/-- does a key of `ks` occur in the tree? -/
def occurs (ks : List E) : E → Bool
  | idx b i => ks.any (eqb · (idx b i)) || occurs ks b
  | add as => ks.any (eqb · (add as)) || occursList ks as
  | mul as => ks.any (eqb · (mul as)) || occursList ks as
  | pow b e => ks.any (eqb · (pow b e)) || occurs ks b || occurs ks e
  | fn f a => ks.any (eqb · (fn f a)) || occurs ks a
  | pd c a => ks.any (eqb · (pd c a)) || occurs ks a
  | op1 o a => ks.any (eqb · (op1 o a)) || occurs ks a
  | op2 o a b => ks.any (eqb · (op2 o a b)) || occurs ks a || occurs ks b
  | mat r c es => ks.any (eqb · (mat r c es)) || occursList ks es
  | tup as => ks.any (eqb · (tup as)) || occursList ks as
  | other t as => ks.any (eqb · (other t as)) || occursList ks as
  | e => ks.any (eqb · e)
def occursList (ks : List E) : List E → Bool
  | [] => false
  | a :: as => occurs ks a || occursList ks as
end

end Sub
end Sympde
