/-
  S-expressions: the exchange format between the Python harness and the Lean models.
  Core Lean only (no imports).  This file is I/O glue (trusted base item 5 in DESIGN.md):
  no theorem is stated about the parser; it is exercised by every correspondence run.
-/
namespace Sympde

inductive Sexp where
  | atom (s : String)
  | str  (s : String)
  | list (xs : List Sexp)
  deriving Repr, Inhabited, BEq

namespace Sexp

def isDelim (c : Char) : Bool :=
  c == ' ' || c == '\t' || c == '\n' || c == '\r' || c == '(' || c == ')' || c == '"'

inductive Tok where
  | lp | rp | atom (s : String) | str (s : String)
  deriving Repr, BEq

partial def lexStr : List Char → List Char → Option (List Char × List Char)
  | [], _ => none
  | '"' :: rest, acc => some (acc.reverse, rest)
  | '\\' :: c :: rest, acc => lexStr rest (c :: acc)
  | '\\' :: [], _ => none
  | c :: rest, acc => lexStr rest (c :: acc)

partial def lexAtom : List Char → List Char → List Char × List Char
  | [], acc => (acc.reverse, [])
  | c :: rest, acc => if isDelim c then (acc.reverse, c :: rest) else lexAtom rest (c :: acc)

partial def lex : List Char → List Tok → Option (List Tok)
  | [], acc => some acc.reverse
  | '(' :: rest, acc => lex rest (Tok.lp :: acc)
  | ')' :: rest, acc => lex rest (Tok.rp :: acc)
  | '"' :: rest, acc =>
      match lexStr rest [] with
      | none => none
      | some (s, rest') => lex rest' (Tok.str (String.ofList s) :: acc)
  | c :: rest, acc =>
      if c == ' ' || c == '\t' || c == '\n' || c == '\r' then lex rest acc
      else
        let (a, rest') := lexAtom (c :: rest) []
        lex rest' (Tok.atom (String.ofList a) :: acc)

/-- parse one expression; returns it and the remaining tokens -/
partial def parseOne : List Tok → Option (Sexp × List Tok)
  | [] => none
  | Tok.atom s :: rest => some (Sexp.atom s, rest)
  | Tok.str s :: rest => some (Sexp.str s, rest)
  | Tok.rp :: _ => none
  | Tok.lp :: rest => parseMany rest []
where
  parseMany : List Tok → List Sexp → Option (Sexp × List Tok)
  | [], _ => none
  | Tok.rp :: rest, acc => some (Sexp.list acc.reverse, rest)
  | toks, acc =>
      match parseOne toks with
      | none => none
      | some (e, rest) => parseMany rest (e :: acc)

/-- parse a whole line as a sequence of top-level S-expressions -/
partial def parseAll (s : String) : Option (List Sexp) :=
  match lex s.toList [] with
  | none => none
  | some toks => go toks []
where
  go : List Tok → List Sexp → Option (List Sexp)
  | [], acc => some acc.reverse
  | toks, acc =>
      match parseOne toks with
      | none => none
      | some (e, rest) => go rest (e :: acc)

def escape (s : String) : String :=
  String.ofList (s.toList.flatMap fun c =>
    if c == '"' then ['\\', '"'] else if c == '\\' then ['\\', '\\'] else [c])

partial def toString : Sexp → String
  | atom s => s
  | str s => "\"" ++ escape s ++ "\""
  | list xs => "(" ++ " ".intercalate (xs.map toString) ++ ")"

instance : ToString Sexp := ⟨Sexp.toString⟩

def ofNat (n : Nat) : Sexp := atom (Nat.repr n)
def ofInt (n : Int) : Sexp := atom (if n < 0 then "-" ++ Nat.repr n.natAbs else Nat.repr n.natAbs)
def ofBool (b : Bool) : Sexp := atom (if b then "true" else "false")

def toNat? : Sexp → Option Nat
  | atom s => s.toNat?
  | _ => none

def toInt? : Sexp → Option Int
  | atom s => s.toInt?
  | _ => none

def toBool? : Sexp → Option Bool
  | atom "true" => some true
  | atom "false" => some false
  | _ => none

def toStr? : Sexp → Option String
  | str s => some s
  | _ => none

end Sexp
end Sympde
