/-
  Model of sympde/exterior/calculus.py (ExteriorDerivative / AdjointExteriorDerivative /
  Hodge / ExteriorProduct `.eval`) and sympde/exterior/inference.py (`infere_type`),
  transcribed branch for branch.  Core Lean only.

  Trees are the trees *as the implementation sees them* (already built sympy objects,
  argument order kept).  `add`/`mul` produced by the model are raw (un-canonicalised)
  nodes; the harness rebuilds them with sympy's `Add`/`Mul` before comparing.
-/
import SympdeModel.Model.Sexp
namespace Sympde
namespace Ext

inductive XE where
  | num (p : Int) (q : Nat)            -- Integer / Rational (Float sent as exact rational)
  | cst (name : String)                -- sympde Constant  (member of `_coeffs_registery`)
  | form (name : String) (k n : Nat)   -- DifferentialForm(name, index=k, dim=n)
  | add (as : List XE)
  | mul (as : List XE)
  | d (a : XE)                         -- ExteriorDerivative node (unevaluated)
  | delta (a : XE)                     -- AdjointExteriorDerivative node
  | hodge (a : XE)                     -- Hodge node
  | wedge (a b : XE)                   -- ExteriorProduct node
  | other (tag : String) (as : List XE) -- any other sympy node (Symbol, ...): opaque, except that
                                        -- `other "Pow" [b, e]` with b, e numbers/Constants is a coefficient
  deriving Repr, Inhabited, BEq

open XE

def zero : XE := num 0 1
def one  : XE := num 1 1

/-- `isinstance(a, _coeffs_registery)`: a number or a sympde `Constant` -/
def isReg : XE → Bool
  | num _ _ => true
  | cst _ => true
  | _ => false

/-- argument list of a `Pow` whose base and exponent both are registry members -/
def isRegPair : List XE → Bool
  | [b, e] => isReg b && isReg e
  | _ => false

/-- `_is_coeff(a)` (calculus.py:25, after the `fix:` commit 5022685): a registry member, or a
    `Pow` of two registry members — sympy stores `c*c` as `c**2`, sent as
    `other "Pow" [base, exp]`.  Before that commit this was `isReg`. -/
def isCoef : XE → Bool
  | num _ _ => true
  | cst _ => true
  | other t as => t == "Pow" && isRegPair as
  | _ => false

def coefs (as : List XE) : List XE := as.filter isCoef
def vecs  (as : List XE) : List XE := as.filter (fun a => !isCoef a)

/-- sympy `Mul(*xs)` on an already canonical sub-product: one factor is returned as itself -/
def mulOf : List XE → XE
  | [] => one
  | [v] => v
  | vs => mul vs

/-- which of the three unary linear operators -/
inductive U where | d | delta | hodge
  deriving Repr, DecidableEq

def U.node : U → XE → XE
  | .d, a => XE.d a
  | .delta, a => XE.delta a
  | .hodge, a => XE.hodge a

/-- the operator-specific short-cuts tried before the Add/Mul branches; `none` = no short-cut -/
def shortcut : U → XE → Option XE
  | .d, XE.d _ => some zero
  | .d, num _ _ => some zero
  | .d, cst _ => some zero
  | .d, other t as => if isCoef (other t as) then some zero else none
  | .d, form _ k n => if k == n then some zero else none
  | .delta, XE.delta _ => some zero
  | .delta, num _ _ => some zero
  | .delta, cst _ => some zero
  | .delta, other t as => if isCoef (other t as) then some zero else none
  | .delta, form _ k _ => if k == 0 then some zero else none
  | .hodge, XE.hodge (form s k n) =>
      some (mul [num ((-1 : Int) ^ (k * (n - k))) 1, form s k n])
  | .hodge, num _ _ => some zero
  | .hodge, cst _ => some zero
  | .hodge, other t as => if isCoef (other t as) then some zero else none
  | _, _ => none

/-! #### simplified models of sympy's `Add` / `Mul` constructors

  Only what the normal-form theorems need: one level of flattening, removal of the neutral
  element, collapse on an absorbing zero, and the 0/1-argument cases.  Like-term collection,
  numeric folding and ordering are left to the real `Add`/`Mul` when the harness rebuilds the
  model's output for comparison (they do not change any predicate used below). -/

mutual
def isZero : XE → Bool
  | num p _ => p == 0
  | add as => allZero as
  | mul as => anyZero as
  | _ => false
def allZero : List XE → Bool
  | [] => true
  | a :: as => isZero a && allZero as
def anyZero : List XE → Bool
  | [] => false
  | a :: as => isZero a || anyZero as
end

def isOne : XE → Bool
  | num p q => p == 1 && q == 1
  | _ => false

def flatMulArgs : List XE → List XE
  | [] => []
  | mul ys :: xs => ys ++ flatMulArgs xs
  | x :: xs => x :: flatMulArgs xs

def flatAddArgs : List XE → List XE
  | [] => []
  | add ys :: xs => ys ++ flatAddArgs xs
  | x :: xs => x :: flatAddArgs xs

def finishMul : List XE → XE
  | [] => one
  | [y] => y
  | ys => mul ys

def finishAdd : List XE → XE
  | [] => zero
  | [y] => y
  | ys => add ys

def sMul (xs : List XE) : XE :=
  let ys := (flatMulArgs xs).filter (fun y => !isOne y)
  if ys.any isZero then zero else finishMul ys

def sAdd (xs : List XE) : XE :=
  finishAdd ((flatAddArgs xs).filter (fun y => !isZero y))

/-- the `Mul` branch, given the factors and the (pre-computed) evaluation of every factor.
    With at least one coefficient and exactly one other factor, that factor is evaluated
    (after the `fix:` commit; before it the node was built with `evaluate=False`). -/
def mulBranch (o : U) (as : List XE) (ras : List XE) : XE :=
  let cs := coefs as
  let vs := vecs as
  let rvs := ((as.zip ras).filter (fun p => !isCoef p.1)).map (·.2)
  let b :=
    if vs.isEmpty then one
    else if cs.isEmpty then o.node (mulOf vs)
    else match vs, rvs with
      | [_], [r] => r
      | _, _ => o.node (mulOf vs)
  sMul (cs ++ [b])

mutual
/-- `cls.eval(expr)` for the three unary operators -/
def uEval (o : U) : XE → XE
  | add as => sAdd (uEvalList o as)
  | mul as => mulBranch o as (uEvalList o as)
  | e =>
      match shortcut o e with
      | some r => r
      | none => o.node e
def uEvalList (o : U) : List XE → List XE
  | [] => []
  | a :: as => uEval o a :: uEvalList o as
end

/-- split a factor list into (product of coefficients, product of the rest) as the wedge code does -/
def splitMul : XE → XE × XE
  | mul as =>
      let cs := coefs as
      let vs := vecs as
      (if cs.isEmpty then one else mul cs, if vs.isEmpty then one else mulOf vs)
  | e => (one, e)

/-- `ExteriorProduct.eval(left, right)` — distribution over sums is done on the left first -/
def wedgeRight (l : XE) : XE → XE
  | add rs => add (rs.map (fun r =>
      let (a, l') := splitMul l
      let (b, r') := splitMul r
      match r with
      | add _ => wedge l r   -- cannot happen for canonical input (nested Add); kept opaque
      | _ => sMul [a, b, wedge l' r']))
  | r =>
      let (a, l') := splitMul l
      let (b, r') := splitMul r
      sMul [a, b, wedge l' r']

def wedgeMain : XE → XE → XE
  | add ls, r => add (ls.map (fun l =>
      match l with
      | add _ => wedge l r
      | _ => wedgeRight l r))
  | l, r => wedgeRight l r

def isZeroNum : XE → Bool
  | num p _ => p == 0
  | _ => false

def wedgeEval (l r : XE) : XE :=
  if isZeroNum l || isZeroNum r then zero else wedgeMain l r

/-! ### predicates used by the normal-form theorems -/


def countVecs : List XE → Nat
  | [] => 0
  | a :: as => (if isCoef a then 0 else 1) + countVecs as

mutual
/-- canonical linear combination over a base predicate `b`: zero, a base term, a sum of
    such, or a product of at least one coefficient with exactly one other factor, itself such -/
def isLin (b : XE → Bool) : XE → Bool
  | add as => allLin b as
  | mul as => !(coefs as).isEmpty && countVecs as == 1 && allCoefOrLin b as
  | num p q => p == 0 || b (num p q)
  | e => b e
def allLin (b : XE → Bool) : List XE → Bool
  | [] => true
  | a :: as => isLin b a && allLin b as
def allCoefOrLin (b : XE → Bool) : List XE → Bool
  | [] => true
  | a :: as => (isCoef a || isLin b a) && allCoefOrLin b as
end

def isNode : U → XE → Bool
  | .d, XE.d _ => true
  | .delta, XE.delta _ => true
  | .hodge, XE.hodge _ => true
  | _, _ => false

/-- "image of operator `o`": canonical linear combination of `o`-nodes -/
def isImg (o : U) : XE → Bool := isLin (isNode o)

def isFormP (p : Nat → Nat → Bool) : XE → Bool
  | form _ k n => p k n
  | _ => false

def isHodgeOfForm : XE → Bool
  | XE.hodge (form _ _ _) => true
  | _ => false

mutual
/-- no `hodge` node anywhere -/
def hodgeFree : XE → Bool
  | XE.hodge _ => false
  | add as => hodgeFreeList as
  | mul as => hodgeFreeList as
  | XE.d a => hodgeFree a
  | XE.delta a => hodgeFree a
  | wedge a b => hodgeFree a && hodgeFree b
  | other _ as => hodgeFreeList as
  | _ => true
def hodgeFreeList : List XE → Bool
  | [] => true
  | a :: as => hodgeFree a && hodgeFreeList as
end

mutual
/-- well-formed argument: no product consisting of coefficients only (such a product is a
    number, not an expression over forms) -/
def WF : XE → Bool
  | add as => WFList as
  | mul as => !(vecs as).isEmpty && WFList as
  | XE.d a => WF a
  | XE.delta a => WF a
  | XE.hodge a => WF a
  | wedge a b => WF a && WF b
  | other _ as => WFList as
  | _ => true
def WFList : List XE → Bool
  | [] => true
  | a :: as => WF a && WFList as
end

/-! ### degree inference (`infere_type`) -/

inductive TyErr where | valueError | typeError
  deriving Repr, DecidableEq

/-- `get_index_form(int)`: only 0..6 are registered -/
def getIndexForm (i : Int) : Except TyErr (Option Nat) :=
  if 0 ≤ i ∧ i ≤ 6 then .ok (some i.toNat) else .error .valueError

mutual
/-- first `DifferentialForm` atom's dimension in pre-order is what `_get_dim` uses *for a set
    of atoms*; the implementation takes `list(atoms)[0]` — order-dependent when the
    dimensions differ, so the model only accepts arguments whose atoms share one dimension -/
def dims : XE → List Nat
  | form _ _ n => [n]
  | add as => dimsList as
  | mul as => dimsList as
  | XE.d a => dims a
  | XE.delta a => dims a
  | XE.hodge a => dims a
  | wedge a b => dims a ++ dims b
  | other _ as => dimsList as
  | _ => []
def dimsList : List XE → List Nat
  | [] => []
  | a :: as => dims a ++ dimsList as
end

def dedupOpt : List (Option Nat) → List (Option Nat)
  | [] => []
  | a :: as => if (dedupOpt as).contains a then dedupOpt as else a :: dedupOpt as

mutual
/-- `infere_type(expr)`: `ok (some k)` = the k-form type, `ok none` = Python `None` -/
def infer : XE → Except TyErr (Option Nat)
  | form _ k _ => getIndexForm k
  | XE.d a => do
      match ← infer a with
      | some k => getIndexForm (k + 1)
      | none => .error .typeError        -- `None.index` raises AttributeError
  | XE.delta a => do
      match ← infer a with
      | some k => getIndexForm ((k : Int) - 1)
      | none => .error .typeError
  | wedge a b => do
      match ← infer a, ← infer b with
      | some k, some l => getIndexForm (k + l)
      | _, _ => .error .typeError
  | XE.hodge a => do
      match ← infer a with
      | some k =>
          match dims a with
          | [] => .error .valueError     -- 'Cannot compute dim'
          | n :: _ => getIndexForm ((n : Int) - k)
      | none => .error .typeError
  | add as => do
      let ts ← inferList as
      match dedupOpt ts with
      | [t] => .ok t
      | _ => .error .valueError          -- 'Incompatible types'
  | mul as =>
      -- a constant multiple of a form has the type of that form
      if countVecs as == 1 then do
        let ts ← inferList as
        match ((as.zip ts).filter (fun p => !isCoef p.1)).map (·.2) with
        | [t] => .ok t
        | _ => .ok none
      else .ok none
  | _ => .ok none
def inferList : List XE → Except TyErr (List (Option Nat))
  | [] => .ok []
  | a :: as => do
      let t ← infer a
      let ts ← inferList as
      .ok (t :: ts)
end

/-! ### S-expression I/O -/

partial def ofSexp : Sexp → Option XE
  | .list [.atom "num", p, q] => do some (num (← p.toInt?) (← q.toNat?))
  | .list [.atom "cst", .str s] => some (cst s)
  | .list [.atom "form", .str s, k, n] => do some (form s (← k.toNat?) (← n.toNat?))
  | .list (.atom "add" :: xs) => do some (add (← xs.mapM ofSexp))
  | .list (.atom "mul" :: xs) => do some (mul (← xs.mapM ofSexp))
  | .list [.atom "d", a] => do some (XE.d (← ofSexp a))
  | .list [.atom "delta", a] => do some (XE.delta (← ofSexp a))
  | .list [.atom "hodge", a] => do some (XE.hodge (← ofSexp a))
  | .list [.atom "wedge", a, b] => do some (wedge (← ofSexp a) (← ofSexp b))
  | .list (.atom "other" :: .str t :: xs) => do some (other t (← xs.mapM ofSexp))
  | _ => none

partial def toSexp : XE → Sexp
  | num p q => .list [.atom "num", Sexp.ofInt p, Sexp.ofNat q]
  | cst s => .list [.atom "cst", .str s]
  | form s k n => .list [.atom "form", .str s, Sexp.ofNat k, Sexp.ofNat n]
  | add as => .list (.atom "add" :: as.map toSexp)
  | mul as => .list (.atom "mul" :: as.map toSexp)
  | XE.d a => .list [.atom "d", toSexp a]
  | XE.delta a => .list [.atom "delta", toSexp a]
  | XE.hodge a => .list [.atom "hodge", toSexp a]
  | wedge a b => .list [.atom "wedge", toSexp a, toSexp b]
  | other t as => .list (.atom "other" :: .str t :: as.map toSexp)

def uOfString : String → Option U
  | "d" => some .d
  | "delta" => some .delta
  | "hodge" => some .hodge
  | _ => none

/-- one request line → one response line -/
def handle (args : List Sexp) : String :=
  match args with
  | [.atom "eval", .atom o, e] =>
      match uOfString o, ofSexp e with
      | some o, some e => "ok " ++ toString (toSexp (uEval o e))
      | _, _ => "bad-op"
  | [.atom "wedge", a, b] =>
      match ofSexp a, ofSexp b with
      | some a, some b => "ok " ++ toString (toSexp (wedgeEval a b))
      | _, _ => "bad-op"
  | [.atom "infer", e] =>
      match ofSexp e with
      | some e =>
          match infer e with
          | .ok (some k) => "ok " ++ toString k
          | .ok none => "ok None"
          | .error .valueError => "err ValueError"
          | .error .typeError => "err AttributeError"
      | none => "bad-op"
  | [.atom "preds", .atom o, e] =>
      match uOfString o, ofSexp e with
      | some o, some e =>
          "ok " ++ toString (Sexp.list [Sexp.ofBool (isZero e), Sexp.ofBool (isImg o e), Sexp.ofBool (WF e)])
      | _, _ => "bad-op"
  | _ => "bad-op"

end Ext
end Sympde
