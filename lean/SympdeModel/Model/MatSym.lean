/-
  Model of the symbolic matrix layer sympde/calculus/matrices.py (MatrixSymbolicExpr, Inverse,
  Transpose, MatSymbolicMul, MatSymbolicAdd, MatSymbolicPow, SymbolicDeterminant, SymbolicTrace,
  MatrixElement) and of `JacobianSymbol.inv` (sympde/topology/mapping.py:456), transcribed branch
  for branch.  Core Lean only.

  Trees are the trees *as the implementation sees them* (already built objects, order of the
  factors of a product kept).  The parts of sympy the constructors call are modelled as far as they
  act on matrices:
    * `Add(*terms)` (Transpose / SymbolicTrace / the distribution step of MatSymbolicMul):
      flattening, collection of like terms with their numeric coefficients, the post-processor
      `MatSymbolicAdd(*x.args)`                                                   -> `sympyAdd`
    * `Mul(*args)` on the non-commutative factors (Transpose): adjacent factors with the same base
      are combined into one power (sympy Mul.flatten, nc_part loop)                -> `sympyMulNC`
    * `Mul(*coeffs)` on commutative factors: flattening, product of the numeric literals, a canonical
      order of the other factors.  Gathering of equal commutative bases into powers (c*c -> c**2) is
      NOT modelled; the harness compares the commutative part of every product as a Laurent
      polynomial, so this never shows.                                            -> `scalMul`
  `MatSymbolicAdd` sorts its arguments with `key=str`; the model sorts with its own canonical key
  (`key`), the harness compares sums as multisets, and `Props/C02d.lean` proves that the value of a
  sum does not depend on the order.

  Recursion of MatSymbolicMul (distribution over sums), Transpose and SymbolicTrace is bounded by an
  explicit `fuel`; when it runs out the *literal* node is returned.  `handle` supplies more fuel than
  any constructor-built input can use (the differential run would show a literal node otherwise), and
  the soundness theorems hold for every amount of fuel.
-/
import SympdeModel.Model.Sexp
namespace Sympde
namespace MatSym

inductive ME where
  | num (k : Int)                         -- sympy Integer
  | sym (name : String)                   -- sympde Constant (member of `_coeffs_registery`)
  | var (name : String)                   -- sympy Symbol (commutative, not in the registry)
  | jac (name : String)                   -- JacobianSymbol(Mapping(name))          (mapping.py:438)
  | jinv (name : String)                  -- JacobianInverseSymbol(Mapping(name))   (mapping.py:484)
  | add (xs : List ME)                    -- MatSymbolicAdd / Add
  | mul (xs : List ME)                    -- MatSymbolicMul / Mul, factors in order
  | pow (b : ME) (k : Int) (raw : Bool)   -- MatSymbolicPow / Pow, integer exponent; `raw`: the exponent
                                          --   is a Python int (`A**2`), not a sympy Integer
  | transpose (a : ME)                    -- Transpose node
  | inv (a : ME)                          -- Inverse node
  | tr (a : ME)                           -- SymbolicTrace node
  | det (a : ME)                          -- SymbolicDeterminant node
  | elem (a : ME) (i j : Nat)             -- MatrixElement(a, (i, j))
  deriving Repr, Inhabited

open ME

/-! ### structural equality (sympy `==`: a Python int exponent equals the Integer) -/
mutual
def beq : ME → ME → Bool
  | num a, num b => a == b
  | sym a, sym b => a == b
  | var a, var b => a == b
  | jac a, jac b => a == b
  | jinv a, jinv b => a == b
  | add xs, add ys => beqL xs ys
  | mul xs, mul ys => beqL xs ys
  | pow b k _, pow b' k' _ => beq b b' && k == k'
  | transpose a, transpose b => beq a b
  | inv a, inv b => beq a b
  | tr a, tr b => beq a b
  | det a, det b => beq a b
  | elem a i j, elem b i' j' => beq a b && i == i' && j == j'
  | _, _ => false
def beqL : List ME → List ME → Bool
  | [], [] => true
  | a :: as, b :: bs => beq a b && beqL as bs
  | _, _ => false
end

instance : BEq ME := ⟨beq⟩

/-! ### class attributes -/
mutual
/-- `a.is_commutative` is True (None — MatrixElement — counts as not commutative: both
    `if a.is_commutative` and `if not a.is_commutative` treat it so) -/
def comm : ME → Bool
  | num _ => true
  | sym _ => true
  | var _ => true
  | jac _ => false
  | jinv _ => false
  | add xs => commL xs
  | mul xs => commL xs
  | pow b _ _ => comm b
  | transpose _ => false
  | inv _ => false
  | tr _ => true             -- SymbolicTrace.is_commutative = True        (matrices.py:252)
  | det _ => true            -- SymbolicDeterminant.is_commutative = True  (matrices.py:237)
  | elem _ _ _ => false      -- MatrixElement: is_commutative is None
def commL : List ME → Bool
  | [] => true
  | a :: as => comm a && commL as
end

mutual
/-- `MatrixSymbolicExpr` is in the class's mro (what triggers the Add/Mul post-processors,
    matrices.py:292, and selects `MatrixSymbolicExpr.__pow__`) -/
def isMSE : ME → Bool
  | jac _ => true
  | jinv _ => true
  | transpose _ => true
  | inv _ => true
  | add xs => anyMSE xs      -- an Add with such an argument has been turned into a MatSymbolicAdd
  | mul xs => anyMSE xs
  | pow b _ _ => isMSE b     -- MatSymbolicPow is only built by `MatrixSymbolicExpr.__pow__`
  | _ => false
def anyMSE : List ME → Bool
  | [] => false
  | a :: as => isMSE a || anyMSE as
end

/-- `isinstance(a, _coeffs_registery)` (core/basic.py:47): a number or a sympde Constant -/
def isCoeff : ME → Bool
  | num _ => true
  | sym _ => true
  | _ => false

def isOne : ME → Bool
  | num k => k == 1
  | _ => false

def isZero : ME → Bool
  | num k => k == 0
  | _ => false

/-! ### canonical key (stands for `key=str` of MatSymbolicAdd and for sympy's internal sort key) -/
mutual
def key : ME → String
  | num k => "(num " ++ toString k ++ ")"
  | sym s => "(sym " ++ s ++ ")"
  | var s => "(var " ++ s ++ ")"
  | jac s => "(jac " ++ s ++ ")"
  | jinv s => "(jinv " ++ s ++ ")"
  | add xs => "(add" ++ keyL xs ++ ")"
  | mul xs => "(mul" ++ keyL xs ++ ")"
  | pow b k _ => "(pow " ++ key b ++ " " ++ toString k ++ ")"
  | transpose a => "(T " ++ key a ++ ")"
  | inv a => "(inv " ++ key a ++ ")"
  | tr a => "(tr " ++ key a ++ ")"
  | det a => "(det " ++ key a ++ ")"
  | elem a i j => "(elem " ++ key a ++ " " ++ toString i ++ " " ++ toString j ++ ")"
def keyL : List ME → String
  | [] => ""
  | a :: as => " " ++ key a ++ keyL as
end

def keyLe (a b : ME) : Bool := decide (key a ≤ key b)

def insertK (x : ME) : List ME → List ME
  | [] => [x]
  | y :: ys => if keyLe x y then x :: y :: ys else y :: insertK x ys

/-- the canonical order of the arguments of a sum / of the commutative factors of a product
    (insertion sort by `key`) -/
def sortK (xs : List ME) : List ME := xs.foldr insertK []

/-! ### sympy pieces -/

/-- one level of `Add` flattening -/
def flatAdd : List ME → List ME
  | [] => []
  | add ys :: rest => ys ++ flatAdd rest
  | x :: rest => x :: flatAdd rest

/-- one level of `Mul` flattening -/
def flatMul : List ME → List ME
  | [] => []
  | mul ys :: rest => ys ++ flatMul rest
  | x :: rest => x :: flatMul rest

/-- the end of MatSymbolicAdd.__new__ (matrices.py:212-217) -/
def addOf (args : List ME) : ME :=
  match args with
  | [] => num 0
  | [x] => x
  | _ => add (sortK args)                               -- sorted(args, key=str)

/-- MatSymbolicAdd.__new__ (matrices.py:201-217) -/
def mkAdd (args : List ME) : ME :=
  -- `if a != 0`, then isinstance(i, (MatSymbolicAdd, Add))
  addOf (flatAdd (args.filter (fun a => !isZero a)))

/-- `Mul.as_coeff_Mul`: a leading numeric literal is split off -/
def asCoeffMul : ME → Int × ME
  | mul (num k :: [r]) => (k, r)
  | mul (num k :: r :: rs) => (k, mul (r :: rs))
  | t => (1, t)

/-- the `terms` dictionary of Add.flatten: like terms (sympy `==`) collect their coefficients;
    insertion order is kept -/
def addTerm (s : ME) (c : Int) : List (ME × Int) → List (ME × Int)
  | [] => [(s, c)]
  | (s', c') :: rest => if s' == s then (s', c' + c) :: rest else (s', c') :: addTerm s c rest

/-- gathers (numeric part, terms) of a flattened argument list of `Add` -/
def collect : List ME → Int × List (ME × Int)
  | [] => (0, [])
  | num k :: rest => let (c, ts) := collect rest; (k + c, ts)
  | t :: rest =>
      let (c, ts) := collect rest
      let (k, s) := asCoeffMul t
      (c, addTerm s k ts)

/-- the term `c*s` as Add.flatten rebuilds it -/
def rebuild (s : ME) (c : Int) : ME :=
  match s with
  | mul ys => mul (num c :: ys)                 -- s._new_rawargs(c, *s.args)
  | _ => mul [num c, s]                         -- Mul(c, s) (evaluate=False for an Add)

def rebuildAll : List (ME × Int) → List ME
  | [] => []
  | (s, c) :: rest =>
      if c == 0 then rebuildAll rest
      else if c == 1 then s :: rebuildAll rest
      else rebuild s c :: rebuildAll rest

/-- the end of sympy `Add(*terms)`: no term, one term, or an Add node which the post-processor
    `MatSymbolicAdd(*x.args)` (matrices.py:292-295) rebuilds when an argument is a symbolic matrix -/
def sympyAddOf (news : List ME) : ME :=
  match news with
  | [] => num 0
  | [x] => x
  | _ => if anyMSE news then mkAdd news else add (sortK news)

/-- sympy `Add(*terms)` followed by the post-processor -/
def sympyAdd (terms : List ME) : ME :=
  let ct := collect (flatAdd terms)
  let news := rebuildAll ct.2
  sympyAddOf (if ct.1 == 0 then news else num ct.1 :: news)

/-- product of the numeric literals of a list, and the other members -/
def splitNums : List ME → Int × List ME
  | [] => (1, [])
  | num k :: rest => let (c, r) := splitNums rest; (k * c, r)
  | x :: rest => let (c, r) := splitNums rest; (c, x :: r)

/-- a numeric literal and the other factors of a commutative product, as sympy's Mul returns them -/
def scalOf (k : Int) (rest : List ME) : ME :=
  if k == 0 then num 0
  else match rest with
    | [] => num k
    | [r] => if k == 1 then r else mul [num k, r]
    | rs => if k == 1 then mul rs else mul (num k :: rs)

/-- sympy `Mul(*coeffs)` on commutative factors: flattened, numeric literals multiplied, the other
    factors in canonical order (powers of equal bases are not gathered, see the header) -/
def scalMul (cs : List ME) : ME :=
  let kr := splitNums (flatMul cs)
  scalOf kr.1 (sortK kr.2)

/-- sympy `c * t` for two commutative expressions (`Mul(*coeffs)*SymbolicTrace(...)`,
    matrices.py:263): as `scalMul`, the factors of `c` before those of `t` (their arrangement is
    sympy's internal order, which the harness does not compare) -/
def scalTimes (c t : ME) : ME :=
  let kr := splitNums (flatMul [c, t])
  scalOf kr.1 kr.2

/-- `o.as_base_exp()` with the kind of the exponent (Python int or not) -/
def asBaseExp : ME → ME × Int × Bool
  | pow b k r => (b, k, r)
  | x => (x, 1, false)

/-- `b ** Integer(e)`: `MatrixSymbolicExpr.__pow__` builds a plain MatSymbolicPow node
    (matrices.py:72, 224: no evaluation at all); sympy's Pow evaluates exponents 0 and 1 -/
def mkPow (b : ME) (e : Int) : ME :=
  if isMSE b then pow b e false
  else if e == 0 then num 1
  else if e == 1 then b
  else pow b e false

/-- one step of the nc_part loop of Mul.flatten: the new factor is combined with the last one when
    both have the same base.  State: (factors so far, last first; an AttributeError was raised).
    `new_exp = e1 + e2` is a Python int when both exponents are, and `new_exp.is_Add` then raises.
    (sympy re-inserts the combined power and compares it with the factor before; two neighbours on
    the stack never have equal bases, so that comparison always fails and is not repeated here.) -/
def ncStep (st : List ME × Bool) (o : ME) : List ME × Bool :=
  match st.1 with
  | [] => ([o], st.2)
  | o1 :: rest =>
      let be1 := asBaseExp o1                            -- b1, e1 = o1.as_base_exp()
      let be2 := asBaseExp o                             -- b2, e2 = o.as_base_exp()
      if be1.1 == be2.1 then
        let p := mkPow be1.1 (be1.2.1 + be2.2.1)         -- o12 = b1 ** (e1 + e2)
        (if isOne p then rest else p :: rest, st.2 || (be1.2.2 && be2.2.2))
      else (o :: o1 :: rest, st.2)

def ncFold (xs : List ME) : List ME × Bool := xs.foldl ncStep ([], false)

/-- the end of MatSymbolicMul.__new__ (matrices.py:164-169) -/
def mulOf (args : List ME) : ME :=
  match args with
  | [] => num 1
  | [x] => x
  | _ => mul args

/-- `args = list(c.args) + args` / `args = [c] + args` (matrices.py:159-162) -/
def spliceCoeff (c : ME) (ncs : List ME) : List ME :=
  match c with
  | mul zs => zs ++ ncs                                 -- isinstance(c, Mul)
  | c => if isOne c then ncs else c :: ncs              -- elif c != 1

/-- the argument list after the coefficient step (matrices.py:155-162) -/
def mulArgs (cs ncs : List ME) : List ME :=
  if cs.isEmpty then ncs
  else if ncs.isEmpty then [scalMul cs]                 -- `if not args: return c`
  else spliceCoeff (scalMul cs) ncs                     -- c = Mul(*coeffs)

/-- position of the first `Add` among the arguments: (arguments before, its terms, arguments after) -/
def splitAdd : List ME → List ME → Option (List ME × List ME × List ME)
  | _, [] => none
  | pre, add es :: post => some (pre.reverse, es, post)
  | pre, x :: post => splitAdd (x :: pre) post

/-- MatSymbolicMul.__new__ (matrices.py:134-169) -/
def mkMul : Nat → List ME → ME
  | 0, xs => mul xs
  | f + 1, xs =>
      let args := xs.filter (fun a => !isOne a)                      -- `if a != 1`
      match splitAdd [] args with
      | some (pre, es, post) =>                                      -- first Add: distribute
          -- [MatSymbolicMul(*(args[:i] + [e] + args[i+1:])) for e in a.args]
          let news := es.map (fun e => mkMul f (pre ++ e :: post))
          if anyMSE es then mkAdd news else sympyAdd news            -- type(a)(*newargs)
      | none =>
          let flat := flatMul args                                   -- isinstance(a, Mul)
          let ncs := flat.filter (fun a => !comm a)
          let cs := flat.filter comm
          mulOf (mulArgs cs ncs)

/-- the end of sympy `Mul(*args)`: no factor, one factor, or a Mul node rebuilt by the post-processor -/
def ncOf (f : Nat) (ys : List ME) : ME :=
  match ys with
  | [] => num 1
  | [y] => y
  | _ => mkMul f ys

/-- sympy `Mul(*args)` on the non-commutative factors of a product, with the post-processor
    `MatSymbolicMul(*x.args)` -/
def sympyMulNC (f : Nat) (ncs : List ME) : ME :=
  ncOf f (ncFold ncs).1.reverse

/-- Inverse.__new__ (matrices.py:89-93) -/
def mkInverse : ME → ME
  | inv y => y
  | a => inv a

/-- `.inv()`: JacobianSymbol.inv (mapping.py:456) returns the inverse-Jacobian atom, every other
    symbolic matrix uses MatrixSymbolicExpr.inv (matrices.py:18) -/
def methodInv : ME → ME
  | jac s => jinv s
  | a => mkInverse a

/-- Transpose.__new__ (matrices.py:109-119) -/
def mkTranspose : Nat → ME → ME
  | 0, a => transpose a
  | _ + 1, transpose y => y
  | f + 1, add xs => sympyAdd (xs.map (mkTranspose f))               -- Add(*[Transpose(a) ...])
  | f + 1, mul xs =>
      let cs := xs.filter comm
      let ncs := xs.filter (fun a => !comm a)
      -- Mul(*coeffs) * Expr.__new__(cls, Mul(*args)); the product is MatSymbolicMul via __rmul__
      mkMul (f + 1) [scalMul cs, transpose (sympyMulNC f ncs)]
  | _ + 1, a => transpose a

/-- does Transpose.__new__ raise (AttributeError of Mul.flatten on two neighbouring Python-int
    powers of the same base)? -/
def transposeRaises : Nat → ME → Bool
  | 0, _ => false
  | f + 1, add xs => xs.any (transposeRaises f)
  | _ + 1, mul xs => (ncFold (xs.filter (fun a => !comm a))).2
  | _ + 1, _ => false

/-- SymbolicTrace.__new__ (matrices.py:253-265) -/
def mkTrace : Nat → ME → ME
  | 0, a => tr a
  | f + 1, add xs => sympyAdd (xs.map (mkTrace f))                   -- Add(*[SymbolicTrace(a) ...])
  | f + 1, mul xs =>
      let cs := xs.filter isCoeff
      let ms := xs.filter (fun a => !isCoeff a)
      if cs.isEmpty then tr (mul xs)
      else scalTimes (scalMul cs) (mkTrace f (mkMul f ms))              -- Mul(*coeffs)*SymbolicTrace(arg.func(*mats))
  | _ + 1, a => tr a

/-- MatrixSymbolicExpr.__neg__ (matrices.py:38) -/
def mkNeg (f : Nat) (a : ME) : ME := mkMul f [num (-1), a]
/-- MatrixSymbolicExpr.__sub__ (matrices.py:56) -/
def mkSub (f : Nat) (a b : ME) : ME := mkAdd [a, mkNeg f b]
/-- MatrixSymbolicExpr.__pow__ (matrices.py:72): MatSymbolicPow has no `__new__`, plain node -/
def mkPowOp (a : ME) (k : Int) (raw : Bool) : ME := pow a k raw
/-- SymbolicDeterminant.__new__ (matrices.py:238): plain node -/
def mkDet (a : ME) : ME := det a
/-- MatrixElement.__new__ (matrices.py:277): plain node -/
def mkElem (a : ME) (i j : Nat) : ME := elem a i j

/-! ### size (fuel for `handle`) -/
mutual
def size : ME → Nat
  | add xs => sizeL xs + 1
  | mul xs => sizeL xs + 1
  | pow b _ _ => size b + 1
  | transpose a => size a + 1
  | inv a => size a + 1
  | tr a => size a + 1
  | det a => size a + 1
  | elem a _ _ => size a + 1
  | _ => 1
def sizeL : List ME → Nat
  | [] => 0
  | a :: as => size a + sizeL as
end

/-! ### S-expression I/O -/

partial def ofSexp : Sexp → Option ME
  | .list [.atom "num", k] => do some (num (← k.toInt?))
  | .list [.atom "sym", .str s] => some (sym s)
  | .list [.atom "var", .str s] => some (var s)
  | .list [.atom "jac", .str s] => some (jac s)
  | .list [.atom "jinv", .str s] => some (jinv s)
  | .list (.atom "add" :: xs) => do some (add (← xs.mapM ofSexp))
  | .list (.atom "mul" :: xs) => do some (mul (← xs.mapM ofSexp))
  | .list [.atom "pow", b, k, r] => do some (pow (← ofSexp b) (← k.toInt?) (← r.toBool?))
  | .list [.atom "T", a] => do some (transpose (← ofSexp a))
  | .list [.atom "inv", a] => do some (inv (← ofSexp a))
  | .list [.atom "tr", a] => do some (tr (← ofSexp a))
  | .list [.atom "det", a] => do some (det (← ofSexp a))
  | .list [.atom "elem", a, i, j] => do some (elem (← ofSexp a) (← i.toNat?) (← j.toNat?))
  | _ => none

partial def toSexp : ME → Sexp
  | num k => .list [.atom "num", Sexp.ofInt k]
  | sym s => .list [.atom "sym", .str s]
  | var s => .list [.atom "var", .str s]
  | jac s => .list [.atom "jac", .str s]
  | jinv s => .list [.atom "jinv", .str s]
  | add xs => .list (.atom "add" :: xs.map toSexp)
  | mul xs => .list (.atom "mul" :: xs.map toSexp)
  | pow b k r => .list [.atom "pow", toSexp b, Sexp.ofInt k, Sexp.ofBool r]
  | transpose a => .list [.atom "T", toSexp a]
  | inv a => .list [.atom "inv", toSexp a]
  | tr a => .list [.atom "tr", toSexp a]
  | det a => .list [.atom "det", toSexp a]
  | elem a i j => .list [.atom "elem", toSexp a, Sexp.ofNat i, Sexp.ofNat j]

def okOf (e : ME) : String := "ok " ++ toString (toSexp e)

/-- one request line → one response line -/
def handle (args : List Sexp) : String :=
  match args with
  | [.atom "T", a] =>
      match ofSexp a with
      | some a =>
          let f := size a + 2
          if transposeRaises f a then "err AttributeError" else okOf (mkTranspose f a)
      | none => "bad-op"
  | [.atom "Inverse", a] =>
      match ofSexp a with
      | some a => okOf (mkInverse a)
      | none => "bad-op"
  | [.atom "inv", a] =>
      match ofSexp a with
      | some a => okOf (methodInv a)
      | none => "bad-op"
  | [.atom "tr", a] =>
      match ofSexp a with
      | some a => okOf (mkTrace (size a + 2) a)
      | none => "bad-op"
  | [.atom "det", a] =>
      match ofSexp a with
      | some a => okOf (mkDet a)
      | none => "bad-op"
  | [.atom "elem", a, i, j] =>
      match ofSexp a, i.toNat?, j.toNat? with
      | some a, some i, some j => okOf (mkElem a i j)
      | _, _, _ => "bad-op"
  | [.atom "pow", a, k, r] =>
      match ofSexp a, k.toInt?, r.toBool? with
      | some a, some k, some r => okOf (mkPowOp a k r)
      | _, _, _ => "bad-op"
  | [.atom "neg", a] =>
      match ofSexp a with
      | some a => okOf (mkNeg (size a + 2) a)
      | none => "bad-op"
  | [.atom "sub", a, b] =>
      match ofSexp a, ofSexp b with
      | some a, some b => okOf (mkSub (size b + 2) a b)
      | _, _ => "bad-op"
  | .atom "mul" :: xs =>
      match xs.mapM ofSexp with
      | some xs => okOf (mkMul (sizeL xs + 2) xs)
      | none => "bad-op"
  | .atom "add" :: xs =>
      match xs.mapM ofSexp with
      | some xs => okOf (mkAdd xs)
      | none => "bad-op"
  | _ => "bad-op"

end MatSym
end Sympde
