/-
  Model of `DifferentialOperator.eval` (sympde/topology/derivatives.py:51-167): the coordinate
  partial-derivative operators dx dy dz dx1 dx2 dx3, transcribed branch for branch, with a
  model of `sympy.diff` for function-free coordinate expressions.  Core Lean only.
-/
import SympdeModel.Model.Expr
namespace Sympde
namespace PD
open E

mutual
/-- `has(expr, (VectorFunction, ScalarFunction, DifferentialOperator))` -/
def hasT : E → Bool
  | sf _ _ => true
  | vf _ _ => true
  | pd _ _ => true
  | idx b _ => hasT b
  | add as => hasTList as
  | mul as => hasTList as
  | pow b e => hasT b || hasT e
  | fn _ a => hasT a
  | op1 _ a => hasT a
  | op2 _ a b => hasT a || hasT b
  | mat _ _ es => hasTList es
  | tup as => hasTList as
  | other _ as => hasTList as
  | _ => false
def hasTList : List E → Bool
  | [] => false
  | a :: as => hasT a || hasTList as
end

mutual
/-- sympy `is_number` on the fragment: numbers, Constants and arithmetic / functions of them -/
def isNumber : E → Bool
  | num _ _ => true
  | cst _ => true
  | add as => allNumber as
  | mul as => allNumber as
  | pow b e => isNumber b && isNumber e
  | fn _ a => isNumber a
  | _ => false
def allNumber : List E → Bool
  | [] => true
  | a :: as => isNumber a && allNumber as
end

/-- `isinstance(a, _coeffs_registery)` -/
def isCoef : E → Bool
  | num _ _ => true
  | cst _ => true
  | _ => false

def mulOf : List E → E
  | [] => one
  | [v] => v
  | vs => mul vs

/-- derivative table of the elementary functions (what `sympy.diff` returns) -/
def fnDeriv (f : String) (a : E) : E :=
  match f with
  | "sin" => fn "cos" a
  | "cos" => mul [num (-1) 1, fn "sin" a]
  | "exp" => fn "exp" a
  | "log" => pow a (num (-1) 1)
  | "sinh" => fn "cosh" a
  | "cosh" => fn "sinh" a
  | "tan" => add [one, pow (fn "tan" a) (num 2 1)]
  | _ => other "Derivative" [fn f a]

/-- the integer value of an exponent that is an integer literal -/
def intLit : E → Option Int
  | num p 1 => some p
  | _ => none

/-- d/dc of `b^e`, given the derivatives of base and exponent: the power rule for an integer
    literal exponent (what sympy's `Mul` makes of `(log(b)*0 + n*db/b)*b**n`), the general
    `log` formula otherwise -/
def powRule (b e db de : E) : E :=
  match intLit e with
  | some n => mul [num n 1, pow b (num (n - 1) 1), db]
  | none => mul [add [mul [fn "log" b, de], mul [e, db, pow b (num (-1) 1)]], pow b e]

/-- Σ_k (Π_{j≠k} a_j) · a_k'  for the factor list paired with the derivatives -/
def prodRule : List (E × E) → E
  | [] => zero
  | [(_, da)] => da
  | (a, da) :: rest => add [mul [a, prodRule rest], mul [da, mulOf (rest.map (·.1))]]

mutual
/-- model of `sympy.diff(expr, Symbol(c))` on function-free expressions -/
def sdiff (c : Coord) : E → E
  | num _ _ => zero
  | cst _ => zero
  | sym s => if s == c.name then one else zero
  | add as => add (sdiffList c as)
  | mul as => prodRule (as.zip (sdiffList c as))
  | pow b e => powRule b e (sdiff c b) (sdiff c e)
  | fn f a => mul [fnDeriv f a, sdiff c a]
  | e => other "Derivative" [e]
def sdiffList (c : Coord) : List E → List E
  | [] => []
  | a :: as => sdiff c a :: sdiffList c as
end

/-! ### canonical re-ordering of logical derivatives -/

/-- strip the leading chain of logical derivatives (`get_atom_logical_derivatives`) -/
def stripL : E → E
  | pd c a => if c.logical then stripL a else pd c a
  | e => e

mutual
/-- number of logical `pd c` nodes anywhere in the expression (`preorder_traversal`) -/
def countL (c : Coord) : E → Nat
  | pd c' a => (if c' == c then 1 else 0) + countL c a
  | idx b _ => countL c b
  | add as => countLList c as
  | mul as => countLList c as
  | pow b e => countL c b + countL c e
  | fn _ a => countL c a
  | op1 _ a => countL c a
  | op2 _ a b => countL c a + countL c b
  | mat _ _ es => countLList c es
  | tup as => countLList c as
  | other _ as => countLList c as
  | _ => 0
def countLList (c : Coord) : List E → Nat
  | [] => 0
  | a :: as => countL c a + countLList c as
end

def iter (n : Nat) (f : E → E) (a : E) : E :=
  match n with
  | 0 => a
  | n + 1 => f (iter n f a)

/-- rebuild `dx1^n1(dx2^n2(dx3^n3(atom)))` -/
def rebuildL (n1 n2 n3 : Nat) (atom : E) : E :=
  iter n1 (pd .x1) (iter n2 (pd .x2) (iter n3 (pd .x3) atom))

/-- the branch for an argument that is itself a logical derivative.  After the `fix:` commit
    only the derivatives of the *leading* chain are counted (before it, logical derivatives
    buried inside the atom — below a physical derivative — were counted a second time). -/
def reorderL (c : Coord) (e : E) : Except Err E :=
  let atom := stripL e
  let k (c' : Coord) : Nat := countL c' e - countL c' atom + (if c == c' then 1 else 0)
  let r := rebuildL (k .x1) (k .x2) (k .x3) atom
  if c.logical then .ok r else .ok (pd c r)

def isLogicalPd : E → Bool
  | pd c _ => c.logical
  | _ => false

def isMinusPlus : E → Bool
  | op1 .minus _ => true
  | op1 .plus _ => true
  | _ => false

def range (n : Nat) : List Nat := List.range n

/-- the `Mul` branch on the non-coefficient factors paired with their (already computed)
    derivatives: one factor, two factors, or first × product of the rest (recursively, where
    the product of the rest is differentiated by `sympy.diff` when it is function-free) -/
def dProd (c : Coord) : List (E × Except Err E) → Except Err E
  | [] => .ok zero
  | [(_, dv)] => dv
  | (a, da) :: rest =>
      let b := mulOf (rest.map (·.1))
      let fb : Except Err E :=
        match rest with
        | [(_, dv)] => dv
        | _ =>
          if !hasTList (rest.map (·.1)) then
            .ok (if allNumber (rest.map (·.1)) then zero else sdiff c b)
          else dProd c rest
      do
        let fa ← da
        let fb ← fb
        .ok (add [mul [a, fb], mul [fa, b]])

mutual
/-- `cls.eval(expr)` for `cls` the operator of coordinate `c`, in dimension `d` -/
def dEval (d : Nat) (c : Coord) : E → Except Err E
  | pd c' a =>
      if c'.logical then reorderL c (pd c' a) else .ok (pd c (pd c' a))
  | vf s k => .ok (mat 1 d ((range d).map (fun i => pd c (idx (vf s k) i))))
  | tup as => do
      let rs ← dEvalList d c as
      .ok (mat 1 as.length rs)
  | mat r cc es => do
      let rs ← dEvalList d c es
      .ok (mat r cc rs)
  | idx b i => .ok (pd c (idx b i))
  | sf s k => .ok (pd c (sf s k))
  | op1 .minus a => .ok (pd c (op1 .minus a))
  | op1 .plus a => .ok (pd c (op1 .plus a))
  | add as =>
      if !hasTList as then
        .ok (if allNumber as then zero else sdiff c (add as))
      else do
        let rs ← dEvalList d c as
        .ok (add rs)
  | mul as =>
      if !hasTList as then
        .ok (if allNumber as then zero else sdiff c (mul as))
      else
        let cs := as.filter isCoef
        let vds := (as.zip (dEvalListE d c as)).filter (fun p => !isCoef p.1)
        do
          let v ← dProd c vds
          .ok (mul [mulOf cs, v])
  | pow b e =>
      if !(hasT b || hasT e) then
        .ok (if isNumber b && isNumber e then zero else sdiff c (pow b e))
      else do
        let db ← dEval d c b
        let de ← dEval d c e
        .ok (powRule b e db de)
  | e =>
      if !hasT e then
        (if isNumber e then .ok zero else .ok (sdiff c e))
      else .error .notImplemented
/-- all-or-nothing evaluation of a list -/
def dEvalList (d : Nat) (c : Coord) : List E → Except Err (List E)
  | [] => .ok []
  | a :: as => do
      let r ← dEval d c a
      let rs ← dEvalList d c as
      .ok (r :: rs)
/-- element-wise evaluation keeping each result (or error) separately -/
def dEvalListE (d : Nat) (c : Coord) : List E → List (Except Err E)
  | [] => []
  | a :: as => dEval d c a :: dEvalListE d c as
end

def handle (args : List Sexp) : String :=
  match args with
  | [.atom "pd", dim, .atom c, e] =>
      match dim.toNat?, Coord.ofName c, E.ofSexp e with
      | some d, some c, some e =>
          match dEval d c e with
          | .ok r => "ok " ++ toString (E.toSexp r)
          | .error err => "err " ++ err.name
      | _, _, _ => "bad-op"
  | [.atom "sdiff", .atom c, e] =>
      match Coord.ofName c, E.ofSexp e with
      | some c, some e => "ok " ++ toString (E.toSexp (sdiff c e))
      | _, _ => "bad-op"
  | _ => "bad-op"

end PD
end Sympde
