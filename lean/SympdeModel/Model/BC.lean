/-
  Model of sympde/expr/equation.py: `EssentialBC.__new__` (classification of the left-hand
  side, lines 37-130) and `Equation.__new__` (type checks, position lookup, expansion over
  Union boundaries, lines 193-335), transcribed branch for branch.  Core Lean only.

  Left-hand sides are the trees *as the implementation sees them*.  Two facts about the
  constructors used by the classification are part of the model:
  * `Dot.__new__` orders its two arguments by their string representation, so two `Dot`
    nodes are compared up to exchanging the arguments (`eqv`);
  * `Dot.__new__` raises `TypeError` (reduce of an empty sequence) when an argument has no
    non-commutative factor — which is the case for an `IndexedVectorFunction` (`mkDot`).
  Functions compare like sympy symbols: by class and name (`Fn.same`).
-/
import SympdeModel.Model.Sexp
namespace Sympde
namespace BC

/-- ScalarFunction / VectorFunction (with the dimension of its space) -/
inductive Fn where
  | scalar (name : String)
  | vector (name : String) (ldim : Nat)
  deriving Repr, DecidableEq, Inhabited

def Fn.isVector : Fn → Bool
  | .vector _ _ => true
  | _ => false

def Fn.ldim : Fn → Nat
  | .vector _ d => d
  | _ => 0

/-- sympy equality of two functions: same class, same name -/
def Fn.same : Fn → Fn → Bool
  | .scalar a, .scalar b => a == b
  | .vector a _, .vector b _ => a == b
  | _, _ => false

inductive Lhs where
  | fn (f : Fn)                       -- u
  | idx (f : Fn) (i : Nat)            -- u[i]   (IndexedVectorFunction)
  | normal (name : String)            -- NormalVector
  | dot (a b : Lhs)                   -- Dot
  | grad (a : Lhs)                    -- Grad
  | trace (a : Lhs)                   -- Trace
  | other (tag : String) (args : Lhs) -- any other node (Add, Mul, numbers, Dn, …); `args` is a
  | nil                               --   chain of `cons` cells ending in `nil` (keeps the type
  | cons (a rest : Lhs)               --   non-nested, so that equality is derived and lawful)
  deriving Repr, Inhabited, DecidableEq

open Lhs

/-- equality as `==` sees two constructed expressions: `Dot` is unordered -/
def eqv (x y : Lhs) : Bool :=
  x == y || (match x, y with
    | dot a b, dot c d => a == d && b == c
    | _, _ => false)

def addNew [BEq α] (x : α) (xs : List α) : List α := if xs.contains x then xs else xs ++ [x]
def unionNew [BEq α] (xs ys : List α) : List α := ys.foldl (fun acc y => addNew y acc) xs

/-- `lhs.atoms(ScalarFunction)` (as a duplicate-free list) -/
def scalarAtoms : Lhs → List Fn
  | fn f => if f.isVector then [] else [f]
  | idx f _ => if f.isVector then [] else [f]
  | normal _ => []
  | dot a b => unionNew (scalarAtoms a) (scalarAtoms b)
  | grad a => scalarAtoms a
  | trace a => scalarAtoms a
  | other _ as => scalarAtoms as
  | nil => []
  | cons a r => unionNew (scalarAtoms a) (scalarAtoms r)

/-- `lhs.atoms(VectorFunction)` — the base of an indexed function is found too -/
def vectorAtoms : Lhs → List Fn
  | fn f => if f.isVector then [f] else []
  | idx f _ => if f.isVector then [f] else []
  | normal _ => []
  | dot a b => unionNew (vectorAtoms a) (vectorAtoms b)
  | grad a => vectorAtoms a
  | trace a => vectorAtoms a
  | other _ as => vectorAtoms as
  | nil => []
  | cons a r => unionNew (vectorAtoms a) (vectorAtoms r)

/-- `lhs.atoms(IndexedVectorFunction)` -/
def indexedAtoms : Lhs → List (Fn × Nat)
  | idx f i => [(f, i)]
  | fn _ => []
  | normal _ => []
  | dot a b => unionNew (indexedAtoms a) (indexedAtoms b)
  | grad a => indexedAtoms a
  | trace a => indexedAtoms a
  | other _ as => indexedAtoms as
  | nil => []
  | cons a r => unionNew (indexedAtoms a) (indexedAtoms r)

/-- `lhs.atoms(NormalVector)` -/
def normalAtoms : Lhs → List String
  | normal n => [n]
  | fn _ => []
  | idx _ _ => []
  | dot a b => unionNew (normalAtoms a) (normalAtoms b)
  | grad a => normalAtoms a
  | trace a => normalAtoms a
  | other _ as => normalAtoms as
  | nil => []
  | cons a r => unionNew (normalAtoms a) (normalAtoms r)

/-- `lhs.atoms(Trace)` is non-empty -/
def hasTrace : Lhs → Bool
  | trace _ => true
  | fn _ => false
  | idx _ _ => false
  | normal _ => false
  | dot a b => hasTrace a || hasTrace b
  | grad a => hasTrace a
  | other _ as => hasTrace as
  | nil => false
  | cons a r => hasTrace a || hasTrace r

inductive Err where
  | oneFunction      -- ValueError('Expecting one test function')
  | traceUsed        -- TypeError('Trace operator is not allowed')
  | twoNormals       -- AssertionError (len(nn) == 1)
  | dotIndexed       -- TypeError: dot(u[i], nn) — reduce() of an empty sequence
  | indexedOrder1    -- NotImplementedError('Indexed case')
  | wrongLhs         -- ValueError('Wrong lhs')
  | lhsNotBilinear   -- UnconsistentLhsError
  | rhsNotLinear     -- UnconsistentRhsError
  | notFunctions     -- AssertionError on tests / trials
  | bcType           -- TypeError ('Expecting a list of BasicBoundaryCondition' / 'Wrong type for bc')
  | notEssential     -- NotImplementedError('')
  | notTrial         -- UnconsistentArgumentsError('Essential bc must be on trial functions')
  deriving Repr, DecidableEq

/-- `dot(a, b)` for the two calls made by the classification -/
def mkDot (a b : Lhs) : Except Err Lhs :=
  match a with
  | idx _ _ => .error .dotIndexed
  | _ => .ok (dot a b)

inductive Bnd where
  | face (id : String)
  | union (faces : List String)       -- `Union._args`, at least two faces
  deriving Repr, DecidableEq, Inhabited

/-- the attributes of an EssentialBC object -/
structure Cond where
  lhs : Lhs
  rhs : String
  boundary : Bnd
  order : Nat
  var : Fn
  normalComponent : Bool
  indexComponent : Option (List Nat)
  position : Option Nat
  deriving Repr, Inhabited

/-- the function `u` singled out by equation.py:43-56 -/
def theFunction (lhs : Lhs) : Except Err Lhs :=
  let indexed := indexedAtoms lhs
  let us : List Lhs := (scalarAtoms lhs).map fn ++
    (if indexed.isEmpty then (vectorAtoms lhs).map fn else indexed.map (fun p => idx p.1 p.2))
  match us with
  | [u] => .ok u
  | _ => .error .oneFunction

def isVecFn : Lhs → Bool
  | fn f => f.isVector
  | _ => false

/-- `isinstance(u.space, VectorFunctionSpace)` -/
def spaceIsVector : Lhs → Bool
  | fn f => f.isVector
  | idx _ _ => true
  | _ => false

/-- `EssentialBC(lhs, rhs, boundary, position=…, index_component=…)` -/
def mkCond (lhs : Lhs) (rhs : String) (boundary : Bnd) (position : Option Nat)
    (ic0 : Option (List Nat)) : Except Err Cond :=
  match theFunction lhs with
  | .error e => .error e
  | .ok u =>
    if hasTrace lhs then .error .traceUsed
    else
      let nn := normalAtoms lhs
      let normalComponent := isVecFn u && !nn.isEmpty
      -- equation.py:75-83: the candidate expressions
      let cands : Except Err (List Lhs × List Lhs) :=
        match nn with
        | [] => .ok ([u], [])
        | [n] =>
            match (if spaceIsVector u then (mkDot u (normal n)).map (fun d => [u, d]) else .ok [u]) with
            | .error e => .error e
            | .ok o0 =>
                match mkDot (grad u) (normal n) with
                | .error e => .error e
                | .ok d1 => .ok (o0, [d1])
        | _ => .error .twoNormals
      match cands with
      | .error e => .error e
      | .ok (o0, o1) =>
          if o0.any (eqv lhs) then
            match u with
            | idx f i =>
                .ok { lhs, rhs, boundary, order := 0, var := f, normalComponent,
                      indexComponent := some [i], position }
            | fn f =>
                if f.isVector && !normalComponent then
                  .ok { lhs, rhs, boundary, order := 0, var := f, normalComponent,
                        indexComponent := some (List.range f.ldim), position }
                else
                  .ok { lhs, rhs, boundary, order := 0, var := f, normalComponent,
                        indexComponent := ic0, position }
            | _ => .error .wrongLhs   -- unreachable: `u` is a function or an indexed function
          else if o1.any (eqv lhs) then
            match u with
            | fn f =>
                .ok { lhs, rhs, boundary, order := 1, var := f, normalComponent,
                      indexComponent := ic0, position }
            | _ => .error .indexedOrder1
          else .error .wrongLhs

/-! ### Equation.__new__ -/

inductive FnItem where
  | fn (f : Fn)
  | notFn
  deriving Repr

/-- the `tests` / `trials` argument -/
inductive FnArg where
  | single (f : Fn)
  | many (fs : List FnItem)
  | wrong                              -- neither a function nor a list/tuple/Tuple
  deriving Repr

inductive BcItem where
  | essential (c : Cond)
  | otherBC                            -- a BasicBoundaryCondition that is not an EssentialBC
  | notBC
  deriving Repr

/-- the `bc` argument -/
inductive BcArg where
  | none
  | single (i : BcItem)
  | many (is : List BcItem)
  | wrong                              -- a true value that is neither a condition nor a list
  deriving Repr

structure EqOut where
  lhs : String
  rhs : String
  trials : List Fn
  tests : List Fn
  bc : Option (List Cond)
  deriving Repr

def fnItems : List FnItem → Option (List Fn)
  | [] => some []
  | .fn f :: r => (fnItems r).map (f :: ·)
  | .notFn :: _ => none

/-- equation.py:207-226 -/
def fnArg : FnArg → Except Err (List Fn)
  | .single f => .ok [f]
  | .many fs => match fnItems fs with
      | some l => .ok l
      | none => .error .notFunctions
  | .wrong => .error .notFunctions

/-- `trials.index(v)` / `v in trials` -/
def indexOf (v : Fn) : List Fn → Option Nat
  | [] => none
  | t :: ts => if t.same v then some 0 else (indexOf v ts).map (· + 1)

/-- equation.py:318-322: one condition per member of `boundary._args` -/
def perFace (c : Cond) : List String → Except Err (List Cond)
  | [] => .ok []
  | j :: js =>
      match mkCond c.lhs c.rhs (.face j) c.position c.indexComponent with
      | .error e => .error e
      | .ok c' =>
          match perFace c js with
          | .error e => .error e
          | .ok cs => .ok (c' :: cs)

/-- equation.py:303-325 -/
def expandBC (trials : List Fn) : List BcItem → Except Err (List Cond)
  | [] => .ok []
  | i :: rest =>
      match i with
      | .essential c =>
          match indexOf c.var trials with
          | none => .error .notTrial
          | some p =>
              let c := { c with position := some p }     -- set_position
              match (match c.boundary with
                     | .union faces => perFace c faces
                     | .face _ => .ok [c]) with
              | .error e => .error e
              | .ok new =>
                  match expandBC trials rest with
                  | .error e => .error e
                  | .ok more => .ok (new ++ more)
      | _ => .error .notEssential

def isBC : BcItem → Bool
  | .notBC => false
  | _ => true

/-- `Equation(lhs, rhs, trials, tests, bc=bc)` (constraint=None) -/
def equation (lhsBilinear rhsLinear : Bool) (lhs rhs : String) (trials tests : FnArg)
    (bc : BcArg) : Except Err EqOut :=
  if !lhsBilinear then .error .lhsNotBilinear
  else if !rhsLinear then .error .rhsNotLinear
  else
    match fnArg tests with
    | .error e => .error e
    | .ok tests =>
      match fnArg trials with
      | .error e => .error e
      | .ok trials =>
        let items : Except Err (Option (List BcItem)) :=
          match bc with
          | .none => .ok none
          | .many [] => .ok none                      -- `if bc:` is false for an empty list
          | .single i => if isBC i then .ok (some [i]) else .error .bcType
          | .many is => if is.all isBC then .ok (some is) else .error .bcType
          | .wrong => .error .bcType
        match items with
        | .error e => .error e
        | .ok none => .ok { lhs, rhs, trials, tests, bc := none }
        | .ok (some is) =>
            match expandBC trials is with
            | .error e => .error e
            | .ok cs => .ok { lhs, rhs, trials, tests, bc := some cs }

/-! ### Operation sequences: condition objects are mutable cells

  An `EssentialBC` has `set_position`, so it matters WHICH objects an equation stores.  The heap
  holds every condition object by address; the caller creates conditions, builds equations from
  the objects it holds, and may go on repositioning its own objects.  `Equation.__new__`
  (equation.py:303-325) builds NEW conditions for every face — also for a condition on a single
  face — and never writes into the objects it was given. -/

structure World where
  heap : List Cond                        -- every EssentialBC object alive, by address
  eqs : List (List Fn × List Nat)         -- the equations built so far: trial functions, addresses of the bc entries
  deriving Repr

inductive Op where
  | new (c : Cond)                                    -- the caller creates a condition
  | build (trials : List Fn) (addrs : List Nat)       -- Equation(a, l, trials, tests, bc=[objects at addrs])
  | reposition (a : Nat) (p : Nat)                    -- the caller: obj.set_position(p) on one of ITS objects

/-- the objects at the given addresses -/
def getAll (h : List Cond) : List Nat → Option (List Cond)
  | [] => some []
  | a :: as =>
      match h[a]?, getAll h as with
      | some c, some cs => some (c :: cs)
      | _, _ => none

/-- `heap[a].set_position(p)` -/
def setPos : List Cond → Nat → Nat → List Cond
  | [], _, _ => []
  | c :: cs, 0, p => { c with position := some p } :: cs
  | c :: cs, a + 1, p => c :: setPos cs a p

/-- the address belongs to an equation (is one of its bc entries) -/
def World.owned (w : World) (a : Nat) : Bool := w.eqs.any (fun e => e.2.contains a)

/-- fresh addresses `n, n+1, …` -/
def freshAddrs (n : Nat) : Nat → List Nat
  | 0 => []
  | k + 1 => n :: freshAddrs (n + 1) k

def step (w : World) : Op → World
  | .new c => { w with heap := w.heap ++ [c] }
  | .build trials addrs =>
      match getAll w.heap addrs with
      | none => w
      | some cs =>
          match expandBC trials (cs.map .essential) with
          | .error _ => w                             -- the constructor raises: nothing is built
          | .ok out => { heap := w.heap ++ out, eqs := w.eqs ++ [(trials, freshAddrs w.heap.length out.length)] }
  | .reposition a p => if w.owned a then w else { w with heap := setPos w.heap a p }

def run (w : World) (ops : List Op) : World := ops.foldl step w

/-- `equation.bc` of equation number `k`, read now -/
def readEq (w : World) (k : Nat) : Option (List Cond) :=
  match w.eqs[k]? with
  | some e => getAll w.heap e.2
  | none => none

/-- the rejected variant (a "fast path" for a condition on a single face: the equation stores the
    caller's object and writes the position into it); kept to state that it is NOT history
    independent (`aliased_breaks_history`) -/
def stepAliased (w : World) : Op → World
  | .build trials [a] =>
      match w.heap[a]? with
      | some c =>
          match c.boundary, indexOf c.var trials with
          | .face _, some p => { heap := setPos w.heap a p, eqs := w.eqs ++ [(trials, [a])] }
          | _, _ => step w (.build trials [a])
      | none => w
  | op => step w op

/-! ### S-expression I/O -/

def fnOfSexp : Sexp → Option Fn
  | .list [.atom "sf", .str n] => some (.scalar n)
  | .list [.atom "vf", .str n, d] => do some (.vector n (← d.toNat?))
  | _ => none

def fnToSexp : Fn → Sexp
  | .scalar n => .list [.atom "sf", .str n]
  | .vector n d => .list [.atom "vf", .str n, Sexp.ofNat d]

partial def lhsOfSexp : Sexp → Option Lhs
  | .list [.atom "sf", .str n] => some (fn (.scalar n))
  | .list [.atom "vf", .str n, d] => do some (fn (.vector n (← d.toNat?)))
  | .list [.atom "idx", f, i] => do some (idx (← fnOfSexp f) (← i.toNat?))
  | .list [.atom "normal", .str n] => some (normal n)
  | .list [.atom "dot", a, b] => do some (dot (← lhsOfSexp a) (← lhsOfSexp b))
  | .list [.atom "grad", a] => do some (grad (← lhsOfSexp a))
  | .list [.atom "trace", a] => do some (trace (← lhsOfSexp a))
  | .list (.atom "other" :: .str t :: xs) => do
      some (other t ((← xs.mapM lhsOfSexp).foldr cons nil))
  | _ => none

def bndOfSexp : Sexp → Option Bnd
  | .list [.atom "face", .str s] => some (.face s)
  | .list (.atom "union" :: xs) => do some (.union (← xs.mapM Sexp.toStr?))
  | _ => none

def bndToSexp : Bnd → Sexp
  | .face s => .list [.atom "face", .str s]
  | .union fs => .list (.atom "union" :: fs.map .str)

def optNatOfSexp : Sexp → Option (Option Nat)
  | .atom "None" => some none
  | s => s.toNat?.map some

def optListOfSexp : Sexp → Option (Option (List Nat))
  | .atom "None" => some none
  | .list xs => (xs.mapM Sexp.toNat?).map some
  | _ => none

def optNatToSexp : Option Nat → Sexp
  | none => .atom "None"
  | some n => Sexp.ofNat n

def optListToSexp : Option (List Nat) → Sexp
  | none => .atom "None"
  | some l => .list (l.map Sexp.ofNat)

/-- what is observed of a condition: (order variable index_component normal position boundary rhs) -/
def condToSexp (c : Cond) : Sexp :=
  .list [Sexp.ofNat c.order, fnToSexp c.var, optListToSexp c.indexComponent,
         Sexp.ofBool c.normalComponent, optNatToSexp c.position, bndToSexp c.boundary, .str c.rhs]

def Err.toString : Err → String
  | .oneFunction => "ValueError one-function"
  | .traceUsed => "TypeError trace"
  | .twoNormals => "AssertionError normals"
  | .dotIndexed => "TypeError dot-indexed"
  | .indexedOrder1 => "NotImplementedError indexed"
  | .wrongLhs => "ValueError wrong-lhs"
  | .lhsNotBilinear => "UnconsistentLhsError lhs"
  | .rhsNotLinear => "UnconsistentRhsError rhs"
  | .notFunctions => "AssertionError functions"
  | .bcType => "TypeError bc"
  | .notEssential => "NotImplementedError not-essential"
  | .notTrial => "UnconsistentArgumentsError not-trial"

/-- `(bc LHS "rhs" BND POS IC)` -/
def condArgsOfSexp : Sexp → Option (Lhs × String × Bnd × Option Nat × Option (List Nat))
  | .list [.atom "bc", l, .str r, b, p, ic] => do
      some (← lhsOfSexp l, r, ← bndOfSexp b, ← optNatOfSexp p, ← optListOfSexp ic)
  | _ => none

/-- a bc item of an `equation` request; an essential condition is built through `mkCond`
    (the harness only sends conditions whose construction succeeded on the implementation) -/
def bcItemOfSexp : Sexp → Option (Except Err BcItem)
  | .atom "otherbc" => some (.ok .otherBC)
  | .atom "notbc" => some (.ok .notBC)
  | s => do
      let (l, r, b, p, ic) ← condArgsOfSexp s
      some ((mkCond l r b p ic).map .essential)

def fnArgOfSexp : Sexp → Option FnArg
  | .atom "wrong" => some .wrong
  | .list [.atom "single", f] => do some (.single (← fnOfSexp f))
  | .list (.atom "many" :: xs) => do
      some (.many (← xs.mapM (fun x => match x with
        | .atom "notfn" => some FnItem.notFn
        | f => (fnOfSexp f).map FnItem.fn)))
  | _ => none

def seqExcept : List (Except Err BcItem) → Except Err (List BcItem)
  | [] => .ok []
  | .error e :: _ => .error e
  | .ok i :: r => (seqExcept r).map (i :: ·)

def bcArgOfSexp : Sexp → Option (Except Err BcArg)
  | .atom "None" => some (.ok .none)
  | .atom "wrong" => some (.ok .wrong)
  | .list [.atom "single", i] => do some ((← bcItemOfSexp i).map .single)
  | .list (.atom "many" :: xs) => do some ((seqExcept (← xs.mapM bcItemOfSexp)).map .many)
  | _ => none

def opOfSexp : Sexp → Option Op
  | .list [.atom "new", c] => do
      let (l, r, b, p, ic) ← condArgsOfSexp c
      match mkCond l r b p ic with
      | .ok c => some (.new c)
      | .error _ => none
  | .list [.atom "build", .list ts, .list as] => do
      some (.build (← ts.mapM fnOfSexp) (← as.mapM Sexp.toNat?))
  | .list [.atom "repos", a, p] => do some (.reposition (← a.toNat?) (← p.toNat?))
  | _ => none

/-- everything observable of a world: the entries of every equation and the caller's objects -/
def worldToSexp (w : World) : Sexp :=
  .list [.list (.atom "eqs" :: (List.range w.eqs.length).map (fun k =>
            match readEq w k with
            | some cs => .list (cs.map condToSexp)
            | none => .atom "dangling")),
         .list (.atom "callers" :: ((List.range w.heap.length).filter (fun a => !w.owned a)).map (fun a =>
            match w.heap[a]? with
            | some c => condToSexp c
            | none => .atom "dangling"))]

/-- one request line → one response line -/
def handle (args : List Sexp) : String :=
  match args with
  | [.atom "classify", c] =>
      match condArgsOfSexp c with
      | some (l, r, b, p, ic) =>
          match mkCond l r b p ic with
          | .ok c => "ok " ++ toString (condToSexp c)
          | .error e => "err " ++ e.toString
      | none => "bad-op"
  | [.atom "equation", lb, rl, .str l, .str r, trials, tests, bc] =>
      match lb.toBool?, rl.toBool?, fnArgOfSexp trials, fnArgOfSexp tests, bcArgOfSexp bc with
      | some lb, some rl, some trials, some tests, some bc =>
          match bc with
          | .error e => "err-construct " ++ e.toString
          | .ok bc =>
              match equation lb rl l r trials tests bc with
              | .error e => "err " ++ e.toString
              | .ok o =>
                  "ok " ++ toString (Sexp.list [.str o.lhs, .str o.rhs,
                    .list (o.trials.map fnToSexp), .list (o.tests.map fnToSexp),
                    match o.bc with
                    | none => .atom "None"
                    | some cs => .list (cs.map condToSexp)])
      | _, _, _, _, _ => "bad-op"
  | .atom "history" :: ops =>
      match ops.mapM opOfSexp with
      | some ops => "ok " ++ toString (worldToSexp (run { heap := [], eqs := [] } ops))
      | none => "bad-op"
  | _ => "bad-op"

end BC
end Sympde
