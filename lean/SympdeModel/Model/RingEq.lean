/-
  Equality of scalar expressions modulo the commutative-ring axioms — the model of the
  comparisons `a == b or (a - b).expand() == 0` made by `Integral.__eq__` (is_symmetric, C10) and by
  `is_linear_expression` (C08).  Core Lean only.

  Sums, products, powers with a natural literal exponent and integer numerals are arithmetic;
  every other sub-tree (functions, derivative atoms, operator nodes, elementary functions,
  rational numerals, …) is an opaque *atom*.  The expression is translated to a polynomial
  expression of core's verified normaliser (`Lean.Grind.CommRing.Expr`, `toPoly`); two
  expressions are equal when their polynomials are.  `Dot` and `Inner` nodes are matched up to
  the exchange of their arguments (the real constructors order them by `str`).
-/
import SympdeModel.Model.Subst
namespace Sympde
namespace RingEq
open E

abbrev GExpr := Lean.Grind.CommRing.Expr

mutual
/-- tensor rank (copy of `Sympde.rank`, Sem/DenG.lean, which lives on the Mathlib side) -/
def rankM (d : Nat) : E → Nat
  | vf _ _ => 1
  | add as => rankHeadM d as
  | mul as => rankMaxM d as
  | pd _ a => rankM d a
  | op1 .grad a => rankM d a + 1
  | op1 .div a => rankM d a - 1
  | op1 .curl _ => if d = 3 then 1 else 0
  | op1 .rot _ => 1
  | op1 .laplace a => rankM d a
  | op1 .hessian _ => 2
  | op2 .dot a b => if rankM d a = 2 ∨ rankM d b = 2 then 1 else 0
  | op2 .cross _ _ => if d = 3 then 1 else 0
  | op2 .inner _ _ => 0
  | op2 .outer _ _ => 2
  | op2 .convect _ b => rankM d b
  | op2 .bracket _ _ => 0
  | mat _ c _ => if c = 1 then 1 else 2
  | tup _ => 1
  | _ => 0
def rankHeadM (d : Nat) : List E → Nat
  | [] => 0
  | a :: _ => rankM d a
def rankMaxM (d : Nat) : List E → Nat
  | [] => 0
  | a :: as => max (rankM d a) (rankMaxM d as)
end

/-- may the two arguments of the node be exchanged without changing its meaning? -/
def symOK (d : Nat) (o : Op2) (a b : E) : Bool :=
  match o with
  | .dot => !(rankM d a == 2 && rankM d b == 2)
  | .inner => (rankM d a == 2) == (rankM d b == 2)
  | _ => false

/-- equality of atoms: structural, or a `Dot` / `Inner` with its arguments exchanged -/
def eqAtom (d : Nat) (t s : E) : Bool :=
  Sub.eqb t s ||
    (match t, s with
     | op2 o a b, op2 o' a' b' => o == o' && symOK d o a b && Sub.eqb a b' && Sub.eqb b a'
     | _, _ => false)

/-- position of the first atom of the table equal to `t` -/
def findAtom (d : Nat) (t : E) : List E → Nat → Option Nat
  | [], _ => none
  | s :: rest, i => if eqAtom d s t then some i else findAtom d t rest (i + 1)

/-- variable of an atom, the table being extended when the atom is new -/
def atomVar (d : Nat) (atoms : List E) (t : E) : GExpr × List E :=
  match findAtom d t atoms 0 with
  | some i => (.var i, atoms)
  | none => (.var atoms.length, atoms ++ [t])

/-- natural literal exponent -/
def natLit : E → Option Nat
  | num p 1 => if 0 ≤ p then some p.toNat else none
  | _ => none

mutual
/-- translation, threading the atom table -/
def toG (d : Nat) (atoms : List E) : E → GExpr × List E
  | num p q => if q == 1 then (.intCast p, atoms) else atomVar d atoms (num p q)
  | add as => toGSum d atoms as
  | mul as => toGProd d atoms as
  | pow b e =>
      match natLit e with
      | some n => ((toG d atoms b).1.pow n, (toG d atoms b).2)
      | none => atomVar d atoms (pow b e)
  | e => atomVar d atoms e
def toGSum (d : Nat) (atoms : List E) : List E → GExpr × List E
  | [] => (.intCast 0, atoms)
  | a :: as =>
      ((toG d atoms a).1.add (toGSum d (toG d atoms a).2 as).1, (toGSum d (toG d atoms a).2 as).2)
def toGProd (d : Nat) (atoms : List E) : List E → GExpr × List E
  | [] => (.intCast 1, atoms)
  | a :: as =>
      ((toG d atoms a).1.mul (toGProd d (toG d atoms a).2 as).1, (toGProd d (toG d atoms a).2 as).2)
end

/-- `a == b or (a - b).expand() == 0`, in dimension `d` -/
def ringEq (d : Nat) (a b : E) : Bool :=
  let ra := toG d [] a
  let rb := toG d ra.2 b
  ra.1.toPoly == rb.1.toPoly

/-- `(a).expand() == 0` -/
def ringZero (d : Nat) (a : E) : Bool := ringEq d a (num 0 1)

end RingEq
end Sympde
