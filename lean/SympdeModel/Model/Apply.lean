/-
  Model of `LinearForm.__call__`, `BilinearForm.__call__`, `BilinearForm.is_symmetric`
  (sympde/expr/expr.py) and of the keyword update of free variables
  (`BasicForm.get_free_variables` / `_free_variables_subs`, sympde/expr/basic.py).  Core Lean only.

  A form is its argument lists and its integrals (domain, integrand): `form.expr` is an
  `Integral` or an `IntAdd` of integrals, one per domain.  A call is ONE simultaneous
  replacement (`expr._xreplace(subs)`) by the dictionary made of the keyword arguments and of
  `zip(variables, values)` — after the `fix:` commit of C10; before it the keyword arguments were
  replaced one after the other and before the positional arguments (notes/C10.md).
-/
import SympdeModel.Model.RingEq
namespace Sympde
namespace Apply
open E
open Sympde.Sub

structure Form where
  dim : Nat
  trials : List E                  -- `variables[0]` of a bilinear form, `[]` for a linear form
  tests : List E                   -- `variables[1]` resp. `variables`
  integrals : List (String × E)    -- (domain, integrand)
  deriving Repr, Inhabited

/-- a positional argument: one expression, or a list / tuple / Tuple of expressions
    (`is_sequence(x, vector=isinstance(x, VectorFunction))`) -/
inductive Arg where
  | single (e : E)
  | many (es : List E)
  deriving Repr, Inhabited

def Arg.values : Arg → List E
  | .single e => [e]
  | .many es => es

mutual
/-- `expr.atoms(ScalarFunction, VectorFunction)` (with repetitions) -/
def fnAtoms : E → List E
  | sf n k => [sf n k]
  | vf n k => [vf n k]
  | idx b _ => fnAtoms b
  | add as => fnAtomsList as
  | mul as => fnAtomsList as
  | pow b e => fnAtoms b ++ fnAtoms e
  | fn _ a => fnAtoms a
  | pd _ a => fnAtoms a
  | op1 _ a => fnAtoms a
  | op2 _ a b => fnAtoms a ++ fnAtoms b
  | mat _ _ es => fnAtomsList es
  | tup as => fnAtomsList as
  | other _ as => fnAtomsList as
  | _ => []
def fnAtomsList : List E → List E
  | [] => []
  | a :: as => fnAtoms a ++ fnAtomsList as
end

mutual
/-- `expr.atoms(Constant)` -/
def cstAtoms : E → List E
  | cst n => [cst n]
  | idx b _ => cstAtoms b
  | add as => cstAtomsList as
  | mul as => cstAtomsList as
  | pow b e => cstAtoms b ++ cstAtoms e
  | fn _ a => cstAtoms a
  | pd _ a => cstAtoms a
  | op1 _ a => cstAtoms a
  | op2 _ a b => cstAtoms a ++ cstAtoms b
  | mat _ _ es => cstAtomsList es
  | tup as => cstAtomsList as
  | other _ as => cstAtomsList as
  | _ => []
def cstAtomsList : List E → List E
  | [] => []
  | a :: as => cstAtoms a ++ cstAtomsList as
end

def nameOf : E → String
  | sf n _ => n
  | vf n _ => n
  | cst n => n
  | _ => ""

/-- `fields + constants`: functions of the integrands that are not arguments, then constants -/
def freeVars (f : Form) : List E :=
  let vars := f.trials ++ f.tests
  ((f.integrals.flatMap (fun p => fnAtoms p.2)).filter (fun t => !vars.any (eqb · t))) ++
    f.integrals.flatMap (fun p => cstAtoms p.2)

/-- `_kwargs[name]`: the dictionary is filled in the order fields, constants — the last one wins -/
def freeVar (f : Form) (name : String) : Option E :=
  ((freeVars f).filter (fun t => nameOf t == name)).getLast?

/-- the replacement dictionary of the keyword arguments; an unknown name is refused -/
def kwRule (f : Form) : List (String × E) → Except Err Rule
  | [] => .ok []
  | (n, v) :: rest =>
      match freeVar f n with
      | none => .error .valueError          -- '… is not a free variable'
      | some var =>
          match kwRule f rest with
          | .error e => .error e
          | .ok r => .ok ((var, v) :: r)

/-- `{**kw, **dict(zip(variables, values))}` as a first-match rule: later pairs win -/
def callRule (vars vals : List E) (kw : Rule) : Rule := (vars.zip vals).reverse ++ kw.reverse

def applyRule (σ : Rule) (ints : List (String × E)) : List (String × E) :=
  ints.map (fun p => (p.1, subst σ p.2))

/-- `a(trials, tests, **kwargs)` -/
def callB (f : Form) (trials tests : Arg) (kws : List (String × E)) : Except Err (List (String × E)) :=
  match kwRule f kws with
  | .error e => .error e
  | .ok kw => .ok (applyRule (callRule (f.trials ++ f.tests) (trials.values ++ tests.values) kw) f.integrals)

/-- the positional arguments of `l(*tests)` -/
inductive LArgs where
  | one (a : Arg)            -- exactly one positional argument
  | several (es : List E)    -- none, or two and more
  deriving Repr, Inhabited

def LArgs.values : LArgs → List E
  | .one a => a.values
  | .several es => es

/-- `l(*tests, **kwargs)` -/
def callL (f : Form) (args : LArgs) (kws : List (String × E)) : Except Err (List (String × E)) :=
  match kwRule f kws with
  | .error e => .error e
  | .ok kw => .ok (applyRule (callRule f.tests args.values kw) f.integrals)

/-- `Integral.__eq__` on two lists of integrals: same domains in the same order, integrands equal
    or with a difference that expands to zero -/
def sameIntegrals (d : Nat) : List (String × E) → List (String × E) → Bool
  | [], [] => true
  | (d1, e1) :: r1, (d2, e2) :: r2 => d1 == d2 && RingEq.ringEq d e1 e2 && sameIntegrals d r1 r2
  | _, _ => false

/-- `a.is_symmetric` -/
def isSymmetric (f : Form) : Bool :=
  match callB f (.many f.trials) (.many f.tests) [], callB f (.many f.tests) (.many f.trials) [] with
  | .ok a1, .ok a2 => sameIntegrals f.dim a1 a2
  | _, _ => false

/-! ### S-expression I/O -/

def listOfSexp (xs : List Sexp) : Option (List E) := xs.mapM E.ofSexp

def formOfSexp : Sexp → Option Form
  | .list [.atom "form", dim, .list (.atom "trials" :: tr), .list (.atom "tests" :: te),
           .list (.atom "ints" :: is)] => do
      let d ← dim.toNat?
      let tr ← listOfSexp tr
      let te ← listOfSexp te
      let is ← is.mapM (fun s => match s with
        | .list [.atom "int", .str dom, e] => (E.ofSexp e).map (fun e => (dom, e))
        | _ => none)
      some { dim := d, trials := tr, tests := te, integrals := is }
  | _ => none

def argOfSexp : Sexp → Option Arg
  | .list [.atom "single", e] => (E.ofSexp e).map .single
  | .list (.atom "many" :: es) => (listOfSexp es).map .many
  | _ => none

def largsOfSexp : Sexp → Option LArgs
  | .list [.atom "one", a] => (argOfSexp a).map .one
  | .list (.atom "several" :: es) => (listOfSexp es).map .several
  | _ => none

def kwsOfSexp : Sexp → Option (List (String × E))
  | .list xs => xs.mapM (fun s => match s with
      | .list [.atom "kw", .str n, e] => (E.ofSexp e).map (fun e => (n, e))
      | _ => none)
  | _ => none

def intsToSexp (is : List (String × E)) : Sexp :=
  .list (is.map (fun p => .list [.atom "int", .str p.1, E.toSexp p.2]))

def answer : Except Err (List (String × E)) → String
  | .ok r => "ok " ++ toString (intsToSexp r)
  | .error e => "err " ++ e.name

def handle (args : List Sexp) : String :=
  match args with
  | [.atom "call", f, tr, te, kws] =>
      match formOfSexp f, argOfSexp tr, argOfSexp te, kwsOfSexp kws with
      | some f, some tr, some te, some kws => answer (callB f tr te kws)
      | _, _, _, _ => "bad-op"
  | [.atom "lcall", f, la, kws] =>
      match formOfSexp f, largsOfSexp la, kwsOfSexp kws with
      | some f, some la, some kws => answer (callL f la kws)
      | _, _, _ => "bad-op"
  | [.atom "sym", f] =>
      match formOfSexp f with
      | some f => "ok " ++ toString (Sexp.ofBool (isSymmetric f))
      | none => "bad-op"
  | [.atom "ringeq", dim, a, b] =>
      match dim.toNat?, E.ofSexp a, E.ofSexp b with
      | some d, some a, some b => "ok " ++ toString (Sexp.ofBool (RingEq.ringEq d a b))
      | _, _, _ => "bad-op"
  | _ => "bad-op"

end Apply
end Sympde
