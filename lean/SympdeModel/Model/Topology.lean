/-
  Model of the multi-patch topology code of sympde, transcribed branch for branch:

    sympde/topology/domain.py   NCube / NCubeInterior (face numbering), Domain.get_boundary,
                                Domain.join, Domain.get_shared_corners, Domain.get_subdomain
    sympde/topology/basic.py    Union (dedup + sort by str), Boundary.join, Boundary.rotate,
                                Interface, Connectivity (a dict keyed by the interface name)
    sympde/topology/mapping.py  MappedDomain (mapping applied to interiors, faces, interfaces)

  Core Lean only.  Identity of sympde objects is identity of *names* (Basic.__eq__ on the args):
  an interior is its name, a face is (Γ-name, interior name, axis, ext), an interface is
  (name, minus, plus, ornt).  The model keeps the whole patch inside a face (so that "strip the
  mapping" is a function) but every comparison the code makes (`in`, `set`, dict keys) is made
  through `Patch.same` / `Face.same` / the interface name, i.e. by names only, like the code.
-/
import SympdeModel.Model.Sexp
namespace Sympde
namespace Topo

/-- the exceptions the modelled code raises (`outside` = input outside the modelled fragment,
    `diverges` = the real `while` loop would not terminate) -/
inductive Err where
  | valueError | assertionError | typeError | attributeError | indexError | unboundLocalError
  | diverges | outside
  deriving Repr, DecidableEq

def Err.toString : Err → String
  | .valueError => "ValueError"
  | .assertionError => "AssertionError"
  | .typeError => "TypeError"
  | .attributeError => "AttributeError"
  | .indexError => "IndexError"
  | .unboundLocalError => "UnboundLocalError"
  | .diverges => "Diverges"
  | .outside => "Outside"

/-! ### patches and faces -/

/-- an n-cube patch: `Line/Square/Cube/NCube(lname, bounds…)`, possibly mapped: `M(lname)` -/
structure Patch where
  lname : String              -- name of the logical n-cube
  dim : Nat
  lo : List Int               -- min_coords
  hi : List Int               -- max_coords
  mapping : Option String     -- name of the mapping, if the patch is `M(cube)`
  deriving Repr, DecidableEq, Inhabited

/-- mapping.py:642  `name = '{}({})'.format(mapping.name, name)` -/
def mappedName (m l : String) : String := m ++ "(" ++ l ++ ")"

def Patch.name (p : Patch) : String :=
  match p.mapping with
  | none => p.lname
  | some m => mappedName m p.lname

/-- the logical patch of a mapped patch (`interior.logical_domain`) -/
def Patch.strip (p : Patch) : Patch := { p with mapping := none }

/-- interiors compare by name -/
def Patch.same (a b : Patch) : Bool := a.name == b.name

structure Face where
  patch : Patch
  axis : Nat
  ext : Int
  deriving Repr, DecidableEq, Inhabited

/-- domain.py:793-802: the counter `i` runs 1,2,… over `for axis: for ext in [-1, 1]` -/
def gammaIndex (axis : Nat) (ext : Int) : Nat := 2 * axis + (if ext == -1 then 1 else 2)

def Face.gamma (f : Face) : String := "\\Gamma_" ++ toString (gammaIndex f.axis f.ext)

/-- `Boundary._sympystr`: `'{}_{}'.format(domain, name)` — the sort key of a face in a Union -/
def Face.str (f : Face) : String := f.patch.name ++ "_" ++ f.gamma

/-- Basic.__eq__ on (Γ-name, interior, axis, ext); the Γ-name is a function of (axis, ext) -/
def Face.same (a b : Face) : Bool :=
  a.patch.name == b.patch.name && a.axis == b.axis && a.ext == b.ext

def Face.strip (f : Face) : Face := { f with patch := f.patch.strip }

/-- `boundary.logical_domain` (None for a face of an unmapped patch) -/
def Face.logical (f : Face) : Option Face :=
  if f.patch.mapping.isSome then some f.strip else none

/-! ### Union: `sorted(set(args), key=str)` -/

def dedupBy {α : Type} (same : α → α → Bool) : List α → List α
  | [] => []
  | x :: xs => x :: (dedupBy same xs).filter (fun y => !same x y)

/-- stable insertion: `x` goes before the first `y` whose key is not smaller -/
def insertBy {α : Type} (key : α → String) (x : α) : List α → List α
  | [] => [x]
  | y :: ys => if key y < key x then y :: insertBy key x ys else x :: y :: ys

def sortBy {α : Type} (key : α → String) : List α → List α
  | [] => []
  | x :: xs => insertBy key x (sortBy key xs)

def unionBy {α : Type} (key : α → String) (same : α → α → Bool) (xs : List α) : List α :=
  sortBy key (dedupBy same xs)

def unionFaces (fs : List Face) : List Face := unionBy Face.str Face.same fs
def unionPatches (ps : List Patch) : List Patch := unionBy Patch.name Patch.same ps

/-- the faces of an n-cube in creation order (domain.py:794-802) -/
def facesFrom (p : Patch) : Nat → List Face
  | 0 => []
  | n + 1 => facesFrom p n ++ [⟨p, n, -1⟩, ⟨p, n, 1⟩]

def Patch.faces (p : Patch) : List Face := facesFrom p p.dim

/-- `patch.boundary` (a Union) -/
def Patch.boundary (p : Patch) : List Face := unionFaces p.faces

/-- `if axis is None: assert dim == 1; axis = 0` (domain.py:263-266 and 826-828) -/
def normAxis (dim : Nat) : Option Nat → Except Err Nat
  | some a => .ok a
  | none => if dim == 1 then .ok 0 else .error .assertionError

/-- first member of a boundary Union with the requested (axis, ext) (domain.py:268-279) -/
def findFace (fs : List Face) (axis : Nat) (ext : Int) : Except Err Face :=
  match fs.find? (fun f => f.ext == ext && f.axis == axis) with
  | some f => .ok f
  | none => .error .valueError

/-- `Domain.get_boundary(axis, ext)` on a single (plain or mapped) n-cube -/
def Patch.getBoundary (p : Patch) (axis : Option Nat) (ext : Int) : Except Err Face := do
  let a ← normAxis p.dim axis
  findFace p.boundary a ext

/-! ### interfaces and domains -/

inductive Ornt where
  | none                       -- 1D
  | o2 (o : Int)               -- 2D: an int
  | o3 (a b c : Int)           -- 3D: a triple
  deriving Repr, DecidableEq, Inhabited

structure Iface where
  name : String
  minus : Face
  plus : Face
  ornt : Ornt
  deriving Repr, DecidableEq, Inhabited

/-- basic.py:338 `'{l}|{r}'.format(l=self.domain.name, r=boundary.domain.name)` -/
def ifaceName (l r : String) : String := l ++ "|" ++ r

/-- `bnd_minus.join(bnd_plus, ornt)` (basic.py:326-342), the physical interface -/
def mkIface (m p : Face) (o : Ornt) : Iface := ⟨ifaceName m.patch.name p.patch.name, m, p, o⟩

/-- the `logical_domain` built inside `Boundary.join` when both sides are mapped (basic.py:329-333) -/
def Iface.logical (i : Iface) : Option Iface :=
  match i.minus.logical, i.plus.logical with
  | some a, some b => some (mkIface a b i.ornt)
  | _, _ => none

/-- Python dict assignment `d[k] = v` on an association list kept in insertion order -/
def dictSet {κ ν : Type} (eq : κ → κ → Bool) (d : List (κ × ν)) (k : κ) (v : ν) : List (κ × ν) :=
  if d.any (fun e => eq e.1 k) then d.map (fun e => if eq e.1 k then (e.1, v) else e)
  else d ++ [(k, v)]

def dictGet {κ ν : Type} (eq : κ → κ → Bool) (d : List (κ × ν)) (k : κ) : Option ν :=
  (d.find? (fun e => eq e.1 k)).map (·.2)

/-- `connectivity[i.name] = i` -/
def connSet (d : List Iface) (i : Iface) : List Iface :=
  if d.any (fun e => e.name == i.name) then d.map (fun e => if e.name == i.name then i else e)
  else d ++ [i]

structure DomCore where
  name : String
  interiors : List Patch       -- `domain.interior` as a list (Union order)
  boundary : List Face         -- `domain.boundary` as a list (Union order)
  ifaces : List Iface          -- `domain.connectivity`, insertion order
  deriving Repr, DecidableEq, Inhabited

structure Dom extends DomCore where
  logical : Option DomCore               -- `domain.logical_domain`
  mappings : List (String × String)      -- logical interior name ↦ mapping name
  deriving Repr, DecidableEq, Inhabited

/-- a single plain n-cube as a domain -/
def Patch.toCore (p : Patch) : DomCore := ⟨p.name, [p], p.boundary, []⟩

/-- a patch (`Square('A')` or `M(Square('A'))`) seen as a Domain -/
def Patch.toDom (p : Patch) : Dom :=
  match p.mapping with
  | none => { toDomCore := p.toCore, logical := none, mappings := [] }
  | some m => { toDomCore := p.toCore, logical := some p.strip.toCore, mappings := [(p.lname, m)] }

/-! ### Domain.join -/

inductive Ref where
  | idx (i : Int)              -- patch given by its index in `patches`
  | obj (p : Patch)            -- patch given as an object
  deriving Repr, DecidableEq

structure Side where
  ref : Ref
  axis : Option Nat
  ext : Int
  deriving Repr, DecidableEq

/-- one entry of the connectivity list: `(minus, plus)` or `(minus, plus, ornt)`;
    `ornt = some [o]` stands for the int `o` (2D), `some [a,b,c]` for a triple (3D) -/
structure Conn where
  minus : Side
  plus : Side
  ornt : Option (List Int)
  deriving Repr, DecidableEq

/-- a connection after `get_boundary` and the orientation defaults -/
structure RConn where
  minus : Face
  plus : Face
  ornt : Ornt
  deriving Repr, DecidableEq

/-- Python list indexing with negative indices -/
def pyIndex {α : Type} (l : List α) (i : Int) : Option α :=
  if 0 ≤ i then l[i.toNat]?
  else if (-i).toNat ≤ l.length then l[l.length - (-i).toNat]?
  else none

def Ref.isIdx : Ref → Bool
  | .idx _ => true
  | .obj _ => false

/-- domain.py:521-527 -/
def mkOrnt (dim : Nat) (o : Option (List Int)) : Except Err Ornt :=
  if dim == 1 then .ok .none
  else if dim == 2 then
    match o with
    | none => .ok (.o2 1)
    | some [x] => .ok (.o2 x)
    | some _ => .error .outside
  else if dim == 3 then
    match o with
    | none => .ok (.o3 1 1 1)
    | some (a :: b :: c :: _) => .ok (.o3 a b c)
    | some _ => .error .indexError
  else .error .unboundLocalError

/-- one pass of the loop body domain.py:512-529 up to and including the first
    `bnd_minus.join(bnd_plus)` (whose `Interface.__new__` makes the dimension / axis checks) -/
def resolve (ps : List Patch) (dim : Nat) (byIdx : Bool) (c : Conn) : Except Err RConn := do
  let (bm, bp) ←
    if byIdx then do
      let pm ← match c.minus.ref with
        | .idx i => match pyIndex ps i with
          | some p => pure p
          | none => throw Err.indexError
        | .obj _ => throw Err.typeError
      let pp ← match c.plus.ref with
        | .idx i => match pyIndex ps i with
          | some p => pure p
          | none => throw Err.indexError
        | .obj _ => throw Err.typeError
      let bm ← pm.getBoundary c.minus.axis c.minus.ext
      let bp ← pp.getBoundary c.plus.axis c.plus.ext
      pure (bm, bp)
    else do
      let bm ← match c.minus.ref with
        | .idx _ => throw Err.attributeError
        | .obj p => p.getBoundary c.minus.axis c.minus.ext
      let bp ← match c.plus.ref with
        | .idx _ => throw Err.attributeError
        | .obj p => p.getBoundary c.plus.axis c.plus.ext
      pure (bm, bp)
  let o ← mkOrnt dim c.ornt
  if bm.patch.dim != bp.patch.dim then throw Err.typeError
  if bm.patch.dim != dim then throw Err.outside
  if bm.axis != bp.axis then throw Err.assertionError
  pure ⟨bm, bp, o⟩

def resolveAll (ps : List Patch) (dim : Nat) (byIdx : Bool) : List Conn → Except Err (List RConn)
  | [] => .ok []
  | c :: cs => do
      let r ← resolve ps dim byIdx c
      let rs ← resolveAll ps dim byIdx cs
      .ok (r :: rs)

/-- domain.py:529-533: the interface is named minus|plus; when that name is already taken the
    roles are swapped; the dict entry is (over)written -/
def stepIface (acc : List Iface) (c : RConn) : List Iface :=
  let i := mkIface c.minus c.plus c.ornt
  if acc.any (fun e => e.name == i.name) then connSet acc (mkIface c.plus c.minus c.ornt)
  else connSet acc i

def buildIfaces (rcs : List RConn) : List Iface := rcs.foldl stepIface []

def RConn.sides (c : RConn) : List Face := [c.minus, c.plus]

def memFace (f : Face) (l : List Face) : Bool := l.any (fun g => g.same f)

/-- the external boundary: every face of every patch that is not one of the joined faces -/
def externalFaces (allB joined : List Face) : List Face :=
  unionFaces (allB.filter (fun b => !memFace b joined))

/-- `logical_connectivity[v.logical_domain.name] = v.logical_domain` (domain.py:555-556) -/
def logicalIfaces : List Iface → List Iface → Except Err (List Iface)
  | acc, [] => .ok acc
  | acc, i :: is =>
      match i.logical with
      | none => .error .attributeError
      | some l => logicalIfaces (connSet acc l) is

/-- `MultiPatchMapping({e.logical_domain: e.mapping for e in interiors})` -/
def mappingDict (ps : List Patch) : List (String × String) :=
  ps.foldl (fun d p => dictSet (· == ·) d p.lname (p.mapping.getD "")) []

/-- the tail of `Domain.join` (domain.py:548-573), shared with `get_subdomain` -/
def finishJoin (name : String) (interiors : List Patch) (bnd : List Face) (ifaces : List Iface) :
    Except Err Dom :=
  match interiors with
  | [_] => .error .typeError            -- `for e in interiors` on a single InteriorDomain
  | _ =>
    if interiors.all (fun e => e.mapping.isSome) then do
      let lifs ← logicalIfaces [] ifaces
      let lbnd := bnd.filterMap Face.logical
      .ok { name := name, interiors := interiors, boundary := bnd, ifaces := ifaces,
            logical := some ⟨name, unionPatches (interiors.map Patch.strip), unionFaces lbnd, lifs⟩,
            mappings := mappingDict interiors }
    else
      .ok { name := name, interiors := interiors, boundary := bnd, ifaces := ifaces,
            logical := none, mappings := [] }

def byIndices : List Conn → Bool
  | [] => false
  | c :: _ => c.minus.ref.isIdx

/-- `Domain.join(patches, connectivity, name)` for patches that are (plain or mapped) n-cubes -/
def join (ps : List Patch) (cs : List Conn) (name : String) : Except Err Dom :=
  match ps with
  | [] => .error .indexError                       -- `patches[0].dim`
  | [p] => if cs.isEmpty then .ok p.toDom else .error .assertionError
  | p0 :: _ =>
    if ps.any (fun p => p.dim != p0.dim) then .error .assertionError
    else do
      let rcs ← resolveAll ps p0.dim (byIndices cs) cs
      let ifaces := buildIfaces rcs
      let joined := rcs.flatMap RConn.sides
      let allB := ps.flatMap Patch.boundary
      finishJoin name (unionPatches ps) (externalFaces allB joined) ifaces

/-! ### Domain.get_boundary on a (multi-patch) domain -/

def DomCore.getBoundary (d : DomCore) (axis : Option Nat) (ext : Int) : Except Err Face := do
  let dim := match d.interiors with
    | p :: _ => p.dim
    | [] => 0
  let a ← normAxis dim axis
  findFace d.boundary a ext

/-! ### MappedDomain applied to a whole (plain) domain: `F(Omega)` (mapping.py:604-634) -/

def Patch.mapBy (m : String) (p : Patch) : Patch := { p with mapping := some m }
def Face.mapBy (m : String) (f : Face) : Face := { f with patch := f.patch.mapBy m }

def applyMapping (m : String) (d : Dom) : Except Err Dom :=
  if d.interiors.any (fun p => p.mapping.isSome) then .error .outside
  else
    -- `logical_domain.connectivity.interfaces`: the values sorted by name
    let ifs := (sortBy Iface.name d.ifaces).foldl
      (fun acc e => connSet acc ⟨e.name, e.minus.mapBy m, e.plus.mapBy m, e.ornt⟩) []
    .ok { name := mappedName m d.name
          interiors := unionPatches (d.interiors.map (Patch.mapBy m))
          boundary := unionFaces (d.boundary.map (Face.mapBy m))
          ifaces := ifs
          logical := some d.toDomCore
          mappings := d.interiors.map (fun p => (p.lname, m)) }

/-! ### Domain.get_subdomain (domain.py:630-731) -/

inductive Names where
  | str (s : String)
  | tup (l : List String)
  deriving Repr, DecidableEq

inductive SubResult where
  | pyNone
  | self
  | dom (d : Dom)
  deriving Repr

/-- `interfaces_dict.pop((a, b), None)` -/
def popPair (d : List ((String × String) × Iface)) (k : String × String) :
    Option Iface × List ((String × String) × Iface) :=
  match d.find? (fun e => e.1 == k) with
  | none => (none, d)
  | some e => (some e.2, d.filter (fun e' => !(e'.1 == k)))

structure SubState where
  idict : List ((String × String) × Iface)
  bnds : List Face
  ifs : List Iface
  deriving Inhabited

/-- the inner loop `for other_name in self.interior_names` (domain.py:702-716) -/
def subInner (name : String) (names : List String) : List String → SubState → SubState
  | [], st => st
  | other :: rest, st =>
    if other != name then
      let (iMinus, d1) := popPair st.idict (name, other)
      let (iPlus, d2) := popPair d1 (other, name)
      let st' : SubState :=
        if !names.contains other then
          let b1 := match iMinus with
            | some i => st.bnds ++ [i.minus]
            | none => st.bnds
          let b2 := match iPlus with
            | some i => b1 ++ [i.plus]
            | none => b1
          { idict := d2, bnds := b2, ifs := st.ifs }
        else
          let f1 := match iPlus with
            | some i => st.ifs ++ [i]
            | none => st.ifs
          let f2 := match iMinus with
            | some i => f1 ++ [i]
            | none => f1
          { idict := d2, bnds := st.bnds, ifs := f2 }
      subInner name names rest st'
    else subInner name names rest st

/-- `Domain(name, interiors=interior, boundaries=boundaries, mapping=…, logical_domain=…)` -/
def patchDomain (p : Patch) (bnds : List Face) : Dom :=
  { (p.toDom) with boundary := unionFaces bnds }

/-- `Domain.join([previous, new], [], name)`: both are domains made of n-cube interiors -/
def joinDoms (a b : Dom) (name : String) : Except Err Dom :=
  let dimOf (d : Dom) := match d.interiors with
    | p :: _ => p.dim
    | [] => 0
  if dimOf a != dimOf b then .error .assertionError
  else
    finishJoin name (unionPatches (a.interiors ++ b.interiors))
      (externalFaces (a.boundary ++ b.boundary) []) []

/-- the loop `for name in names` (domain.py:693-724) -/
def subOuter (d : Dom) (names : List String) :
    List String → SubState → Option Dom → Except Err (Option Dom × List Iface)
  | [], st, prev => .ok (prev, st.ifs)
  | name :: rest, st, prev =>
    match d.interiors.find? (fun p => p.name == name) with
    | none => .error .outside            -- KeyError: excluded by the assertions on `names`
    | some interior =>
      let own := d.boundary.filter (fun b => b.patch.name == name)
      -- `[boundary_dict.get((name, axis, ext)) for axis in range(dim) for ext in [-1, 1]]`
      let bnds0 := (interior.faces.filterMap (fun f => own.find? (fun b => b.same f)))
      let st1 := subInner name names (d.interiors.map Patch.name) { st with bnds := bnds0 }
      let newDom := patchDomain interior st1.bnds
      match prev with
      | none => subOuter d names rest { st1 with bnds := [] } (some newDom)
      | some pd => do
          let j ← joinDoms pd newDom (ifaceName pd.name newDom.name)
          subOuter d names rest { st1 with bnds := [] } (some j)

def Dom.getSubdomain (d : Dom) (names : Names) : Except Err SubResult :=
  let inames := d.interiors.map Patch.name
  let go (ns : List String) : Except Err SubResult :=
    match d.interiors with
    | [p] =>
        match ns with
        | n :: _ => if n == p.name then .ok .self else .error .assertionError
        | [] => .error .indexError
    | _ =>
      if ns.length == inames.length || ns.contains d.name then .ok .self
      else do
        let idict := (sortBy Iface.name d.ifaces).foldl
          (fun acc i => dictSet (· == ·) acc (i.minus.patch.name, i.plus.patch.name) i) []
        let (prev, ifs) ← subOuter d ns ns ⟨idict, [], []⟩ none
        match prev with
        | none => .error .outside
        | some pd => .ok (.dom { pd with ifaces := ifs.foldl connSet pd.ifaces })
  match names with
  | .tup [] => .ok .pyNone
  | .str s => if inames.contains s then go [s] else .error .assertionError
  | .tup l =>
      if (dedupBy (· == ·) l).length != l.length then .error .assertionError
      else if !(l.all (fun n => inames.contains n || n == d.name)) then .error .assertionError
      else go l

/-! ### Domain.get_shared_corners (2D) (domain.py:575-628) -/

/-- a corner as the code's 2-tuple of faces of one patch with different axes -/
abbrev Corner := Face × Face

def Corner.same (a b : Corner) : Bool := a.1.same b.1 && a.2.same b.2
/-- the same corner, whatever the order of its two faces -/
def Corner.sameSet (a b : Corner) : Bool := a.same b || (a.1.same b.2 && a.2.same b.1)

/-- `NCubeInterior.get_boundary(axis, ext)` on the interior of a face: always found -/
def faceOn (p : Patch) (axis : Nat) (ext : Int) : Face := ⟨p, axis, ext⟩

/-- `Boundary.rotate(direction)` in 2D (basic.py:312-324) -/
def rotate (f : Face) (o : Ornt) : Except Err Face :=
  if f.patch.dim != 2 then .error .assertionError       -- `assert len(directions) == self.dim-1`
  else match o with
    | .o2 1 => .ok f
    | .o2 (-1) => .ok (faceOn f.patch f.axis (-f.ext))
    | _ => .error .typeError                             -- 'must be int'

structure CornerCtx where
  bnd : List (Face × Face)        -- `boundaries`: joined face ↦ the face on the other side
  dir : List (Face × Ornt)        -- `directions`: joined face ↦ orientation of its interface

def CornerCtx.across (cx : CornerCtx) (f : Face) : Option Face := dictGet Face.same cx.bnd f
def CornerCtx.ornt (cx : CornerCtx) (f : Face) : Ornt := (dictGet Face.same cx.dir f).getD .none

/-- domain.py:595-597: cross the interface through `corner[1]` -/
def stepF (cx : CornerCtx) (c : Corner) : Option (Except Err Corner) :=
  match cx.across c.2 with
  | none => none
  | some bd1 =>
    some (do
      let bd2 ← rotate (faceOn bd1.patch c.1.axis c.1.ext) (cx.ornt bd1)
      pure (bd1, bd2))

/-- domain.py:602-604: cross the interface through `corner[0]` -/
def stepB (cx : CornerCtx) (c : Corner) : Option (Except Err Corner) :=
  match cx.across c.1 with
  | none => none
  | some bd2 =>
    some (do
      let bd1 ← rotate (faceOn bd2.patch c.2.axis c.2.ext) (cx.ornt bd2)
      pure (bd1, bd2))

/-- `while corner[1] in boundaries: …; append` (open walk) -/
def walkF (cx : CornerCtx) : Nat → Corner → Except Err (List Corner)
  | 0, _ => .error .diverges
  | fuel + 1, c =>
    match stepF cx c with
    | none => .ok []
    | some (.error e) => .error e
    | some (.ok c') => do
        let rest ← walkF cx fuel c'
        .ok (c' :: rest)

/-- `while corner[0] in boundaries: …; insert(0, corner)`; the result is in final (left to right) order -/
def walkB (cx : CornerCtx) : Nat → Corner → Except Err (List Corner)
  | 0, _ => .error .diverges
  | fuel + 1, c =>
    match stepB cx c with
    | none => .ok []
    | some (.error e) => .error e
    | some (.ok c') => do
        let rest ← walkB cx fuel c'
        .ok (rest ++ [c'])

/-- the `while … : … if corner == first: break … else:` loop; `true` = left by `break` -/
def walkC (cx : CornerCtx) (first : Corner) : Nat → Corner → Except Err (List Corner × Bool)
  | 0, _ => .error .diverges
  | fuel + 1, c =>
    match stepF cx c with
    | none => .ok ([], false)
    | some (.error e) => .error e
    | some (.ok c') =>
      if c'.same first then .ok ([], true)
      else do
        let (rest, b) ← walkC cx first fuel c'
        .ok (c' :: rest, b)

/-- the group of one popped corner -/
def cornerGroup (cx : CornerCtx) (fuel : Nat) (c : Corner) : Except Err (List Corner) :=
  if !((cx.across c.1).isSome && (cx.across c.2).isSome) then do
    let fw ← walkF cx fuel c
    let bw ← walkB cx fuel c
    .ok (bw ++ [c] ++ fw)
  else do
    let (fw, closed) ← walkC cx c fuel c
    if closed then .ok ([c] ++ fw)
    else do
      let bw ← walkB cx fuel c
      .ok (bw ++ [c] ++ fw)

/-- the worklist loop: pop, group, remove the grouped corners -/
def cornerLoop (cx : CornerCtx) (fuel : Nat) : Nat → List Corner → Except Err (List (List Corner))
  | 0, _ => .error .diverges
  | _, [] => .ok []
  | n + 1, c :: rest => do
      let g ← cornerGroup cx fuel c
      let rest' := rest.filter (fun x => !(g.any (fun y => y.sameSet x)))
      let gs ← cornerLoop cx fuel n rest'
      .ok (g :: gs)

/-- faces of the same patch with a different axis (`Boundary.adjacent_boundaries`) -/
def adjacent (f : Face) : List Face := f.patch.boundary.filter (fun a => a.axis != f.axis)

def cornerCtx (ifs : List Iface) : CornerCtx :=
  let dir1 := ifs.foldl (fun d i => dictSet Face.same d i.plus i.ornt) []
  let dir := ifs.foldl (fun d i => dictSet Face.same d i.minus i.ornt) dir1
  let b1 := ifs.foldl (fun d i => dictSet Face.same d i.minus i.plus) []
  let bnd := b1.foldl (fun d e => dictSet Face.same d e.2 e.1) b1
  ⟨bnd, dir⟩

/-- `domain.corners`: the groups, each a list of corners (pairs of faces) -/
def DomCore.corners (d : DomCore) : Except Err (List (List Corner)) :=
  match d.interiors with
  | [] => .error .outside
  | p :: _ =>
    if p.dim != 2 then .error .outside
    else if d.ifaces.isEmpty then .error .typeError      -- `for i in None`
    else
      let ifs := sortBy Iface.name d.ifaces
      let cx := cornerCtx ifs
      let work := dedupBy Corner.sameSet
        (cx.bnd.flatMap (fun e => (adjacent e.1).map (fun n => (e.1, n))))
      let fuel := 8 * d.interiors.length + 2
      cornerLoop cx fuel (work.length + 1) work

/-! ### grids of n-cubes (the layouts of the property's quantifier), d ≤ 3 -/

/-- index triples of an `n1 × n2 × n3` grid (unused axes have size 1) -/
def gridIdx (n1 n2 n3 : Nat) : List (Nat × Nat × Nat) :=
  (List.range n1).flatMap fun i => (List.range n2).flatMap fun j => (List.range n3).map fun k => (i, j, k)

def idxGet (x : Nat × Nat × Nat) : Nat → Nat
  | 0 => x.1
  | 1 => x.2.1
  | _ => x.2.2

def idxSet (x : Nat × Nat × Nat) (a v : Nat) : Nat × Nat × Nat :=
  match a with
  | 0 => (v, x.2.1, x.2.2)
  | 1 => (x.1, v, x.2.2)
  | _ => (x.1, x.2.1, v)

structure Grid where
  d : Nat                                    -- dimension of the patches, 1..3
  n : Nat × Nat × Nat                        -- number of patches along each axis
  per : Bool × Bool × Bool                   -- periodic closure along each axis
  patch : Nat × Nat × Nat → Patch            -- the patch at a lattice position
  ornt : Nat × Nat × Nat → Nat → Option (List Int)   -- the orientation declared for the connection (x, +a)

def Grid.size (g : Grid) (a : Nat) : Nat := idxGet g.n a
def Grid.periodic (g : Grid) (a : Nat) : Bool :=
  match a with
  | 0 => g.per.1
  | 1 => g.per.2.1
  | _ => g.per.2.2

def Grid.idxs (g : Grid) : List (Nat × Nat × Nat) := gridIdx g.n.1 g.n.2.1 g.n.2.2
def Grid.patches (g : Grid) : List Patch := g.idxs.map g.patch

/-- the neighbour of `x` in direction `+a`, if the lattice has one -/
def Grid.next (g : Grid) (x : Nat × Nat × Nat) (a : Nat) : Option (Nat × Nat × Nat) :=
  if idxGet x a + 1 < g.size a then some (idxSet x a (idxGet x a + 1))
  else if g.periodic a && 2 ≤ g.size a then some (idxSet x a 0)
  else none

/-- all geometric connections of the grid: the `+a` face of a patch with the `-a` face of its neighbour -/
def Grid.conns (g : Grid) : List Conn :=
  g.idxs.flatMap fun x => (List.range g.d).filterMap fun a =>
    (g.next x a).map fun y =>
      ⟨⟨.obj (g.patch x), some a, 1⟩, ⟨.obj (g.patch y), some a, -1⟩, g.ornt x a⟩

/-! ### S-expression I/O -/


def optStr : Option String → Sexp
  | none => .atom "none"
  | some s => .str s

def intList (l : List Int) : Sexp := .list (l.map Sexp.ofInt)

def Patch.toSexp (p : Patch) : Sexp :=
  .list [.atom "patch", .str p.name, .str p.lname, Sexp.ofNat p.dim, intList p.lo, intList p.hi, optStr p.mapping]

def Face.toSexp (f : Face) : Sexp :=
  .list [.atom "face", .str f.patch.name, Sexp.ofNat f.axis, Sexp.ofInt f.ext, .str f.gamma,
         optStr f.patch.mapping,
         match f.logical with
         | none => .atom "none"
         | some l => .list [.atom "face", .str l.patch.name, Sexp.ofNat l.axis, Sexp.ofInt l.ext, .str l.gamma]]

def Ornt.toSexp : Ornt → Sexp
  | .none => .atom "none"
  | .o2 o => .list [Sexp.ofInt o]
  | .o3 a b c => .list [Sexp.ofInt a, Sexp.ofInt b, Sexp.ofInt c]

def Iface.toSexpCore (i : Iface) : Sexp :=
  .list [.atom "iface", .str i.name, i.minus.toSexp, i.plus.toSexp, i.ornt.toSexp]

/-- `withLogical = false` for interfaces that were not built by `Boundary.join` (MappedDomain) -/
def Iface.toSexp (withLogical : Bool) (i : Iface) : Sexp :=
  .list [.atom "iface", .str i.name, i.minus.toSexp, i.plus.toSexp, i.ornt.toSexp,
         if withLogical then
           match i.logical with
           | none => .atom "none"
           | some l => l.toSexpCore
         else .atom "none"]

def DomCore.toSexp (wl : Bool) (d : DomCore) : Sexp :=
  .list [.atom "core", .str d.name,
         .list (.atom "interiors" :: d.interiors.map Patch.toSexp),
         .list (.atom "boundary" :: d.boundary.map Face.toSexp),
         .list (.atom "ifaces" :: d.ifaces.map (Iface.toSexp wl))]

def Dom.toSexp (wl : Bool) (d : Dom) : Sexp :=
  .list [.atom "dom", d.toDomCore.toSexp wl,
         match d.logical with
         | none => .atom "none"
         | some l => l.toSexp false,
         .list (.atom "mappings" :: d.mappings.map (fun e => .list [.str e.1, .str e.2]))]

def ints? (s : Sexp) : Option (List Int) :=
  match s with
  | .list xs => xs.mapM Sexp.toInt?
  | _ => none

def Patch.ofSexp : Sexp → Option Patch
  | .list [.atom "patch", .str l, d, lo, hi, m] => do
      let m ← match m with
        | .atom "none" => some none
        | .str s => some (some s)
        | _ => none
      some ⟨l, ← d.toNat?, ← ints? lo, ← ints? hi, m⟩
  | _ => none

def Side.ofSexp : Sexp → Option Side
  | .list [.atom "side", r, a, e] => do
      let r ← match r with
        | .list [.atom "idx", i] => (Ref.idx ·) <$> i.toInt?
        | .list [.atom "obj", p] => (Ref.obj ·) <$> Patch.ofSexp p
        | _ => none
      let a ← match a with
        | .atom "none" => some none
        | x => some <$> x.toNat?
      some ⟨r, a, ← e.toInt?⟩
  | _ => none

def Conn.ofSexp : Sexp → Option Conn
  | .list [.atom "conn", m, p, o] => do
      let o ← match o with
        | .atom "none" => some none
        | x => some <$> ints? x
      some ⟨← Side.ofSexp m, ← Side.ofSexp p, o⟩
  | _ => none

def layout? (ps cs nm : Sexp) : Option (List Patch × List Conn × String) :=
  match ps, cs, nm with
  | .list (.atom "patches" :: ps), .list (.atom "conns" :: cs), .str nm => do
      some (← ps.mapM Patch.ofSexp, ← cs.mapM Conn.ofSexp, nm)
  | _, _, _ => none

def axis? : Sexp → Option (Option Nat)
  | .atom "none" => some none
  | x => some <$> x.toNat?

def Names.ofSexp : Sexp → Option Names
  | .list [.atom "str", .str s] => some (.str s)
  | .list (.atom "tup" :: xs) => (Names.tup ·) <$> xs.mapM Sexp.toStr?
  | _ => none

def errLine (e : Err) : String := "err " ++ e.toString

def cornerSexp (c : Corner) : Sexp :=
  .list [.atom "corner", .str c.1.patch.name, c.1.toSexp, c.2.toSexp]

def bool3? : Sexp → Option (Bool × Bool × Bool)
  | .list [a, b, c] => do some (← a.toBool?, ← b.toBool?, ← c.toBool?)
  | _ => none

/-- one request line → one response line -/
def handle (args : List Sexp) : String :=
  match args with
  | [.atom "join", ps, cs, nm] =>
      match layout? ps cs nm with
      | some (ps, cs, nm) =>
          match join ps cs nm with
          | .ok d => "ok " ++ toString (d.toSexp true)
          | .error e => errLine e
      | none => "bad-op"
  | [.atom "gbp", p, a, e] =>
      match Patch.ofSexp p, axis? a, e.toInt? with
      | some p, some a, some e =>
          match p.getBoundary a e with
          | .ok f => "ok " ++ toString f.toSexp
          | .error e => errLine e
      | _, _, _ => "bad-op"
  | [.atom "gbd", ps, cs, nm, a, e] =>
      match layout? ps cs nm, axis? a, e.toInt? with
      | some (ps, cs, nm), some a, some e =>
          match (do let d ← join ps cs nm; d.toDomCore.getBoundary a e) with
          | .ok f => "ok " ++ toString f.toSexp
          | .error e => errLine e
      | _, _, _ => "bad-op"
  | [.atom "sub", ps, cs, nm, ns] =>
      match layout? ps cs nm, Names.ofSexp ns with
      | some (ps, cs, nm), some ns =>
          match (do let d ← join ps cs nm; d.getSubdomain ns) with
          | .ok .pyNone => "ok None"
          | .ok .self => "ok self"
          | .ok (.dom d) => "ok " ++ toString (d.toSexp true)
          | .error e => errLine e
      | _, _ => "bad-op"
  | [.atom "corners", ps, cs, nm] =>
      match layout? ps cs nm with
      | some (ps, cs, nm) =>
          match (do let d ← join ps cs nm; d.toDomCore.corners) with
          | .ok gs => "ok " ++ toString (Sexp.list (gs.map fun g => Sexp.list (.atom "group" :: g.map cornerSexp)))
          | .error e => errLine e
      | none => "bad-op"
  | [.atom "map", .str m, ps, cs, nm] =>
      match layout? ps cs nm with
      | some (ps, cs, nm) =>
          match (do let d ← join ps cs nm; applyMapping m d) with
          | .ok d => "ok " ++ toString (d.toSexp false)
          | .error e => errLine e
      | none => "bad-op"
  | [.atom "gridconns", d, n1, n2, n3, per] =>
      match d.toNat?, n1.toNat?, n2.toNat?, n3.toNat?, bool3? per with
      | some d, some n1, some n2, some n3, some per =>
          let g : Grid := ⟨d, (n1, n2, n3), per, fun x =>
            ⟨"P" ++ toString x.1 ++ "_" ++ toString x.2.1 ++ "_" ++ toString x.2.2, d, [], [], none⟩,
            fun _ _ => none⟩
          "ok " ++ toString (Sexp.list (g.conns.map fun c =>
            match c.minus.ref, c.plus.ref with
            | .obj p, .obj q => Sexp.list [.str p.lname, Sexp.ofNat (c.minus.axis.getD 0), Sexp.ofInt c.minus.ext,
                                          .str q.lname, Sexp.ofNat (c.plus.axis.getD 0), Sexp.ofInt c.plus.ext]
            | _, _ => Sexp.atom "?"))
      | _, _, _, _, _ => "bad-op"
  | _ => "bad-op"

end Topo
end Sympde
