/-
  C16: every function-free expression as a fraction `n / d` of expressions without negative integer
  powers at the top level, together with an expression `di` for the inverse of the denominator
  (numerators and denominators are what the cross-multiplied polynomial identities of the generated
  mapping theorems are stated on).  Also: entry access of matrix nodes.  Core Lean only.
-/
import SympdeModel.Model.PDeriv
namespace Sympde
namespace Frac
open E

structure Fr where
  n : E
  d : E
  di : E
  deriving Repr, Inhabited

def isOne : E → Bool
  | num 1 1 => true
  | _ => false

/-- product / power that do not pile up factors `1` -/
def mulS (a b : E) : E := if isOne a then b else if isOne b then a else mul [a, b]
def powN (a : E) (k : Nat) : E := if isOne a then one else if k == 1 then a else pow a (num (Int.ofNat k) 1)
def invE (a : E) : E := pow a (num (-1) 1)

mutual
/-- `e = n / d` and `d * di = 1` whenever the bases of the negative powers of `e` are invertible -/
def asFrac : E → Fr
  | num p q => if q == 0 || q == 1 then ⟨num p q, one, one⟩ else ⟨num p 1, num (Int.ofNat q) 1, num 1 q⟩
  | add as => asFracSum as
  | mul as => asFracProd as
  | pow b e =>
      match PD.intLit e with
      | some n =>
          let f := asFrac b
          if n < 0 then ⟨powN f.d n.natAbs, powN f.n n.natAbs, powN (mulS (invE b) f.di) n.natAbs⟩
          else ⟨powN f.n n.natAbs, powN f.d n.natAbs, powN f.di n.natAbs⟩
      | none => ⟨pow b e, one, one⟩
  | e => ⟨e, one, one⟩
def asFracSum : List E → Fr
  | [] => ⟨zero, one, one⟩
  | [a] => asFrac a
  | a :: as =>
      let f := asFrac a
      let g := asFracSum as
      ⟨add [mulS f.n g.d, mulS g.n f.d], mulS f.d g.d, mulS f.di g.di⟩
def asFracProd : List E → Fr
  | [] => ⟨one, one, one⟩
  | a :: as =>
      let f := asFrac a
      let g := asFracProd as
      ⟨mulS f.n g.n, mulS f.d g.d, mulS f.di g.di⟩
end

mutual
/-- only numbers, constants, symbols, sums, products, elementary functions and non-negative integer
    literal powers: nothing whose meaning needs an invertibility side condition -/
def polyLike : E → Bool
  | num _ _ => true
  | cst _ => true
  | sym _ => true
  | add as => polyLikeList as
  | mul as => polyLikeList as
  | pow b e =>
      (match PD.intLit e with
        | some n => decide (0 ≤ n)
        | none => false) && polyLike b
  | fn _ a => polyLike a
  | mat _ _ es => polyLikeList es
  | _ => false
def polyLikeList : List E → Bool
  | [] => true
  | a :: as => polyLike a && polyLikeList as
end

/-- the (i, j) entry of a dense matrix node (the node itself for anything else) -/
def entry : E → Nat → Nat → E
  | mat _ c es, i, j => es.getD (i * c + j) zero
  | e, _, _ => e

end Frac
end Sympde
