/-
  C16: numpy broadcasting of shapes as `lambdify_sympde` (sympde/utilities/utils.py:11-87) uses it to
  compute the shape of what a lambdified scalar / array-valued expression returns.  Core Lean only.

  A shape is the list of dimension lengths, outermost first (numpy order).  `np.broadcast(*XYZ)`
  aligns the shapes at their *last* axis; two lengths are compatible when they are equal or one of
  them is 1; a missing axis counts as 1.
-/
import SympdeModel.Model.Sexp
namespace Sympde
namespace Bcast

abbrev Shape := List Nat

inductive BErr where | valueError
  deriving Repr, DecidableEq

/-- one axis -/
def dim2 (x y : Nat) : Option Nat :=
  if x = y then some x else if x = 1 then some y else if y = 1 then some x else none

/-- broadcasting of two shapes given innermost axis first -/
def bcR : Shape → Shape → Option Shape
  | [], b => some b
  | a, [] => some a
  | x :: a, y :: b =>
      match dim2 x y, bcR a b with
      | some d, some r => some (d :: r)
      | _, _ => none

def broadcast2 (a b : Shape) : Option Shape := (bcR a.reverse b.reverse).map List.reverse

/-- `np.broadcast(*arrays).shape` (the scalar shape `[]` for no argument) -/
def broadcastAll : List Shape → Option Shape
  | [] => some []
  | s :: ss => (broadcastAll ss).bind (fun r => broadcast2 s r)

/-- `result[...] = temp` is possible: `t` can be broadcast to exactly `b` -/
def fitsR : Shape → Shape → Bool
  | [], _ => true
  | _ :: _, [] => false
  | x :: a, y :: b => (x == y || x == 1) && fitsR a b

def fits (t b : Shape) : Bool := fitsR t.reverse b.reverse

def pick (inputs : List Shape) (used : List Nat) : List Shape := used.filterMap (fun k => inputs[k]?)

/-- the shape of `f_vec_sc(*XYZ)` (scalar expression) / `f_vec_v(*XYZ)` (array-valued expression with
    component shape `comp`); `used` lists, per scalar component, the positions of the variables the
    component really depends on (sympy's lambdify returns an array of the broadcast shape of those,
    a Python number if there is none) -/
def lambdifyShape (comp : Shape) (inputs : List Shape) (used : List (List Nat)) : Except BErr Shape :=
  match broadcastAll inputs with
  | none => .error .valueError                      -- `np.broadcast(*XYZ)`: shape mismatch
  | some b =>
    if comp.isEmpty then
      match broadcastAll (pick inputs (used.headD [])) with
      | none => .error .valueError
      | some t =>
        if b.length == 0 then .ok t                 -- `if b.ndim == 0: return f(*XYZ)`
        else if b == t then .ok t                   -- `if b.shape == temp.shape: return temp`
        else if fits t b then .ok b                 -- `result = zeros(b.shape); result[...] = temp`
        else .error .valueError
    else
      if used.all (fun u =>
          match broadcastAll (pick inputs u) with
          | some t => fits t b
          | none => false) then .ok (comp ++ b)     -- `result = zeros(scalar_shape + b.shape); result[idx] = …`
      else .error .valueError

/-! ### S-expression I/O -/

def shape? : Sexp → Option Shape
  | .list xs => xs.mapM Sexp.toNat?
  | _ => none

def shapes? : Sexp → Option (List Shape)
  | .list xs => xs.mapM shape?
  | _ => none

def shapeSexp (s : Shape) : Sexp := .list (s.map Sexp.ofNat)

def handle (args : List Sexp) : String :=
  match args with
  | [.atom "bshape", comp, inputs, used] =>
      match shape? comp, shapes? inputs, shapes? used with
      | some c, some i, some u =>
          match lambdifyShape c i u with
          | .ok s => "ok " ++ toString (shapeSexp s)
          | .error _ => "err ValueError"
      | _, _, _ => "bad-op"
  | [.atom "broadcast", inputs] =>
      match shapes? inputs with
      | some i =>
          match broadcastAll i with
          | some s => "ok " ++ toString (shapeSexp s)
          | none => "err ValueError"
      | none => "bad-op"
  | _ => "bad-op"

end Bcast
end Sympde
