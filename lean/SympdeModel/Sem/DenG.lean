/-
  The *classical* meaning of generic (dimension-independent) expressions — the specification
  side of C01 / C02 / C11 (DESIGN.md 6/C01 "Spec").  `denG S d lg e i j` is the (i,j) component
  of the field denoted by `e` in dimension `d`, the derivations being the physical ones
  (dx,dy,dz) when `lg = false` and the logical ones (dx1,dx2,dx3) when `lg = true`.

  Conventions (those documented by the repo, mapping.py:742  J_F = (∇F)ᵀ):
    (grad f)_i = ∂_i f          (grad F)_ij = ∂_i F_j
    div F = Σ_i ∂_i F_i         (div M)_j  = Σ_i ∂_i M_ij
    curl F (3D) = (∂_1F_2-∂_2F_1, ∂_2F_0-∂_0F_2, ∂_0F_1-∂_1F_0)     curl F (2D) = ∂_0F_1-∂_1F_0
    rot f (2D) = (∂_1 f, -∂_0 f)      laplace = Σ_i ∂_i∂_i (entry-wise)      (hess f)_ij = ∂_i∂_j f
    [u,v] (2D) = ∂_0u ∂_1v - ∂_1u ∂_0v
    dot(u,v) = Σ u_i v_i        dot(M,v)_i = dot(v,M)_i = Σ_j M_ij v_j        inner(M,N) = Σ_ij M_ij N_ij
    cross (3D vector, 2D scalar)      outer(u,v)_ij = u_i v_j      convect(F,G)_j = Σ_i F_i ∂_i G_j
  Scalars ignore both indices, vectors ignore `j`.  `rank` is the tensor rank (0,1,2) used to
  select the scalar / vector / matrix reading of an operator; `WT` is the typing judgement.
-/
import SympdeModel.Sem.Den
namespace Sympde
open E
open DRing (sumN)

variable {K : Type} [CommRing K] [Algebra ℚ K]

mutual
/-- tensor rank: 0 scalar, 1 vector, 2 matrix (total; meaningful on well-typed trees) -/
def rank (d : Nat) : E → Nat
  | vf _ _ => 1
  | add as => rankHead d as
  | mul as => rankMax d as
  | pd _ a => rank d a
  | op1 .grad a => rank d a + 1
  | op1 .div a => rank d a - 1
  | op1 .curl _ => if d = 3 then 1 else 0
  | op1 .rot _ => 1
  | op1 .laplace a => rank d a
  | op1 .hessian _ => 2
  | op2 .dot a b => if rank d a = 2 ∨ rank d b = 2 then 1 else 0
  | op2 .cross _ _ => if d = 3 then 1 else 0
  | op2 .inner _ _ => 0
  | op2 .outer _ _ => 2
  | op2 .convect _ b => rank d b
  | op2 .bracket _ _ => 0
  | mat _ c _ => if c = 1 then 1 else 2
  | tup _ => 1
  | _ => 0
def rankHead (d : Nat) : List E → Nat
  | [] => 0
  | a :: _ => rank d a
def rankMax (d : Nat) : List E → Nat
  | [] => 0
  | a :: as => max (rank d a) (rankMax d as)
end

/-- the i-th derivation of the chosen family -/
def Di (S : DRing K) (lg : Bool) (i : Nat) : K → K := S.D (Coord.ofIdx lg i)

mutual
def denG (S : DRing K) (d : Nat) (lg : Bool) : E → Nat → Nat → K
  | num p q, _, _ => algebraMap ℚ K ((p : ℚ) / (q : ℚ))
  | cst s, _, _ => S.cst s
  | sym s, _, _ => S.sym s
  | sf s _, _, _ => S.sf s
  | vf s _, i, _ => S.vf s i
  | idx b k, _, _ => denG S d lg b k 0
  | add as, i, j => denGSum S d lg as i j
  | mul as, i, j => denGProd S d lg as i j
  | pow b e, i, j => powSem S (denG S d lg b i j) e (denG S d lg e i j)
  | fn f a, i, j => S.fn f (denG S d lg a i j)
  | pd c a, i, j => S.D c (denG S d lg a i j)
  | mat r c es, i, j => if i < r ∧ j < c then denGNth S d lg es (i * c + j) else 0
  | tup as, i, _ => denGNth S d lg as i
  | op1 .grad a, i, j =>
      if rank d a = 0 then Di S lg i (denG S d lg a 0 0) else Di S lg i (denG S d lg a j 0)
  | op1 .div a, i, _ =>
      if rank d a = 1 then sumN d (fun k => Di S lg k (denG S d lg a k 0))
      else sumN d (fun k => Di S lg k (denG S d lg a k i))
  | op1 .curl a, i, _ =>
      if d = 3 then
        (match i with
         | 0 => Di S lg 1 (denG S d lg a 2 0) - Di S lg 2 (denG S d lg a 1 0)
         | 1 => Di S lg 2 (denG S d lg a 0 0) - Di S lg 0 (denG S d lg a 2 0)
         | _ => Di S lg 0 (denG S d lg a 1 0) - Di S lg 1 (denG S d lg a 0 0))
      else Di S lg 0 (denG S d lg a 1 0) - Di S lg 1 (denG S d lg a 0 0)
  | op1 .rot a, i, _ =>
      (match i with
       | 0 => Di S lg 1 (denG S d lg a 0 0)
       | _ => - Di S lg 0 (denG S d lg a 0 0))
  | op1 .laplace a, i, j => sumN d (fun k => Di S lg k (Di S lg k (denG S d lg a i j)))
  | op1 .hessian a, i, j => Di S lg i (Di S lg j (denG S d lg a 0 0))
  | op2 .dot a b, i, _ =>
      if rank d a = 2 then sumN d (fun k => denG S d lg a i k * denG S d lg b k 0)
      else if rank d b = 2 then sumN d (fun k => denG S d lg b i k * denG S d lg a k 0)
      else sumN d (fun k => denG S d lg a k 0 * denG S d lg b k 0)
  | op2 .cross a b, i, _ =>
      if d = 3 then
        (match i with
         | 0 => denG S d lg a 1 0 * denG S d lg b 2 0 - denG S d lg a 2 0 * denG S d lg b 1 0
         | 1 => denG S d lg a 2 0 * denG S d lg b 0 0 - denG S d lg a 0 0 * denG S d lg b 2 0
         | _ => denG S d lg a 0 0 * denG S d lg b 1 0 - denG S d lg a 1 0 * denG S d lg b 0 0)
      else denG S d lg a 0 0 * denG S d lg b 1 0 - denG S d lg a 1 0 * denG S d lg b 0 0
  | op2 .inner a b, _, _ =>
      if rank d a = 2 then sumN d (fun k => sumN d (fun l => denG S d lg a k l * denG S d lg b k l))
      else sumN d (fun k => denG S d lg a k 0 * denG S d lg b k 0)
  | op2 .outer a b, i, j => denG S d lg a i 0 * denG S d lg b j 0
  | op2 .convect a b, i, _ => sumN d (fun k => denG S d lg a k 0 * Di S lg k (denG S d lg b i 0))
  | op2 .bracket a b, _, _ =>
      Di S lg 0 (denG S d lg a 0 0) * Di S lg 1 (denG S d lg b 0 0)
        - Di S lg 1 (denG S d lg a 0 0) * Di S lg 0 (denG S d lg b 0 0)
  | _, _, _ => 0
def denGSum (S : DRing K) (d : Nat) (lg : Bool) : List E → Nat → Nat → K
  | [], _, _ => 0
  | a :: as, i, j => denG S d lg a i j + denGSum S d lg as i j
def denGProd (S : DRing K) (d : Nat) (lg : Bool) : List E → Nat → Nat → K
  | [], _, _ => 1
  | a :: as, i, j => denG S d lg a i j * denGProd S d lg as i j
def denGNth (S : DRing K) (d : Nat) (lg : Bool) : List E → Nat → K
  | [], _ => 0
  | a :: _, 0 => denG S d lg a 0 0
  | _ :: as, n + 1 => denGNth S d lg as n
end

end Sympde
