/-
  Semantic structure (DESIGN.md 5.2): a commutative ℚ-algebra with commuting derivations, one
  per coordinate operator, and interpretations of the function symbols.  Smooth functions on
  an open set of ℝⁿ with their partial derivatives are an instance (Schwarz); so are polynomial
  rings with formal derivatives (Sem/Instances.lean).  Every theorem is proved for *every*
  such structure: these are hypotheses, not axioms.
-/
import Mathlib.Algebra.Algebra.Defs
import Mathlib.Algebra.Ring.Invertible
import Mathlib.Tactic.Ring
import Mathlib.Tactic.LinearCombination
import SympdeModel.Model.Expr

namespace Sympde

structure DRing (K : Type) [CommRing K] [Algebra ℚ K] where
  /-- the derivation attached to a coordinate operator dx, dy, dz, dx1, dx2, dx3 -/
  D : Coord → K → K
  D_add : ∀ c a b, D c (a + b) = D c a + D c b
  D_mul : ∀ c a b, D c (a * b) = a * D c b + D c a * b
  D_comm : ∀ c c' a, D c (D c' a) = D c' (D c a)
  D_rat : ∀ c (r : ℚ), D c (algebraMap ℚ K r) = 0
  /-- interpretation of scalar functions, vector function components, constants, symbols -/
  sf : String → K
  vf : String → Nat → K
  cst : String → K
  D_cst : ∀ c s, D c (cst s) = 0
  sym : String → K
  /-- a coordinate symbol has derivative 1 along its own operator and 0 along the others;
      any other plain symbol is a parameter (derivative 0) -/
  D_sym : ∀ c s, D c (sym s) = if s = c.name then 1 else 0
  /-- elementary functions and their derivatives (chain rule) -/
  fn : String → K → K
  fn' : String → K → K
  D_fn : ∀ c f a, D c (fn f a) = fn' f a * D c a
  /-- a candidate inverse (only used at points where `a * inv a = 1` is assumed) and real powers
      with the classical derivative `d(b^e) = (log b · de + e · db / b) · b^e` -/
  inv : K → K
  rpow : K → K → K
  D_rpow : ∀ c b e, D c (rpow b e) = (fn "log" b * D c e + e * D c b * inv b) * rpow b e
  rpow_pred : ∀ b e, b * inv b = 1 → rpow b (e + -1) = rpow b e * inv b

namespace DRing
variable {K : Type} [CommRing K] [Algebra ℚ K] (S : DRing K)

theorem D_zero (c : Coord) : S.D c 0 = 0 := by
  have := S.D_rat c 0
  simpa using this

theorem D_one (c : Coord) : S.D c 1 = 0 := by
  have := S.D_rat c 1
  simpa using this

theorem D_neg (c : Coord) (a : K) : S.D c (-a) = - S.D c a := by
  have h := S.D_add c a (-a)
  rw [add_neg_cancel, S.D_zero] at h
  linear_combination -h

theorem D_sub (c : Coord) (a b : K) : S.D c (a - b) = S.D c a - S.D c b := by
  rw [sub_eq_add_neg, S.D_add, S.D_neg]; ring

theorem D_pow (c : Coord) (a : K) (n : Nat) :
    S.D c (a ^ (n + 1)) = (n + 1 : K) * a ^ n * S.D c a := by
  induction n with
  | zero => simp
  | succ n ih =>
    rw [pow_succ, S.D_mul, ih]
    push_cast
    ring

theorem D_smul_rat (c : Coord) (r : ℚ) (a : K) :
    S.D c (algebraMap ℚ K r * a) = algebraMap ℚ K r * S.D c a := by
  rw [S.D_mul, S.D_rat]; ring

/-- derivative of the inverse of a unit -/
theorem D_inv_of_mul_eq_one (c : Coord) (a b : K) (h : a * b = 1) :
    S.D c b = - (b * b) * S.D c a := by
  have h1 : S.D c (a * b) = 0 := by rw [h, S.D_one]
  rw [S.D_mul] at h1
  -- a * D b + D a * b = 0, multiply by b
  have : b * (a * S.D c b + S.D c a * b) = 0 := by rw [h1]; ring
  have h2 : (a * b) * S.D c b + b * b * S.D c a = 0 := by linear_combination this
  rw [h, one_mul] at h2
  linear_combination h2

/-- sum over the first `d` indices -/
def sumN {K : Type} [CommRing K] : Nat → (Nat → K) → K
  | 0, _ => 0
  | n + 1, f => sumN n f + f n

theorem sumN_add {K : Type} [CommRing K] (d : Nat) (f g : Nat → K) :
    sumN d (fun i => f i + g i) = sumN d f + sumN d g := by
  induction d with
  | zero => simp [sumN]
  | succ n ih => simp only [sumN, ih]; ring

theorem sumN_mul_left {K : Type} [CommRing K] (d : Nat) (a : K) (f : Nat → K) :
    sumN d (fun i => a * f i) = a * sumN d f := by
  induction d with
  | zero => simp [sumN]
  | succ n ih => simp only [sumN, ih]; ring

theorem sumN_congr {K : Type} [CommRing K] (d : Nat) (f g : Nat → K) (h : ∀ i, i < d → f i = g i) :
    sumN d f = sumN d g := by
  induction d with
  | zero => simp [sumN]
  | succ n ih =>
    simp only [sumN]
    rw [ih (fun i hi => h i (Nat.lt_succ_of_lt hi)), h n (Nat.lt_succ_self n)]

theorem sumN_zero {K : Type} [CommRing K] (d : Nat) : sumN d (fun _ => (0 : K)) = 0 := by
  induction d with
  | zero => simp [sumN]
  | succ n ih => simp [sumN, ih]

theorem D_sumN (c : Coord) (d : Nat) (f : Nat → K) :
    S.D c (sumN d f) = sumN d (fun i => S.D c (f i)) := by
  induction d with
  | zero => simp [sumN, S.D_zero]
  | succ n ih => simp only [sumN, S.D_add, ih]

end DRing
end Sympde
