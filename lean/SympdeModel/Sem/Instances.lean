/-
  A concrete differential ring: polynomials in the six coordinates `x y z x1 x2 x3` over ℚ with
  the formal partial derivatives.  It shows that the hypotheses of every `DRing` theorem of the
  project can be met (non-vacuity), and it is the interpretation in which the violating
  integrands of C08 are refuted.

  Function symbols are interpreted by arbitrary polynomials (`sfv`, `vfv`), constants by rational
  numbers, coordinate symbols by the indeterminates; every elementary function symbol is
  interpreted by the square `a ↦ a²` (derivative `2a`: the chain rule holds), so that "a
  non-linear function of the argument" has a non-linear interpretation; `inv` and `rpow` are 0
  (their laws are implications / hold trivially).
-/
import Mathlib.Algebra.MvPolynomial.PDeriv
import Mathlib.Algebra.MvPolynomial.CommRing
import SympdeModel.Sem.DRing
open MvPolynomial
namespace Sympde

abbrev PolyK := MvPolynomial Coord ℚ

theorem pderiv_comm (i j : Coord) (p : PolyK) : pderiv i (pderiv j p) = pderiv j (pderiv i p) := by
  induction p using MvPolynomial.induction_on with
  | C a => simp
  | add p q hp hq => simp [hp, hq]
  | mul_X p n ih =>
    simp only [Derivation.leibniz, smul_eq_mul, map_add, pderiv_X, ih]
    by_cases h1 : i = n <;> by_cases h2 : j = n <;> simp [h1, h2] <;> ring

theorem Coord.ofName_name (c : Coord) : Coord.ofName c.name = some c := by cases c <;> rfl

theorem Coord.name_of_ofName {s : String} {c : Coord} (h : Coord.ofName s = some c) : s = c.name := by
  unfold Coord.ofName at h
  split at h <;> first | (injection h with h; subst h; rfl) | cases h

theorem Coord.name_inj {a b : Coord} (h : a.name = b.name) : a = b := by
  have := Coord.ofName_name a
  rw [h, Coord.ofName_name] at this
  injection this with this
  exact this.symm

/-- the coordinate symbol of a name (0 for any other symbol) -/
noncomputable def polySym (s : String) : PolyK :=
  match Coord.ofName s with
  | some c => X c
  | none => 0

/-- the polynomial differential ring with the given interpretation of the function symbols -/
noncomputable def polyDRing (sfv : String → PolyK) (vfv : String → Nat → PolyK) (cstv : String → ℚ) :
    DRing PolyK where
  D c := pderiv c
  D_add c a b := map_add _ a b
  D_mul c a b := by
    simp only [Derivation.leibniz, smul_eq_mul]; ring
  D_comm c c' a := pderiv_comm c c' a
  D_rat c r := by
    show pderiv c (C r) = 0
    simp
  sf := sfv
  vf := vfv
  cst s := C (cstv s)
  D_cst c s := by simp
  sym := polySym
  D_sym c s := by
    unfold polySym
    cases h : Coord.ofName s with
    | none =>
      have : s ≠ c.name := by
        intro e; rw [e, Coord.ofName_name] at h; cases h
      simp [this]
    | some c' =>
      have hs := Coord.name_of_ofName h
      simp only [pderiv_X, Pi.single_apply]
      by_cases hc : c' = c
      · subst hc; simp [hs]
      · have : s ≠ c.name := by
          intro e; rw [hs] at e; exact hc (Coord.name_inj e)
        simp [hc, this]
  fn _ a := a * a
  fn' _ a := 2 * a
  D_fn c f a := by
    simp only [Derivation.leibniz, smul_eq_mul]; ring
  inv _ := 0
  rpow _ _ := 0
  D_rpow c b e := by simp
  rpow_pred b e _ := by simp

/-- evaluation of a polynomial at a point: a ring homomorphism, used to tell polynomials apart -/
noncomputable def evalAt (pt : Coord → ℚ) : PolyK →+* ℚ := MvPolynomial.eval pt

theorem ne_of_evalAt (pt : Coord → ℚ) (p q : PolyK) (h : evalAt pt p ≠ evalAt pt q) : p ≠ q :=
  fun e => h (by rw [e])

end Sympde
