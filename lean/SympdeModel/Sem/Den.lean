/-
  Denotation of expression trees in a `DRing` (DESIGN.md 5.2): `den S e i j` is the (i,j)
  component of the value of `e`; scalars ignore both indices, a vector function ignores `j`
  (component `i`), a matrix node is entry-wise.  The function is total; which index ranges are
  meaningful is decided by the (separate) shape function, and every soundness theorem is
  stated for all `i j`.
-/
import SympdeModel.Sem.DRing
import SympdeModel.Model.PDeriv

namespace Sympde
open E

variable {K : Type} [CommRing K] [Algebra ℚ K]

/-- value of a power with exponent `e` (already interpreted base `b`, interpreted exponent `ev`) -/
def powSem (S : DRing K) (b : K) (e : E) (ev : K) : K :=
  match PD.intLit e with
  | some (Int.ofNat n) => b ^ n
  | some (Int.negSucc n) => (S.inv b) ^ (n + 1)
  | none => S.rpow b ev

mutual
def den (S : DRing K) : E → Nat → Nat → K
  | num p q, _, _ => algebraMap ℚ K ((p : ℚ) / (q : ℚ))
  | cst s, _, _ => S.cst s
  | sym s, _, _ => S.sym s
  | sf s _, _, _ => S.sf s
  | vf s _, i, _ => S.vf s i
  | idx b k, _, _ => den S b k 0
  | add as, i, j => denSum S as i j
  | mul as, i, j => denProd S as i j
  | pow b e, i, j => powSem S (den S b i j) e (den S e i j)
  | fn f a, i, j => S.fn f (den S a i j)
  | pd c a, i, j => S.D c (den S a i j)
  | mat r c es, i, j => if i < r ∧ j < c then denNth S es (i * c + j) else 0
  | _, _, _ => 0
def denSum (S : DRing K) : List E → Nat → Nat → K
  | [], _, _ => 0
  | a :: as, i, j => den S a i j + denSum S as i j
def denProd (S : DRing K) : List E → Nat → Nat → K
  | [], _, _ => 1
  | a :: as, i, j => den S a i j * denProd S as i j
/-- scalar value of the n-th entry of a list (0 beyond the end) -/
def denNth (S : DRing K) : List E → Nat → K
  | [], _ => 0
  | a :: _, 0 => den S a 0 0
  | _ :: as, n + 1 => denNth S as n
end

end Sympde
