/-
  Two-sided meaning of expressions on an interface (C02, interface operators) — mirrors the
  independent oracle `InstPair` (harness/inst.py).

  On an interface every expression has a value on the minus side and a value on the plus side;
  every scalar / vector function is interpreted independently on the two sides, numbers,
  constants, symbols, elementary functions and the derivations are shared.  The interface
  operators are *eliminated* into the classical language, per side `s`:
      minus(w)  ↦  w on the minus side            plus(w)  ↦  w on the plus side
      jump(w)   ↦  w⁻ − w⁺                         avg(w)   ↦  (w⁻ + w⁺)/2
      Dn(w)     ↦  Σ_k n_k ∂_k w   (n = the normal seen from side `s`, component-wise in w)
      NormalVector ↦ normal of side `s`,  MinusNormalVector / PlusNormalVector ↦ that side's
  and `denI S d lg s e = denG S d lg (elim d lg s e)`.  A function `f` becomes the function
  symbol `M:f` / `P:f`, the normal components are the function symbols `N-:k` / `N+:k`, so that an
  arbitrary `DRing` interprets the two sides (and the two normals) independently.
  The recursive equations of `denI` (what `InstPair.inst` computes) are the lemmas
  `denI_minus … denI_dn` of Lemmas/Calc3.lean.
-/
import SympdeModel.Sem.DenG
namespace Sympde
open E

inductive Side where | m | p
  deriving Repr, DecidableEq, Inhabited

def Side.tag : Side → String
  | .m => "M:" | .p => "P:"

def Side.ntag : Side → String
  | .m => "N-:" | .p => "N+:"

/-- k-th component of the normal vector seen from side `s` -/
def nComp (s : Side) (k : Nat) : E := sf (s.ntag ++ toString k) .undef

/-- the normal vector seen from side `s` -/
def nVec (d : Nat) (s : Side) : E := tup ((List.range d).map (nComp s))

/-- Σ_k n_k ∂_k a -/
def dnTree (d : Nat) (lg : Bool) (s : Side) (a : E) : E :=
  add ((List.range d).map (fun k => mul [nComp s k, pd (Coord.ofIdx lg k) a]))

mutual
/-- the classical expression denoted on side `s` -/
def elim (d : Nat) (lg : Bool) : Side → E → E
  | s, sf n k => sf (s.tag ++ n) k
  | s, vf n k => vf (s.tag ++ n) k
  | s, idx b i => idx (elim d lg s b) i
  | s, add as => add (elimList d lg s as)
  | s, mul as => mul (elimList d lg s as)
  | s, pow b e => pow (elim d lg s b) (elim d lg s e)
  | s, fn f a => fn f (elim d lg s a)
  | s, pd c a => pd c (elim d lg s a)
  | _, op1 .minus a => elim d lg .m a
  | _, op1 .plus a => elim d lg .p a
  | _, op1 .jump a => add [elim d lg .m a, mul [num (-1) 1, elim d lg .p a]]
  | _, op1 .avg a => mul [num 1 2, add [elim d lg .m a, elim d lg .p a]]
  | s, op1 .dn a => dnTree d lg s (elim d lg s a)
  | s, op1 o a => op1 o (elim d lg s a)
  | s, op2 o a b => op2 o (elim d lg s a) (elim d lg s b)
  | s, mat r c es => mat r c (elimList d lg s es)
  | s, tup as => tup (elimList d lg s as)
  | s, normal n =>
      if n == "MinusNormalVector:n" then nVec d .m
      else if n == "PlusNormalVector:n" then nVec d .p
      else if n == "NormalVector:n" then nVec d s
      else normal n
  | s, other t as => other t (elimList d lg s as)
  | _, e => e
def elimList (d : Nat) (lg : Bool) : Side → List E → List E
  | _, [] => []
  | s, a :: as => elim d lg s a :: elimList d lg s as
end

variable {K : Type} [CommRing K] [Algebra ℚ K]

/-- the (i,j) component of the value of `e` on side `s` of the interface -/
def denI (S : DRing K) (d : Nat) (lg : Bool) (s : Side) (e : E) (i j : Nat) : K :=
  denG S d lg (elim d lg s e) i j

end Sympde
