/-
  Helper lemmas for C20, part 1: the Python string primitives of Model/Pattern.lean
  (strip, split on a separator, split on whitespace, substring search, escapes).
-/
import SympdeModel.Model.Pattern
namespace Sympde.Pat

/-! ### dropWhile / strip -/

theorem dropWhile_append_all (p : Char → Bool) (xs ys : Str) (h : ∀ c ∈ xs, p c = true) :
    (xs ++ ys).dropWhile p = ys.dropWhile p := by
  induction xs with
  | nil => rfl
  | cons x xs ih =>
    have hx := h x (by simp)
    simp only [List.cons_append, List.dropWhile_cons, hx, if_true]
    exact ih (fun c hc => h c (by simp [hc]))

theorem dropWhile_head_false (p : Char → Bool) (c : Char) (cs : Str) (h : p c = false) :
    (c :: cs).dropWhile p = c :: cs := by
  simp [List.dropWhile_cons, h]

theorem lstrip_ws_append (w s : Str) (hw : ∀ c ∈ w, isSpace c = true) :
    lstrip (w ++ s) = lstrip s := dropWhile_append_all _ _ _ hw

theorem lstrip_of_head (c : Char) (cs : Str) (h : isSpace c = false) : lstrip (c :: cs) = c :: cs :=
  dropWhile_head_false _ _ _ h

theorem rstrip_append_ws (s w : Str) (hw : ∀ c ∈ w, isSpace c = true) :
    rstrip (s ++ w) = rstrip s := by
  unfold rstrip
  rw [List.reverse_append, dropWhile_append_all _ _ _ (by simpa using hw)]

theorem rstrip_of_last (s : Str) (c : Char) (h : isSpace c = false) :
    rstrip (s ++ [c]) = s ++ [c] := by
  unfold rstrip
  rw [List.reverse_append]
  simp [List.dropWhile_cons, h]

theorem rstrip_nil : rstrip [] = [] := rfl

/-- a string whose first and last characters are not blank is not changed by `strip` -/
theorem strip_core (w1 w2 s : Str) (c : Char) (hw1 : ∀ x ∈ w1, isSpace x = true)
    (hw2 : ∀ x ∈ w2, isSpace x = true) (hc : isSpace c = false)
    (hhead : ∀ d ds, s ++ [c] = d :: ds → isSpace d = false) :
    strip (w1 ++ (s ++ [c]) ++ w2) = s ++ [c] := by
  unfold strip
  rw [List.append_assoc, lstrip_ws_append _ _ hw1]
  cases hs : s ++ [c] with
  | nil => simp at hs
  | cons d ds =>
    rw [List.cons_append, lstrip_of_head d _ (hhead d ds hs), ← List.cons_append, ← hs,
      rstrip_append_ws _ _ hw2, rstrip_of_last _ _ hc]

/-! ### substring search and replacement -/

theorem isPrefixOf_cons_not_mem (a : Char) (pat s : Str) (h : a ∉ s) :
    (a :: pat).isPrefixOf s = false := by
  cases s with
  | nil => rfl
  | cons c cs =>
    have : a ≠ c := by intro e; subst e; simp at h
    simp [List.isPrefixOf, this]

theorem hasSub_cons_not_mem (a : Char) (pat s : Str) (h : a ∉ s) : hasSub (a :: pat) s = false := by
  induction s with
  | nil => simp [hasSub]
  | cons c cs ih =>
    unfold hasSub
    rw [isPrefixOf_cons_not_mem a pat (c :: cs) h, ih (fun hm => h (by simp [hm]))]
    rfl

/-- without a backslash nothing is escaped: the text is unchanged and `literal` is the identity -/
theorem escapeAll_no_backslash (s : Str) (h : '\\' ∉ s) :
    (escapeAll s).names = s ∧ (escapeAll s).lits = [] := by
  simp [escapeAll, literalsSrc, List.foldl, escapeStep, hasSub_cons_not_mem '\\' _ s h]

theorem literal_nil (s : Str) : literal [] s = s := rfl

/-! ### split on a separator -/

theorem splitOn_ne_nil (sep : Char) (s : Str) : splitOn sep s ≠ [] := by
  induction s with
  | nil => simp [splitOn]
  | cons c cs ih =>
    unfold splitOn
    split
    · simp
    · split <;> simp

theorem splitOn_no_sep (sep : Char) (s : Str) (h : sep ∉ s) : splitOn sep s = [s] := by
  induction s with
  | nil => rfl
  | cons c cs ih =>
    have hc : (c == sep) = false := by
      simp only [beq_eq_false_iff_ne, ne_eq]; intro e; subst e; simp at h
    unfold splitOn
    simp only [hc, Bool.false_eq_true, if_false]
    rw [ih (fun hm => h (by simp [hm]))]

theorem splitOn_append_sep (sep : Char) (a b : Str) (h : sep ∉ a) :
    splitOn sep (a ++ sep :: b) = a :: splitOn sep b := by
  induction a with
  | nil => simp [splitOn]
  | cons c cs ih =>
    have hc : (c == sep) = false := by
      simp only [beq_eq_false_iff_ne, ne_eq]; intro e; subst e; simp at h
    simp only [List.cons_append]
    conv => lhs; unfold splitOn
    simp only [hc, Bool.false_eq_true, if_false]
    rw [ih (fun hm => h (by simp [hm]))]

/-! ### split on whitespace -/

theorem splitWs_ws_append (w s : Str) (hw : ∀ c ∈ w, isSpace c = true) :
    splitWs (w ++ s) = splitWs s := by
  induction w with
  | nil => rfl
  | cons c cs ih =>
    simp only [List.cons_append]
    conv => lhs; unfold splitWs
    simp only [hw c (by simp), if_true]
    exact ih (fun x hx => hw x (by simp [hx]))

theorem splitWs_all_ws (w : Str) (hw : ∀ c ∈ w, isSpace c = true) : splitWs w = [] := by
  have := splitWs_ws_append w [] hw
  simpa [splitWs] using this

/-- a word (non-empty, without blanks) followed by at least one blank -/
theorem splitWs_word_ws (a w s : Str) (d : Char) (ha : ∀ c ∈ a, isSpace c = false) (hne : a ≠ [])
    (hd : isSpace d = true) (hw : ∀ c ∈ w, isSpace c = true) :
    splitWs (a ++ d :: (w ++ s)) = a :: splitWs s := by
  induction a with
  | nil => exact absurd rfl hne
  | cons c cs ih =>
    have hc := ha c (by simp)
    cases cs with
    | nil =>
      simp only [List.cons_append, List.nil_append]
      conv => lhs; unfold splitWs
      simp only [hc, Bool.false_eq_true, if_false, hd, if_true]
      rw [show d :: (w ++ s) = (d :: w) ++ s by rfl,
        splitWs_ws_append (d :: w) s (by intro x hx; rcases List.mem_cons.mp hx with rfl | hx; exact hd; exact hw x hx)]
    | cons c' cs' =>
      have hc' := ha c' (by simp)
      have ih' := ih (fun x hx => ha x (by simp [hx])) (by simp)
      simp only [List.cons_append] at ih' ⊢
      conv => lhs; unfold splitWs
      simp only [hc, Bool.false_eq_true, if_false, hc']
      rw [ih']

theorem splitWs_word (a : Str) (ha : ∀ c ∈ a, isSpace c = false) (hne : a ≠ []) :
    splitWs a = [a] := by
  induction a with
  | nil => exact absurd rfl hne
  | cons c cs ih =>
    have hc := ha c (by simp)
    cases cs with
    | nil => unfold splitWs; simp [hc]
    | cons c' cs' =>
      have hc' := ha c' (by simp)
      have ih' := ih (fun x hx => ha x (by simp [hx])) (by simp)
      unfold splitWs
      simp only [hc, Bool.false_eq_true, if_false, hc']
      rw [ih']

/-- `str.split()` never yields an empty word: the check `if not name` of utils.py:107 is dead -/
theorem splitWs_nonempty (s : Str) : ∀ w ∈ splitWs s, w ≠ [] := by
  induction s with
  | nil => simp [splitWs]
  | cons c cs ih =>
    unfold splitWs
    split
    · exact ih
    · cases cs with
      | nil => simp
      | cons d ds =>
        simp only
        split
        · intro w hw
          rcases List.mem_cons.mp hw with rfl | hw
          · simp
          · exact ih w hw
        · split
          · rename_i w ws heq
            intro x hx
            rcases List.mem_cons.mp hx with rfl | hx
            · simp
            · exact ih x (by rw [heq]; simp [hx])
          · simp

end Sympde.Pat
