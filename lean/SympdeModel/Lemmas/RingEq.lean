/-
  Soundness of `RingEq.ringEq` (Model/RingEq.lean): expressions it declares equal have the same
  classical meaning (`denG`, scalar reading) in every differential ring.  The ring reasoning is
  core's verified polynomial normaliser (`Lean.Grind.CommRing.Expr.eq_of_toPoly_eq`).
-/
import Mathlib.Algebra.Ring.GrindInstances
import SympdeModel.Sem.DenG
import SympdeModel.Model.RingEq
import SympdeModel.Lemmas.Subst
namespace Sympde.RingEq
open E
open Lean.Grind.CommRing (Expr Context)
open DRing (sumN sumN_congr)

variable {K : Type} [CommRing K] [Algebra ℚ K]

/-! ### the copy of `rank` -/

theorem rankM_eq (d : Nat) (e : E) : rankM d e = rank d e := by
  induction e using E.rec
    (motive_2 := fun as => rankHeadM d as = rankHead d as ∧ rankMaxM d as = rankMax d as) with
  | nil => exact ⟨rfl, rfl⟩
  | cons a as iha ihas => exact ⟨by simp [rankHeadM, rankHead, iha], by simp [rankMaxM, rankMax, iha, ihas.2]⟩
  | add as ih => simp [rankM, rank, ih.1]
  | mul as ih => simp [rankM, rank, ih.2]
  | pd c a ih => simp [rankM, rank, ih]
  | op1 o a ih => cases o <;> simp [rankM, rank, ih]
  | op2 o a b iha ihb => cases o <;> simp [rankM, rank, iha, ihb]
  | _ => simp [rankM, rank]

/-! ### contexts -/

/-- the context whose variable `off + i` is the i-th element of the list -/
def mkCtx (off : Nat) : List K → Lean.RArray K
  | [] => .leaf 0
  | a :: rest => .branch (off + 1) (.leaf a) (mkCtx (off + 1) rest)

theorem mkCtx_get (off : Nat) (l : List K) (i : Nat) (h : i < l.length) :
    (mkCtx off l).get (off + i) = l[i] := by
  rw [Lean.RArray.get_eq_getImpl]
  induction l generalizing off i with
  | nil => simp at h
  | cons a rest ih =>
    cases i with
    | zero => simp [mkCtx, Lean.RArray.getImpl]
    | succ i =>
      simp only [mkCtx, Lean.RArray.getImpl]
      rw [if_neg (by omega)]
      have := ih (off + 1) i (by simpa using h)
      rw [show off + (i + 1) = off + 1 + i by omega]
      simpa using this

/-- the scalar values of the atoms -/
def atomVals (S : DRing K) (d : Nat) (lg : Bool) (atoms : List E) : List K :=
  atoms.map (fun t => denG S d lg t 0 0)

def ctxOf (S : DRing K) (d : Nat) (lg : Bool) (atoms : List E) : Context K :=
  mkCtx 0 (atomVals S d lg atoms)

theorem ctxOf_get (S : DRing K) (d : Nat) (lg : Bool) (atoms : List E) (i : Nat) (h : i < atoms.length) :
    (ctxOf S d lg atoms).get i = denG S d lg atoms[i] 0 0 := by
  have := mkCtx_get 0 (atomVals S d lg atoms) i (by simpa [atomVals] using h)
  simpa [ctxOf, atomVals] using this

/-! ### atoms -/

theorem dot_swap (S : DRing K) (d : Nat) (lg : Bool) (a b : E) (h : ¬ (rank d a = 2 ∧ rank d b = 2))
    (i j : Nat) : denG S d lg (op2 .dot a b) i j = denG S d lg (op2 .dot b a) i j := by
  simp only [denG]
  by_cases ha : rank d a = 2
  · have hb : rank d b ≠ 2 := fun hb => h ⟨ha, hb⟩
    simp [ha, hb]
  · by_cases hb : rank d b = 2
    · simp [ha, hb]
    · simp only [ha, hb, if_false]
      exact sumN_congr d _ _ (fun k _ => _root_.mul_comm _ _)

theorem inner_swap (S : DRing K) (d : Nat) (lg : Bool) (a b : E) (h : rank d a = 2 ↔ rank d b = 2)
    (i j : Nat) : denG S d lg (op2 .inner a b) i j = denG S d lg (op2 .inner b a) i j := by
  simp only [denG]
  by_cases ha : rank d a = 2
  · simp only [ha, h.mp ha, if_true]
    exact sumN_congr d _ _ (fun k _ => sumN_congr d _ _ (fun l _ => _root_.mul_comm _ _))
  · have hb : rank d b ≠ 2 := fun hb => ha (h.mpr hb)
    simp only [ha, hb, if_false]
    exact sumN_congr d _ _ (fun k _ => _root_.mul_comm _ _)

theorem eqAtom_sound (S : DRing K) (d : Nat) (lg : Bool) (t s : E) (h : eqAtom d t s = true) (i j : Nat) :
    denG S d lg t i j = denG S d lg s i j := by
  unfold eqAtom at h
  rcases Bool.or_eq_true_iff.mp h with h | h
  · rw [Sub.eqb_eq t s h]
  · cases t with
    | op2 o a b =>
      cases s with
      | op2 o' a' b' =>
        simp only [Bool.and_eq_true, beq_iff_eq] at h
        obtain ⟨⟨⟨ho, hs⟩, h1⟩, h2⟩ := h
        subst ho
        rw [← Sub.eqb_eq a b' h1, ← Sub.eqb_eq b a' h2]
        cases o <;> simp [symOK, rankM_eq] at hs
        · exact dot_swap S d lg a b (fun hh => by simp [hh.1, hh.2] at hs) i j
        · exact inner_swap S d lg a b (by
            constructor
            · intro ha; by_contra hb; simp [ha, hb] at hs
            · intro hb; by_contra ha; simp [ha, hb] at hs) i j
      | _ => simp at h
    | _ => simp at h

theorem findAtom_spec (d : Nat) (t : E) (atoms : List E) (k i : Nat) (h : findAtom d t atoms k = some i) :
    ∃ j, i = k + j ∧ ∃ hj : j < atoms.length, eqAtom d atoms[j] t = true := by
  induction atoms generalizing k with
  | nil => simp [findAtom] at h
  | cons s rest ih =>
    simp only [findAtom] at h
    split at h
    · rename_i hs
      injection h with h
      exact ⟨0, by omega, by simp, by simpa using hs⟩
    · obtain ⟨j, hj, hlt, he⟩ := ih (k + 1) h
      exact ⟨j + 1, by omega, by simp; omega, by simpa using he⟩

/-- the invariant of the translation -/
def Good (S : DRing K) (d : Nat) (lg : Bool) (atoms : List E) (e : E) (r : GExpr × List E) : Prop :=
  (∃ ext, r.2 = atoms ++ ext) ∧
  ∀ more, r.1.denote (ctxOf S d lg (r.2 ++ more)) = denG S d lg e 0 0

theorem atomVar_good (S : DRing K) (d : Nat) (lg : Bool) (atoms : List E) (t : E) :
    Good S d lg atoms t (atomVar d atoms t) := by
  unfold atomVar
  cases hf : findAtom d t atoms 0 with
  | some i =>
    obtain ⟨j, hj, hlt, he⟩ := findAtom_spec d t atoms 0 i hf
    have hij : i = j := by omega
    subst hij
    refine ⟨⟨[], by simp⟩, ?_⟩
    intro more
    show (ctxOf S d lg (atoms ++ more)).get i = _
    rw [ctxOf_get S d lg (atoms ++ more) i (by simp; omega)]
    rw [List.getElem_append_left hlt]
    exact eqAtom_sound S d lg _ _ he 0 0
  | none =>
    refine ⟨⟨[t], rfl⟩, ?_⟩
    intro more
    show (ctxOf S d lg (atoms ++ [t] ++ more)).get atoms.length = _
    rw [ctxOf_get S d lg (atoms ++ [t] ++ more) atoms.length (by simp)]
    simp

theorem natLit_spec {e : E} {n : Nat} (h : natLit e = some n) : e = num (Int.ofNat n) 1 := by
  cases e <;> simp [natLit] at h
  rename_i p q
  split at h
  · rename_i heq
    injection heq with hp hq
    subst hp hq
    split at h
    · rename_i hp
      injection h with h
      rw [← h]
      congr 1
      exact (Int.toNat_of_nonneg hp).symm
    · cases h
  · cases h

theorem toG_good (S : DRing K) (d : Nat) (lg : Bool) (e : E) :
    ∀ atoms, Good S d lg atoms e (toG d atoms e) := by
  induction e using E.rec
    (motive_2 := fun as => ∀ atoms,
      ((∃ ext, (toGSum d atoms as).2 = atoms ++ ext) ∧
        ∀ more, (toGSum d atoms as).1.denote (ctxOf S d lg ((toGSum d atoms as).2 ++ more))
          = denGSum S d lg as 0 0) ∧
      ((∃ ext, (toGProd d atoms as).2 = atoms ++ ext) ∧
        ∀ more, (toGProd d atoms as).1.denote (ctxOf S d lg ((toGProd d atoms as).2 ++ more))
          = denGProd S d lg as 0 0)) with
  | num p q =>
    intro atoms
    simp only [toG]
    split
    · rename_i hq
      have hq1 : q = 1 := by simpa using hq
      subst hq1
      refine ⟨⟨[], by simp⟩, ?_⟩
      intro more
      show ((p : Int) : K) = _
      simp [denG]
    · exact atomVar_good S d lg atoms _
  | add as ih => intro atoms; exact ⟨(ih atoms).1.1, fun more => by simpa [toG, denG] using (ih atoms).1.2 more⟩
  | mul as ih => intro atoms; exact ⟨(ih atoms).2.1, fun more => by simpa [toG, denG] using (ih atoms).2.2 more⟩
  | pow b e ihb _ =>
    intro atoms
    simp only [toG]
    cases hn : natLit e with
    | none => exact atomVar_good S d lg atoms _
    | some n =>
      have he := natLit_spec hn
      subst he
      obtain ⟨hext, hden⟩ := ihb atoms
      refine ⟨hext, ?_⟩
      intro more
      show ((toG d atoms b).1.denote _) ^ n = _
      rw [hden more]
      simp [denG, powSem, PD.intLit]
  | nil =>
    rename_i atoms
    refine ⟨⟨⟨[], by simp [toGSum]⟩, ?_⟩, ⟨⟨[], by simp [toGProd]⟩, ?_⟩⟩
    · intro more; show ((0 : Int) : K) = _; simp [denGSum]
    · intro more; show ((1 : Int) : K) = _; simp [denGProd]
  | cons a as iha ihas =>
    rename_i atoms
    obtain ⟨⟨e1, he1⟩, hd1⟩ := iha atoms
    obtain ⟨⟨⟨e2, he2⟩, hd2⟩, ⟨⟨e3, he3⟩, hd3⟩⟩ := ihas (toG d atoms a).2
    refine ⟨⟨⟨e1 ++ e2, ?_⟩, ?_⟩, ⟨⟨e1 ++ e3, ?_⟩, ?_⟩⟩
    · show (toGSum d (toG d atoms a).2 as).2 = _
      rw [he2, he1, List.append_assoc]
    rotate_left
    · show (toGProd d (toG d atoms a).2 as).2 = _
      rw [he3, he1, List.append_assoc]
    rotate_left
    · intro more
      simp only [toGSum, denGSum]
      show (toG d atoms a).1.denote _ + (toGSum d (toG d atoms a).2 as).1.denote _ = _
      rw [hd2 more]
      have := hd1 (e2 ++ more)
      rw [he2, List.append_assoc]
      rw [this]
    · intro more
      simp only [toGProd, denGProd]
      show (toG d atoms a).1.denote _ * (toGProd d (toG d atoms a).2 as).1.denote _ = _
      rw [hd3 more]
      have := hd1 (e3 ++ more)
      rw [he3, List.append_assoc]
      rw [this]
  | _ => intro atoms; exact atomVar_good S d lg atoms _

/-- **soundness of the comparison** -/
theorem ringEq_sound (S : DRing K) (d : Nat) (lg : Bool) (a b : E) (h : ringEq d a b = true) :
    denG S d lg a 0 0 = denG S d lg b 0 0 := by
  unfold ringEq at h
  simp only at h
  obtain ⟨_, hda⟩ := toG_good S d lg a []
  obtain ⟨⟨ext, hext⟩, hdb⟩ := toG_good S d lg b (toG d [] a).2
  have h1 := hda ext
  have h2 := hdb []
  rw [← hext] at h1
  rw [List.append_nil] at h2
  rw [← h1, ← h2]
  exact Expr.eq_of_toPoly_eq _ _ _ h

theorem ringZero_sound (S : DRing K) (d : Nat) (lg : Bool) (a : E) (h : ringZero d a = true) :
    denG S d lg a 0 0 = 0 := by
  have := ringEq_sound S d lg a (num 0 1) h
  simpa [denG] using this

end Sympde.RingEq
