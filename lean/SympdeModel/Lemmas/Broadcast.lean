/-
  Helper lemmas for the broadcasting theorems of Props/C16.lean (model: Model/Broadcast.lean).
-/
import Mathlib.Tactic.SplitIfs
import Mathlib.Data.List.Basic
import SympdeModel.Model.Broadcast
namespace Sympde.Bcast

theorem dim2_comm (x y : Nat) : dim2 x y = dim2 y x := by
  unfold dim2; split_ifs <;> simp_all

theorem dim2_self (x : Nat) : dim2 x x = some x := by simp [dim2]

theorem dim2_assoc (x y z : Nat) :
    (dim2 x y).bind (fun d => dim2 d z) = (dim2 y z).bind (fun d => dim2 x d) := by
  unfold dim2
  by_cases h1 : x = y <;> by_cases h2 : y = z <;> by_cases h3 : x = 1 <;> by_cases h4 : y = 1 <;>
    by_cases h5 : z = 1 <;> by_cases h6 : x = z <;> simp_all

theorem bcR_nil_right (a : Shape) : bcR a [] = some a := by cases a <;> simp [bcR]

theorem bcR_comm (a b : Shape) : bcR a b = bcR b a := by
  induction a generalizing b with
  | nil => simp [bcR, bcR_nil_right]
  | cons x a ih =>
    cases b with
    | nil => simp [bcR]
    | cons y b => simp only [bcR, ih b, dim2_comm x y]

theorem bcR_self (a : Shape) : bcR a a = some a := by
  induction a with
  | nil => rfl
  | cons x a ih => simp [bcR, ih, dim2_self]

theorem bcR_cons (x y : Nat) (a b : Shape) :
    bcR (x :: a) (y :: b) = (dim2 x y).bind (fun d => (bcR a b).map (fun r => d :: r)) := by
  simp only [bcR]
  cases dim2 x y <;> cases bcR a b <;> rfl

theorem bcR_assoc (a b c : Shape) :
    (bcR a b).bind (fun d => bcR d c) = (bcR b c).bind (fun d => bcR a d) := by
  induction a generalizing b c with
  | nil => cases h : bcR b c <;> simp [bcR, h]
  | cons x a ih =>
    cases b with
    | nil => simp [bcR]
    | cons y b =>
      cases c with
      | nil => simp [bcR_nil_right]
      | cons z c =>
        have hd := dim2_assoc x y z
        have hr := ih b c
        simp only [bcR_cons]
        cases h1 : dim2 x y with
        | none =>
          simp only [Option.bind_none]
          cases h2 : dim2 y z with
          | none => simp
          | some e =>
            rw [h1, h2] at hd
            simp only [Option.bind_none, Option.bind_some] at hd
            cases h3 : bcR b c with
            | none => simp
            | some r => simp [bcR_cons, ← hd]
        | some d =>
          cases h2 : dim2 y z with
          | none =>
            rw [h1, h2] at hd
            simp only [Option.bind_none, Option.bind_some] at hd
            cases h3 : bcR a b with
            | none => simp
            | some r => simp [bcR_cons, hd]
          | some e =>
            rw [h1, h2] at hd
            simp only [Option.bind_some] at hd
            cases h3 : bcR a b with
            | none =>
              rw [h3] at hr
              simp only [Option.bind_none] at hr
              cases h4 : bcR b c with
              | none => simp
              | some r =>
                rw [h4] at hr
                simp only [Option.bind_some] at hr
                simp [bcR_cons, ← hr]
            | some r =>
              rw [h3] at hr
              simp only [Option.bind_some] at hr
              cases h4 : bcR b c with
              | none =>
                rw [h4] at hr
                simp only [Option.bind_none] at hr
                simp [bcR_cons, hr]
              | some r' =>
                rw [h4] at hr
                simp only [Option.bind_some] at hr
                simp only [Option.map_some, Option.bind_some, bcR_cons, hd, hr]

/-! ### what fits into what -/

theorem fitsR_refl (a : Shape) : fitsR a a = true := by
  induction a with
  | nil => rfl
  | cons x a ih => simp [fitsR, ih]

theorem fitsR_nil (a : Shape) : fitsR [] a = true := by cases a <;> rfl

theorem fitsR_trans (a b c : Shape) (h1 : fitsR a b = true) (h2 : fitsR b c = true) : fitsR a c = true := by
  induction a generalizing b c with
  | nil => exact fitsR_nil c
  | cons x a ih =>
    cases b with
    | nil => simp [fitsR] at h1
    | cons y b =>
      cases c with
      | nil => simp [fitsR] at h2
      | cons z c =>
        simp only [fitsR, Bool.and_eq_true, Bool.or_eq_true, beq_iff_eq] at h1 h2 ⊢
        refine ⟨?_, ih b c h1.2 h2.2⟩
        rcases h1.1 with rfl | rfl
        · exact h2.1
        · exact Or.inr rfl

theorem dim2_fits {x y d : Nat} (h : dim2 x y = some d) : (x = d ∨ x = 1) ∧ (y = d ∨ y = 1) := by
  unfold dim2 at h
  split_ifs at h <;> simp_all

/-- both operands fit into their broadcast -/
theorem bcR_fits (a b c : Shape) (h : bcR a b = some c) : fitsR a c = true ∧ fitsR b c = true := by
  induction a generalizing b c with
  | nil => simp [bcR] at h; subst h; exact ⟨fitsR_nil _, fitsR_refl _⟩
  | cons x a ih =>
    cases b with
    | nil => simp [bcR] at h; subst h; exact ⟨fitsR_refl _, fitsR_nil _⟩
    | cons y b =>
      rw [bcR_cons] at h
      cases hd : dim2 x y with
      | none => simp [hd] at h
      | some d =>
        cases hr : bcR a b with
        | none => simp [hd, hr] at h
        | some r =>
          simp [hd, hr] at h; subst h
          obtain ⟨f1, f2⟩ := ih b r hr
          obtain ⟨g1, g2⟩ := dim2_fits hd
          simp only [fitsR, Bool.and_eq_true, Bool.or_eq_true, beq_iff_eq]
          exact ⟨⟨g1, f1⟩, ⟨g2, f2⟩⟩

theorem dim2_lub (x y z : Nat) (hx : x = z ∨ x = 1) (hy : y = z ∨ y = 1) :
    ∃ d, dim2 x y = some d ∧ (d = z ∨ d = 1) := by
  unfold dim2
  by_cases h1 : x = y
  · exact ⟨x, by simp [h1], hx⟩
  · by_cases h2 : x = 1
    · exact ⟨y, by simp [h1, h2], hy⟩
    · by_cases h3 : y = 1
      · exact ⟨x, by simp [h1, h2, h3], hx⟩
      · exfalso
        rcases hx with hx | hx
        · rcases hy with hy | hy
          · exact h1 (hx.trans hy.symm)
          · exact h3 hy
        · exact h2 hx

/-- the broadcast is the least shape both operands fit into -/
theorem bcR_lub (a b c : Shape) (ha : fitsR a c = true) (hb : fitsR b c = true) :
    ∃ d, bcR a b = some d ∧ fitsR d c = true := by
  induction a generalizing b c with
  | nil => exact ⟨b, by simp [bcR], hb⟩
  | cons x a ih =>
    cases b with
    | nil => exact ⟨x :: a, by simp [bcR], ha⟩
    | cons y b =>
      cases c with
      | nil => simp [fitsR] at ha
      | cons z c =>
        simp only [fitsR, Bool.and_eq_true, Bool.or_eq_true, beq_iff_eq] at ha hb
        obtain ⟨r, hr, hf⟩ := ih b c ha.2 hb.2
        have := dim2_lub x y z ha.1 hb.1
        obtain ⟨d, hd, hdz⟩ := this
        refine ⟨d :: r, by rw [bcR_cons, hd, hr]; rfl, ?_⟩
        simp only [fitsR, Bool.and_eq_true, Bool.or_eq_true, beq_iff_eq]
        exact ⟨hdz, hf⟩

theorem fitsR_nil_right (a : Shape) (h : fitsR a [] = true) : a = [] := by
  cases a with
  | nil => rfl
  | cons x a => simp [fitsR] at h

theorem fitsR_length (a b : Shape) (h : fitsR a b = true) : a.length ≤ b.length := by
  induction a generalizing b with
  | nil => simp
  | cons x a ih =>
    cases b with
    | nil => simp [fitsR] at h
    | cons y b =>
      simp only [fitsR, Bool.and_eq_true] at h
      have := ih b h.2
      simp; omega

/-! ### numpy order -/

theorem broadcast2_eq (a b c : Shape) : broadcast2 a b = some c ↔ bcR a.reverse b.reverse = some c.reverse := by
  unfold broadcast2
  cases h : bcR a.reverse b.reverse with
  | none => simp
  | some r =>
    simp only [Option.map_some, Option.some.injEq]
    constructor
    · rintro rfl; simp
    · intro e; rw [e]; simp

theorem fits_refl (a : Shape) : fits a a = true := fitsR_refl _
theorem fits_trans (a b c : Shape) (h1 : fits a b = true) (h2 : fits b c = true) : fits a c = true :=
  fitsR_trans _ _ _ h1 h2

theorem broadcast2_fits (a b c : Shape) (h : broadcast2 a b = some c) : fits a c = true ∧ fits b c = true :=
  bcR_fits _ _ _ ((broadcast2_eq a b c).mp h)

theorem broadcast2_lub (a b c : Shape) (ha : fits a c = true) (hb : fits b c = true) :
    ∃ d, broadcast2 a b = some d ∧ fits d c = true := by
  obtain ⟨d, hd, hf⟩ := bcR_lub _ _ _ ha hb
  refine ⟨d.reverse, (broadcast2_eq a b d.reverse).mpr (by simpa using hd), ?_⟩
  unfold fits; simpa using hf

/-- every input fits into the broadcast of all inputs -/
theorem broadcastAll_fits (inputs : List Shape) (b : Shape) (h : broadcastAll inputs = some b) :
    ∀ s ∈ inputs, fits s b = true := by
  induction inputs generalizing b with
  | nil => intro s hs; cases hs
  | cons s0 ss ih =>
    simp only [broadcastAll] at h
    cases hr : broadcastAll ss with
    | none => simp [hr] at h
    | some r =>
      simp [hr] at h
      obtain ⟨f1, f2⟩ := broadcast2_fits _ _ _ h
      intro s hs
      rcases List.mem_cons.mp hs with rfl | hs
      · exact f1
      · exact fits_trans _ _ _ (ih r hr s hs) f2

/-- a family of shapes that all fit into `b` has a broadcast, and it fits into `b` -/
theorem broadcastAll_lub (ss : List Shape) (b : Shape) (h : ∀ s ∈ ss, fits s b = true) :
    ∃ t, broadcastAll ss = some t ∧ fits t b = true := by
  induction ss with
  | nil => exact ⟨[], rfl, by simp [fits, fitsR_nil]⟩
  | cons s ss ih =>
    obtain ⟨r, hr, hf⟩ := ih (fun x hx => h x (List.mem_cons_of_mem _ hx))
    obtain ⟨d, hd, hdf⟩ := broadcast2_lub s r b (h s (by simp)) hf
    exact ⟨d, by simp [broadcastAll, hr, hd], hdf⟩

theorem pick_mem (inputs : List Shape) (used : List Nat) : ∀ s ∈ pick inputs used, s ∈ inputs := by
  intro s hs
  simp only [pick, List.mem_filterMap] at hs
  obtain ⟨k, _, hk⟩ := hs
  exact List.mem_of_getElem? hk

/-- what the variables a component depends on produce fits into the broadcast of all arguments -/
theorem used_fits (inputs : List Shape) (b : Shape) (h : broadcastAll inputs = some b) (used : List Nat) :
    ∃ t, broadcastAll (pick inputs used) = some t ∧ fits t b = true :=
  broadcastAll_lub _ b (fun s hs => broadcastAll_fits inputs b h s (pick_mem inputs used s hs))

end Sympde.Bcast
