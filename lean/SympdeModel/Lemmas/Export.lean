/-
  Helper lemmas for the export / re-import model (Model/Export.lean).
-/
import SympdeModel.Model.Export
import SympdeModel.Lemmas.Union
namespace Sympde
namespace Export
open USet

/-! ### Prop form of the `Exportable` check -/

/-- the patch is what its constructor returns for its own name and `dtype`, and its mapping
    (if any) is not called "None" -/
def ValidPatch (p : Patch) : Prop :=
  construct p.lname p.dtype = .ok { p with mapping := none } ∧ p.mapping ≠ some "None"

structure FaceOK (d : Dom) (f : Face) : Prop where
  mem : f.patch ∈ d.interiors
  axis : f.axis < f.patch.dim
  ext : f.ext = -1 ∨ f.ext = 1

structure IfaceOK (d : Dom) (e : String × Iface) : Prop where
  key : e.1 = e.2.name
  name : e.2.name = e.2.minus.patch.name ++ "|" ++ e.2.plus.patch.name
  minus : FaceOK d e.2.minus
  plus : FaceOK d e.2.plus
  axis : e.2.minus.axis = e.2.plus.axis
  ornt : joinOrnt d.dim (orntIn e.2.ornt) = .ok e.2.ornt

structure MultiOK (d : Dom) : Prop where
  valid : ∀ p ∈ d.interiors, ValidPatch p
  two : 2 ≤ d.interiors.length
  sorted : StrictSorted Patch.name d.interiors
  dims : ∀ p ∈ d.interiors, p.dim = d.dim
  keys : (d.conn.map (·.1)).Nodup
  ifaces : ∀ e ∈ d.conn, IfaceOK d e
  boundary : d.boundary = canon Face.str ((allFaces d.interiors).filter
      (fun b => b ∉ d.conn.flatMap ifaceFaces))
  notOne : d.boundary.length ≠ 1

/-- **the exportable domains**: a valid single patch (plain or mapped), or a well-formed
    multi-patch domain -/
def Exportable (d : Dom) : Prop := exportableB d = true

theorem strictSortedB_iff {α : Type} (key : α → String) (l : List α) :
    strictSortedB key l = true ↔ l.Pairwise (fun a b => key a < key b) := by
  induction l with
  | nil => simp [strictSortedB]
  | cons a t ih =>
    cases t with
    | nil => simp [strictSortedB]
    | cons b t' =>
      simp only [strictSortedB, Bool.and_eq_true, decide_eq_true_eq, ih]
      constructor
      · rintro ⟨hab, hp⟩
        refine List.pairwise_cons.mpr ⟨?_, hp⟩
        intro x hx
        rcases List.mem_cons.mp hx with rfl | hx
        · exact hab
        · exact String.lt_trans hab ((List.pairwise_cons.mp hp).1 x hx)
      · intro hp
        have := List.pairwise_cons.mp hp
        exact ⟨this.1 b (by simp), this.2⟩

theorem nodupB_iff (l : List String) : nodupB l = true ↔ l.Nodup := by
  induction l with
  | nil => simp [nodupB]
  | cons a t ih => simp [nodupB, ih]

theorem validPatchB_iff (p : Patch) : validPatchB p = true ↔ ValidPatch p := by
  simp [validPatchB, ValidPatch]

theorem faceOKB_iff (d : Dom) (f : Face) : faceOKB d f = true ↔ FaceOK d f := by
  simp only [faceOKB, Bool.and_eq_true, Bool.or_eq_true, decide_eq_true_eq, beq_iff_eq]
  constructor
  · rintro ⟨⟨h1, h2⟩, h3⟩; exact ⟨h1, h2, h3⟩
  · rintro ⟨h1, h2, h3⟩; exact ⟨⟨h1, h2⟩, h3⟩

theorem ifaceOKB_iff (d : Dom) (e : String × Iface) : ifaceOKB d e = true ↔ IfaceOK d e := by
  simp only [ifaceOKB, Bool.and_eq_true, decide_eq_true_eq, faceOKB_iff]
  constructor
  · rintro ⟨⟨⟨⟨⟨h1, h2⟩, h3⟩, h4⟩, h5⟩, h6⟩; exact ⟨h1, h2, h3, h4, h5, h6⟩
  · rintro ⟨h1, h2, h3, h4, h5, h6⟩; exact ⟨⟨⟨⟨⟨h1, h2⟩, h3⟩, h4⟩, h5⟩, h6⟩

theorem multiOKB_iff (d : Dom) : multiOKB d = true ↔ MultiOK d := by
  simp only [multiOKB, Bool.and_eq_true, decide_eq_true_eq, List.all_eq_true, validPatchB_iff,
    strictSortedB_iff, nodupB_iff, ifaceOKB_iff, beq_iff_eq]
  constructor
  · rintro ⟨⟨⟨⟨⟨⟨⟨h1, h2⟩, h3⟩, h4⟩, h5⟩, h6⟩, h7⟩, h8⟩; exact ⟨h1, h2, h3, h4, h5, h6, h7, h8⟩
  · rintro ⟨h1, h2, h3, h4, h5, h6, h7, h8⟩; exact ⟨⟨⟨⟨⟨⟨⟨h1, h2⟩, h3⟩, h4⟩, h5⟩, h6⟩, h7⟩, h8⟩

/-- the two kinds of exportable domains -/
theorem exportable_cases (d : Dom) (h : Exportable d) :
    (∃ p, ValidPatch p ∧ d = patchDom p) ∨ MultiOK d := by
  unfold Exportable exportableB at h
  split at h
  · rename_i p hp
    simp only [Bool.and_eq_true, decide_eq_true_eq, validPatchB_iff] at h
    exact Or.inl ⟨p, h.1, h.2⟩
  · exact Or.inr ((multiOKB_iff d).mp h)

/-! ### reconstruction of the patches -/

theorem ncubeNew_ok (n : String) (d : Nat) (mins maxs : List Coord) (q : Patch)
    (h : ncubeNew n d mins maxs = .ok q) : 1 ≤ d ∧ q.dim = d := by
  unfold ncubeNew at h
  by_cases h1 : n.isEmpty = true
  · simp [h1] at h
  by_cases h2 : d < 1
  · simp [h1, h2] at h
  by_cases h3 : (!(d == mins.length && mins.length == maxs.length)) = true
  · simp only [h1, h2, h3, if_true, if_false, Bool.false_eq_true] at h; cases h
  by_cases h4 : (!((mins.zip maxs).all (fun p => p.1.lt p.2))) = true
  · simp only [h1, h2, h3, h4, if_true, if_false, Bool.false_eq_true] at h; cases h
  simp only [h1, h2, h3, h4, if_false, Bool.false_eq_true] at h
  cases h
  exact ⟨by omega, rfl⟩

theorem validPatch_dim_pos (p : Patch) (h : ValidPatch p) : 1 ≤ p.dim := by
  have h1 := h.1
  obtain ⟨ln, dm, dt, mp⟩ := p
  show 1 ≤ dm
  cases dt with
  | line b => have : 1 ≤ 1 ∧ dm = 1 := ncubeNew_ok _ _ _ _ _ h1; omega
  | square b1 b2 => have : 1 ≤ 2 ∧ dm = 2 := ncubeNew_ok _ _ _ _ _ h1; omega
  | cube b1 b2 b3 => have : 1 ≤ 3 ∧ dm = 3 := ncubeNew_ok _ _ _ _ _ h1; omega
  | ncube d mins maxs => have : 1 ≤ d ∧ dm = d := ncubeNew_ok _ _ _ _ _ h1; omega

theorem zip_map_map {α β γ : Type} (f : α → β) (g : α → γ) (l : List α) :
    (l.map f).zip (l.map g) = l.map (fun x => (f x, g x)) := by
  induction l with
  | nil => rfl
  | cons a t ih => simp [ih]

def Patch.strip (p : Patch) : Patch := { p with mapping := none }

theorem constructAll_valid (ps : List Patch) (h : ∀ p ∈ ps, ValidPatch p) :
    constructAll (ps.map (fun p => (p.todict, p.dtype))) = .ok (ps.map Patch.strip) := by
  induction ps with
  | nil => rfl
  | cons p t ih =>
    have hp := (h p (by simp)).1
    have ht := ih (fun q hq => h q (List.mem_cons_of_mem _ hq))
    have hp' : construct p.todict.name p.dtype = .ok p.strip := hp
    simp only [List.map_cons, constructAll, hp', ht, bind, Except.bind]

/-- re-applying the mapping named in the dictionary gives the patch back -/
theorem remap_eq (p : Patch) (h : ValidPatch p) :
    (if p.todict.mapping != "None" then { p.strip with mapping := some p.todict.mapping } else p.strip) = p := by
  obtain ⟨ln, dm, dt, mp⟩ := p
  cases mp with
  | none => simp [Patch.todict, mappingStr, Patch.strip]
  | some m =>
    have : m ≠ "None" := fun e => h.2 (by rw [e])
    simp [Patch.todict, mappingStr, Patch.strip, this]

/-! ### the patch index -/

/-- the key under which `from_file` indexes a patch: (logical name, mapping name) -/
def keyOf (p : Patch) : String × String := (p.lname, mappingStr p.mapping)

theorem lastIndex_none (keys : List (String × String)) (k : String × String) (h : k ∉ keys) :
    lastIndex keys k = none := by
  induction keys with
  | nil => rfl
  | cons x xs ih =>
    have hx : x ≠ k := fun e => h (by simp [e])
    simp [lastIndex, ih (fun hk => h (List.mem_cons_of_mem _ hk)), hx]

theorem lastIndex_of_nodup (keys : List (String × String)) (hn : keys.Nodup) (i : Nat)
    (k : String × String) (h : keys[i]? = some k) : lastIndex keys k = some i := by
  induction keys generalizing i with
  | nil => simp at h
  | cons x xs ih =>
    have hn' := List.nodup_cons.mp hn
    cases i with
    | zero =>
      simp at h; subst h
      simp [lastIndex, lastIndex_none xs x hn'.1]
    | succ j =>
      simp at h
      simp [lastIndex, ih hn'.2 j h]

/-- position of a patch in the list of patches -/
def pidx : List Patch → Patch → Nat
  | [], _ => 0
  | q :: t, p => if q = p then 0 else pidx t p + 1

theorem pidx_get (ps : List Patch) (p : Patch) (h : p ∈ ps) : ps[pidx ps p]? = some p := by
  induction ps with
  | nil => cases h
  | cons q t ih =>
    by_cases hq : q = p
    · simp [pidx, hq]
    · have : p ∈ t := by
        rcases List.mem_cons.mp h with h | h
        · exact absurd h.symm hq
        · exact h
      simp [pidx, hq, ih this]

theorem mappingStr_inj (a b : Option String) (ha : a ≠ some "None") (hb : b ≠ some "None")
    (h : mappingStr a = mappingStr b) : a = b := by
  cases a <;> cases b <;> simp_all [mappingStr]

theorem keys_nodup (ps : List Patch) (hv : ∀ p ∈ ps, ValidPatch p)
    (hs : StrictSorted Patch.name ps) : (ps.map keyOf).Nodup := by
  unfold StrictSorted at hs
  rw [List.Nodup, List.pairwise_map]
  apply List.Pairwise.imp_of_mem _ hs
  intro a b ha hb hlt heq
  simp only [keyOf, Prod.mk.injEq] at heq
  have hm := mappingStr_inj a.mapping b.mapping (hv a ha).2 (hv b hb).2 heq.2
  have : a.name = b.name := by simp [Patch.name, heq.1, hm]
  rw [this] at hlt
  exact String.lt_irrefl _ hlt

theorem lookupPatch_ok (ps : List Patch) (hv : ∀ p ∈ ps, ValidPatch p)
    (hs : StrictSorted Patch.name ps) (f : Face) (hf : f.patch ∈ ps) :
    lookupPatch (ps.map keyOf) f.todict = .ok (pidx ps f.patch) := by
  have hk : (ps.map keyOf)[pidx ps f.patch]? = some (f.todict.patch, f.todict.mapping) := by
    rw [List.getElem?_map, pidx_get ps f.patch hf]; rfl
  simp [lookupPatch, lastIndex_of_nodup _ (keys_nodup ps hv hs) _ _ hk]

/-! ### faces of a patch and `get_boundary` -/

theorem mem_facesOf (p : Patch) (f : Face) :
    f ∈ facesOf p ↔ f.patch = p ∧ f.axis < p.dim ∧ (f.ext = -1 ∨ f.ext = 1) := by
  simp only [facesOf, List.mem_flatMap, List.mem_range, List.mem_cons,
    List.not_mem_nil, or_false]
  constructor
  · rintro ⟨ax, hax, rfl | rfl⟩
    · exact ⟨rfl, hax, Or.inl rfl⟩
    · exact ⟨rfl, hax, Or.inr rfl⟩
  · rintro ⟨hp, hax, he⟩
    obtain ⟨fp, fa, fe⟩ := f
    simp only at hp hax he
    subst hp
    rcases he with rfl | rfl
    · exact ⟨fa, hax, Or.inl rfl⟩
    · exact ⟨fa, hax, Or.inr rfl⟩

theorem getBoundary_unique (d : Dom) (f : Face) (hf : f ∈ d.boundary)
    (hu : ∀ g ∈ d.boundary, g.axis = f.axis → g.ext = f.ext → g = f) :
    getBoundary d f.axis f.ext = .ok f := by
  unfold getBoundary
  match hb : d.boundary with
  | [] => rw [hb] at hf; cases hf
  | [b] =>
    rw [hb] at hf
    simp at hf; subst hf
    simp
  | b1 :: b2 :: bs =>
    simp only []
    rw [hb] at hf hu
    cases hfind : (b1 :: b2 :: bs).find? (fun i => i.ext == f.ext && i.axis == f.axis) with
    | none =>
      have := List.find?_eq_none.mp hfind f hf
      simp at this
    | some g =>
      have hp := List.find?_some hfind
      have hm := List.mem_of_find?_eq_some hfind
      simp only [Bool.and_eq_true, beq_iff_eq] at hp
      rw [hu g hm hp.2 hp.1]

theorem getBoundary_patchDom (p : Patch) (f : Face) (hp : f.patch = p) (ha : f.axis < p.dim)
    (he : f.ext = -1 ∨ f.ext = 1) : getBoundary (patchDom p) f.axis f.ext = .ok f := by
  apply getBoundary_unique
  · show f ∈ canon Face.str (facesOf p)
    rw [mem_canon, mem_facesOf]; exact ⟨hp, ha, he⟩
  · intro g hg hax hex
    have hg' : g ∈ canon Face.str (facesOf p) := hg
    rw [mem_canon, mem_facesOf] at hg'
    obtain ⟨gp, ga, ge⟩ := g
    obtain ⟨fp, fa, fe⟩ := f
    simp only at hax hex hp hg'
    rw [hax, hex, hg'.1, hp]

/-! ### the loops of `from_file` -/

/-- the connection `from_file` hands to `join` for an interface of the exported domain -/
def connOf (ps : List Patch) (e : String × Iface) : Conn :=
  ⟨pidx ps e.2.minus.patch, e.2.minus.axis, e.2.minus.ext,
   pidx ps e.2.plus.patch, e.2.plus.axis, e.2.plus.ext, orntIn e.2.ornt⟩

/-- the connectivity entry `Connectivity.todict` writes for an interface -/
def entryD (e : String × Iface) : String × ConnD :=
  (e.1, ⟨e.2.minus.todict, e.2.plus.todict, e.2.ornt⟩)

theorem readConn_ok (ps : List Patch) (hv : ∀ p ∈ ps, ValidPatch p)
    (hs : StrictSorted Patch.name ps) (L : List (String × Iface))
    (h : ∀ e ∈ L, e.2.minus.patch ∈ ps ∧ e.2.plus.patch ∈ ps) :
    readConn (ps.map keyOf) (L.map entryD) = .ok (L.map (connOf ps)) := by
  induction L with
  | nil => rfl
  | cons e t ih =>
    have he := h e (by simp)
    have ht := ih (fun x hx => h x (List.mem_cons_of_mem _ hx))
    simp only [List.map_cons, entryD, readConn, lookupPatch_ok ps hv hs _ he.1,
      lookupPatch_ok ps hv hs _ he.2, bind, Except.bind]
    rw [ht]
    rfl

theorem readBoundary_ok (ps : List Patch) (hv : ∀ p ∈ ps, ValidPatch p)
    (hs : StrictSorted Patch.name ps) (bs : List Face)
    (h : ∀ b ∈ bs, b.patch ∈ ps ∧ b.axis < b.patch.dim ∧ (b.ext = -1 ∨ b.ext = 1)) :
    readBoundary (ps.map keyOf) (ps.map patchDom) (bs.map Face.todict) = .ok () := by
  induction bs with
  | nil => rfl
  | cons b t ih =>
    have hb := h b (by simp)
    have ht := ih (fun x hx => h x (List.mem_cons_of_mem _ hx))
    have hd : (ps.map patchDom)[pidx ps b.patch]? = some (patchDom b.patch) := by
      rw [List.getElem?_map, pidx_get ps b.patch hb.1]; rfl
    have hg : getBoundary (patchDom b.patch) b.todict.axis b.todict.ext = .ok b :=
      getBoundary_patchDom b.patch b rfl hb.2.1 hb.2.2
    simp only [List.map_cons, readBoundary, lookupPatch_ok ps hv hs b hb.1, hd, hg, ht, bind,
      Except.bind]

theorem dictSet_new (acc : List (String × Iface)) (k : String) (v : Iface)
    (h : k ∉ acc.map (·.1)) : dictSet acc k v = acc ++ [(k, v)] := by
  have : acc.any (fun e => e.1 == k) = false := by
    rw [List.any_eq_false]
    intro e he
    simp only [beq_iff_eq]
    intro hk
    exact h (List.mem_map.mpr ⟨e, he, hk⟩)
  simp [dictSet, this]

/-- the loop of `join` on the connections read from the file re-creates the interfaces of the
    exported domain one by one, never meeting an existing name -/
theorem joinLoop_ok (d : Dom) (L acc : List (String × Iface)) (used : List Face)
    (hL : ∀ e ∈ L, IfaceOK d e) (hk : ((acc ++ L).map (·.1)).Nodup) :
    joinLoop (d.interiors.map patchDom) d.dim (acc, used) (L.map (connOf d.interiors)) =
      .ok (acc ++ L, used ++ L.flatMap ifaceFaces) := by
  induction L generalizing acc used with
  | nil => simp [joinLoop]
  | cons e t ih =>
    have he := hL e (by simp)
    have hm : (d.interiors.map patchDom)[pidx d.interiors e.2.minus.patch]? = some (patchDom e.2.minus.patch) := by
      rw [List.getElem?_map, pidx_get _ _ he.minus.mem]; rfl
    have hp : (d.interiors.map patchDom)[pidx d.interiors e.2.plus.patch]? = some (patchDom e.2.plus.patch) := by
      rw [List.getElem?_map, pidx_get _ _ he.plus.mem]; rfl
    have gm := getBoundary_patchDom e.2.minus.patch e.2.minus rfl he.minus.axis he.minus.ext
    have gp := getBoundary_patchDom e.2.plus.patch e.2.plus rfl he.plus.axis he.plus.ext
    have hax : (e.2.minus.axis != e.2.plus.axis) = false := by simp [he.axis]
    have hi : (⟨e.2.minus.patch.name ++ "|" ++ e.2.plus.patch.name, e.2.minus, e.2.plus, e.2.ornt⟩ : Iface) = e.2 := by
      rw [← he.name]
    have hnew : e.1 ∉ acc.map (·.1) := by
      have := hk
      simp only [List.map_append, List.map_cons] at this
      have h2 := (List.nodup_append.mp this).2.2
      intro hmem
      exact h2 e.1 hmem e.1 (by simp) rfl
    have hany : acc.any (fun x => x.1 == e.2.name) = false := by
      rw [List.any_eq_false]
      intro x hx
      simp only [beq_iff_eq, ← he.key]
      intro hxk
      exact hnew (List.mem_map.mpr ⟨x, hx, hxk⟩)
    have step : joinStep (d.interiors.map patchDom) d.dim (acc, used) (connOf d.interiors e) =
        .ok (acc ++ [e], used ++ ifaceFaces e) := by
      simp only [joinStep, connOf, hm, hp, gm, gp, he.ornt, mkIface, hax, hi, hany, bind, Except.bind,
        Bool.false_eq_true, if_false]
      rw [← he.key, dictSet_new acc e.1 e.2 hnew]
      rfl
    simp only [List.map_cons, joinLoop, step, bind, Except.bind]
    rw [ih (acc ++ [e]) (used ++ ifaceFaces e) (fun x hx => hL x (List.mem_cons_of_mem _ hx))
      (by simpa [List.append_assoc] using hk)]
    simp [List.append_assoc]

theorem flatMap_singleton_map {α β : Type} (f : α → β) (l : List α) :
    (l.map f).flatMap (fun x => [x]) = l.map f := by
  induction l with
  | nil => rfl
  | cons a t ih => simp

/-- the tail of `join` once the loop is done -/
theorem join_core (p1 p2 : Patch) (rest : List Patch) (nm : String) (dm : Nat)
    (cs : List Conn) (L : List (String × Iface)) (bnd : List Face)
    (hdims : ∀ p ∈ p1 :: p2 :: rest, p.dim = dm)
    (hsorted : StrictSorted Patch.name (p1 :: p2 :: rest))
    (hloop : joinLoop ((p1 :: p2 :: rest).map patchDom) (patchDom p1).dim ([], []) cs =
      .ok (L, L.flatMap ifaceFaces))
    (hb : bnd = canon Face.str ((allFaces (p1 :: p2 :: rest)).filter
      (fun b => b ∉ L.flatMap ifaceFaces))) :
    join ((p1 :: p2 :: rest).map patchDom) cs nm = .ok ⟨nm, dm, p1 :: p2 :: rest, bnd, L⟩ := by
  have hall : ((p1 :: p2 :: rest).map patchDom).all (fun p => p.dim == (patchDom p1).dim) = true := by
    rw [List.all_eq_true]
    intro x hx
    obtain ⟨p, hp, rfl⟩ := List.mem_map.mp hx
    simp [patchDom, hdims p hp, hdims p1 (by simp)]
  have hints : ((p1 :: p2 :: rest).map patchDom).flatMap (fun p => p.interiors) = p1 :: p2 :: rest := by
    rw [List.flatMap_map]
    simp [patchDom]
  have hbnd : ((p1 :: p2 :: rest).map patchDom).flatMap (fun p => p.boundary) = allFaces (p1 :: p2 :: rest) := by
    rw [List.flatMap_map]; rfl
  have hcanon : canon Patch.name (p1 :: p2 :: rest) = p1 :: p2 :: rest :=
    canon_of_sorted_nodup _ _ hsorted.sorted hsorted.nodup
  have hloop' := hloop
  simp only [List.map_cons] at hloop' hall hints hbnd
  simp only [join, List.map_cons, hall, hloop', hints, hbnd, hcanon, bind, Except.bind, Bool.not_true,
    Bool.false_eq_true, if_false]
  rw [hb, canon_idem, hdims p1 (by simp)]

theorem exportable_of_multi (d : Dom) (h : MultiOK d) : Exportable d := by
  unfold Exportable exportableB
  have h2 := h.two
  match hi : d.interiors, h2 with
  | p1 :: p2 :: rest, _ =>
    simp only []
    exact (multiOKB_iff d).mpr h

theorem exportable_of_single (p : Patch) (h : ValidPatch p) : Exportable (patchDom p) := by
  unfold Exportable exportableB
  simp [patchDom, (validPatchB_iff p).mpr h]

/-! ### concrete objects for the non-vacuity examples -/
namespace Sample

/-- `Square('A', bounds1=(0, 1), bounds2=(0, 2))` -/
def sqA : Patch := ⟨"A", 2, .square ((0, 1), (1, 1)) ((0, 1), (2, 1)), none⟩
/-- `Mapping('F', dim=2)(Square('B', bounds1=(1, 2), bounds2=(0, 2)))` -/
def sqB : Patch := ⟨"B", 2, .square ((1, 1), (2, 1)) ((0, 1), (2, 1)), some "F"⟩
/-- `Domain.join([A, F(B)], [((0, 0, 1), (1, 0, -1), -1)], 'Omega')` -/
def dom2 : Dom := ⟨"Omega", 2, [sqA, sqB],
  [⟨sqA, 0, -1⟩, ⟨sqA, 1, -1⟩, ⟨sqA, 1, 1⟩, ⟨sqB, 0, 1⟩, ⟨sqB, 1, -1⟩, ⟨sqB, 1, 1⟩],
  [("A|F(B)", ⟨"A|F(B)", ⟨sqA, 0, 1⟩, ⟨sqB, 0, -1⟩, .int (-1)⟩)]⟩
/-- a closed ring of two lines, interfaces declared in non-alphabetical order -/
def lnA : Patch := ⟨"A", 1, .line ((0, 1), (1, 1)), none⟩
def lnB : Patch := ⟨"B", 1, .line ((1, 1), (2, 1)), none⟩
def ring : Dom := ⟨"R", 1, [lnA, lnB], [],
  [("B|A", ⟨"B|A", ⟨lnB, 0, 1⟩, ⟨lnA, 0, -1⟩, .none⟩), ("A|B", ⟨"A|B", ⟨lnA, 0, 1⟩, ⟨lnB, 0, -1⟩, .none⟩)]⟩

end Sample

end Export
end Sympde
