/-
  Helper lemmas for C01 (`lower_sound`), part 1: the lowered scalar forms `LS`, closure and
  exactness of the coordinate operators on them (no elementary-function table needed), and the
  meaning of an instantiated leaf formula (`inst`, `applyLeaf`) as the formula read in the
  differential ring whose placeholder atoms denote the components of the arguments.
-/
import Mathlib.Algebra.Algebra.Basic
import Mathlib.Algebra.Ring.PUnit
import SympdeModel.Model.Lower
import SympdeModel.Sem.DenG
import SympdeModel.Lemmas.PDeriv
namespace Sympde.Lower
open E PD

variable {K : Type} [CommRing K] [Algebra ℚ K]

/-! ### lowered scalar forms -/

mutual
/-- scalar terms produced by lowering: numbers, constants, coordinates, functions, vector
    components, derivative chains, sums and products of these -/
def LS : E → Bool
  | num _ _ => true
  | cst _ => true
  | sym _ => true
  | sf _ _ => true
  | idx (vf _ _) _ => true
  | pd _ a => LS a
  | add as => LSList as
  | mul as => LSList as
  | _ => false
def LSList : List E → Bool
  | [] => true
  | a :: as => LS a && LSList as
end

theorem LSList_iff (as : List E) : LSList as = as.all LS := by
  induction as with
  | nil => simp [LSList]
  | cons a as ih => simp [LSList, ih]

theorem LSList_mem {as : List E} (h : LSList as = true) {a : E} (ha : a ∈ as) : LS a = true := by
  rw [LSList_iff, List.all_eq_true] at h
  exact h a ha

theorem LSList_of_mem {as : List E} (h : ∀ a ∈ as, LS a = true) : LSList as = true := by
  rw [LSList_iff, List.all_eq_true]; exact h

theorem LS_zero : LS zero = true := rfl
theorem LS_one : LS one = true := rfl

theorem LS_NonDeg (S : DRing K) (e : E) (h : LS e = true) : NonDeg S e := by
  induction e using E.rec (motive_2 := fun as => ∀ a ∈ as, LS a = true → NonDeg S a) with
  | add as ih =>
    simp only [NonDeg]
    exact NonDegList_of_mem' as (fun a ha => ih a ha (LSList_mem (by simpa [LS] using h) ha))
  | mul as ih =>
    simp only [NonDeg]
    exact NonDegList_of_mem' as (fun a ha => ih a ha (LSList_mem (by simpa [LS] using h) ha))
  | pd c a ih => simp only [NonDeg]; exact ih (by simpa [LS] using h)
  | idx b i _ => cases b <;> simp_all [LS, NonDeg]
  | nil => cases ‹_ ∈ []›
  | cons a as iha ihas =>
    rename_i x hx hs
    rcases List.mem_cons.mp hx with rfl | hx
    · exact iha hs
    · exact ihas x hx hs
  | _ => trivial
where
  NonDegList_of_mem' (as : List E) (h : ∀ a ∈ as, NonDeg S a) : NonDegList S as := by
    induction as with
    | nil => trivial
    | cons a as ih => exact ⟨h a (by simp), ih (fun x hx => h x (by simp [hx]))⟩

theorem denSum_congr (S : DRing K) (as : List E) (i j i' j' : Nat)
    (h : ∀ a ∈ as, den S a i j = den S a i' j') : denSum S as i j = denSum S as i' j' := by
  induction as with
  | nil => simp [denSum]
  | cons a as ih =>
    simp only [denSum]
    rw [h a (by simp), ih (fun x hx => h x (by simp [hx]))]

theorem denProd_congr (S : DRing K) (as : List E) (i j i' j' : Nat)
    (h : ∀ a ∈ as, den S a i j = den S a i' j') : denProd S as i j = denProd S as i' j' := by
  induction as with
  | nil => simp [denProd]
  | cons a as ih =>
    simp only [denProd]
    rw [h a (by simp), ih (fun x hx => h x (by simp [hx]))]

/-- the value of a lowered scalar form does not depend on the component indices -/
theorem den_LS_free (S : DRing K) (e : E) (h : LS e = true) (i j : Nat) :
    den S e i j = den S e 0 0 := by
  induction e using E.rec
    (motive_2 := fun as => ∀ a ∈ as, LS a = true → den S a i j = den S a 0 0) with
  | add as ih =>
    simp only [den]
    exact denSum_congr S as i j 0 0 (fun a ha => ih a ha (LSList_mem (by simpa [LS] using h) ha))
  | mul as ih =>
    simp only [den]
    exact denProd_congr S as i j 0 0 (fun a ha => ih a ha (LSList_mem (by simpa [LS] using h) ha))
  | pd c a ih => simp only [den]; rw [ih (by simpa [LS] using h)]
  | idx b k _ => simp [den]
  | nil => cases ‹_ ∈ []›
  | cons a as iha ihas =>
    rename_i x hx hs
    rcases List.mem_cons.mp hx with rfl | hx
    · exact iha hs
    · exact ihas x hx hs
  | num _ _ => simp [den]
  | cst _ => simp [den]
  | sym _ => simp [den]
  | sf _ _ => simp [den]
  | _ => simp [LS] at h

theorem mulOf_LS (l : List E) (h : ∀ a ∈ l, LS a = true) : LS (mulOf l) = true := by
  match l, h with
  | [], _ => rfl
  | [a], h => exact h a (by simp)
  | a :: b :: rest, h =>
    simp only [mulOf, LS]
    exact LSList_of_mem h

/-! ### the model of `sympy.diff` on function-free lowered forms (polynomials in the coordinates) -/

theorem prodRule_LS (l : List (E × E)) (h : ∀ p ∈ l, LS p.1 = true ∧ LS p.2 = true) :
    LS (prodRule l) = true := by
  induction l with
  | nil => rfl
  | cons p rest ih =>
    obtain ⟨a, da⟩ := p
    have hp := h (a, da) (by simp)
    have ih' := ih (fun q hq => h q (by simp [hq]))
    cases rest with
    | nil => simpa [prodRule] using hp.2
    | cons q rest' =>
      have e1 : prodRule ((a, da) :: q :: rest')
          = add [mul [a, prodRule (q :: rest')], mul [da, mulOf ((q :: rest').map (·.1))]] := rfl
      rw [e1]
      have hm : LS (mulOf ((q :: rest').map (·.1))) = true := by
        apply mulOf_LS
        intro x hx
        obtain ⟨p, hp', rfl⟩ := List.mem_map.mp hx
        exact (h p (by simp [hp'])).1
      simp only [LS, LSList, hp.1, hp.2, ih', hm, Bool.and_self]

theorem sdiff_LS (S : DRing K) (c : Coord) (e : E) (hs : LS e = true) (hf : hasT e = false) :
    LS (PD.sdiff c e) = true ∧ ∀ i j, den S (PD.sdiff c e) i j = S.D c (den S e i j) := by
  induction e using E.rec
    (motive_2 := fun as => ∀ a ∈ as, LS a = true → hasT a = false →
      LS (PD.sdiff c a) = true ∧ ∀ i j, den S (PD.sdiff c a) i j = S.D c (den S a i j)) with
  | num p q => exact ⟨rfl, fun i j => by simp [PD.sdiff, den_zero, den, S.D_rat]⟩
  | cst s => exact ⟨rfl, fun i j => by simp [PD.sdiff, den_zero, den, S.D_cst]⟩
  | sym s =>
    refine ⟨?_, fun i j => ?_⟩
    · simp only [PD.sdiff]; split <;> rfl
    · simp only [PD.sdiff, den, S.D_sym]
      by_cases h : s = c.name
      · simp [h, den_one]
      · simp [h, den_zero]
  | add as ih =>
    have hs' : ∀ a ∈ as, LS a = true := fun a ha => LSList_mem (by simpa [LS] using hs) ha
    have hf' : ∀ a ∈ as, hasT a = false := by
      simp only [hasT, hasTList_iff, List.any_eq_false] at hf
      intro a ha; simpa using hf a ha
    simp only [PD.sdiff, sdiffList_eq]
    refine ⟨?_, fun i j => ?_⟩
    · simp only [LS]
      apply LSList_of_mem
      intro x hx
      obtain ⟨a, ha, rfl⟩ := List.mem_map.mp hx
      exact (ih a ha (hs' a ha) (hf' a ha)).1
    · simp only [den]
      have key : ∀ (l : List E), (∀ a ∈ l, a ∈ as) →
          denSum S (l.map (PD.sdiff c)) i j = S.D c (denSum S l i j) := by
        intro l
        induction l with
        | nil => intro _; simp [denSum, S.D_zero]
        | cons a l ihl =>
          intro hl
          have ha := hl a (by simp)
          simp only [List.map, denSum, S.D_add]
          rw [(ih a ha (hs' a ha) (hf' a ha)).2 i j, ihl (fun x hx => hl x (by simp [hx]))]
      exact key as (fun a ha => ha)
  | mul as ih =>
    have hs' : ∀ a ∈ as, LS a = true := fun a ha => LSList_mem (by simpa [LS] using hs) ha
    have hf' : ∀ a ∈ as, hasT a = false := by
      simp only [hasT, hasTList_iff, List.any_eq_false] at hf
      intro a ha; simpa using hf a ha
    simp only [PD.sdiff, sdiffList_eq]
    refine ⟨?_, fun i j => ?_⟩
    · apply prodRule_LS
      intro p hp
      have := mem_zip_map (PD.sdiff c) as p hp
      rw [this.2]
      exact ⟨hs' _ this.1, (ih p.1 this.1 (hs' _ this.1) (hf' _ this.1)).1⟩
    · simp only [den]
      rw [prodRule_sound S c i j]
      · rw [zip_map_fst _ _ (by simp)]
      · intro p hp
        have := mem_zip_map (PD.sdiff c) as p hp
        rw [this.2]
        exact (ih p.1 this.1 (hs' _ this.1) (hf' _ this.1)).2 i j
  | nil => cases ‹_ ∈ []›
  | cons a as iha ihas =>
    rename_i x hx h1 h2
    rcases List.mem_cons.mp hx with rfl | hx
    · exact iha h1 h2
    · exact ihas x hx h1 h2
  | idx b k _ => cases b <;> simp_all [LS, hasT]
  | _ => first | (simp [hasT] at hf; done) | (simp [LS] at hs)

/-! ### the coordinate operators on lowered scalar forms: closure and exactness -/

theorem dEvalListE_map (d : Nat) (c : Coord) (as : List E) :
    dEvalListE d c as = as.map (dEval d c) := by
  induction as with
  | nil => simp [dEvalListE]
  | cons a as ih => simp [dEvalListE, ih]

theorem filter_zip_map_fst' {α β : Type} (p : α → Bool) (f : α → β) (as : List α) :
    ((as.zip (as.map f)).filter (fun q => p q.1)).map (·.1) = as.filter p := by
  induction as with
  | nil => simp
  | cons a as ih =>
    simp only [List.map, List.zip_cons_cons, List.filter]
    cases hp : p a <;> simp [ih]

theorem stripL_LS (e : E) (h : LS e = true) : LS (stripL e) = true := by
  induction e using E.rec (motive_2 := fun _ => True) with
  | pd c a ih =>
    simp only [stripL]
    split
    · exact ih (by simpa [LS] using h)
    · exact h
  | nil => trivial
  | cons _ _ _ _ => trivial
  | _ => simpa [stripL] using h

theorem iter_pd_LS (c : Coord) (n : Nat) (a : E) (h : LS a = true) : LS (iter n (pd c) a) = true := by
  induction n with
  | zero => exact h
  | succ n ih => simpa [iter, LS] using ih

theorem reorderL_LS (c : Coord) (e r : E) (hs : LS e = true) (h : reorderL c e = .ok r) :
    LS r = true := by
  unfold reorderL at h
  have hr : ∀ n1 n2 n3, LS (rebuildL n1 n2 n3 (stripL e)) = true := by
    intro n1 n2 n3
    unfold rebuildL
    exact iter_pd_LS _ _ _ (iter_pd_LS _ _ _ (iter_pd_LS _ _ _ (stripL_LS e hs)))
  split at h
  · injection h with h; subst h; exact hr _ _ _
  · injection h with h; subst h; simpa [LS] using hr _ _ _

theorem dEvalList_LS (S : DRing K) (d : Nat) (c : Coord) (as : List E)
    (ih : ∀ a ∈ as, ∀ r, dEval d c a = .ok r →
      LS r = true ∧ ∀ i j, den S r i j = S.D c (den S a i j))
    (rs : List E) (h : dEvalList d c as = .ok rs) :
    LSList rs = true ∧ rs.length = as.length ∧
      (∀ i j, denSum S rs i j = S.D c (denSum S as i j)) ∧
      ∀ n, denNth S rs n = S.D c (denNth S as n) := by
  induction as generalizing rs with
  | nil =>
    simp only [dEvalList] at h
    injection h with h; subst h
    refine ⟨rfl, rfl, fun i j => by simp [denSum, S.D_zero], fun n => by simp [denNth, S.D_zero]⟩
  | cons a as iha =>
    simp only [dEvalList, bind, Except.bind] at h
    cases h1 : dEval d c a with
    | error e => rw [h1] at h; cases h
    | ok r =>
      rw [h1] at h
      cases h2 : dEvalList d c as with
      | error e => rw [h2] at h; cases h
      | ok rs' =>
        rw [h2] at h
        injection h with h; subst h
        have ha := ih a (by simp) r h1
        have := iha (fun x hx => ih x (by simp [hx])) rs' h2
        refine ⟨by simp [LSList, ha.1, this.1], by simp [this.2.1], fun i j => ?_, fun n => ?_⟩
        · simp only [denSum, S.D_add, ha.2 i j, this.2.2.1 i j]
        · cases n with
          | zero => simp [denNth, ha.2 0 0]
          | succ n => simp [denNth, this.2.2.2 n]

/-- a function-free lowered form is differentiated to zero (numbers) or by the model of `sympy.diff` -/
theorem noT_LS (S : DRing K) (c : Coord) (e : E) (hs : LS e = true) (hf : hasT e = false) (b : Bool) :
    LS (if b then zero else PD.sdiff c e) = true ∧
    (b = isNumber e → ∀ i j, den S (if b then zero else PD.sdiff c e) i j = S.D c (den S e i j)) := by
  cases b with
  | true =>
    refine ⟨rfl, fun hb i j => ?_⟩
    simp only [if_true, den_zero]
    exact (D_isNumber S c e hb.symm (LS_NonDeg S e hs) i j).symm
  | false =>
    have := sdiff_LS S c e hs hf
    exact ⟨by simpa using this.1, fun _ i j => by simpa using this.2 i j⟩

/-- the `Mul` branch on the non-coefficient factors -/
theorem dProd_LS (S : DRing K) (c : Coord) (l : List (E × Except Err E))
    (hl : ∀ p ∈ l, LS p.1 = true ∧
      ∀ r, p.2 = .ok r → LS r = true ∧ ∀ i j, den S r i j = S.D c (den S p.1 i j))
    (v : E) (h : dProd c l = .ok v) :
    LS v = true ∧ ∀ i j, den S v i j = S.D c (denProd S (l.map (·.1)) i j) := by
  induction l generalizing v with
  | nil =>
    simp only [dProd] at h
    injection h with h; subst h
    exact ⟨rfl, fun i j => by simp [den_zero, denProd, S.D_one]⟩
  | cons p rest ih =>
    obtain ⟨a, da⟩ := p
    have hp := hl (a, da) (by simp)
    cases rest with
    | nil =>
      simp only [dProd] at h
      have := hp.2 v h
      exact ⟨this.1, fun i j => by simpa [denProd] using this.2 i j⟩
    | cons q rest' =>
      have hrest : ∀ p ∈ q :: rest', LS p.1 = true ∧
          ∀ r, p.2 = .ok r → LS r = true ∧ ∀ i j, den S r i j = S.D c (den S p.1 i j) :=
        fun p hp' => hl p (by simp [hp'])
      have hfst : ∀ x ∈ (q :: rest').map (·.1), LS x = true := by
        intro x hx
        obtain ⟨p, hp', rfl⟩ := List.mem_map.mp hx
        exact (hrest p hp').1
      have hfb : ∀ fb, (match (q :: rest') with
            | [(_, dv)] => dv
            | _ => if !hasTList ((q :: rest').map (·.1)) then
                      Except.ok (if allNumber ((q :: rest').map (·.1)) then zero
                                 else PD.sdiff c (mulOf ((q :: rest').map (·.1))))
                    else dProd c (q :: rest')) = Except.ok fb →
          LS fb = true ∧ ∀ i j, den S fb i j = S.D c (denProd S ((q :: rest').map (·.1)) i j) := by
        intro fb hfb
        cases rest' with
        | nil =>
          simp only at hfb
          have := (hrest q (by simp)).2 fb hfb
          exact ⟨this.1, fun i j => by simpa [denProd] using this.2 i j⟩
        | cons q2 rest'' =>
          simp only at hfb
          split at hfb
          · rename_i hnf
            injection hfb with hfb
            have hnf' : hasTList ((q :: q2 :: rest'').map (·.1)) = false := by simpa using hnf
            have hmul : mulOf ((q :: q2 :: rest'').map (·.1)) = mul ((q :: q2 :: rest'').map (·.1)) := rfl
            have hS : LS (mul ((q :: q2 :: rest'').map (·.1))) = true := by
              simp only [LS]; exact LSList_of_mem hfst
            have hT : hasT (mul ((q :: q2 :: rest'').map (·.1))) = false := by simpa [hasT] using hnf'
            have := noT_LS S c _ hS hT (allNumber ((q :: q2 :: rest'').map (·.1)))
            rw [hmul] at hfb
            subst hfb
            refine ⟨this.1, fun i j => ?_⟩
            have h2 := this.2 (by simp [isNumber]) i j
            simpa [den] using h2
          · exact ih hrest fb hfb
      simp only [dProd, bind, Except.bind] at h
      cases hda : da with
      | error e => rw [hda] at h; cases h
      | ok fa =>
        rw [hda] at h
        simp only at h
        split at h
        · cases h
        · rename_i fb hfbeq
          injection h with h; subst h
          have h1 := hp.2 fa hda
          have h2 := hfb fb hfbeq
          have hm : LS (mulOf ((q :: rest').map (·.1))) = true := mulOf_LS _ hfst
          refine ⟨by simp only [LS, LSList, hp.1, h1.1, h2.1, hm, Bool.and_self], fun i j => ?_⟩
          have e1 : den S (add [mul [a, fb], mul [fa, mulOf ((q :: rest').map (·.1))]]) i j
              = den S a i j * den S fb i j + den S fa i j * denProd S ((q :: rest').map (·.1)) i j := by
            simp only [den, denSum, denProd, den_mulOf]; ring
          rw [e1, h1.2, h2.2]
          change _ = S.D c (den S a i j * denProd S ((q :: rest').map (·.1)) i j)
          rw [S.D_mul]

/-- **closure and exactness on lowered scalar forms**, in every differential ring (no table of
    elementary functions is needed: the forms contain none) -/
theorem dEval_LS (S : DRing K) (d : Nat) (c : Coord) (e : E) (hs : LS e = true)
    (r : E) (h : dEval d c e = .ok r) :
    LS r = true ∧ ∀ i j, den S r i j = S.D c (den S e i j) := by
  induction e using E.rec
    (motive_2 := fun as => ∀ a ∈ as, LS a = true → ∀ r, dEval d c a = .ok r →
      LS r = true ∧ ∀ i j, den S r i j = S.D c (den S a i j)) generalizing r with
  | num p q =>
    simp only [dEval, hasT, isNumber] at h
    simp at h; subst h
    exact ⟨rfl, fun i j => by simp [den_zero, den, S.D_rat]⟩
  | cst s =>
    simp only [dEval, hasT, isNumber] at h
    simp at h; subst h
    exact ⟨rfl, fun i j => by simp [den_zero, den, S.D_cst]⟩
  | sym s =>
    simp only [dEval, hasT, isNumber] at h
    simp at h; subst h
    exact sdiff_LS S c (sym s) rfl rfl
  | sf s k =>
    simp only [dEval] at h
    injection h with h; subst h
    exact ⟨rfl, fun i j => by simp [den]⟩
  | idx b k _ =>
    simp only [dEval] at h
    injection h with h; subst h
    exact ⟨by simpa [LS] using hs, fun i j => by simp [den]⟩
  | pd c' a _ =>
    simp only [dEval] at h
    split at h
    · exact ⟨reorderL_LS c (pd c' a) r hs h, fun i j => reorderL_sound S c (pd c' a) r h i j⟩
    · injection h with h; subst h
      exact ⟨by simpa [LS] using hs, fun i j => by simp [den]⟩
  | add as ih =>
    have hs' : ∀ a ∈ as, LS a = true := fun a ha => LSList_mem (by simpa [LS] using hs) ha
    simp only [dEval] at h
    split at h
    · rename_i hnf
      injection h with h
      have hnf' : hasT (add as) = false := by simpa [hasT] using hnf
      have := noT_LS S c (add as) hs hnf' (allNumber as)
      subst h
      exact ⟨this.1, this.2 (by simp [isNumber])⟩
    · simp only [bind, Except.bind] at h
      cases hrs : dEvalList d c as with
      | error e => rw [hrs] at h; cases h
      | ok rs =>
        rw [hrs] at h
        injection h with h; subst h
        have := dEvalList_LS S d c as (fun a ha r hr => ih a ha (hs' a ha) r hr) rs hrs
        exact ⟨by simpa [LS] using this.1, fun i j => by simpa [den] using this.2.2.1 i j⟩
  | mul as ih =>
    have hs' : ∀ a ∈ as, LS a = true := fun a ha => LSList_mem (by simpa [LS] using hs) ha
    simp only [dEval] at h
    split at h
    · rename_i hnf
      injection h with h
      have hnf' : hasT (mul as) = false := by simpa [hasT] using hnf
      have := noT_LS S c (mul as) hs hnf' (allNumber as)
      subst h
      exact ⟨this.1, this.2 (by simp [isNumber])⟩
    · simp only [bind, Except.bind, dEvalListE_map] at h
      split at h
      · cases h
      · rename_i v hv
        injection h with h; subst h
        have hv' := dProd_LS S c _ (by
          intro p hp
          have hp' := (List.mem_filter.mp hp).1
          have := mem_zip_map (dEval d c) as p hp'
          refine ⟨hs' _ this.1, ?_⟩
          intro r hr
          rw [this.2] at hr
          exact ih p.1 this.1 (hs' _ this.1) r hr) v hv
        rw [filter_zip_map_fst' (fun a => !isCoef a) (dEval d c) as] at hv'
        have hc : LS (mulOf (as.filter isCoef)) = true :=
          mulOf_LS _ (fun a ha => hs' a (List.mem_filter.mp ha).1)
        refine ⟨by simp only [LS, LSList, hc, hv'.1, Bool.and_self], fun i j => ?_⟩
        simp only [den, denProd, den_mulOf, mul_one]
        rw [hv'.2, denProd_filter S isCoef as i j, S.D_mul,
          D_denProd_coefs S c _ (fun a ha => (List.mem_filter.mp ha).2) i j]
        ring
  | nil => cases ‹_ ∈ []›
  | cons a as iha ihas =>
    rename_i x hx h1 r' hr
    rcases List.mem_cons.mp hx with rfl | hx
    · exact iha h1 r' hr
    · exact ihas x hx h1 r' hr
  | _ => simp [LS] at hs

/-! ### the coordinate operators never refuse a lowered scalar form -/

theorem dEvalList_total (d : Nat) (c : Coord) (as : List E)
    (h : ∀ a ∈ as, ∃ r, dEval d c a = .ok r) : ∃ rs, dEvalList d c as = .ok rs := by
  induction as with
  | nil => exact ⟨[], rfl⟩
  | cons a as ih =>
    obtain ⟨r, hr⟩ := h a (by simp)
    obtain ⟨rs, hrs⟩ := ih (fun x hx => h x (by simp [hx]))
    exact ⟨r :: rs, by simp [dEvalList, hr, hrs, bind, Except.bind]⟩

theorem dProd_total (c : Coord) (l : List (E × Except Err E)) (h : ∀ p ∈ l, ∃ r, p.2 = .ok r) :
    ∃ v, dProd c l = .ok v := by
  induction l with
  | nil => exact ⟨zero, rfl⟩
  | cons p rest ih =>
    obtain ⟨a, da⟩ := p
    obtain ⟨fa, hfa⟩ := h (a, da) (by simp)
    simp only at hfa
    subst hfa
    have ih' := ih (fun p hp => h p (by simp [hp]))
    match rest, ih', h with
    | [], _, _ => exact ⟨fa, rfl⟩
    | [(b, db)], _, h =>
      obtain ⟨fb, hfb⟩ := h (b, db) (by simp)
      simp only at hfb
      subst hfb
      exact ⟨_, rfl⟩
    | q :: q2 :: rest'', ih', h =>
      obtain ⟨v, hv⟩ := ih'
      unfold dProd
      simp only [bind, Except.bind]
      rw [hv]
      split
      · rename_i err he
        split at he <;> cases he
      · exact ⟨_, rfl⟩

theorem dEval_LS_total (d : Nat) (c : Coord) (e : E) (hs : LS e = true) : ∃ r, dEval d c e = .ok r := by
  induction e using E.rec
    (motive_2 := fun as => ∀ a ∈ as, LS a = true → ∃ r, dEval d c a = .ok r) with
  | num p q => simp [dEval, hasT, isNumber]
  | cst s => simp [dEval, hasT, isNumber]
  | sym s => simp [dEval, hasT, isNumber]
  | sf s k => simp [dEval]
  | idx b k _ => simp [dEval]
  | pd c' a _ =>
    simp only [dEval, reorderL]
    split
    · split <;> exact ⟨_, rfl⟩
    · exact ⟨_, rfl⟩
  | add as ih =>
    have hs' : ∀ a ∈ as, LS a = true := fun a ha => LSList_mem (by simpa [LS] using hs) ha
    simp only [dEval]
    split
    · exact ⟨_, rfl⟩
    · obtain ⟨rs, hrs⟩ := dEvalList_total d c as (fun a ha => ih a ha (hs' a ha))
      simp [hrs, bind, Except.bind]
  | mul as ih =>
    have hs' : ∀ a ∈ as, LS a = true := fun a ha => LSList_mem (by simpa [LS] using hs) ha
    simp only [dEval]
    split
    · exact ⟨_, rfl⟩
    · obtain ⟨v, hv⟩ := dProd_total c ((as.zip (dEvalListE d c as)).filter (fun p => !isCoef p.1)) (by
        intro p hp
        have hp' := (List.mem_filter.mp hp).1
        rw [dEvalListE_map] at hp'
        have := mem_zip_map (dEval d c) as p hp'
        rw [this.2]
        exact ih p.1 this.1 (hs' _ this.1))
      simp [hv, bind, Except.bind]
  | nil => cases ‹_ ∈ []›
  | cons a as iha ihas =>
    rename_i x hx h1
    rcases List.mem_cons.mp hx with rfl | hx
    · exact iha h1
    · exact ihas x hx h1
  | _ => simp [LS] at hs

/-! ### instantiated leaf formulas -/

/-- the ring in which the placeholder atoms denote the (scalar) values bound by `σ`; everything
    else — in particular the derivations — is that of `S` -/
def bindS (S : DRing K) (σ : List (String × E)) : DRing K :=
  { S with sf := fun n => match findBind σ n with
                          | some e => den S e 0 0
                          | none => S.sf n }

@[simp] theorem bindS_D (S : DRing K) (σ : List (String × E)) : (bindS S σ).D = S.D := rfl

theorem bindS_sf (S : DRing K) (σ : List (String × E)) (n : String) (e : E)
    (h : findBind σ n = some e) : (bindS S σ).sf n = den S e 0 0 := by
  simp [bindS, h]

mutual
/-- scalar component formulas: placeholder atoms, numbers, derivative nodes, sums, products -/
def FS : E → Bool
  | num _ _ => true
  | sf _ _ => true
  | pd _ a => FS a
  | add as => FSList as
  | mul as => FSList as
  | _ => false
def FSList : List E → Bool
  | [] => true
  | a :: as => FS a && FSList as
end

theorem FSList_iff (as : List E) : FSList as = as.all FS := by
  induction as with
  | nil => simp [FSList]
  | cons a as ih => simp [FSList, ih]

theorem FSList_mem {as : List E} (h : FSList as = true) {a : E} (ha : a ∈ as) : FS a = true := by
  rw [FSList_iff, List.all_eq_true] at h
  exact h a ha

theorem findBind_mem (σ : List (String × E)) (n : String) (e : E) (h : findBind σ n = some e) :
    ∃ p ∈ σ, p.2 = e := by
  unfold findBind at h
  cases hf : σ.find? (fun p => p.1 == n) with
  | none => rw [hf] at h; cases h
  | some p =>
    rw [hf] at h
    simp only [Option.map_some, Option.some.injEq] at h
    exact ⟨p, List.mem_of_find?_eq_some hf, h⟩

theorem instList_sound (S : DRing K) (d : Nat) (σ : List (String × E)) (fs : List E)
    (ih : ∀ f ∈ fs, ∀ t, inst d σ f = .ok t →
      LS t = true ∧ ∀ i j, den S t i j = den (bindS S σ) f i j)
    (ts : List E) (h : instList d σ fs = .ok ts) :
    LSList ts = true ∧ ts.length = fs.length ∧
      (∀ i j, denSum S ts i j = denSum (bindS S σ) fs i j) ∧
      (∀ i j, denProd S ts i j = denProd (bindS S σ) fs i j) ∧
      ∀ n, denNth S ts n = denNth (bindS S σ) fs n := by
  induction fs generalizing ts with
  | nil =>
    simp only [instList] at h
    injection h with h; subst h
    exact ⟨rfl, rfl, fun i j => by simp [denSum], fun i j => by simp [denProd],
      fun n => by simp [denNth]⟩
  | cons f fs ihf =>
    simp only [instList, bind, Except.bind] at h
    cases h1 : inst d σ f with
    | error e => rw [h1] at h; cases h
    | ok t =>
      rw [h1] at h
      cases h2 : instList d σ fs with
      | error e => rw [h2] at h; cases h
      | ok ts' =>
        rw [h2] at h
        injection h with h; subst h
        have ha := ih f (by simp) t h1
        have := ihf (fun x hx => ih x (by simp [hx])) ts' h2
        refine ⟨by simp [LSList, ha.1, this.1], by simp [this.2.1], fun i j => ?_, fun i j => ?_,
          fun n => ?_⟩
        · simp only [denSum, ha.2 i j, this.2.2.1 i j]
        · simp only [denProd, ha.2 i j, this.2.2.2.1 i j]
        · cases n with
          | zero => simp [denNth, ha.2 0 0]
          | succ n => simp [denNth, this.2.2.2.2 n]

/-- **an instantiated scalar formula denotes the formula read in the bound ring** -/
theorem inst_sound (S : DRing K) (d : Nat) (σ : List (String × E))
    (hσ : ∀ p ∈ σ, LS p.2 = true) (f : E) (hf : FS f = true) (t : E) (h : inst d σ f = .ok t) :
    LS t = true ∧ ∀ i j, den S t i j = den (bindS S σ) f i j := by
  induction f using E.rec
    (motive_2 := fun fs => ∀ f ∈ fs, FS f = true → ∀ t, inst d σ f = .ok t →
      LS t = true ∧ ∀ i j, den S t i j = den (bindS S σ) f i j) generalizing t with
  | num p q =>
    simp only [inst] at h
    injection h with h; subst h
    exact ⟨rfl, fun i j => by simp [den]⟩
  | sf n k =>
    simp only [inst] at h
    injection h with h; subst h
    cases hb : findBind σ n with
    | none => exact ⟨rfl, fun i j => by simp [den, bindS, hb]⟩
    | some e =>
      obtain ⟨p, hp, rfl⟩ := findBind_mem σ n e hb
      have hl := hσ p hp
      refine ⟨by simpa using hl, fun i j => ?_⟩
      simp only [Option.getD_some, den, bindS_sf S σ n _ hb]
      exact den_LS_free S _ hl i j
  | pd c a ih =>
    simp only [inst, bind, Except.bind] at h
    cases h1 : inst d σ a with
    | error e => rw [h1] at h; cases h
    | ok a' =>
      rw [h1] at h
      have ha := ih (by simpa [FS] using hf) a' h1
      have := dEval_LS S d c a' ha.1 t h
      exact ⟨this.1, fun i j => by simp only [den, bindS_D]; rw [this.2 i j, ha.2 i j]⟩
  | add as ih =>
    have hf' : ∀ a ∈ as, FS a = true := fun a ha => FSList_mem (by simpa [FS] using hf) ha
    simp only [inst, bind, Except.bind] at h
    cases h1 : instList d σ as with
    | error e => rw [h1] at h; cases h
    | ok ts =>
      rw [h1] at h
      injection h with h; subst h
      have := instList_sound S d σ as (fun f hfm t ht => ih f hfm (hf' f hfm) t ht) ts h1
      exact ⟨by simpa [LS] using this.1, fun i j => by simpa [den] using this.2.2.1 i j⟩
  | mul as ih =>
    have hf' : ∀ a ∈ as, FS a = true := fun a ha => FSList_mem (by simpa [FS] using hf) ha
    simp only [inst, bind, Except.bind] at h
    cases h1 : instList d σ as with
    | error e => rw [h1] at h; cases h
    | ok ts =>
      rw [h1] at h
      injection h with h; subst h
      have := instList_sound S d σ as (fun f hfm t ht => ih f hfm (hf' f hfm) t ht) ts h1
      exact ⟨by simpa [LS] using this.1, fun i j => by simpa [den] using this.2.2.2.1 i j⟩
  | nil => cases ‹_ ∈ []›
  | cons a as iha ihas =>
    rename_i x hx h1 t' ht
    rcases List.mem_cons.mp hx with rfl | hx
    · exact iha h1 t' ht
    · exact ihas x hx h1 t' ht
  | _ => simp [FS] at hf

/-- a matrix of scalar formulas is instantiated entry by entry -/
theorem inst_mat_sound (S : DRing K) (d : Nat) (σ : List (String × E))
    (hσ : ∀ p ∈ σ, LS p.2 = true) (r c : Nat) (fs : List E) (hf : FSList fs = true) (t : E)
    (h : inst d σ (mat r c fs) = .ok t) :
    ∃ ts, t = mat r c ts ∧ LSList ts = true ∧ ts.length = fs.length ∧
      ∀ i j, den S t i j = den (bindS S σ) (mat r c fs) i j := by
  simp only [inst, bind, Except.bind] at h
  cases h1 : instList d σ fs with
  | error e => rw [h1] at h; cases h
  | ok ts =>
    rw [h1] at h
    injection h with h; subst h
    have := instList_sound S d σ fs
      (fun f hfm t ht => inst_sound S d σ hσ f (FSList_mem hf hfm) t ht) ts h1
    refine ⟨ts, rfl, this.1, this.2.1, fun i j => ?_⟩
    simp only [den, this.2.2.2.2]

/-- the differential ring with one element (only used to read off statements that do not mention
    the ring, such as the shape of a lowered value) -/
def trivialRing : DRing PUnit where
  D := fun _ _ => PUnit.unit
  D_add := fun _ _ _ => rfl
  D_mul := fun _ _ _ => rfl
  D_comm := fun _ _ _ => rfl
  D_rat := fun _ _ => rfl
  sf := fun _ => PUnit.unit
  vf := fun _ _ => PUnit.unit
  cst := fun _ => PUnit.unit
  D_cst := fun _ _ => rfl
  sym := fun _ => PUnit.unit
  D_sym := fun _ _ => Subsingleton.elim _ _
  fn := fun _ _ => PUnit.unit
  fn' := fun _ _ => PUnit.unit
  D_fn := fun _ _ _ => rfl
  inv := fun _ => PUnit.unit
  rpow := fun _ _ => PUnit.unit
  D_rpow := fun _ _ _ => rfl
  rpow_pred := fun _ _ _ => rfl

theorem instList_total (d : Nat) (σ : List (String × E)) (fs : List E)
    (h : ∀ f ∈ fs, ∃ t, inst d σ f = .ok t) : ∃ ts, instList d σ fs = .ok ts := by
  induction fs with
  | nil => exact ⟨[], rfl⟩
  | cons f fs ih =>
    obtain ⟨t, ht⟩ := h f (by simp)
    obtain ⟨ts, hts⟩ := ih (fun x hx => h x (by simp [hx]))
    exact ⟨t :: ts, by simp [instList, ht, hts, bind, Except.bind]⟩

/-- **instantiating a scalar formula never fails** (its derivative nodes are evaluated on lowered
    scalar forms, which the coordinate operators never refuse) -/
theorem inst_total (d : Nat) (σ : List (String × E)) (hσ : ∀ p ∈ σ, LS p.2 = true) (f : E)
    (hf : FS f = true) : ∃ t, inst d σ f = .ok t := by
  induction f using E.rec
    (motive_2 := fun fs => ∀ f ∈ fs, FS f = true → ∃ t, inst d σ f = .ok t) with
  | num p q => simp [inst]
  | sf n k => simp [inst]
  | pd c a ih =>
    obtain ⟨a', ha'⟩ := ih (by simpa [FS] using hf)
    have hl := (inst_sound trivialRing d σ hσ a (by simpa [FS] using hf) a' ha').1
    obtain ⟨r, hr⟩ := dEval_LS_total d c a' hl
    exact ⟨r, by simp [inst, ha', hr, bind, Except.bind]⟩
  | add as ih =>
    have hf' : ∀ a ∈ as, FS a = true := fun a ha => FSList_mem (by simpa [FS] using hf) ha
    obtain ⟨ts, hts⟩ := instList_total d σ as (fun f hfm => ih f hfm (hf' f hfm))
    simp [inst, hts, bind, Except.bind]
  | mul as ih =>
    have hf' : ∀ a ∈ as, FS a = true := fun a ha => FSList_mem (by simpa [FS] using hf) ha
    obtain ⟨ts, hts⟩ := instList_total d σ as (fun f hfm => ih f hfm (hf' f hfm))
    simp [inst, hts, bind, Except.bind]
  | nil => cases ‹_ ∈ []›
  | cons a as iha ihas =>
    rename_i x hx h1
    rcases List.mem_cons.mp hx with rfl | hx
    · exact iha h1
    · exact ihas x hx h1
  | _ => simp [FS] at hf

theorem inst_mat_total (d : Nat) (σ : List (String × E)) (hσ : ∀ p ∈ σ, LS p.2 = true) (r c : Nat)
    (fs : List E) (hf : FSList fs = true) : ∃ t, inst d σ (mat r c fs) = .ok t := by
  obtain ⟨ts, hts⟩ := instList_total d σ fs (fun f hfm => inst_total d σ hσ f (FSList_mem hf hfm))
  simp [inst, hts, bind, Except.bind]

/-! ### application of a leaf class -/

/-- lowered values: a scalar form or a matrix of scalar forms -/
def VF : E → Bool
  | mat _ _ es => LSList es
  | t => LS t

theorem nth_LS (es : List E) (h : LSList es = true) (n : Nat) : LS (nth es n) = true := by
  unfold nth
  induction es generalizing n with
  | nil => simp [LS_zero]
  | cons a as ih =>
    simp only [LSList, Bool.and_eq_true] at h
    cases n with
    | zero => simpa using h.1
    | succ n => simpa using ih h.2 n

theorem bindArg_LS (d k : Nat) (a : E) (h : VF a = true) : ∀ p ∈ bindArg d k a, LS p.2 = true := by
  intro p hp
  cases a with
  | mat r c es =>
    simp only [VF] at h
    simp only [bindArg] at hp
    split at hp
    · obtain ⟨i, _, rfl⟩ := List.mem_map.mp hp
      exact nth_LS es h _
    · obtain ⟨i, _, hp⟩ := List.mem_flatMap.mp hp
      obtain ⟨j, _, rfl⟩ := List.mem_map.mp hp
      exact nth_LS es h _
  | tup as => simp [VF, LS] at h
  | _ => simp_all [bindArg, VF]

/-- the binding the model builds from the argument list -/
def sigmaOf (d : Nat) (args : List E) : List (String × E) :=
  args.zipIdx.flatMap (fun (a, k) => bindArg d k a)

theorem sigmaOf_LS (d : Nat) (args : List E) (h : ∀ a ∈ args, VF a = true) :
    ∀ p ∈ sigmaOf d args, LS p.2 = true := by
  intro p hp
  unfold sigmaOf at hp
  obtain ⟨⟨a, k⟩, hak, hp⟩ := List.mem_flatMap.mp hp
  have hm := List.mem_zipIdx hak
  have ha : a ∈ args := by rw [hm.2.2]; exact List.getElem_mem _
  exact bindArg_LS d k a (h a ha) p hp

theorem applyLeaf_formula (d : Nat) (cname : String) (args : List E) (cs : List Char) (F : E)
    (hk : classKnown cname = true) (hsig : args.mapM (sigOf d) = some cs)
    (hl : lookup cname (String.ofList cs) = some (.formula F)) :
    applyLeaf d cname args = inst d (sigmaOf d args) F := by
  simp [applyLeaf, hk, hsig, hl, sigmaOf]

end Sympde.Lower
