/-
  The commuting relations of div and curl with the Piola pull-backs, as identities in a
  differential ring (C03).  `a i l` are the entries of the Jacobian (`a i l = ∂̂_l F_i`, hence the
  symmetry hypotheses `∂̂_l' a i l = ∂̂_l a i l'`), `δ` is an inverse of the determinant, the
  physical derivative is given by the chain rule `∂_i k = Σ_l (J⁻¹)_li ∂̂_l k` with `J⁻¹ = adj·δ`.
-/
import SympdeModel.Sem.DRing

namespace Sympde
namespace Piola

variable {K : Type} [CommRing K] [Algebra ℚ K] (S : DRing K)

/-! ### dimension 2 -/
section dim2
variable (a11 a12 a21 a22 δ : K)

/-- physical derivatives in 2-D through the inverse Jacobian `adj·δ` -/
def dp1 (k : K) : K := δ * (a22 * S.D .x1 k - a21 * S.D .x2 k)
def dp2 (k : K) : K := δ * (-a12 * S.D .x1 k + a11 * S.D .x2 k)

theorem D_delta2 (c : Coord) (h : (a11 * a22 - a12 * a21) * δ = 1) :
    S.D c δ = -(δ * δ) * (a11 * S.D c a22 + S.D c a11 * a22 - (a12 * S.D c a21 + S.D c a12 * a21)) := by
  have := S.D_inv_of_mul_eq_one c _ _ h
  rw [this, S.D_sub, S.D_mul, S.D_mul]

/-- **div commutes with the contravariant Piola pull-back (2-D)**:
    `div((J/det) û) = (1/det) div̂ û` -/
theorem div_piola2 (u1 u2 : K) (h : (a11 * a22 - a12 * a21) * δ = 1)
    (hs1 : S.D .x2 a11 = S.D .x1 a12) (hs2 : S.D .x2 a21 = S.D .x1 a22) :
    dp1 S a21 a22 δ ((a11 * u1 + a12 * u2) * δ) + dp2 S a11 a12 δ ((a21 * u1 + a22 * u2) * δ)
      = δ * (S.D .x1 u1 + S.D .x2 u2) := by
  simp only [dp1, dp2, S.D_mul, S.D_add, D_delta2 S a11 a12 a21 a22 δ _ h, hs1, hs2]
  linear_combination (δ * (S.D .x1 u1 + S.D .x2 u2)
    - δ ^ 2 * ((a11 * S.D .x1 a22 + S.D .x1 a11 * a22 - (a12 * S.D .x1 a21 + S.D .x1 a12 * a21)) * u1
      + (a11 * S.D .x2 a22 + S.D .x1 a12 * a22 - (a12 * S.D .x1 a22 + S.D .x2 a12 * a21)) * u2)) * h

/-- **curl commutes with the covariant Piola pull-back (2-D)**:
    `curl(J⁻ᵀ û) = (1/det) curl̂ û` (scalar curl) -/
theorem curl_piola2 (u1 u2 : K) (h : (a11 * a22 - a12 * a21) * δ = 1)
    (hs1 : S.D .x2 a11 = S.D .x1 a12) (hs2 : S.D .x2 a21 = S.D .x1 a22) :
    dp1 S a21 a22 δ (δ * (-a12 * u1 + a11 * u2)) - dp2 S a11 a12 δ (δ * (a22 * u1 - a21 * u2))
      = δ * (S.D .x1 u2 - S.D .x2 u1) := by
  simp only [dp1, dp2, S.D_mul, S.D_add, S.D_sub, S.D_neg, D_delta2 S a11 a12 a21 a22 δ _ h, hs1, hs2]
  linear_combination (δ * (S.D .x1 u2 - S.D .x2 u1)
    - δ ^ 2 * ((a11 * S.D .x1 a22 + S.D .x1 a11 * a22 - (a12 * S.D .x1 a21 + S.D .x1 a12 * a21)) * u2
      - (a11 * S.D .x2 a22 + S.D .x1 a12 * a22 - (a12 * S.D .x1 a22 + S.D .x2 a12 * a21)) * u1)) * h

/-- the chain rule gives the coordinates the right derivatives: `∂_i F_k = δ_ik` -/
theorem dp_coords2 (F1 F2 : K) (h : (a11 * a22 - a12 * a21) * δ = 1)
    (h11 : S.D .x1 F1 = a11) (h12 : S.D .x2 F1 = a12) (h21 : S.D .x1 F2 = a21) (h22 : S.D .x2 F2 = a22) :
    dp1 S a21 a22 δ F1 = 1 ∧ dp1 S a21 a22 δ F2 = 0 ∧ dp2 S a11 a12 δ F1 = 0 ∧ dp2 S a11 a12 δ F2 = 1 := by
  simp only [dp1, dp2, h11, h12, h21, h22]
  refine ⟨?_, ?_, ?_, ?_⟩
  · linear_combination h
  · ring
  · ring
  · linear_combination h

end dim2
end Piola
end Sympde
