/-
  Helper lemmas for `corners_simple` / `corners_chain` (Props/C13.lean): `Domain.get_shared_corners`
  on layouts in which no patch corner has both of its faces joined.
-/
import SympdeModel.Lemmas.TopologySub
namespace Sympde.Topo

/-! ### dictionaries keyed by faces -/

theorem foldl_dictSet_fresh' {α κ ν : Type} (eq : κ → κ → Bool) (k : α → κ) (v : α → ν) (l : List α)
    (acc : List (κ × ν)) (h : (acc.map (·.1) ++ l.map k).Pairwise (fun a b => eq a b = false)) :
    l.foldl (fun d x => dictSet eq d (k x) (v x)) acc = acc ++ l.map (fun x => (k x, v x)) := by
  induction l generalizing acc with
  | nil => simp
  | cons x xs ih =>
    simp only [List.foldl_cons]
    rw [dictSet_fresh, ih]
    · simp
    · simpa using h
    · intro e he
      rw [List.pairwise_append] at h
      exact h.2.2 e.1 (List.mem_map_of_mem he) (k x) (by simp)

theorem dictGet_iff {ps : List Patch} (hn : NamesOk ps) {ν : Type} (l : List (Face × ν))
    (hk : (l.map (·.1)).Nodup) (hl : ∀ e ∈ l, e.1.patch ∈ ps) (f : Face) (hf : f.patch ∈ ps) (v : ν) :
    dictGet Face.same l f = some v ↔ (f, v) ∈ l := by
  unfold dictGet
  constructor
  · intro h
    cases hfind : l.find? (fun e => e.1.same f) with
    | none => rw [hfind] at h; cases h
    | some e =>
      rw [hfind] at h
      simp only [Option.map_some, Option.some.injEq] at h
      have hm := List.mem_of_find?_eq_some hfind
      have hs := List.find?_some hfind
      have := (same_iff_eq hn (hl e hm) hf).mp hs
      rw [← this, ← h]; exact hm
  · intro h
    rw [find?_unique (fun e : Face × ν => e.1.same f) l (f, v) h (same_refl f)]
    · rfl
    · intro y hy hs
      have e1 : y.1 = f := (same_iff_eq hn (hl y hy) hf).mp hs
      exact List.inj_on_of_nodup_map hk hy h e1

theorem dictGet_none {ps : List Patch} (hn : NamesOk ps) {ν : Type} (l : List (Face × ν))
    (hl : ∀ e ∈ l, e.1.patch ∈ ps) (f : Face) (hf : f.patch ∈ ps) :
    dictGet Face.same l f = none ↔ ∀ e ∈ l, e.1 ≠ f := by
  unfold dictGet
  rw [Option.map_eq_none_iff, List.find?_eq_none]
  constructor
  · intro h e he heq
    exact h e he (by rw [heq]; exact same_refl f)
  · intro h e he hs
    exact h e he ((same_iff_eq hn (hl e he) hf).mp hs)

theorem sides_perm (ifs : List Iface) :
    (ifs.map Iface.minus ++ ifs.map Iface.plus).Perm (ifaceSides ifs) := by
  induction ifs with
  | nil => simp [ifaceSides]
  | cons i is ih =>
    simp only [List.map_cons, ifaceSides, List.flatMap_cons, List.cons_append, List.nil_append] at ih ⊢
    refine List.Perm.cons _ ?_
    exact (List.perm_middle).trans (List.Perm.cons _ ih)

/-- the two dictionaries of `get_shared_corners`, for interfaces whose sides are pairwise different -/
theorem cornerCtx_eq {ps : List Patch} (hn : NamesOk ps) (ifs : List Iface) (hnd : (ifaceSides ifs).Nodup)
    (hin : ∀ f ∈ ifaceSides ifs, f.patch ∈ ps) :
    (cornerCtx ifs).bnd = ifs.map (fun i => (i.minus, i.plus)) ++ ifs.map (fun i => (i.plus, i.minus)) ∧
    (cornerCtx ifs).dir = ifs.map (fun i => (i.plus, i.ornt)) ++ ifs.map (fun i => (i.minus, i.ornt)) := by
  have hperm := sides_perm ifs
  have hnd' : (ifs.map Iface.minus ++ ifs.map Iface.plus).Nodup := hperm.nodup_iff.mpr hnd
  have hin' : ∀ f ∈ ifs.map Iface.minus ++ ifs.map Iface.plus, f.patch ∈ ps := fun f hf => hin f (hperm.subset hf)
  have hpw := pairwise_not_same_of_nodup hn hin' hnd'
  have hpw2 : (ifs.map Iface.plus ++ ifs.map Iface.minus).Pairwise (fun a b => Face.same a b = false) :=
    pairwise_not_same_of_nodup hn (fun f hf => hin' f (List.perm_append_comm.subset hf))
      (List.perm_append_comm.nodup_iff.mp hnd')
  have hb1 : ifs.foldl (fun d i => dictSet Face.same d i.minus i.plus) [] = ifs.map (fun i => (i.minus, i.plus)) := by
    have := foldl_dictSet_fresh' Face.same Iface.minus Iface.plus ifs [] (by
      simp only [List.map_nil, List.nil_append]; exact (List.pairwise_append.mp hpw).1)
    simpa using this
  have hd1 : ifs.foldl (fun d i => dictSet Face.same d i.plus i.ornt) [] = ifs.map (fun i => (i.plus, i.ornt)) := by
    have := foldl_dictSet_fresh' Face.same Iface.plus Iface.ornt ifs [] (by
      simp only [List.map_nil, List.nil_append]; exact (List.pairwise_append.mp hpw).2.1)
    simpa using this
  unfold cornerCtx
  simp only [hb1, hd1]
  constructor
  · have := foldl_dictSet_fresh' Face.same (fun e : Face × Face => e.2) (fun e => e.1)
      (ifs.map (fun i => (i.minus, i.plus))) (ifs.map (fun i => (i.minus, i.plus))) (by
        simp only [List.map_map, Function.comp]; exact hpw)
    rw [this]
    simp [List.map_map, Function.comp]
  · have := foldl_dictSet_fresh' Face.same Iface.minus Iface.ornt ifs (ifs.map (fun i => (i.plus, i.ornt))) (by
      simp only [List.map_map, Function.comp]; exact hpw2)
    rw [this]

/-! ### crossing an interface -/

/-- the extra facts about a joined 2D domain used for the corner groups -/
structure WF2 (ps : List Patch) (d : Dom) : Prop extends WF ps d where
  dim2 : ∀ p ∈ ps, p.dim = 2
  axes : ∀ i ∈ d.ifaces, i.minus.axis = i.plus.axis
  orntPM : ∀ i ∈ d.ifaces, i.ornt = .o2 1 ∨ i.ornt = .o2 (-1)

/-- no patch corner has both of its faces joined -/
def NoDoubleCorner (d : Dom) : Prop :=
  ∀ f ∈ ifaceSides d.ifaces, ∀ g ∈ ifaceSides d.ifaces, f.patch = g.patch → f.axis = g.axis

instance (d : Dom) : Decidable (NoDoubleCorner d) := by unfold NoDoubleCorner; infer_instance

namespace WF2
variable {ps : List Patch} {d : Dom} (w : WF2 ps d)
include w

/-- `sorted(interfaces)` as used by `get_shared_corners` -/
theorem sorted_sides_nodup : (ifaceSides (sortBy Iface.name d.ifaces)).Nodup := by
  have hp : (ifaceSides (sortBy Iface.name d.ifaces)).Perm (ifaceSides d.ifaces) :=
    (sortBy_perm Iface.name d.ifaces).flatMap_right _
  exact hp.nodup_iff.mpr w.toWF.sidesNodup

theorem sorted_sides_in : ∀ f ∈ ifaceSides (sortBy Iface.name d.ifaces), f.patch ∈ ps := by
  intro f hf
  have hp : (ifaceSides (sortBy Iface.name d.ifaces)).Perm (ifaceSides d.ifaces) :=
    (sortBy_perm Iface.name d.ifaces).flatMap_right _
  exact ((mem_allFaces ps f).mp (w.toWF.side_all (hp.subset hf))).1

theorem bnd_mem (f g : Face) :
    (f, g) ∈ (cornerCtx (sortBy Iface.name d.ifaces)).bnd ↔
      ∃ i ∈ d.ifaces, (f = i.minus ∧ g = i.plus) ∨ (f = i.plus ∧ g = i.minus) := by
  rw [(cornerCtx_eq w.names _ w.sorted_sides_nodup w.sorted_sides_in).1]
  simp only [List.mem_append, List.mem_map, Prod.mk.injEq]
  have hm : ∀ i, i ∈ sortBy Iface.name d.ifaces ↔ i ∈ d.ifaces := fun i => (sortBy_perm _ _).mem_iff
  constructor
  · rintro (⟨i, hi, rfl, rfl⟩ | ⟨i, hi, rfl, rfl⟩)
    · exact ⟨i, (hm i).mp hi, Or.inl ⟨rfl, rfl⟩⟩
    · exact ⟨i, (hm i).mp hi, Or.inr ⟨rfl, rfl⟩⟩
  · rintro ⟨i, hi, ⟨rfl, rfl⟩ | ⟨rfl, rfl⟩⟩
    · exact Or.inl ⟨i, (hm i).mpr hi, rfl, rfl⟩
    · exact Or.inr ⟨i, (hm i).mpr hi, rfl, rfl⟩

theorem bnd_keys_nodup : ((cornerCtx (sortBy Iface.name d.ifaces)).bnd.map (·.1)).Nodup := by
  rw [(cornerCtx_eq w.names _ w.sorted_sides_nodup w.sorted_sides_in).1]
  simp only [List.map_append, List.map_map, Function.comp]
  exact (sides_perm _).nodup_iff.mpr w.sorted_sides_nodup

theorem bnd_in : ∀ e ∈ (cornerCtx (sortBy Iface.name d.ifaces)).bnd, e.1.patch ∈ ps := by
  rintro ⟨f, g⟩ he
  obtain ⟨i, hi, ⟨rfl, _⟩ | ⟨rfl, _⟩⟩ := (w.bnd_mem f g).mp he
  · exact ((mem_allFaces ps _).mp (w.toWF.minus_all hi)).1
  · exact ((mem_allFaces ps _).mp (w.toWF.plus_all hi)).1

theorem across_some (f g : Face) (hf : f.patch ∈ ps) :
    (cornerCtx (sortBy Iface.name d.ifaces)).across f = some g ↔
      ∃ i ∈ d.ifaces, (f = i.minus ∧ g = i.plus) ∨ (f = i.plus ∧ g = i.minus) := by
  unfold CornerCtx.across
  rw [dictGet_iff w.names _ w.bnd_keys_nodup w.bnd_in f hf g]
  exact w.bnd_mem f g

theorem across_none (f : Face) (hf : f.patch ∈ ps) :
    (cornerCtx (sortBy Iface.name d.ifaces)).across f = none ↔ f ∉ ifaceSides d.ifaces := by
  unfold CornerCtx.across
  rw [dictGet_none w.names _ w.bnd_in f hf, mem_ifaceSides]
  constructor
  · rintro h ⟨i, hi, rfl | rfl⟩
    · exact h (i.minus, i.plus) ((w.bnd_mem _ _).mpr ⟨i, hi, Or.inl ⟨rfl, rfl⟩⟩) rfl
    · exact h (i.plus, i.minus) ((w.bnd_mem _ _).mpr ⟨i, hi, Or.inr ⟨rfl, rfl⟩⟩) rfl
  · rintro h ⟨a, b⟩ he rfl
    obtain ⟨i, hi, ⟨rfl, _⟩ | ⟨rfl, _⟩⟩ := (w.bnd_mem _ _).mp he
    · exact h ⟨i, hi, Or.inl rfl⟩
    · exact h ⟨i, hi, Or.inr rfl⟩

theorem ornt_of {i : Iface} (hi : i ∈ d.ifaces) :
    (cornerCtx (sortBy Iface.name d.ifaces)).ornt i.minus = i.ornt ∧
    (cornerCtx (sortBy Iface.name d.ifaces)).ornt i.plus = i.ornt := by
  have hdir := (cornerCtx_eq w.names _ w.sorted_sides_nodup w.sorted_sides_in).2
  have hm : i ∈ sortBy Iface.name d.ifaces := (sortBy_perm _ _).mem_iff.mpr hi
  have hkeys : ((cornerCtx (sortBy Iface.name d.ifaces)).dir.map (·.1)).Nodup := by
    rw [hdir]
    simp only [List.map_append, List.map_map, Function.comp]
    exact (List.perm_append_comm.trans (sides_perm _)).nodup_iff.mpr w.sorted_sides_nodup
  have hin : ∀ e ∈ (cornerCtx (sortBy Iface.name d.ifaces)).dir, e.1.patch ∈ ps := by
    rw [hdir]
    intro e he
    simp only [List.mem_append, List.mem_map] at he
    rcases he with ⟨j, hj, rfl⟩ | ⟨j, hj, rfl⟩
    · exact ((mem_allFaces ps _).mp (w.toWF.plus_all ((sortBy_perm _ _).subset hj))).1
    · exact ((mem_allFaces ps _).mp (w.toWF.minus_all ((sortBy_perm _ _).subset hj))).1
  unfold CornerCtx.ornt
  constructor
  · rw [(dictGet_iff w.names _ hkeys hin i.minus ((mem_allFaces ps _).mp (w.toWF.minus_all hi)).1 i.ornt).mpr
      (by rw [hdir]; simp only [List.mem_append, List.mem_map]; exact Or.inr ⟨i, hm, rfl⟩)]
    rfl
  · rw [(dictGet_iff w.names _ hkeys hin i.plus ((mem_allFaces ps _).mp (w.toWF.plus_all hi)).1 i.ornt).mpr
      (by rw [hdir]; simp only [List.mem_append, List.mem_map]; exact Or.inl ⟨i, hm, rfl⟩)]
    rfl

end WF2

/-! ### the group of a corner with exactly one joined face -/

theorem cornerGroup_simple (cx : CornerCtx) (fuel : Nat) (hf : 2 ≤ fuel) (c : Corner) (bd2 r : Face)
    (h1 : cx.across c.1 = some bd2) (h2 : cx.across c.2 = none)
    (hr : rotate (faceOn bd2.patch c.2.axis c.2.ext) (cx.ornt bd2) = .ok r) (h3 : cx.across r = none) :
    cornerGroup cx fuel c = .ok [(r, bd2), c] := by
  obtain ⟨f, rfl⟩ : ∃ f, fuel = f + 2 := ⟨fuel - 2, by omega⟩
  have hF : walkF cx (f + 2) c = .ok [] := by simp [walkF, stepF, h2]
  have hB : walkB cx (f + 2) c = .ok [(r, bd2)] := by
    simp [walkB, stepB, h1, hr, h3, bind, Except.bind, pure, Except.pure]
  simp [cornerGroup, h1, h2, hF, hB, bind, Except.bind]

theorem Corner.sameSet_refl (c : Corner) : c.sameSet c = true := by
  simp [Corner.sameSet, Corner.same, same_refl]

theorem cornerLoop_simple (cx : CornerCtx) (fuel : Nat) (partner : Corner → Corner) :
    ∀ (n : Nat) (work : List Corner), work.length < n →
      (∀ c ∈ work, cornerGroup cx fuel c = .ok [partner c, c]) →
      ∃ gs, cornerLoop cx fuel n work = .ok gs ∧ (∀ g ∈ gs, ∃ c ∈ work, g = [partner c, c]) ∧
        (∀ c ∈ work, ∃ g ∈ gs, ∃ c' ∈ g, c'.sameSet c = true) := by
  intro n
  induction n with
  | zero => intro work h; omega
  | succ n ih =>
    intro work hlen hw
    cases work with
    | nil => exact ⟨[], rfl, by simp, by simp⟩
    | cons c rest =>
      have hg := hw c (by simp)
      have hsub : ∀ x ∈ rest.filter (fun x => !([partner c, c].any (fun y => y.sameSet x))), x ∈ rest :=
        fun x hx => (List.mem_filter.mp hx).1
      obtain ⟨gs, h1, h2, h3⟩ := ih (rest.filter (fun x => !([partner c, c].any (fun y => y.sameSet x))))
        (by
          have := List.length_filter_le (fun x => !([partner c, c].any (fun y => y.sameSet x))) rest
          simp only [List.length_cons] at hlen; omega)
        (fun x hx => hw x (List.mem_cons_of_mem _ (hsub x hx)))
      refine ⟨[partner c, c] :: gs, ?_, ?_, ?_⟩
      · simp only [cornerLoop, hg, bind, Except.bind, h1]
      · intro g hg'
        rcases List.mem_cons.mp hg' with rfl | hg'
        · exact ⟨c, by simp, rfl⟩
        · obtain ⟨c', hc', e⟩ := h2 g hg'
          exact ⟨c', List.mem_cons_of_mem _ (hsub c' hc'), e⟩
      · intro x hx
        rcases List.mem_cons.mp hx with rfl | hx
        · exact ⟨[partner x, x], by simp, x, by simp, Corner.sameSet_refl x⟩
        · by_cases hfil : ([partner c, c].any (fun y => y.sameSet x)) = true
          · rw [List.any_eq_true] at hfil
            obtain ⟨y, hy, hs⟩ := hfil
            exact ⟨[partner c, c], by simp, y, hy, hs⟩
          · have hx' : x ∈ rest.filter (fun x => !([partner c, c].any (fun y => y.sameSet x))) := by
              rw [List.mem_filter]; exact ⟨hx, by simpa using hfil⟩
            obtain ⟨g, hg', c', hc', hs⟩ := h3 x hx'
            exact ⟨g, List.mem_cons_of_mem _ hg', c', hc', hs⟩

/-! ### the corner groups of a layout without doubly joined corners -/

def orntInt : Ornt → Int
  | .o2 o => o
  | _ => 1

/-- the corner of the minus patch at the end `e` of the interface, and the corner of the plus patch it meets -/
def cornerM (i : Iface) (e : Int) : Corner := (i.minus, faceOn i.minus.patch (1 - i.minus.axis) e)
def cornerP (i : Iface) (e : Int) : Corner :=
  (i.plus, faceOn i.plus.patch (1 - i.minus.axis) (e * orntInt i.ornt))

def Corner.swap (c : Corner) : Corner := (c.2, c.1)

/-- the group consists of exactly the two given corners (each up to the order of its two faces) -/
def IsPair (g : List Corner) (A B : Corner) : Prop :=
  ∃ x y, g = [x, y] ∧ ((x.sameSet A = true ∧ y.sameSet B = true) ∨ (x.sameSet B = true ∧ y.sameSet A = true))

theorem Corner.sameSet_swap (c : Corner) : c.swap.sameSet c = true := by
  simp [Corner.sameSet, Corner.same, Corner.swap, same_refl]

theorem sameSet_eq {ps : List Patch} (hn : NamesOk ps) {a b : Corner}
    (ha1 : a.1.patch ∈ ps) (ha2 : a.2.patch ∈ ps) (hb1 : b.1.patch ∈ ps) (hb2 : b.2.patch ∈ ps)
    (h : a.sameSet b = true) : a = b ∨ a = b.swap := by
  simp only [Corner.sameSet, Corner.same, Bool.or_eq_true, Bool.and_eq_true] at h
  rcases h with ⟨h1, h2⟩ | ⟨h1, h2⟩
  · left
    exact Prod.ext ((same_iff_eq hn ha1 hb1).mp h1) ((same_iff_eq hn ha2 hb2).mp h2)
  · right
    exact Prod.ext ((same_iff_eq hn ha1 hb2).mp h1) ((same_iff_eq hn ha2 hb1).mp h2)

theorem rotate_pm (p : Patch) (hp : p.dim = 2) (ax : Nat) (e : Int) (o : Ornt)
    (ho : o = .o2 1 ∨ o = .o2 (-1)) : rotate (faceOn p ax e) o = .ok (faceOn p ax (e * orntInt o)) := by
  rcases ho with rfl | rfl
  · simp [rotate, faceOn, hp, orntInt]
  · simp [rotate, faceOn, hp, orntInt]

theorem orntInt_sq (o : Ornt) (ho : o = .o2 1 ∨ o = .o2 (-1)) : orntInt o * orntInt o = 1 := by
  rcases ho with rfl | rfl <;> simp [orntInt]

theorem mem_adjacent (f n : Face) : n ∈ adjacent f ↔ n ∈ f.patch.faces ∧ n.axis ≠ f.axis := by
  simp [adjacent, List.mem_filter, mem_boundary]

namespace WF2
variable {ps : List Patch} {d : Dom} (w : WF2 ps d)
include w

theorem adj_not_side (hndc : NoDoubleCorner d) {f n : Face} (hf : f ∈ ifaceSides d.ifaces)
    (hp : n.patch = f.patch) (ha : n.axis ≠ f.axis) : n ∉ ifaceSides d.ifaces :=
  fun hn => ha (hndc n hn f hf hp)

theorem minus_side {i : Iface} (hi : i ∈ d.ifaces) : i.minus ∈ ifaceSides d.ifaces :=
  (mem_ifaceSides _ _).mpr ⟨i, hi, Or.inl rfl⟩
theorem plus_side {i : Iface} (hi : i ∈ d.ifaces) : i.plus ∈ ifaceSides d.ifaces :=
  (mem_ifaceSides _ _).mpr ⟨i, hi, Or.inr rfl⟩

theorem minus_ps {i : Iface} (hi : i ∈ d.ifaces) : i.minus.patch ∈ ps :=
  ((mem_allFaces ps _).mp (w.toWF.minus_all hi)).1
theorem plus_ps {i : Iface} (hi : i ∈ d.ifaces) : i.plus.patch ∈ ps :=
  ((mem_allFaces ps _).mp (w.toWF.plus_all hi)).1

theorem axis_lt {i : Iface} (hi : i ∈ d.ifaces) : i.minus.axis < 2 := by
  have := ((mem_allFaces ps _).mp (w.toWF.minus_all hi)).2.1
  rwa [w.dim2 _ (w.minus_ps hi)] at this

/-- what the algorithm does with a work-list corner `(joined face, adjacent face)` -/
theorem work_facts (hndc : NoDoubleCorner d) (fuel : Nat) (hfuel : 2 ≤ fuel) (c : Corner)
    (h1 : c.1 ∈ ifaceSides d.ifaces) (h2 : c.2 ∈ adjacent c.1) :
    ∃ i ∈ d.ifaces, ∃ e, (e = 1 ∨ e = -1) ∧ ∃ P,
      cornerGroup (cornerCtx (sortBy Iface.name d.ifaces)) fuel c = .ok [P, c] ∧
      ((c = cornerM i e ∧ P = (cornerP i e).swap) ∨ (c = cornerP i e ∧ P = (cornerM i e).swap)) := by
  obtain ⟨b, n⟩ := c
  simp only at h1 h2
  obtain ⟨i, hi, hb⟩ := (mem_ifaceSides _ _).mp h1
  obtain ⟨hnf, hna⟩ := (mem_adjacent b n).mp h2
  have hnf' := (mem_faces _ _).mp hnf
  have hax := w.axis_lt hi
  have hoo := w.orntPM i hi
  have hsq := orntInt_sq i.ornt hoo
  rcases hb with rfl | rfl
  · -- the joined face is the minus side
    have hdim : i.minus.patch.dim = 2 := w.dim2 _ (w.minus_ps hi)
    have hnax : n.axis = 1 - i.minus.axis := by have := hnf'.2.1; rw [hdim] at this; omega
    have hn_eq : n = faceOn i.minus.patch (1 - i.minus.axis) n.ext := by
      cases n; simp only [faceOn, Face.mk.injEq, and_true]; exact ⟨hnf'.1, hnax⟩
    refine ⟨i, hi, n.ext, (by rcases hnf'.2.2 with h | h <;> simp [h]), ?_⟩
    refine ⟨(cornerP i n.ext).swap, ?_, Or.inl ⟨by simp only [cornerM]; rw [← hn_eq], rfl⟩⟩
    apply cornerGroup_simple _ fuel hfuel (i.minus, n) i.plus
    · exact (w.across_some _ _ (w.minus_ps hi)).mpr ⟨i, hi, Or.inl ⟨rfl, rfl⟩⟩
    · exact (w.across_none _ (by rw [hnf'.1]; exact w.minus_ps hi)).mpr
        (w.adj_not_side hndc (w.minus_side hi) hnf'.1 hna)
    · rw [(w.ornt_of hi).2]
      simp only [cornerP, Corner.swap]
      rw [hnax]
      exact rotate_pm _ (w.dim2 _ (w.plus_ps hi)) _ _ _ hoo
    · simp only [cornerP, Corner.swap]
      apply (w.across_none (faceOn i.plus.patch (1 - i.minus.axis) (n.ext * orntInt i.ornt)) (w.plus_ps hi)).mpr
      refine w.adj_not_side hndc (f := i.plus)
        (n := faceOn i.plus.patch (1 - i.minus.axis) (n.ext * orntInt i.ornt)) (w.plus_side hi) rfl ?_
      simp only [faceOn]; rw [← w.axes i hi]; omega
  · -- the joined face is the plus side
    have hdim : i.plus.patch.dim = 2 := w.dim2 _ (w.plus_ps hi)
    have hnax : n.axis = 1 - i.minus.axis := by
      have := hnf'.2.1; rw [hdim] at this; rw [← w.axes i hi] at hna; omega
    have hext : n.ext = n.ext * orntInt i.ornt * orntInt i.ornt := by rw [Int.mul_assoc, hsq, Int.mul_one]
    have hn_eq : n = faceOn i.plus.patch (1 - i.minus.axis) (n.ext * orntInt i.ornt * orntInt i.ornt) := by
      rw [← hext]; cases n; simp only [faceOn, Face.mk.injEq, and_true]; exact ⟨hnf'.1, hnax⟩
    have hepm : n.ext * orntInt i.ornt = 1 ∨ n.ext * orntInt i.ornt = -1 := by
      rcases hnf'.2.2 with h | h <;> rcases hoo with h' | h' <;> simp [h, h', orntInt]
    refine ⟨i, hi, n.ext * orntInt i.ornt, hepm, (cornerM i (n.ext * orntInt i.ornt)).swap, ?_,
      Or.inr ⟨by simp only [cornerP]; rw [← hn_eq], rfl⟩⟩
    apply cornerGroup_simple _ fuel hfuel (i.plus, n) i.minus
    · exact (w.across_some _ _ (w.plus_ps hi)).mpr ⟨i, hi, Or.inr ⟨rfl, rfl⟩⟩
    · exact (w.across_none _ (by rw [hnf'.1]; exact w.plus_ps hi)).mpr
        (w.adj_not_side hndc (w.plus_side hi) hnf'.1 hna)
    · rw [(w.ornt_of hi).1]
      simp only [cornerM, Corner.swap]
      rw [hnax]
      exact rotate_pm _ (w.dim2 _ (w.minus_ps hi)) _ _ _ hoo
    · simp only [cornerM, Corner.swap]
      apply (w.across_none (faceOn i.minus.patch (1 - i.minus.axis) (n.ext * orntInt i.ornt)) (w.minus_ps hi)).mpr
      refine w.adj_not_side hndc (f := i.minus)
        (n := faceOn i.minus.patch (1 - i.minus.axis) (n.ext * orntInt i.ornt)) (w.minus_side hi) rfl ?_
      simp only [faceOn]; omega

end WF2

/-- the first element of a two-element group (the partner the algorithm finds) -/
def partnerOf (cx : CornerCtx) (fuel : Nat) (c : Corner) : Corner :=
  match cornerGroup cx fuel c with
  | .ok [x, _] => x
  | _ => c

namespace WF2
variable {ps : List Patch} {d : Dom} (w : WF2 ps d)
include w

theorem cornerM_ps {i : Iface} (hi : i ∈ d.ifaces) (e : Int) :
    (cornerM i e).1.patch ∈ ps ∧ (cornerM i e).2.patch ∈ ps := ⟨w.minus_ps hi, w.minus_ps hi⟩
theorem cornerP_ps {i : Iface} (hi : i ∈ d.ifaces) (e : Int) :
    (cornerP i e).1.patch ∈ ps ∧ (cornerP i e).2.patch ∈ ps := ⟨w.plus_ps hi, w.plus_ps hi⟩

theorem cornerM_snd_not_side (hndc : NoDoubleCorner d) {i : Iface} (hi : i ∈ d.ifaces) (e : Int) :
    (cornerM i e).2 ∉ ifaceSides d.ifaces := by
  have := w.axis_lt hi
  refine w.adj_not_side hndc (f := i.minus) (w.minus_side hi) rfl ?_
  simp only [cornerM, faceOn]; omega

theorem cornerP_snd_not_side (hndc : NoDoubleCorner d) {i : Iface} (hi : i ∈ d.ifaces) (e : Int) :
    (cornerP i e).2 ∉ ifaceSides d.ifaces := by
  have := w.axis_lt hi
  refine w.adj_not_side hndc (f := i.plus) (w.plus_side hi) rfl ?_
  simp only [cornerP, faceOn]; rw [← w.axes i hi]; omega

/-- a corner that is (up to the order of its faces) `cornerM i e` and also `cornerM j e'` or `cornerP j e'` -/
theorem cornerM_match (hndc : NoDoubleCorner d) {i j : Iface} (hi : i ∈ d.ifaces) (hj : j ∈ d.ifaces) (e e' : Int)
    (X : Corner) (hX : X = cornerM j e' ∨ X = cornerP j e')
    (h : X = cornerM i e ∨ X = (cornerM i e).swap) : X = cornerM j e' ∧ j = i ∧ e' = e := by
  have n1 := w.cornerM_snd_not_side hndc hi e
  rcases hX with rfl | rfl
  · rcases h with h | h
    · have h1 : j.minus = i.minus := congrArg Prod.fst h
      have := (w.toWF.side_unique hj hi).1 h1
      subst this
      have h2 := congrArg Prod.snd h
      simp only [cornerM, faceOn, Face.mk.injEq] at h2
      exact ⟨rfl, rfl, h2.2.2⟩
    · have h1 : j.minus = (cornerM i e).2 := congrArg Prod.fst h
      exact absurd (h1 ▸ w.minus_side hj) n1
  · rcases h with h | h
    · have h1 : j.plus = i.minus := congrArg Prod.fst h
      exact absurd h1.symm (w.toWF.side_unique hi hj).2.2
    · have h1 : j.plus = (cornerM i e).2 := congrArg Prod.fst h
      exact absurd (h1 ▸ w.plus_side hj) n1

theorem corners_simple_core (hndc : NoDoubleCorner d) (hne : d.ifaces ≠ []) :
    ∃ gs, d.toDomCore.corners = .ok gs ∧
      (∀ g ∈ gs, ∃ i ∈ d.ifaces, ∃ e, (e = 1 ∨ e = -1) ∧ IsPair g (cornerM i e) (cornerP i e)) ∧
      (∀ i ∈ d.ifaces, ∀ e, (e = 1 ∨ e = -1) → ∃ g ∈ gs, IsPair g (cornerM i e) (cornerP i e)) := by
  -- unfold the preamble of `corners`
  obtain ⟨p0, rest0, hints⟩ : ∃ p0 rest0, d.interiors = p0 :: rest0 := by
    cases hd : d.interiors with
    | nil =>
      have := w.ints.length_eq; rw [hd] at this
      have := w.len; simp at *; omega
    | cons a b => exact ⟨a, b, rfl⟩
  have hp0 : p0.dim = 2 := w.dim2 p0 (w.ints.subset (by rw [hints]; simp))
  obtain ⟨cx, hcx⟩ : ∃ cx, cx = cornerCtx (sortBy Iface.name d.ifaces) := ⟨_, rfl⟩
  obtain ⟨fuel, hfuel⟩ : ∃ fuel, fuel = 8 * d.interiors.length + 2 := ⟨_, rfl⟩
  obtain ⟨L, hL⟩ : ∃ L, L = cx.bnd.flatMap (fun e => (adjacent e.1).map (fun n => (e.1, n))) := ⟨_, rfl⟩
  have hcorners : d.toDomCore.corners = cornerLoop cx fuel ((dedupBy Corner.sameSet L).length + 1)
      (dedupBy Corner.sameSet L) := by
    simp only [DomCore.corners, hints, hp0, bne_self_eq_false, Bool.false_eq_true, if_false]
    have : d.ifaces.isEmpty = false := by cases hd : d.ifaces with
      | nil => exact absurd hd hne
      | cons _ _ => rfl
    simp only [this, Bool.false_eq_true, if_false]
    rw [hL, hcx, hfuel, hints]
  -- the work list
  have hLmem : ∀ c, c ∈ L ↔ c.1 ∈ ifaceSides d.ifaces ∧ c.2 ∈ adjacent c.1 := by
    intro c
    simp only [hL, hcx, List.mem_flatMap, List.mem_map]
    constructor
    · rintro ⟨⟨f, g⟩, he, n, hn, rfl⟩
      refine ⟨?_, hn⟩
      obtain ⟨i, hi, ⟨rfl, _⟩ | ⟨rfl, _⟩⟩ := (w.bnd_mem f g).mp he
      · exact w.minus_side hi
      · exact w.plus_side hi
    · rintro ⟨h1, h2⟩
      obtain ⟨i, hi, hb⟩ := (mem_ifaceSides _ _).mp h1
      rcases hb with hb | hb
      · exact ⟨(i.minus, i.plus), (w.bnd_mem _ _).mpr ⟨i, hi, Or.inl ⟨rfl, rfl⟩⟩, c.2, by rw [← hb]; exact h2,
          by rw [← hb]⟩
      · exact ⟨(i.plus, i.minus), (w.bnd_mem _ _).mpr ⟨i, hi, Or.inr ⟨rfl, rfl⟩⟩, c.2, by rw [← hb]; exact h2,
          by rw [← hb]⟩
  have hLps : ∀ c ∈ L, c.1.patch ∈ ps ∧ c.2.patch ∈ ps := by
    intro c hc
    obtain ⟨h1, h2⟩ := (hLmem c).mp hc
    have hp := ((mem_allFaces ps _).mp (w.toWF.side_all h1)).1
    refine ⟨hp, ?_⟩
    have := ((mem_faces _ _).mp ((mem_adjacent _ _).mp h2).1).1
    rw [this]; exact hp
  have hLns : ∀ c ∈ L, c.2 ∉ ifaceSides d.ifaces := by
    intro c hc
    obtain ⟨h1, h2⟩ := (hLmem c).mp hc
    obtain ⟨h3, h4⟩ := (mem_adjacent _ _).mp h2
    exact w.adj_not_side hndc h1 ((mem_faces _ _).mp h3).1 h4
  have hWmem : ∀ c, c ∈ dedupBy Corner.sameSet L ↔ c ∈ L := by
    intro c
    apply mem_dedupBy _ Corner.sameSet_refl
    intro a ha b hb hs
    rcases sameSet_eq w.names (hLps a ha).1 (hLps a ha).2 (hLps b hb).1 (hLps b hb).2 hs with h | h
    · exact h
    · exfalso
      have : a.1 = b.2 := congrArg Prod.fst h
      exact hLns b hb (this ▸ ((hLmem a).mp ha).1)
  have hfuel2 : 2 ≤ fuel := by omega
  have hfacts : ∀ c ∈ dedupBy Corner.sameSet L, ∃ i ∈ d.ifaces, ∃ e, (e = 1 ∨ e = -1) ∧
      cornerGroup cx fuel c = .ok [partnerOf cx fuel c, c] ∧
      ((c = cornerM i e ∧ partnerOf cx fuel c = (cornerP i e).swap) ∨
       (c = cornerP i e ∧ partnerOf cx fuel c = (cornerM i e).swap)) := by
    intro c hc
    obtain ⟨h1, h2⟩ := (hLmem c).mp ((hWmem c).mp hc)
    obtain ⟨i, hi, e, he, P, hg, hform⟩ := w.work_facts hndc fuel hfuel2 c h1 h2
    rw [← hcx] at hg
    have hP : partnerOf cx fuel c = P := by simp [partnerOf, hg]
    exact ⟨i, hi, e, he, by rw [hP]; exact hg, by rw [hP]; exact hform⟩
  obtain ⟨gs, hrun, hsound, hcomplete⟩ := cornerLoop_simple cx fuel (partnerOf cx fuel)
    ((dedupBy Corner.sameSet L).length + 1) (dedupBy Corner.sameSet L) (by omega)
    (fun c hc => by obtain ⟨_, _, _, _, hg, _⟩ := hfacts c hc; exact hg)
  -- each group is a pair of the announced form
  have hpair : ∀ c ∈ dedupBy Corner.sameSet L, ∃ i ∈ d.ifaces, ∃ e, (e = 1 ∨ e = -1) ∧
      IsPair [partnerOf cx fuel c, c] (cornerM i e) (cornerP i e) ∧
      ((c = cornerM i e ∧ partnerOf cx fuel c = (cornerP i e).swap) ∨
       (c = cornerP i e ∧ partnerOf cx fuel c = (cornerM i e).swap)) := by
    intro c hc
    obtain ⟨i, hi, e, he, _, hform⟩ := hfacts c hc
    refine ⟨i, hi, e, he, ⟨_, _, rfl, ?_⟩, hform⟩
    rcases hform with ⟨h1, h2⟩ | ⟨h1, h2⟩
    · right; rw [h2, h1]; exact ⟨Corner.sameSet_swap _, Corner.sameSet_refl _⟩
    · left; rw [h2, h1]; exact ⟨Corner.sameSet_swap _, Corner.sameSet_refl _⟩
  refine ⟨gs, hcorners.trans hrun, ?_, ?_⟩
  · intro g hg
    obtain ⟨c, hc, rfl⟩ := hsound g hg
    obtain ⟨i, hi, e, he, hp, _⟩ := hpair c hc
    exact ⟨i, hi, e, he, hp⟩
  · intro i hi e he
    have hc0 : cornerM i e ∈ dedupBy Corner.sameSet L := by
      rw [hWmem, hLmem]
      refine ⟨w.minus_side hi, (mem_adjacent _ _).mpr ⟨?_, ?_⟩⟩
      · have := w.axis_lt hi
        exact (mem_faces _ _).mpr ⟨rfl, by simp only [cornerM, faceOn]; rw [w.dim2 _ (w.minus_ps hi)]; omega,
          by simp only [cornerM, faceOn]; rcases he with h | h <;> simp [h]⟩
      · have := w.axis_lt hi
        simp only [cornerM, faceOn]; omega
    obtain ⟨g, hg, c', hc', hs⟩ := hcomplete _ hc0
    obtain ⟨c2, hc2, rfl⟩ := hsound g hg
    obtain ⟨j, hj, e', he', hp, hform⟩ := hpair c2 hc2
    refine ⟨_, hg, ?_⟩
    -- identify (j, e') with (i, e)
    have key : j = i ∧ e' = e := by
      -- `c'` is one of the two members; both are cornerM/cornerP of (j, e') up to swap
      have hmem : ∃ X, (X = cornerM j e' ∨ X = cornerP j e') ∧ (c' = X ∨ c' = X.swap) := by
        simp only [List.mem_cons, List.not_mem_nil, or_false] at hc'
        rcases hform with ⟨h1, h2⟩ | ⟨h1, h2⟩
        · rcases hc' with rfl | rfl
          · exact ⟨cornerP j e', Or.inr rfl, Or.inr h2⟩
          · exact ⟨cornerM j e', Or.inl rfl, Or.inl h1⟩
        · rcases hc' with rfl | rfl
          · exact ⟨cornerM j e', Or.inl rfl, Or.inr h2⟩
          · exact ⟨cornerP j e', Or.inr rfl, Or.inl h1⟩
      obtain ⟨X, hX, hcX⟩ := hmem
      have hXps : X.1.patch ∈ ps ∧ X.2.patch ∈ ps := by
        rcases hX with rfl | rfl
        · exact w.cornerM_ps hj e'
        · exact w.cornerP_ps hj e'
      have hc'ps : c'.1.patch ∈ ps ∧ c'.2.patch ∈ ps := by
        rcases hcX with rfl | rfl
        · exact hXps
        · exact ⟨hXps.2, hXps.1⟩
      have hse := sameSet_eq w.names hc'ps.1 hc'ps.2 (w.cornerM_ps hi e).1 (w.cornerM_ps hi e).2 hs
      have hXM : X = cornerM i e ∨ X = (cornerM i e).swap := by
        rcases hcX with rfl | rfl
        · exact hse
        · rcases hse with h | h
          · right; rw [← h]; rfl
          · left
            have : X.swap.swap = (cornerM i e).swap.swap := by rw [h]
            exact this
      exact (w.cornerM_match hndc hi hj e e' X hX hXM).2
    obtain ⟨rfl, rfl⟩ := key
    exact hp

end WF2

/-- every declared orientation is +1 or -1 (2D) -/
def OrntPM (ps : List Patch) (cs : List Conn) : Prop :=
  ∀ c ∈ resolved ps cs, c.ornt = .o2 1 ∨ c.ornt = .o2 (-1)

instance (ps : List Patch) (cs : List Conn) : Decidable (OrntPM ps cs) := by unfold OrntPM; infer_instance

/-! ### single-row grids: chains and rings of squares -/

/-- the corner of patch `p` between its face (axis 0, side `s`) and its face (axis 1, side `e`) -/
def gcorner (p : Patch) (s e : Int) : Corner := (⟨p, 0, s⟩, ⟨p, 1, e⟩)

/-- a chain (or ring) of squares along axis 0 with orientations ±1 -/
structure ChainOk (g : Grid) : Prop extends GridOk g where
  d2 : g.d = 2
  row : g.n.2.1 = 1
  orntPM : ∀ x a, g.ornt x a = none ∨ g.ornt x a = some [1] ∨ g.ornt x a = some [-1]

theorem ChainOk.next_axis {g : Grid} (hc : ChainOk g) {x y : Nat × Nat × Nat} {a : Nat} (ha : a < g.d)
    (hx : x ∈ g.idxs) (h : g.next x a = some y) : a = 0 := by
  have hd := hc.d2
  rcases a with _ | _ | a
  · rfl
  · exfalso
    unfold Grid.next at h
    have hrow := hc.row
    simp only [Grid.idxs, mem_gridIdx] at hx
    have hs : g.size 1 = 1 := by simp [Grid.size, idxGet, hrow]
    rw [hs] at h
    simp only [idxGet] at h
    split at h
    · omega
    · split at h
      · rename_i h2; simp at h2
      · cases h
  · omega

theorem ChainOk.orntOf_pm {g : Grid} (hc : ChainOk g) (x : Nat × Nat × Nat) (a : Nat) :
    g.orntOf x a = .o2 1 ∨ g.orntOf x a = .o2 (-1) := by
  unfold Grid.orntOf
  rw [hc.d2]
  rcases hc.orntPM x a with h | h | h <;> simp [h, mkOrnt]

/-! ### layouts used by the non-vacuity examples of Props/C13.lean -/

def exA : Patch := ⟨"A", 2, [0, 0], [1, 1], some "F"⟩
def exB : Patch := ⟨"B", 2, [1, 0], [2, 1], some "G"⟩
def exC : Patch := ⟨"C", 2, [1, 1], [2, 2], some "H"⟩
def exConns : List Conn :=
  [⟨⟨.idx 0, some 0, 1⟩, ⟨.idx 1, some 0, -1⟩, some [-1]⟩, ⟨⟨.idx 2, some 1, -1⟩, ⟨.idx (-2), some 1, 1⟩, none⟩]
/-- a 2 x 2 grid of squares, periodic along axis 0 -/
def exGrid : Grid := ⟨2, (2, 2, 1), (true, false, false), fun x =>
  ⟨"P" ++ toString x.1 ++ toString x.2.1, 2, [x.1, x.2.1], [x.1 + 1, x.2.1 + 1], some ("F" ++ toString x.1 ++ toString x.2.1)⟩,
  fun x a => if a == 0 then some [-1] else if x.1 == 0 then none else some [1]⟩

/-- a ring of three squares along axis 0, the middle connection declared with orientation -1 -/
def exChain : Grid := ⟨2, (3, 1, 1), (true, false, false), fun x =>
  ⟨"Q" ++ toString x.1, 2, [x.1, 0], [x.1 + 1, 1], none⟩,
  fun x _ => if x.1 == 1 then some [-1] else none⟩

/-- a plain 2 x 2 grid of squares -/
def exGrid22 : Grid := ⟨2, (2, 2, 1), (false, false, false), fun x =>
  ⟨"S" ++ toString x.1 ++ toString x.2.1, 2, [x.1, x.2.1], [x.1 + 1, x.2.1 + 1], none⟩, fun _ _ => none⟩

end Sympde.Topo
