/-
  Helper lemmas for C03 (pull-back to logical coordinates): soundness of the model's logical
  differentiator, preservation of the non-degeneracy and integer-power predicates, sums over
  at most three indices, determinant / adjugate identities for d = 1, 2, 3.
-/
import SympdeModel.Model.Pullback
import SympdeModel.Lemmas.PDeriv
import SympdeModel.Sem.Den

namespace Sympde
namespace PB
open E PD
open DRing (sumN)

variable {K : Type} [CommRing K] [Algebra ℚ K]

/-! ### every power has an integer literal exponent -/

mutual
def IntPow : E → Bool
  | pow b e => (intLit e).isSome && IntPow b
  | add as => IntPowList as
  | mul as => IntPowList as
  | fn _ a => IntPow a
  | pd _ a => IntPow a
  | idx b _ => IntPow b
  | mat _ _ es => IntPowList es
  | tup as => IntPowList as
  | op1 _ a => IntPow a
  | op2 _ a b => IntPow a && IntPow b
  | other _ as => IntPowList as
  | _ => true
def IntPowList : List E → Bool
  | [] => true
  | a :: as => IntPow a && IntPowList as
end

theorem IntPowList_mem (as : List E) (h : IntPowList as = true) (a : E) (ha : a ∈ as) : IntPow a = true := by
  induction as with
  | nil => cases ha
  | cons x xs ih =>
    simp only [IntPowList, Bool.and_eq_true] at h
    rcases List.mem_cons.mp ha with rfl | ha
    · exact h.1
    · exact ih h.2 ha

theorem knownFnB_knownFn (f : String) (h : knownFnB f = true) : knownFn f = true := by
  unfold knownFnB at h
  unfold knownFn
  simp only [Bool.or_eq_true] at h ⊢
  rcases h with ((((h | h) | h) | h) | h) | h <;> simp [h]

theorem intLit_eq_some {e : E} {n : Int} (h : intLit e = some n) : e = num n 1 := by
  cases e <;> simp [intLit] at h
  case num p q =>
    split at h
    · rename_i heq
      injection heq with h1 h2
      injection h with h
      subst h1; subst h2; subst h; rfl
    · cases h

/-! ### NonDeg of the building blocks -/

theorem NonDeg_zero (S : DRing K) : NonDeg S zero := by simp [zero, NonDeg]
theorem NonDeg_one (S : DRing K) : NonDeg S one := by simp [one, NonDeg]

theorem NonDeg_fnDeriv (S : DRing K) (f : String) (a : E) (hf : knownFnB f = true) (ha : NonDeg S a) :
    NonDeg S (fnDeriv f a) := by
  unfold knownFnB at hf
  simp only [Bool.or_eq_true, beq_iff_eq] at hf
  rcases hf with ((((h | h) | h) | h) | h) | h <;> subst h <;>
    simp [fnDeriv, NonDeg, NonDegList, ha, one, intLit]

theorem IntPow_fnDeriv (f : String) (a : E) (hf : knownFnB f = true) (ha : IntPow a = true) :
    IntPow (fnDeriv f a) = true := by
  unfold knownFnB at hf
  simp only [Bool.or_eq_true, beq_iff_eq] at hf
  rcases hf with ((((h | h) | h) | h) | h) | h <;> subst h <;>
    simp [fnDeriv, IntPow, IntPowList, ha, one, intLit]

theorem isRatLit_false_of_intLit {e : E} (h : (intLit e).isSome = true) : isRatLit e = false := by
  cases hl : intLit e with
  | none => simp [hl] at h
  | some n => rw [intLit_eq_some hl]; rfl

/-- the derivative of an integer power is non-degenerate when the power is -/
theorem NonDeg_ldiffPow (S : DRing K) (b e db de : E) (hi : (intLit e).isSome = true)
    (h : NonDeg S (pow b e)) (hdb : NonDeg S db) : NonDeg S (ldiffPow b e db de) := by
  unfold ldiffPow
  rw [isRatLit_false_of_intLit hi]
  simp only [Bool.false_eq_true, if_false]
  split
  · exact NonDeg_zero S
  · rename_i hz
    cases hl : intLit e with
    | none => simp [hl] at hi
    | some n =>
      simp only [NonDeg, hl] at h
      rw [show powRule b e db de = mul [num n 1, pow b (num (n - 1) 1), db] from by simp only [powRule, hl]]
      simp only [NonDeg, NonDegList, intLit, and_true, true_and]
      refine ⟨⟨?_, h.2.1⟩, hdb⟩
      cases hn : n - 1 with
      | ofNat k => trivial
      | negSucc k =>
        have hneg : ∃ k', n = Int.negSucc k' := by
          cases n with
          | ofNat m =>
            cases m with
            | zero => exact absurd hl hz
            | succ m => simp at hn
          | negSucc k' => exact ⟨k', rfl⟩
        obtain ⟨k', hk'⟩ := hneg
        subst hk'
        exact h.1

theorem IntPow_ldiffPow (b e db de : E) (hi : (intLit e).isSome = true) (hb : IntPow b = true)
    (hdb : IntPow db = true) : IntPow (ldiffPow b e db de) = true := by
  unfold ldiffPow
  rw [isRatLit_false_of_intLit hi]
  simp only [Bool.false_eq_true, if_false]
  split
  · rfl
  · cases hl : intLit e with
    | none => simp [hl] at hi
    | some n =>
      rw [show powRule b e db de = mul [num n 1, pow b (num (n - 1) 1), db] from by simp only [powRule, hl]]
      simp [IntPow, IntPowList, intLit, hb, hdb]

/-! ### the logical differentiator -/

theorem powSem_none (S : DRing K) (b ev : K) (e : E) (h : intLit e = none) : powSem S b e ev = S.rpow b ev := by
  unfold powSem; rw [h]

theorem ldiffPow_sound (S : DRing K) (c : Coord) (b e db de : E) (i j : Nat)
    (hb : den S db i j = S.D c (den S b i j)) (he : den S de i j = S.D c (den S e i j))
    (hnd : NonDeg S (pow b e)) :
    den S (ldiffPow b e db de) i j = S.D c (den S (pow b e) i j) := by
  unfold ldiffPow
  split
  · rename_i hz
    have := intLit_eq_some hz
    subst this
    have h1 : den S (pow b (num 0 1)) i j = 1 := by simp [den, powSem, intLit]
    rw [h1, S.D_one, den_zero]
  · split
    · rename_i hz hr
      cases e <;> simp [isRatLit] at hr
      rename_i p q
      have hl : intLit (num p q) = none := by
        simp only [intLit]
        split
        · rename_i heq; injection heq with h1 h2; exact absurd h2 hr
        · rfl
      have hD : S.D c (den S (num p q) i j) = 0 := by simp [den, S.D_rat]
      have e1 : den S (pow b (num p q)) i j = S.rpow (den S b i j) (den S (num p q) i j) := by
        simp only [den]; exact powSem_none S _ _ _ hl
      have e2 : den S (mul [num p q, db, pow b (num (-1) 1), pow b (num p q)]) i j
          = den S (num p q) i j * (den S db i j * (S.inv (den S b i j) * (S.rpow (den S b i j) (den S (num p q) i j) * 1))) := by
        simp only [den, denProd]
        rw [powSem_neg_one, powSem_none S _ _ _ hl]
      rw [e1, e2, S.D_rpow, hD, hb]
      ring
    apply powRule_sound S c b e db de i j hb he
    simp only [NonDeg] at hnd
    cases hl : intLit e with
    | none => trivial
    | some n =>
      cases n with
      | ofNat m => trivial
      | negSucc m =>
        have := hnd.1
        simp only [hl] at this
        exact this i j

theorem ldiff_all (S : DRing K) (T : FnTable S) (m : String) (c : Coord) (e : E) :
    IntPow e = true → NonDeg S e → ∀ r, ldiff m c e = .ok r →
      IntPow r = true ∧ NonDeg S r ∧ ∀ i j, den S r i j = S.D c (den S e i j) := by
  induction e using E.rec
    (motive_2 := fun as => ∀ a ∈ as, IntPow a = true → NonDeg S a → ∀ r, ldiff m c a = .ok r →
      IntPow r = true ∧ NonDeg S r ∧ ∀ i j, den S r i j = S.D c (den S a i j)) with
  | num p q =>
    intro _ _ r h
    simp only [ldiff] at h; injection h with h; subst h
    exact ⟨rfl, NonDeg_zero S, fun i j => by simp [den_zero, den, S.D_rat]⟩
  | cst s =>
    intro _ _ r h
    simp only [ldiff] at h; injection h with h; subst h
    exact ⟨rfl, NonDeg_zero S, fun i j => by simp [den_zero, den, S.D_cst]⟩
  | sym s =>
    intro _ _ r h
    simp only [ldiff] at h; injection h with h; subst h
    refine ⟨by split <;> rfl, by split <;> simp [NonDeg_zero, NonDeg_one], fun i j => ?_⟩
    simp only [den, S.D_sym]
    split <;> simp [den_zero, den_one]
  | sf s k =>
    intro _ _ r h
    simp only [ldiff] at h; injection h with h; subst h
    exact ⟨rfl, by simp [NonDeg], fun i j => by simp [den]⟩
  | vf s k =>
    intro _ _ r h
    simp [ldiff] at h
  | idx b k _ =>
    intro hi hn r h
    simp only [ldiff] at h; injection h with h; subst h
    exact ⟨by simpa [IntPow] using hi, by simpa [NonDeg] using hn, fun i j => by simp [den]⟩
  | pd c' a _ =>
    intro hi hn r h
    simp only [ldiff] at h; injection h with h; subst h
    exact ⟨by simpa [IntPow] using hi, by simpa [NonDeg] using hn, fun i j => by simp [den]⟩
  | add as ih =>
    intro hi hn r h
    simp only [IntPow] at hi
    simp only [NonDeg] at hn
    simp only [ldiff] at h
    -- list lemma
    have key : ∀ (l : List E), (∀ a ∈ l, a ∈ as) → ∀ rs, ldiffList m c l = .ok rs →
        IntPowList rs = true ∧ NonDegList S rs ∧ ∀ i j, denSum S rs i j = S.D c (denSum S l i j) := by
      intro l
      induction l with
      | nil =>
        intro _ rs hrs
        simp only [ldiffList] at hrs; injection hrs with hrs; subst hrs
        exact ⟨rfl, trivial, fun i j => by simp [denSum, S.D_zero]⟩
      | cons x xs ihl =>
        intro hsub rs hrs
        simp only [ldiffList] at hrs
        cases hx : ldiff m c x with
        | error err => simp [hx, bind, Except.bind] at hrs
        | ok rx =>
          cases hxs : ldiffList m c xs with
          | error err => simp [hx, hxs, bind, Except.bind] at hrs
          | ok rxs =>
            simp only [hx, hxs, bind, Except.bind] at hrs
            injection hrs with hrs; subst hrs
            have hxm : x ∈ as := hsub x (by simp)
            obtain ⟨h1, h2, h3⟩ := ih x hxm (IntPowList_mem as hi x hxm) (NonDegList_mem S as hn x hxm) rx hx
            obtain ⟨g1, g2, g3⟩ := ihl (fun a ha => hsub a (by simp [ha])) rxs hxs
            refine ⟨by simp [IntPowList, h1, g1], ⟨h2, g2⟩, fun i j => ?_⟩
            simp only [denSum, S.D_add, h3, g3]
    cases hl : ldiffList m c as with
    | error err => simp [hl, bind, Except.bind] at h
    | ok rs =>
      simp only [hl, bind, Except.bind] at h
      injection h with h; subst h
      obtain ⟨g1, g2, g3⟩ := key as (fun a ha => ha) rs hl
      exact ⟨by simpa [IntPow] using g1, by simpa [NonDeg] using g2, fun i j => by simp only [den]; exact g3 i j⟩
  | mul as ih =>
    intro hi hn r h
    simp only [IntPow] at hi
    simp only [NonDeg] at hn
    simp only [ldiff] at h
    have key : ∀ (l : List E), (∀ a ∈ l, a ∈ as) → ∀ r, ldiffProd m c l = .ok r →
        IntPow r = true ∧ NonDeg S r ∧ ∀ i j, den S r i j = S.D c (denProd S l i j) := by
      intro l
      induction l with
      | nil =>
        intro _ r hr
        simp only [ldiffProd] at hr; injection hr with hr; subst hr
        exact ⟨rfl, NonDeg_zero S, fun i j => by simp [denProd, den_zero, S.D_one]⟩
      | cons x xs ihl =>
        intro hsub r hr
        simp only [ldiffProd] at hr
        cases hx : ldiff m c x with
        | error err => simp [hx, bind, Except.bind] at hr
        | ok rx =>
          cases hxs : ldiffProd m c xs with
          | error err => simp [hx, hxs, bind, Except.bind] at hr
          | ok rxs =>
            simp only [hx, hxs, bind, Except.bind] at hr
            injection hr with hr; subst hr
            have hxm : x ∈ as := hsub x (by simp)
            have hxi := IntPowList_mem as hi x hxm
            have hxn := NonDegList_mem S as hn x hxm
            obtain ⟨h1, h2, h3⟩ := ih x hxm hxi hxn rx hx
            obtain ⟨g1, g2, g3⟩ := ihl (fun a ha => hsub a (by simp [ha])) rxs hxs
            have hxsi : IntPowList xs = true := by
              have : ∀ a ∈ xs, IntPow a = true := fun a ha => IntPowList_mem as hi a (hsub a (by simp [ha]))
              clear ihl hxs g3
              induction xs with
              | nil => rfl
              | cons y ys ihy =>
                simp only [IntPowList, Bool.and_eq_true]
                exact ⟨this y (by simp), ihy (fun a ha => hsub a (by
                  rcases List.mem_cons.mp ha with rfl | ha
                  · simp
                  · simp [ha])) (fun a ha => this a (by simp [ha]))⟩
            have hxsn : NonDegList S xs := by
              have : ∀ a ∈ xs, NonDeg S a := fun a ha => NonDegList_mem S as hn a (hsub a (by simp [ha]))
              clear ihl hxs g3 hxsi
              induction xs with
              | nil => trivial
              | cons y ys ihy =>
                exact ⟨this y (by simp), ihy (fun a ha => hsub a (by
                  rcases List.mem_cons.mp ha with rfl | ha
                  · simp
                  · simp [ha])) (fun a ha => this a (by simp [ha]))⟩
            refine ⟨by simp [IntPow, IntPowList, h1, g1, hxi, hxsi], ?_, fun i j => ?_⟩
            · simp only [NonDeg, NonDegList, and_true]
              exact ⟨⟨h2, hxsn⟩, hxn, g2⟩
            · simp only [den, denSum, denProd, h3, g3, S.D_mul]
              ring
    exact key as (fun a ha => ha) r h
  | pow b e ihb ihe =>
    intro hi hn r h
    simp only [IntPow, Bool.and_eq_true] at hi
    have hn' := hn
    simp only [NonDeg] at hn
    simp only [ldiff] at h
    cases hb : ldiff m c b with
    | error err => simp [hb, bind, Except.bind] at h
    | ok db =>
      cases he : ldiff m c e with
      | error err => simp [hb, he, bind, Except.bind] at h
      | ok de =>
        simp only [hb, he, bind, Except.bind] at h
        injection h with h; subst h
        obtain ⟨h1, h2, h3⟩ := ihb hi.2 hn.2.1 db hb
        have hie : IntPow e = true := by
          cases hl : intLit e with
          | none => simp [hl] at hi
          | some n => rw [intLit_eq_some hl]; rfl
        obtain ⟨g1, g2, g3⟩ := ihe hie hn.2.2 de he
        exact ⟨IntPow_ldiffPow b e db de hi.1 hi.2 h1, NonDeg_ldiffPow S b e db de hi.1 hn' h2,
          fun i j => ldiffPow_sound S c b e db de i j (h3 i j) (g3 i j) hn'⟩
  | fn f a iha =>
    intro hi hn r h
    simp only [IntPow] at hi
    simp only [NonDeg] at hn
    simp only [ldiff] at h
    split at h
    · cases h
    · rename_i hc
      simp only [Bool.or_eq_true, Bool.not_eq_true', not_or, Bool.not_eq_true, Bool.not_eq_false] at hc
      cases ha : ldiff m c a with
      | error err => simp [ha, bind, Except.bind] at h
      | ok da =>
        simp only [ha, bind, Except.bind] at h
        injection h with h; subst h
        obtain ⟨h1, h2, h3⟩ := iha hi hn da ha
        refine ⟨by simp [IntPow, IntPowList, IntPow_fnDeriv f a hc.2 hi, h1], ?_, fun i j => ?_⟩
        · simp only [NonDeg, NonDegList, and_true]
          exact ⟨NonDeg_fnDeriv S f a hc.2 hn, h2⟩
        · simp only [den, denProd, mul_one, h3, S.D_fn]
          rw [den_fnDeriv S T f a i j (knownFnB_knownFn f hc.2)]
  | op1 o a _ => intro _ _ r h; simp [ldiff] at h
  | op2 o a b _ _ => intro _ _ r h; simp [ldiff] at h
  | mat r c es _ => intro _ _ r h; simp [ldiff] at h
  | tup as _ => intro _ _ r h; simp [ldiff] at h
  | normal k => intro _ _ r h; simp [ldiff] at h
  | other t as _ => intro _ _ r h; simp [ldiff] at h
  | nil => cases ‹_ ∈ []›
  | cons x xs ihx ihxs =>
    rename_i a ha h1 h2 r hr
    rcases List.mem_cons.mp ha with rfl | ha
    · exact ihx h1 h2 r hr
    · exact ihxs a ha h1 h2 r hr

/-! ### small denotation lemmas -/

theorem den_neg (S : DRing K) (a : E) (i j : Nat) : den S (neg a) i j = - den S a i j := by
  simp [neg, den, denProd]

theorem den_sub (S : DRing K) (a b : E) (i j : Nat) : den S (sub a b) i j = den S a i j - den S b i j := by
  simp only [sub, den, denSum, den_neg]; ring

theorem den_mul2 (S : DRing K) (a b : E) (i j : Nat) : den S (mul [a, b]) i j = den S a i j * den S b i j := by
  simp [den, denProd]

theorem den_mul3 (S : DRing K) (a b c : E) (i j : Nat) :
    den S (mul [a, b, c]) i j = den S a i j * den S b i j * den S c i j := by
  simp [den, denProd]; ring

theorem den_add2 (S : DRing K) (a b : E) (i j : Nat) : den S (add [a, b]) i j = den S a i j + den S b i j := by
  simp [den, denSum]

theorem den_add3 (S : DRing K) (a b c : E) (i j : Nat) :
    den S (add [a, b, c]) i j = den S a i j + den S b i j + den S c i j := by
  simp [den, denSum]; ring

theorem den_idx_vf (S : DRing K) (s : String) (k : Kind) (l i j : Nat) :
    den S (idx (vf s k) l) i j = S.vf s l := by simp [den]

theorem den_pd (S : DRing K) (c : Coord) (a : E) (i j : Nat) : den S (pd c a) i j = S.D c (den S a i j) := by
  simp [den]

theorem den_sf (S : DRing K) (s : String) (k : Kind) (i j : Nat) : den S (sf s k) i j = S.sf s := by simp [den]

theorem den_sum3 (S : DRing K) (d : Nat) (hd : d ≤ 3) (f : Nat → E) (i j : Nat) :
    den S (sum3 d f) i j = sumN d (fun l => den S (f l) i j) := by
  match d, hd with
  | 0, _ => simp [sum3, sumN, den_zero]
  | 1, _ => simp [sum3, sumN]
  | 2, _ => simp [sum3, sumN, den_add2]
  | 3, _ => simp [sum3, sumN, den_add3]

theorem IntPow_sum3 (d : Nat) (f : Nat → E) (h : ∀ l, IntPow (f l) = true) : IntPow (sum3 d f) = true := by
  unfold sum3
  split <;> simp [IntPow, IntPowList, h, zero]

theorem NonDeg_sum3 (S : DRing K) (d : Nat) (f : Nat → E) (h : ∀ l, NonDeg S (f l)) : NonDeg S (sum3 d f) := by
  unfold sum3
  split <;> simp [NonDeg, NonDegList, h, zero]

theorem IntPow_neg (a : E) (h : IntPow a = true) : IntPow (neg a) = true := by
  simp [neg, IntPow, IntPowList, h]
theorem IntPow_sub (a b : E) (ha : IntPow a = true) (hb : IntPow b = true) : IntPow (sub a b) = true := by
  simp [sub, IntPow, IntPowList, ha, IntPow_neg b hb]
theorem IntPow_mul2 (a b : E) (ha : IntPow a = true) (hb : IntPow b = true) : IntPow (mul [a, b]) = true := by
  simp [IntPow, IntPowList, ha, hb]
theorem NonDeg_neg (S : DRing K) (a : E) (h : NonDeg S a) : NonDeg S (neg a) := by
  simp [neg, NonDeg, NonDegList, h]
theorem NonDeg_sub (S : DRing K) (a b : E) (ha : NonDeg S a) (hb : NonDeg S b) : NonDeg S (sub a b) := by
  simp [sub, NonDeg, NonDegList, ha, NonDeg_neg S b hb]
theorem NonDeg_mul2 (S : DRing K) (a b : E) (ha : NonDeg S a) (hb : NonDeg S b) : NonDeg S (mul [a, b]) := by
  simp [NonDeg, NonDegList, ha, hb]

/-! ### determinant and adjugate -/

theorem IntPow_detJ (j : Jac) (h : ∀ i l, IntPow (j.J i l) = true) : IntPow (detJ j) = true := by
  unfold detJ
  split <;> simp [IntPow, IntPowList, sub, neg, h]

theorem NonDeg_detJ (S : DRing K) (j : Jac) (h : ∀ i l, NonDeg S (j.J i l)) : NonDeg S (detJ j) := by
  unfold detJ
  split <;> simp [NonDeg, NonDegList, sub, neg, h]

theorem IntPow_adjJ (j : Jac) (h : ∀ i l, IntPow (j.J i l) = true) (i k : Nat) : IntPow (adjJ j i k) = true := by
  unfold adjJ
  split
  · rfl
  · split <;> simp [IntPow, IntPowList, neg, h]
  · simp [IntPow, IntPowList, sub, neg, h]

theorem NonDeg_adjJ (S : DRing K) (j : Jac) (h : ∀ i l, NonDeg S (j.J i l)) (i k : Nat) : NonDeg S (adjJ j i k) := by
  unfold adjJ
  split
  · exact NonDeg_one S
  · split <;> simp [NonDeg, NonDegList, neg, h]
  · simp [NonDeg, NonDegList, sub, neg, h]

theorem den_invDet (S : DRing K) (j : Jac) (i k : Nat) :
    den S (invDet j) i k = S.inv (den S (detJ j) i k) := by
  simp only [invDet, den]
  exact powSem_neg_one S _ _

theorem den_invJ (S : DRing K) (j : Jac) (i k a b : Nat) :
    den S (invJ j i k) a b = den S (adjJ j i k) a b * S.inv (den S (detJ j) a b) := by
  simp only [invJ, den_mul2, den_invDet]

end PB
end Sympde
