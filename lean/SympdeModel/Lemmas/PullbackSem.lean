/-
  C03: the semantic relation between the physical and the logical reading of an expression, the
  fragment of terminal physical expressions, and the case lemmas of `logical_sound`.
-/
import SympdeModel.Lemmas.Pullback

namespace Sympde
namespace PB
open E PD
open DRing (sumN)

variable {K : Type} [CommRing K] [Algebra ℚ K]

/-- the names of the logical coordinates (they do not occur in an expression of the physical domain) -/
def isLogName (s : String) : Bool := s == "x1" || s == "x2" || s == "x3"

/-- the physical coordinate operator number `i` -/
def pc (i : Nat) : Coord := Coord.ofIdx false i

/-- Two readings of the same point x̂ of the logical patch, both in the ring `K` of functions of x̂:
    `SL` reads an expression of the logical domain (logical functions û, logical derivatives ∂̂),
    `SP` reads an expression of the physical domain *at the image point F(x̂)*.  They are related by
      * the coordinates x, y, z are the components of the mapping,
      * the physical derivatives are given by the chain rule through the inverse Jacobian,
      * a physical function of kind κ is the push-forward of the logical one:
        H1/undefined û; L2 û/det; H(curl) J⁻ᵀû; H(div) Jû/det
        (i.e. û is the pull-back named in the property),
      * everything else (constants, parameters, elementary functions) is shared. -/
structure MapRel (SL SP : DRing K) (m : String) (j : Jac) (F : Nat → E) (κs κv : String → Kind) : Prop where
  d_pos : 1 ≤ j.d
  d_le : j.d ≤ 3
  fn_eq : SP.fn = SL.fn
  inv_eq : SP.inv = SL.inv
  rpow_eq : SP.rpow = SL.rpow
  cst_eq : SP.cst = SL.cst
  sym_coord : ∀ i, i < j.d → ∀ a b, SP.sym (pc i).name = den SL (F i) a b
  sym_other : ∀ s, (∀ i, physIdx s = some i → j.d ≤ i) → isLogName s = false → SP.sym s = SL.sym s
  F_int : ∀ i, IntPow (F i) = true
  F_nd : ∀ i, NonDeg SL (F i)
  J_int : ∀ i l, IntPow (j.J i l) = true
  J_nd : ∀ i l, NonDeg SL (j.J i l)
  det_unit : ∀ a b, den SL (detJ j) a b * SL.inv (den SL (detJ j) a b) = 1
  chain : ∀ i, i < j.d → ∀ k a b,
    SP.D (pc i) k = sumN j.d (fun l => den SL (invJ j l i) a b * SL.D (lc l) k)
  sf_pb : ∀ s a b, SP.sf s = den SL (match κs s with
      | .l2 => mul [sf s (κs s), invDet j]
      | _ => sf s (κs s)) a b
  vf_pb : ∀ s i, i < j.d → ∀ a b, SP.vf s i = den SL (pbVec j s (κv s) i) a b

mutual
/-- terminal physical expressions: physical derivatives and components below the dimension,
    integer powers, every function carrying the kind of its space -/
def Frag (d : Nat) (κs κv : String → Kind) : E → Bool
  | num _ _ => true
  | cst _ => true
  | sym s => !isLogName s
  | sf s k => decide (k = κs s)
  | idx (vf s k) i => decide (k = κv s) && decide (i < d)
  | add as => FragList d κs κv as
  | mul as => FragList d κs κv as
  | pow b e => (intLit e).isSome && Frag d κs κv b
  | fn _ a => Frag d κs κv a
  | pd c a => !c.logical && decide (c.idx < d) && Frag d κs κv a
  | _ => false
def FragList (d : Nat) (κs κv : String → Kind) : List E → Bool
  | [] => true
  | a :: as => Frag d κs κv a && FragList d κs κv as
end

theorem FragList_mem (d : Nat) (κs κv : String → Kind) (as : List E) (h : FragList d κs κv as = true)
    (a : E) (ha : a ∈ as) : Frag d κs κv a = true := by
  induction as with
  | nil => cases ha
  | cons x xs ih =>
    simp only [FragList, Bool.and_eq_true] at h
    rcases List.mem_cons.mp ha with rfl | ha
    · exact h.1
    · exact ih h.2 ha

theorem physIdx_name (s : String) (i : Nat) (h : physIdx s = some i) (hi : i < 3) : s = (pc i).name := by
  unfold physIdx at h
  split at h <;> first
    | (injection h with h; subst h; rfl)
    | cases h

theorem pc_of_phys (c : Coord) (h : c.logical = false) : c = pc c.idx := by
  cases c <;> first | rfl | cases h

section
variable {SL SP : DRing K} {m : String} {j : Jac} {F : Nat → E} {κs κv : String → Kind}

theorem MapRel.invDet_int (R : MapRel SL SP m j F κs κv) : IntPow (invDet j) = true := by
  simp [invDet, IntPow, intLit, IntPow_detJ j R.J_int]

theorem MapRel.invDet_nd (R : MapRel SL SP m j F κs κv) : NonDeg SL (invDet j) := by
  simp only [invDet, NonDeg, intLit]
  exact ⟨fun a b => R.det_unit a b, NonDeg_detJ SL j R.J_nd, trivial⟩

theorem MapRel.invJ_int (R : MapRel SL SP m j F κs κv) (i k : Nat) : IntPow (invJ j i k) = true :=
  IntPow_mul2 _ _ (IntPow_adjJ j R.J_int i k) R.invDet_int

theorem MapRel.invJ_nd (R : MapRel SL SP m j F κs κv) (i k : Nat) : NonDeg SL (invJ j i k) :=
  NonDeg_mul2 SL _ _ (NonDeg_adjJ SL j R.J_nd i k) R.invDet_nd

theorem MapRel.pbVec_int (R : MapRel SL SP m j F κs κv) (s : String) (k : Kind) (i : Nat) :
    IntPow (pbVec j s k i) = true := by
  cases k <;> simp only [pbVec]
  · rfl
  · exact IntPow_sum3 _ _ (fun l => IntPow_mul2 _ _ (R.invJ_int l i) rfl)
  · exact IntPow_mul2 _ _ (IntPow_sum3 _ _ (fun l => IntPow_mul2 _ _ (R.J_int i l) rfl)) R.invDet_int
  · exact IntPow_mul2 _ _ rfl R.invDet_int
  · rfl

theorem MapRel.pbVec_nd (R : MapRel SL SP m j F κs κv) (s : String) (k : Kind) (i : Nat) :
    NonDeg SL (pbVec j s k i) := by
  have hidx : ∀ l, NonDeg SL (idx (vf s k) l) := fun l => by simp [NonDeg]
  cases k <;> simp only [pbVec]
  · simp [NonDeg]
  · exact NonDeg_sum3 SL _ _ (fun l => NonDeg_mul2 SL _ _ (R.invJ_nd l i) (by simp [NonDeg]))
  · exact NonDeg_mul2 SL _ _ (NonDeg_sum3 SL _ _ (fun l => NonDeg_mul2 SL _ _ (R.J_nd i l) (by simp [NonDeg]))) R.invDet_nd
  · exact NonDeg_mul2 SL _ _ (by simp [NonDeg]) R.invDet_nd
  · simp [NonDeg]

/-- the `dx/dy/dz` rule: `Covariant(F, LogicalGrad(la))[i] = Σ_l (J⁻¹)_li ∂̂_l la` denotes the physical
    derivative of what `la` denotes -/
theorem MapRel.pd_case (R : MapRel SL SP m j F κs κv) (T : FnTable SL) (c : Coord) (hc : c.logical = false)
    (hci : c.idx < j.d) (la : E) (hi : IntPow la = true) (hn : NonDeg SL la) (g0 g1 g2 : E)
    (h0 : lgrad m j.d la 0 = .ok g0) (h1 : lgrad m j.d la 1 = .ok g1) (h2 : lgrad m j.d la 2 = .ok g2) :
    IntPow (sum3 j.d (fun l => mul [invJ j l c.idx, pick3 g0 g1 g2 l])) = true ∧
    NonDeg SL (sum3 j.d (fun l => mul [invJ j l c.idx, pick3 g0 g1 g2 l])) ∧
    ∀ x y, den SL (sum3 j.d (fun l => mul [invJ j l c.idx, pick3 g0 g1 g2 l])) x y
      = SP.D c (den SL la x y) := by
  unfold lgrad at h0 h1 h2
  have hpos := R.d_pos
  rw [if_pos (by omega)] at h0
  obtain ⟨a0, b0, c0⟩ := ldiff_all SL T m (lc 0) la hi hn g0 h0
  have A1 : IntPow g1 = true ∧ NonDeg SL g1 ∧ (1 < j.d → ∀ x y, den SL g1 x y = SL.D (lc 1) (den SL la x y)) := by
    split at h1
    · obtain ⟨a, b, c'⟩ := ldiff_all SL T m (lc 1) la hi hn g1 h1
      exact ⟨a, b, fun _ => c'⟩
    · rename_i hd
      injection h1 with h1; subst h1
      exact ⟨rfl, NonDeg_zero SL, fun h => absurd h hd⟩
  have A2 : IntPow g2 = true ∧ NonDeg SL g2 ∧ (2 < j.d → ∀ x y, den SL g2 x y = SL.D (lc 2) (den SL la x y)) := by
    split at h2
    · obtain ⟨a, b, c'⟩ := ldiff_all SL T m (lc 2) la hi hn g2 h2
      exact ⟨a, b, fun _ => c'⟩
    · rename_i hd
      injection h2 with h2; subst h2
      exact ⟨rfl, NonDeg_zero SL, fun h => absurd h hd⟩
  obtain ⟨a1, b1, c1⟩ := A1
  obtain ⟨a2, b2, c2⟩ := A2
  have gi : ∀ l, IntPow (pick3 g0 g1 g2 l) = true := by
    intro l; unfold pick3; split <;> assumption
  have gn : ∀ l, NonDeg SL (pick3 g0 g1 g2 l) := by
    intro l; unfold pick3; split <;> assumption
  refine ⟨IntPow_sum3 _ _ (fun l => IntPow_mul2 _ _ (R.invJ_int l c.idx) (gi l)),
    NonDeg_sum3 SL _ _ (fun l => NonDeg_mul2 SL _ _ (R.invJ_nd l c.idx) (gn l)), fun x y => ?_⟩
  rw [den_sum3 SL j.d R.d_le]
  have hcp : c = pc c.idx := pc_of_phys c hc
  have hch := R.chain c.idx hci (den SL la x y) x y
  rw [← hcp] at hch
  rw [hch]
  apply DRing.sumN_congr
  intro l hl
  rw [den_mul2]
  have hd := R.d_le
  match l, hl with
  | 0, _ => show _ * den SL g0 x y = _; rw [c0 x y]
  | 1, h => show _ * den SL g1 x y = _; rw [c1 h x y]
  | 2, h => show _ * den SL g2 x y = _; rw [c2 h x y]
  | l + 3, h => omega

end

end PB
end Sympde
