/-
  Lemmas about structural equality and simultaneous substitution (Model/Subst.lean), shared by
  C10 and C08.
-/
import SympdeModel.Model.Subst
namespace Sympde.Sub
open E

/-- `eqb` is sound: equal trees only -/
theorem eqb_eq (a b : E) (h : eqb a b = true) : a = b := by
  induction a using E.rec (motive_2 := fun as => ∀ bs, eqbList as bs = true → as = bs) generalizing b with
  | num p q => cases b <;> simp_all [eqb]
  | cst n => cases b <;> simp_all [eqb]
  | sym n => cases b <;> simp_all [eqb]
  | sf n k => cases b <;> simp_all [eqb]
  | vf n k => cases b <;> simp_all [eqb]
  | normal k => cases b <;> simp_all [eqb]
  | idx a i ih =>
    cases b <;> simp [eqb] at h
    rename_i b' i'
    rw [ih b' h.1, h.2]
  | add as ih => cases b <;> simp [eqb] at h; rw [ih _ h]
  | mul as ih => cases b <;> simp [eqb] at h; rw [ih _ h]
  | tup as ih => cases b <;> simp [eqb] at h; rw [ih _ h]
  | pow x y ihx ihy =>
    cases b <;> simp [eqb] at h
    rw [ihx _ h.1, ihy _ h.2]
  | fn f a ih =>
    cases b <;> simp [eqb] at h
    rw [h.1, ih _ h.2]
  | pd c a ih =>
    cases b <;> simp [eqb] at h
    rw [h.1, ih _ h.2]
  | op1 o a ih =>
    cases b <;> simp [eqb] at h
    rw [h.1, ih _ h.2]
  | op2 o x y ihx ihy =>
    cases b <;> simp [eqb] at h
    rw [h.1.1, ihx _ h.1.2, ihy _ h.2]
  | mat r c es ih =>
    cases b <;> simp [eqb] at h
    rw [h.1.1, h.1.2, ih _ h.2]
  | other t as ih =>
    cases b <;> simp [eqb] at h
    rw [h.1, ih _ h.2]
  | nil => rename_i bs h; cases bs <;> simp_all [eqbList]
  | cons a as iha ihas =>
    rename_i bs h
    cases bs with
    | nil => simp [eqbList] at h
    | cons b bs =>
      simp only [eqbList, Bool.and_eq_true] at h
      rw [iha b h.1, ihas bs h.2]

theorem eqb_refl (a : E) : eqb a a = true := by
  induction a using E.rec (motive_2 := fun as => eqbList as as = true) with
  | nil => rfl
  | cons a as iha ihas => simp [eqbList, iha, ihas]
  | _ => simp_all [eqb]

theorem eqb_iff (a b : E) : eqb a b = true ↔ a = b :=
  ⟨eqb_eq a b, fun h => h ▸ eqb_refl a⟩

theorem lookup_some {σ : Rule} {e v : E} (h : lookup σ e = some v) : (e, v) ∈ σ := by
  induction σ with
  | nil => simp [lookup] at h
  | cons p rest ih =>
    obtain ⟨k, w⟩ := p
    simp only [lookup] at h
    split at h
    · rename_i hk
      injection h with h
      rw [eqb_eq k e hk, h]; simp
    · exact List.mem_cons_of_mem _ (ih h)

theorem substList_eq (σ : Rule) (as : List E) : substList σ as = as.map (subst σ) := by
  induction as with
  | nil => rfl
  | cons a as ih => simp [substList, ih]

theorem occursList_eq (ks : List E) (as : List E) : occursList ks as = as.any (occurs ks) := by
  induction as with
  | nil => rfl
  | cons a as ih => simp [occursList, ih]

theorem lookup_none_of_not_key {σ : Rule} {e : E} (h : (σ.map (·.1)).any (eqb · e) = false) :
    lookup σ e = none := by
  induction σ with
  | nil => rfl
  | cons p rest ih =>
    obtain ⟨k, w⟩ := p
    simp only [List.map_cons, List.any_cons, Bool.or_eq_false_iff] at h
    simp [lookup, h.1, ih h.2]

/-- **nothing else is touched**: a tree in which no key occurs is left as it is -/
theorem subst_of_not_occurs (σ : Rule) (e : E) (h : occurs (σ.map (·.1)) e = false) : subst σ e = e := by
  induction e using E.rec
    (motive_2 := fun as => occursList (σ.map (·.1)) as = false → substList σ as = as) with
  | nil => rfl
  | cons a as iha ihas =>
    rename_i h
    simp only [occursList, Bool.or_eq_false_iff] at h
    simp [substList, iha h.1, ihas h.2]
  | idx b i ih =>
    simp only [occurs, Bool.or_eq_false_iff] at h
    simp [subst, lookup_none_of_not_key h.1, ih h.2]
  | add as ih =>
    simp only [occurs, Bool.or_eq_false_iff] at h
    simp [subst, lookup_none_of_not_key h.1, ih h.2]
  | mul as ih =>
    simp only [occurs, Bool.or_eq_false_iff] at h
    simp [subst, lookup_none_of_not_key h.1, ih h.2]
  | tup as ih =>
    simp only [occurs, Bool.or_eq_false_iff] at h
    simp [subst, lookup_none_of_not_key h.1, ih h.2]
  | mat r c es ih =>
    simp only [occurs, Bool.or_eq_false_iff] at h
    simp [subst, lookup_none_of_not_key h.1, ih h.2]
  | other t as ih =>
    simp only [occurs, Bool.or_eq_false_iff] at h
    simp [subst, lookup_none_of_not_key h.1, ih h.2]
  | pow x y ihx ihy =>
    simp only [occurs, Bool.or_eq_false_iff] at h
    simp [subst, lookup_none_of_not_key h.1.1, ihx h.1.2, ihy h.2]
  | op2 o x y ihx ihy =>
    simp only [occurs, Bool.or_eq_false_iff] at h
    simp [subst, lookup_none_of_not_key h.1.1, ihx h.1.2, ihy h.2]
  | fn f a ih =>
    simp only [occurs, Bool.or_eq_false_iff] at h
    simp [subst, lookup_none_of_not_key h.1, ih h.2]
  | pd c a ih =>
    simp only [occurs, Bool.or_eq_false_iff] at h
    simp [subst, lookup_none_of_not_key h.1, ih h.2]
  | op1 o a ih =>
    simp only [occurs, Bool.or_eq_false_iff] at h
    simp [subst, lookup_none_of_not_key h.1, ih h.2]
  | _ =>
    simp only [occurs] at h
    simp [subst, lookup_none_of_not_key h]

/-- **identity**: a rule that maps every key to itself changes nothing -/
theorem subst_id (σ : Rule) (hid : ∀ p ∈ σ, p.1 = p.2) (e : E) : subst σ e = e := by
  have hl : ∀ t v, lookup σ t = some v → v = t := by
    intro t v h
    have := hid _ (lookup_some h)
    exact this.symm
  have key : ∀ (t d : E), d = t → (lookup σ t).getD d = t := by
    intro t d hd
    cases h : lookup σ t with
    | none => simpa using hd
    | some v => simpa using hl t v h
  induction e using E.rec (motive_2 := fun as => substList σ as = as) with
  | nil => rfl
  | cons a as iha ihas => simp [substList, iha, ihas]
  | idx b i ih => simp only [subst]; exact key _ _ (by rw [ih])
  | add as ih => simp only [subst]; exact key _ _ (by rw [ih])
  | mul as ih => simp only [subst]; exact key _ _ (by rw [ih])
  | tup as ih => simp only [subst]; exact key _ _ (by rw [ih])
  | mat r c es ih => simp only [subst]; exact key _ _ (by rw [ih])
  | other t as ih => simp only [subst]; exact key _ _ (by rw [ih])
  | pow x y ihx ihy => simp only [subst]; exact key _ _ (by rw [ihx, ihy])
  | op2 o x y ihx ihy => simp only [subst]; exact key _ _ (by rw [ihx, ihy])
  | fn f a ih => simp only [subst]; exact key _ _ (by rw [ih])
  | pd c a ih => simp only [subst]; exact key _ _ (by rw [ih])
  | op1 o a ih => simp only [subst]; exact key _ _ (by rw [ih])
  | _ => simp only [subst]; exact key _ _ rfl

end Sympde.Sub
