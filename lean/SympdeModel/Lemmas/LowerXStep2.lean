/-
  Helper lemmas for C01 (`lower_sound_ext`), part 3b: the binary operator steps on extended scalar
  forms (the dispatch of Lemmas/LowerStep2.lean with the derivative budget; only the Poisson
  bracket differentiates its arguments).
-/
import SympdeModel.Lemmas.LowerXLeaf
import SympdeModel.Lemmas.LowerStep2
namespace Sympde.Lower
open E Gen
open DRing (sumN)

variable {K : Type} [CommRing K] [Algebra ℚ K]

/-- the order of a binary operator -/
def ord2 : Op2 → Nat
  | .bracket => 1
  | _ => 0

syntax "leaf2X_case " term ", " term ", " term ", " term ", " term ", " term ", " term ", " term ", " term : tactic
set_option hygiene false in
macro_rules
  | `(tactic| leaf2X_case $ca, $cb, $d, $hNa, $hNb, $hsiga, $hsigb, $prepa, $prepb) => `(tactic|
      first
      | (exfalso; simp [ty2] at hty; done)
      | (exfalso; simp at hτa; done)
      | (exfalso; simp at hτb; done)
      | (simp [ty2] at hty; subst hty
         refine leaf2_soundX S T $d (by decide) _ _ _ _ _ rfl _ $ca $cb _ (ph 0 $ca $d) (ph 1 $cb $d)
           (by rfl) (by rfl) (by rfl) (by rfl)
           (by first | exact Or.inl rfl | exact Or.inr (Or.inl rfl) | exact Or.inr (Or.inr (Or.inl rfl))
                     | exact Or.inr (Or.inr (Or.inr rfl)))
           (by rfl) (by rfl) (by rfl) (by rfl)
           (by first | exact Or.inl rfl | exact Or.inr ⟨rfl, rfl⟩) k _ (by decide)
           a b _ _ $hNa $hNb $hsiga $hsigb hra hrb ?_ ?_ IHa IHb t h
         all_goals (simp only [sigmaOf_two, $prepa:term, $prepb:term]; reads_tac)))

set_option maxRecDepth 100000 in
/-- both arguments lowered to scalar forms (the 2D bracket; 1D vectors returned as scalars) -/
theorem op2X_step_sc_sc (S : DRing K) (T : FnTable S) (d : Nat) (hd : d = 1 ∨ d = 2 ∨ d = 3) (lg : Bool) (o : Op2)
    (τa τb τ : Ty) (hty : ty2 d o τa τb = some τ) (a b a' b' : E)
    (hLSa : LX a' = true) (hLSb : LX b' = true) (hτa : τa = .s ∨ d = 1) (hτb : τb = .s ∨ d = 1)
    (k : Nat) (hNa : VN S (k + ord2 o) a') (hNb : VN S (k + ord2 o) b')
    (hra : rank d a = rk τa) (hrb : rank d b = rk τb)
    (IHa : ∀ i j, InR d τa i j → den S a' i j = denG S d lg a i j)
    (IHb : ∀ i j, InR d τb i j → den S b' i j = denG S d lg b i j) (t : E)
    (h : applyLeaf d (op2Name lg o d) [a', b'] = .ok t) :
    hasShapeX d τ t = true ∧ VN S k t ∧
      ∀ i j, InR d τ i j → den S t i j = denG S d lg (op2 o a b) i j := by
  have hσa := bindArg_LX_eq d 0 a' hLSa
  have hσb := bindArg_LX_eq d 1 b' hLSb
  rcases sigOf_LX d a' hLSa with hsa | ⟨hd1, hsa⟩ <;> rcases sigOf_LX d b' hLSb with hsb | ⟨hd1', hsb⟩
  · rcases hd with rfl | rfl | rfl
    · cases lg <;> cases o <;> cases τa <;> cases τb <;>
        leaf2X_case 's', 's', 1, hNa, hNb, hsa, hsb, hσa, hσb
    · cases lg <;> cases o <;> cases τa <;> cases τb <;>
        leaf2X_case 's', 's', 2, hNa, hNb, hsa, hsb, hσa, hσb
    · cases lg <;> cases o <;> cases τa <;> cases τb <;>
        leaf2X_case 's', 's', 3, hNa, hNb, hsa, hsb, hσa, hσb
  · subst hd1'
    cases lg <;> cases o <;> cases τa <;> cases τb <;>
      leaf2X_case 's', 'd', 1, hNa, hNb, hsa, hsb, hσa, hσb
  · subst hd1
    cases lg <;> cases o <;> cases τa <;> cases τb <;>
      leaf2X_case 'd', 's', 1, hNa, hNb, hsa, hsb, hσa, hσb
  · subst hd1
    cases lg <;> cases o <;> cases τa <;> cases τb <;>
      leaf2X_case 'd', 'd', 1, hNa, hNb, hsa, hsb, hσa, hσb

set_option maxRecDepth 100000 in
/-- dimension 1: a scalar form and a 1×1 matrix -/
theorem op2X_step_sc_vec (S : DRing K) (T : FnTable S) (lg : Bool) (o : Op2)
    (τa τb τ : Ty) (hty : ty2 1 o τa τb = some τ) (a b a' : E) (es : List E)
    (hLSa : LX a' = true)
    (k : Nat) (hNa : VN S (k + ord2 o) a') (hNb : VN S (k + ord2 o) (mat 1 1 es))
    (hra : rank 1 a = rk τa) (hrb : rank 1 b = rk τb)
    (IHa : ∀ i j, InR 1 τa i j → den S a' i j = denG S 1 lg a i j)
    (IHb : ∀ i j, InR 1 τb i j → den S (mat 1 1 es) i j = denG S 1 lg b i j) (t : E)
    (h : applyLeaf 1 (op2Name lg o 1) [a', mat 1 1 es] = .ok t) :
    hasShapeX 1 τ t = true ∧ VN S k t ∧
      ∀ i j, InR 1 τ i j → den S t i j = denG S 1 lg (op2 o a b) i j := by
  have hσa := bindArg_LX_eq 1 0 a' hLSa
  have hτa : True := trivial
  have hτb : True := trivial
  rcases sigOf_LX 1 a' hLSa with hsa | ⟨_, hsa⟩
  · cases lg <;> cases o <;> cases τa <;> cases τb <;>
      leaf2X_case 's', 'v', 1, hNa, hNb, hsa, (show sigOf 1 (mat 1 1 es) = some 'v' from rfl), hσa, hσa
  · cases lg <;> cases o <;> cases τa <;> cases τb <;>
      leaf2X_case 'd', 'v', 1, hNa, hNb, hsa, (show sigOf 1 (mat 1 1 es) = some 'v' from rfl), hσa, hσa

set_option maxRecDepth 100000 in
/-- dimension 1: a 1×1 matrix and a scalar form -/
theorem op2X_step_vec_sc (S : DRing K) (T : FnTable S) (lg : Bool) (o : Op2)
    (τa τb τ : Ty) (hty : ty2 1 o τa τb = some τ) (a b b' : E) (es : List E)
    (hLSb : LX b' = true)
    (k : Nat) (hNa : VN S (k + ord2 o) (mat 1 1 es)) (hNb : VN S (k + ord2 o) b')
    (hra : rank 1 a = rk τa) (hrb : rank 1 b = rk τb)
    (IHa : ∀ i j, InR 1 τa i j → den S (mat 1 1 es) i j = denG S 1 lg a i j)
    (IHb : ∀ i j, InR 1 τb i j → den S b' i j = denG S 1 lg b i j) (t : E)
    (h : applyLeaf 1 (op2Name lg o 1) [mat 1 1 es, b'] = .ok t) :
    hasShapeX 1 τ t = true ∧ VN S k t ∧
      ∀ i j, InR 1 τ i j → den S t i j = denG S 1 lg (op2 o a b) i j := by
  have hσb := bindArg_LX_eq 1 1 b' hLSb
  have hτa : True := trivial
  have hτb : True := trivial
  rcases sigOf_LX 1 b' hLSb with hsb | ⟨_, hsb⟩
  · cases lg <;> cases o <;> cases τa <;> cases τb <;>
      leaf2X_case 'v', 's', 1, hNa, hNb, (show sigOf 1 (mat 1 1 es) = some 'v' from rfl), hsb, hσb, hσb
  · cases lg <;> cases o <;> cases τa <;> cases τb <;>
      leaf2X_case 'v', 'd', 1, hNa, hNb, (show sigOf 1 (mat 1 1 es) = some 'v' from rfl), hsb, hσb, hσb

set_option maxRecDepth 100000 in
/-- two columns (in 1D: two 1×1 matrices, whatever their types) -/
theorem op2X_step_vec_vec (S : DRing K) (T : FnTable S) (d : Nat) (hd : d = 1 ∨ d = 2 ∨ d = 3) (lg : Bool) (o : Op2)
    (τa τb τ : Ty) (hty : ty2 d o τa τb = some τ) (a b : E) (es es' : List E)
    (hτa : τa = .v ∨ (τa = .m ∧ d = 1)) (hτb : τb = .v ∨ (τb = .m ∧ d = 1))
    (k : Nat) (hNa : VN S (k + ord2 o) (mat d 1 es)) (hNb : VN S (k + ord2 o) (mat d 1 es'))
    (hra : rank d a = rk τa) (hrb : rank d b = rk τb)
    (IHa : ∀ i j, InR d τa i j → den S (mat d 1 es) i j = denG S d lg a i j)
    (IHb : ∀ i j, InR d τb i j → den S (mat d 1 es') i j = denG S d lg b i j) (t : E)
    (h : applyLeaf d (op2Name lg o d) [mat d 1 es, mat d 1 es'] = .ok t) :
    hasShapeX d τ t = true ∧ VN S k t ∧
      ∀ i j, InR d τ i j → den S t i j = denG S d lg (op2 o a b) i j := by
  rcases hd with rfl | rfl | rfl
  · cases lg <;> cases o <;> cases τa <;> cases τb <;>
      leaf2X_case 'v', 'v', 1, hNa, hNb, (show sigOf 1 (mat 1 1 es) = some 'v' from rfl),
        (show sigOf 1 (mat 1 1 es') = some 'v' from rfl), sigmaOf_two, sigmaOf_two
  · cases lg <;> cases o <;> cases τa <;> cases τb <;>
      leaf2X_case 'v', 'v', 2, hNa, hNb, (show sigOf 2 (mat 2 1 es) = some 'v' from rfl),
        (show sigOf 2 (mat 2 1 es') = some 'v' from rfl), sigmaOf_two, sigmaOf_two
  · cases lg <;> cases o <;> cases τa <;> cases τb <;>
      leaf2X_case 'v', 'v', 3, hNa, hNb, (show sigOf 3 (mat 3 1 es) = some 'v' from rfl),
        (show sigOf 3 (mat 3 1 es') = some 'v' from rfl), sigmaOf_two, sigmaOf_two

set_option maxRecDepth 100000 in
/-- a square matrix and a column, dimension 2 or 3 -/
theorem op2X_step_mat_vec (S : DRing K) (T : FnTable S) (d : Nat) (hd : d = 2 ∨ d = 3) (lg : Bool) (o : Op2)
    (τa τb τ : Ty) (hty : ty2 d o τa τb = some τ) (a b : E) (es es' : List E)
    (hτa : τa = .m) (hτb : τb = .v)
    (k : Nat) (hNa : VN S (k + ord2 o) (mat d d es)) (hNb : VN S (k + ord2 o) (mat d 1 es'))
    (hra : rank d a = rk τa) (hrb : rank d b = rk τb)
    (IHa : ∀ i j, InR d τa i j → den S (mat d d es) i j = denG S d lg a i j)
    (IHb : ∀ i j, InR d τb i j → den S (mat d 1 es') i j = denG S d lg b i j) (t : E)
    (h : applyLeaf d (op2Name lg o d) [mat d d es, mat d 1 es'] = .ok t) :
    hasShapeX d τ t = true ∧ VN S k t ∧
      ∀ i j, InR d τ i j → den S t i j = denG S d lg (op2 o a b) i j := by
  rcases hd with rfl | rfl
  · cases lg <;> cases o <;> cases τa <;> cases τb <;>
      leaf2X_case 'm', 'v', 2, hNa, hNb, (show sigOf 2 (mat 2 2 es) = some 'm' from rfl),
        (show sigOf 2 (mat 2 1 es') = some 'v' from rfl), sigmaOf_two, sigmaOf_two
  · cases lg <;> cases o <;> cases τa <;> cases τb <;>
      leaf2X_case 'm', 'v', 3, hNa, hNb, (show sigOf 3 (mat 3 3 es) = some 'm' from rfl),
        (show sigOf 3 (mat 3 1 es') = some 'v' from rfl), sigmaOf_two, sigmaOf_two

set_option maxRecDepth 100000 in
/-- a column and a square matrix, dimension 2 or 3 -/
theorem op2X_step_vec_mat (S : DRing K) (T : FnTable S) (d : Nat) (hd : d = 2 ∨ d = 3) (lg : Bool) (o : Op2)
    (τa τb τ : Ty) (hty : ty2 d o τa τb = some τ) (a b : E) (es es' : List E)
    (hτa : τa = .v) (hτb : τb = .m)
    (k : Nat) (hNa : VN S (k + ord2 o) (mat d 1 es)) (hNb : VN S (k + ord2 o) (mat d d es'))
    (hra : rank d a = rk τa) (hrb : rank d b = rk τb)
    (IHa : ∀ i j, InR d τa i j → den S (mat d 1 es) i j = denG S d lg a i j)
    (IHb : ∀ i j, InR d τb i j → den S (mat d d es') i j = denG S d lg b i j) (t : E)
    (h : applyLeaf d (op2Name lg o d) [mat d 1 es, mat d d es'] = .ok t) :
    hasShapeX d τ t = true ∧ VN S k t ∧
      ∀ i j, InR d τ i j → den S t i j = denG S d lg (op2 o a b) i j := by
  rcases hd with rfl | rfl
  · cases lg <;> cases o <;> cases τa <;> cases τb <;>
      leaf2X_case 'v', 'm', 2, hNa, hNb, (show sigOf 2 (mat 2 1 es) = some 'v' from rfl),
        (show sigOf 2 (mat 2 2 es') = some 'm' from rfl), sigmaOf_two, sigmaOf_two
  · cases lg <;> cases o <;> cases τa <;> cases τb <;>
      leaf2X_case 'v', 'm', 3, hNa, hNb, (show sigOf 3 (mat 3 1 es) = some 'v' from rfl),
        (show sigOf 3 (mat 3 3 es') = some 'm' from rfl), sigmaOf_two, sigmaOf_two

set_option maxRecDepth 100000 in
/-- two square matrices, dimension 2 or 3 -/
theorem op2X_step_mat_mat (S : DRing K) (T : FnTable S) (d : Nat) (hd : d = 2 ∨ d = 3) (lg : Bool) (o : Op2)
    (τa τb τ : Ty) (hty : ty2 d o τa τb = some τ) (a b : E) (es es' : List E)
    (hτa : τa = .m) (hτb : τb = .m)
    (k : Nat) (hNa : VN S (k + ord2 o) (mat d d es)) (hNb : VN S (k + ord2 o) (mat d d es'))
    (hra : rank d a = rk τa) (hrb : rank d b = rk τb)
    (IHa : ∀ i j, InR d τa i j → den S (mat d d es) i j = denG S d lg a i j)
    (IHb : ∀ i j, InR d τb i j → den S (mat d d es') i j = denG S d lg b i j) (t : E)
    (h : applyLeaf d (op2Name lg o d) [mat d d es, mat d d es'] = .ok t) :
    hasShapeX d τ t = true ∧ VN S k t ∧
      ∀ i j, InR d τ i j → den S t i j = denG S d lg (op2 o a b) i j := by
  rcases hd with rfl | rfl
  · cases lg <;> cases o <;> cases τa <;> cases τb <;>
      leaf2X_case 'm', 'm', 2, hNa, hNb, (show sigOf 2 (mat 2 2 es) = some 'm' from rfl),
        (show sigOf 2 (mat 2 2 es') = some 'm' from rfl), sigmaOf_two, sigmaOf_two
  · cases lg <;> cases o <;> cases τa <;> cases τb <;>
      leaf2X_case 'm', 'm', 3, hNa, hNb, (show sigOf 3 (mat 3 3 es) = some 'm' from rfl),
        (show sigOf 3 (mat 3 3 es') = some 'm' from rfl), sigmaOf_two, sigmaOf_two

end Sympde.Lower
