/-
  Helper lemmas for C17, part 2: order bookkeeping.  The independent definition of the true
  maximal derivative order (`trueMax`, full traversal of the tree), suprema of lists of
  naturals, and the facts about `findPd` / `sortPd` / `funAtoms` / `canon` needed to compare it
  with `maxOrders`.
-/
import SympdeModel.Model.Atoms
namespace Sympde.Atoms
open E

/-! ### the specification -/

/-- number of derivatives in direction `c` along the chain starting at this node -/
def spineCount (c : Coord) : E → Nat
  | pd c' a => (if c' == c then 1 else 0) + spineCount c a
  | _ => 0

/-- does the chain belong to the requested function (`none` = any function) -/
def matchF (F : Option E) (a : E) : Bool :=
  match F with
  | none => true
  | some f => sameAtom a f

/-- the order in direction `c` contributed by the maximal chain `i`: its number of `c`
    derivatives when it is applied to a (the requested) function or vector component -/
def chainVal (c : Coord) (F : Option E) (i : E) : Nat :=
  if isFunAtom (stripAll i) && matchF F (stripAll i) then spineCount c i else 0

mutual
/-- **true maximal order** in direction `c` (for function `F`, or overall): the maximum, over all
    maximal derivative chains found by a full traversal of the tree, of the number of `c`
    derivatives of the chain -/
def trueMax (c : Coord) (F : Option E) : E → Nat
  | pd c' a => chainVal c F (pd c' a)
  | add as => trueMaxList c F as
  | mul as => trueMaxList c F as
  | pow b e => max (trueMax c F b) (trueMax c F e)
  | fn _ a => trueMax c F a
  | idx b _ => trueMax c F b
  | op1 _ a => trueMax c F a
  | op2 _ a b => max (trueMax c F a) (trueMax c F b)
  | mat _ _ es => trueMaxList c F es
  | tup as => trueMaxList c F as
  | other _ as => trueMaxList c F as
  | _ => 0
def trueMaxList (c : Coord) (F : Option E) : List E → Nat
  | [] => 0
  | a :: as => max (trueMax c F a) (trueMaxList c F as)
end

/-! ### suprema -/

def supNat (l : List Nat) : Nat := l.foldl max 0

theorem foldl_max_init (l : List Nat) (m : Nat) : l.foldl max m = max m (l.foldl max 0) := by
  induction l generalizing m with
  | nil => simp
  | cons a l ih =>
    simp only [List.foldl_cons]
    rw [ih (max m a), ih (max 0 a)]
    omega

theorem supNat_nil : supNat [] = 0 := rfl

theorem supNat_cons (a : Nat) (l : List Nat) : supNat (a :: l) = max a (supNat l) := by
  unfold supNat
  simp only [List.foldl_cons]
  rw [foldl_max_init]
  omega

theorem supNat_append (l1 l2 : List Nat) : supNat (l1 ++ l2) = max (supNat l1) (supNat l2) := by
  induction l1 with
  | nil => simp [supNat_nil]
  | cons a l ih => simp only [List.cons_append, supNat_cons, ih]; omega

theorem le_supNat {l : List Nat} {x : Nat} (h : x ∈ l) : x ≤ supNat l := by
  induction l with
  | nil => cases h
  | cons a l ih =>
    rw [supNat_cons]
    rcases List.mem_cons.mp h with rfl | h
    · omega
    · have := ih h; omega

theorem supNat_le {l : List Nat} {b : Nat} (h : ∀ x ∈ l, x ≤ b) : supNat l ≤ b := by
  induction l with
  | nil => simp [supNat_nil]
  | cons a l ih =>
    rw [supNat_cons]
    have := h a (by simp)
    have := ih (fun x hx => h x (by simp [hx]))
    omega

/-- component `k` of a triple -/
def comp3 (k : Nat) (t : Nat × Nat × Nat) : Nat :=
  match k with
  | 0 => t.1
  | 1 => t.2.1
  | _ => t.2.2

theorem comp3_max3 (k : Nat) (a b : Nat × Nat × Nat) : comp3 k (max3 a b) = max (comp3 k a) (comp3 k b) := by
  unfold comp3 max3
  split <;> rfl

theorem comp3_foldl (k : Nat) (l : List (Nat × Nat × Nat)) (z : Nat × Nat × Nat) :
    comp3 k (l.foldl max3 z) = (l.map (comp3 k)).foldl max (comp3 k z) := by
  induction l generalizing z with
  | nil => rfl
  | cons a l ih => simp only [List.foldl_cons, List.map_cons, ih, comp3_max3]

theorem comp3_indexOf (lg : Bool) (k : Nat) (i : E) :
    comp3 k (indexOf lg i) = countPd (Coord.ofIdx lg k) i := by
  unfold comp3 indexOf
  match k with
  | 0 => rfl
  | 1 => rfl
  | k + 2 => simp [Coord.ofIdx]

/-! ### chains -/

theorem stripAll_not_pd (e : E) : ∀ c a, stripAll e ≠ pd c a := by
  induction e using E.rec (motive_2 := fun _ => True) with
  | pd c a ih => intro c' a'; simpa [stripAll] using ih c' a'
  | nil => trivial
  | cons _ _ _ _ => trivial
  | _ => intro c a h; simp [stripAll] at h

/-- when stripping one kind reaches something that is not a derivative, everything is stripped -/
theorem stripKind_eq_stripAll (lg : Bool) (e : E) (h : ∀ c a, stripKind lg e ≠ pd c a) :
    stripAll e = stripKind lg e := by
  induction e using E.rec (motive_2 := fun _ => True) with
  | pd c a ih =>
    by_cases hc : c.logical = lg
    · simp only [stripKind, hc, beq_self_eq_true, if_true, stripAll] at h ⊢
      exact ih h
    · have : (c.logical == lg) = false := by simpa using hc
      simp only [stripKind, this, Bool.false_eq_true, if_false] at h
      exact absurd rfl (h c a)
  | nil => trivial
  | cons _ _ _ _ => trivial
  | _ => rfl

theorem isFunAtom_not_pd {f : E} (h : isFunAtom f = true) : ∀ c a, f ≠ pd c a := by
  intro c a he; subst he; simp [isFunAtom] at h

theorem countPd_funAtom (c : Coord) (f : E) (h : isFunAtom f = true) : countPd c f = 0 := by
  cases f with
  | sf n k => simp [countPd]
  | idx b i =>
    cases b with
    | vf n k => simp [countPd]
    | _ => simp [isFunAtom] at h
  | _ => simp [isFunAtom] at h

/-- on a chain over a function, counting everywhere is counting along the spine -/
theorem countPd_chain (c : Coord) (e : E) (h : isFunAtom (stripAll e) = true) :
    countPd c e = spineCount c e := by
  induction e using E.rec (motive_2 := fun _ => True) with
  | pd c' a ih =>
    simp only [stripAll] at h
    simp only [countPd, spineCount, ih h]
  | nil => trivial
  | cons _ _ _ _ => trivial
  | _ => simp only [stripAll] at h; rw [countPd_funAtom _ _ h]; simp [spineCount]

/-! ### equality of atoms -/

theorem sameAtom_eq {x f : E} (hf : isFunAtom f = true) (h : sameAtom x f = true) : x = f := by
  cases f with
  | sf n k =>
    cases x <;> simp_all [sameAtom, isAtomLike]
  | idx b i =>
    cases b with
    | vf n k =>
      cases x with
      | idx b' i' =>
        cases b' <;> simp_all [sameAtom, isAtomLike]
      | _ => simp_all [sameAtom, isAtomLike]
    | _ => simp [isFunAtom] at hf
  | _ => simp [isFunAtom] at hf

theorem sameAtom_refl {f : E} (hf : isFunAtom f = true) : sameAtom f f = true := by
  cases f with
  | sf n k => simp [sameAtom]
  | idx b i =>
    cases b with
    | vf n k => simp [sameAtom]
    | _ => simp [isFunAtom] at hf
  | _ => simp [isFunAtom] at hf

/-! ### traversals -/

theorem findPdList_eq (as : List E) : findPdList as = as.flatMap findPd := by
  induction as with
  | nil => rfl
  | cons a as ih => simp [findPdList, ih]

theorem trueMaxList_eq (c : Coord) (F : Option E) (as : List E) :
    trueMaxList c F as = supNat (as.map (trueMax c F)) := by
  induction as with
  | nil => rfl
  | cons a as ih => simp [trueMaxList, supNat_cons, ih]

/-- the full traversal of `trueMax` visits exactly the chains returned by `findPd` -/
theorem trueMax_eq_sup (c : Coord) (F : Option E) (e : E) :
    trueMax c F e = supNat ((findPd e).map (chainVal c F)) := by
  induction e using E.rec
    (motive_2 := fun as => trueMaxList c F as = supNat ((findPdList as).map (chainVal c F))) with
  | pd c' a _ => simp [trueMax, findPd, supNat_cons, supNat_nil]
  | add as ih => simpa [trueMax, findPd] using ih
  | mul as ih => simpa [trueMax, findPd] using ih
  | tup as ih => simpa [trueMax, findPd] using ih
  | mat r c' es ih => simpa [trueMax, findPd] using ih
  | other t as ih => simpa [trueMax, findPd] using ih
  | pow b e ihb ihe => simp [trueMax, findPd, supNat_append, ihb, ihe]
  | op2 o a b iha ihb => simp [trueMax, findPd, supNat_append, iha, ihb]
  | fn f a ih => simpa [trueMax, findPd] using ih
  | idx b i ih => simpa [trueMax, findPd] using ih
  | op1 o a ih => simpa [trueMax, findPd] using ih
  | nil => rfl
  | cons a as iha ihas => simp [trueMaxList, findPdList, supNat_append, iha, ihas]
  | _ => simp [trueMax, findPd, supNat_nil]

/-- in a canonical kernel every chain is applied to a function or component -/
theorem canon_chains (e : E) (h : canon e = true) : ∀ i ∈ findPd e, isFunAtom (stripAll i) = true := by
  induction e using E.rec
    (motive_2 := fun as => canonList as = true → ∀ i ∈ findPdList as, isFunAtom (stripAll i) = true) with
  | pd c a _ => intro i hi; simp only [findPd, List.mem_singleton] at hi; subst hi; simpa [canon] using h
  | add as ih => simpa [findPd] using ih (by simpa [canon] using h)
  | mul as ih => simpa [findPd] using ih (by simpa [canon] using h)
  | tup as ih => simpa [findPd] using ih (by simpa [canon] using h)
  | mat r c es ih => simpa [findPd] using ih (by simpa [canon] using h)
  | other t as ih => simpa [findPd] using ih (by simpa [canon] using h)
  | pow b e ihb ihe =>
    simp only [canon, Bool.and_eq_true] at h
    intro i hi
    simp only [findPd, List.mem_append] at hi
    rcases hi with hi | hi
    · exact ihb h.1 i hi
    · exact ihe h.2 i hi
  | op2 o a b iha ihb =>
    simp only [canon, Bool.and_eq_true] at h
    intro i hi
    simp only [findPd, List.mem_append] at hi
    rcases hi with hi | hi
    · exact iha h.1 i hi
    · exact ihb h.2 i hi
  | fn f a ih => simpa [findPd] using ih (by simpa [canon] using h)
  | idx b i ih => simpa [findPd] using ih (by simpa [canon] using h)
  | op1 o a ih => simpa [findPd] using ih (by simpa [canon] using h)
  | nil => rename_i h i hi; simp [findPdList] at hi
  | cons a as iha ihas =>
    rename_i h i hi
    simp only [canonList, Bool.and_eq_true] at h
    simp only [findPdList, List.mem_append] at hi
    rcases hi with hi | hi
    · exact iha h.1 i hi
    · exact ihas h.2 i hi
  | _ => intro i hi; simp [findPd] at hi

theorem funAtoms_stripAll (e : E) (h : isFunAtom (stripAll e) = true) : stripAll e ∈ funAtoms e := by
  induction e using E.rec (motive_2 := fun _ => True) with
  | pd c a ih => simp only [stripAll] at h ⊢; simpa [funAtoms] using ih h
  | sf n k => simp [stripAll, funAtoms]
  | idx b i => simp [stripAll, funAtoms]
  | nil => trivial
  | cons _ _ _ _ => trivial
  | _ => simp [stripAll, isFunAtom] at h

/-- the atom of every chain over a function is among the collected function atoms -/
theorem chain_atom_mem (e : E) : ∀ i ∈ findPd e, isFunAtom (stripAll i) = true → stripAll i ∈ funAtoms e := by
  induction e using E.rec
    (motive_2 := fun as => ∀ i ∈ findPdList as, isFunAtom (stripAll i) = true → stripAll i ∈ funAtomsList as) with
  | pd c a _ =>
    intro i hi hf
    simp only [findPd, List.mem_singleton] at hi
    subst hi
    exact funAtoms_stripAll _ hf
  | add as ih => simpa [findPd, funAtoms] using ih
  | mul as ih => simpa [findPd, funAtoms] using ih
  | tup as ih => simpa [findPd, funAtoms] using ih
  | mat r c es ih => simpa [findPd, funAtoms] using ih
  | other t as ih => simpa [findPd, funAtoms] using ih
  | pow b e ihb ihe =>
    intro i hi hf
    simp only [findPd, List.mem_append] at hi
    simp only [funAtoms, List.mem_append]
    rcases hi with hi | hi
    · exact Or.inl (ihb i hi hf)
    · exact Or.inr (ihe i hi hf)
  | op2 o a b iha ihb =>
    intro i hi hf
    simp only [findPd, List.mem_append] at hi
    simp only [funAtoms, List.mem_append]
    rcases hi with hi | hi
    · exact Or.inl (iha i hi hf)
    · exact Or.inr (ihb i hi hf)
  | fn f a ih => simpa [findPd, funAtoms] using ih
  | idx b i ih =>
    intro j hj hf
    simp only [findPd] at hj
    simp only [funAtoms, List.mem_cons]
    exact Or.inr (ih j hj hf)
  | op1 o a ih => simpa [findPd, funAtoms] using ih
  | nil => rename_i i hi hf; simp [findPdList] at hi
  | cons a as iha ihas =>
    rename_i i hi hf
    simp only [findPdList, List.mem_append] at hi
    simp only [funAtomsList, List.mem_append]
    rcases hi with hi | hi
    · exact Or.inl (iha i hi hf)
    · exact Or.inr (ihas i hi hf)
  | _ => intro i hi; simp [findPd] at hi

/-! ### `sortPd` is a rearrangement of `findPd` -/

theorem mem_insertDesc (k y : Nat) (l : List Nat) : y ∈ insertDesc k l ↔ y = k ∨ y ∈ l := by
  induction l with
  | nil => simp [insertDesc]
  | cons x xs ih =>
    unfold insertDesc
    split
    · rename_i h
      have : k = x := by simpa using h
      subst this
      simp
    · split
      · simp
      · simp only [List.mem_cons, ih]
        constructor
        · rintro (h | h | h)
          · exact Or.inr (Or.inl h)
          · exact Or.inl h
          · exact Or.inr (Or.inr h)
        · rintro (h | h | h)
          · exact Or.inr (Or.inl h)
          · exact Or.inl h
          · exact Or.inr (Or.inr h)

theorem mem_foldl_insertDesc (ks acc : List Nat) (y : Nat) :
    y ∈ ks.foldl (fun acc k => insertDesc k acc) acc ↔ y ∈ ks ∨ y ∈ acc := by
  induction ks generalizing acc with
  | nil => simp
  | cons k ks ih =>
    simp only [List.foldl_cons, ih, mem_insertDesc, List.mem_cons]
    constructor
    · rintro (h | h | h)
      · exact Or.inl (Or.inr h)
      · exact Or.inl (Or.inl h)
      · exact Or.inr h
    · rintro ((h | h) | h)
      · exact Or.inr (Or.inl h)
      · exact Or.inl h
      · exact Or.inr (Or.inr h)

theorem mem_sortPd (e x : E) : x ∈ sortPd e ↔ x ∈ findPd e := by
  unfold sortPd
  simp only [List.mem_flatMap, List.mem_filter, beq_iff_eq]
  constructor
  · rintro ⟨k, _, hx, _⟩; exact hx
  · intro hx
    refine ⟨numD x, ?_, hx, rfl⟩
    rw [mem_foldl_insertDesc]
    exact Or.inl (List.mem_map.mpr ⟨x, hx, rfl⟩)

/-- what `maxOrders` computes, as a supremum -/
theorem maxOrders_comp (lg : Bool) (e : E) (F : Option E) (k : Nat) :
    comp3 k (maxOrders lg e F) = supNat (((match F with
      | none => (funAtoms e).flatMap (indexAtom lg e)
      | some f => indexAtom lg e f)).map (comp3 k)) := by
  unfold maxOrders supNat
  simp only
  rw [comp3_foldl]
  cases k with
  | zero => rfl
  | succ k => cases k <;> rfl


end Sympde.Atoms
