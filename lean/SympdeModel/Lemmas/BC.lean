/-
  Helper lemmas for C18 (Model/BC.lean): the independent description of the admitted
  left-hand sides (`Shape`) and the specification of the per-face normalisation.
-/
import SympdeModel.Model.BC
namespace Sympde.BC
open Lhs

/-- The four admitted shapes of the statement: `u`, `u[i]`, `u.n`, `grad(u).n`. -/
inductive Shape where
  | value (f : Fn)
  | component (f : Fn) (i : Nat)
  | normalComp (f : Fn) (n : String)
  | normalDeriv (f : Fn) (n : String)
  deriving Repr, DecidableEq

/-- `lhs` is written in shape `s` (a `Dot` may be written with its arguments in either order) -/
def Shape.lhsIs : Shape → Lhs → Prop
  | .value f, lhs => lhs = fn f
  | .component f i, lhs => f.isVector = true ∧ lhs = idx f i
  | .normalComp f n, lhs =>
      f.isVector = true ∧ (lhs = dot (fn f) (normal n) ∨ lhs = dot (normal n) (fn f))
  | .normalDeriv f n, lhs => lhs = dot (grad (fn f)) (normal n) ∨ lhs = dot (normal n) (grad (fn f))

/-- order: 0 = value / component / normal component, 1 = normal derivative -/
def Shape.order : Shape → Nat
  | .normalDeriv _ _ => 1
  | _ => 0

/-- the constrained unknown -/
def Shape.var : Shape → Fn
  | .value f => f
  | .component f _ => f
  | .normalComp f _ => f
  | .normalDeriv f _ => f

/-- the constrained components (`ic0` = the `index_component` argument of the constructor) -/
def Shape.ic (ic0 : Option (List Nat)) : Shape → Option (List Nat)
  | .value f => if f.isVector then some (List.range f.ldim) else ic0
  | .component _ i => some [i]
  | .normalComp _ _ => ic0
  | .normalDeriv _ _ => ic0

/-- the normal flag -/
def Shape.normal : Shape → Bool
  | .value _ => false
  | .component _ _ => false
  | .normalComp _ _ => true
  | .normalDeriv f _ => f.isVector

/-- the condition object the statement prescribes for shape `s` -/
def Shape.cond (s : Shape) (lhs : Lhs) (rhs : String) (b : Bnd) (p : Option Nat)
    (ic0 : Option (List Nat)) : Cond :=
  { lhs, rhs, boundary := b, order := s.order, var := s.var, normalComponent := s.normal,
    indexComponent := s.ic ic0, position := p }

theorem Shape.ic_idem (s : Shape) (ic0 : Option (List Nat)) : s.ic (s.ic ic0) = s.ic ic0 := by
  cases s <;> simp [Shape.ic]
  intro h1 h2; simp [h1] at h2

/-! ### `eqv` against the candidate expressions -/

theorem eqv_fn (lhs : Lhs) (f : Fn) : eqv lhs (fn f) = true ↔ lhs = fn f := by
  cases lhs <;> simp [eqv]

theorem eqv_idx (lhs : Lhs) (f : Fn) (i : Nat) : eqv lhs (idx f i) = true ↔ lhs = idx f i := by
  cases lhs <;> simp [eqv]

theorem eqv_dot (lhs a b : Lhs) : eqv lhs (dot a b) = true ↔ lhs = dot a b ∨ lhs = dot b a := by
  cases lhs <;> simp [eqv]

/-! ### the function singled out by the classification -/

theorem theFunction_shape (lhs u : Lhs) (h : theFunction lhs = .ok u) :
    (∃ f, u = fn f) ∨ (∃ f i, u = idx f i) := by
  unfold theFunction at h
  simp only at h
  split at h
  · rename_i u' heq
    have hu : u' = u := by injection h
    subst hu
    have hm : u' ∈ (scalarAtoms lhs).map fn ++
        (if (indexedAtoms lhs).isEmpty then (vectorAtoms lhs).map fn
         else (indexedAtoms lhs).map (fun p => idx p.1 p.2)) := by rw [heq]; simp
    rcases List.mem_append.mp hm with hm | hm
    · obtain ⟨f, _, rfl⟩ := List.mem_map.mp hm
      exact Or.inl ⟨f, rfl⟩
    · split at hm
      · obtain ⟨f, _, rfl⟩ := List.mem_map.mp hm
        exact Or.inl ⟨f, rfl⟩
      · obtain ⟨p, _, rfl⟩ := List.mem_map.mp hm
        exact Or.inr ⟨p.1, p.2, rfl⟩
  · cases h

/-! ### position lookup -/

theorem indexOf_spec (v : Fn) (ts : List Fn) (p : Nat) (h : indexOf v ts = some p) :
    ∃ t, ts[p]? = some t ∧ t.same v = true ∧ ∀ q, q < p → ∀ t', ts[q]? = some t' → t'.same v = false := by
  induction ts generalizing p with
  | nil => simp [indexOf] at h
  | cons t ts ih =>
    unfold indexOf at h
    split at h
    · rename_i hs
      injection h with h
      subst h
      exact ⟨t, by simp, hs, by intro q hq; omega⟩
    · rename_i hs
      cases hi : indexOf v ts with
      | none => simp [hi] at h
      | some p' =>
        simp [hi] at h
        subst h
        obtain ⟨t0, h0, h1, h2⟩ := ih p' hi
        refine ⟨t0, by simpa using h0, h1, ?_⟩
        intro q hq t' ht'
        cases q with
        | zero => simp at ht'; subst ht'; simpa using hs
        | succ q => exact h2 q (by omega) t' (by simpa using ht')

theorem indexOf_none (v : Fn) (ts : List Fn) (h : indexOf v ts = none) :
    ∀ t ∈ ts, t.same v = false := by
  induction ts with
  | nil => simp
  | cons t ts ih =>
    unfold indexOf at h
    split at h
    · cases h
    · rename_i hs
      cases hi : indexOf v ts with
      | some p => simp [hi] at h
      | none =>
        intro t' ht'
        rcases List.mem_cons.mp ht' with rfl | ht'
        · simpa using hs
        · exact ih hi t' ht'

/-! ### the specification of the normalisation -/

def facesOf : Bnd → List String
  | .face j => [j]
  | .union js => js

/-- what the statement prescribes for one declared condition: one copy per face, everything
    else equal, the position being the index of the unknown among the trial functions -/
def normalise (trials : List Fn) (c : Cond) : List Cond :=
  (facesOf c.boundary).map fun j =>
    { c with boundary := .face j, position := indexOf c.var trials }

/-- `c` is an EssentialBC object: it was produced by the constructor -/
def IsCond (c : Cond) : Prop :=
  ∃ p0 ic0, mkCond c.lhs c.rhs c.boundary p0 ic0 = .ok c

/-! ### operation sequences (heap of condition objects) -/

/-- every address stored in an equation points into the heap -/
def World.WF (w : World) : Prop := ∀ e ∈ w.eqs, ∀ a ∈ e.2, a < w.heap.length

theorem getAll_congr (h h' : List Cond) (as : List Nat) (hh : ∀ a ∈ as, h'[a]? = h[a]?) :
    getAll h' as = getAll h as := by
  induction as with
  | nil => rfl
  | cons a as ih =>
    simp only [getAll]
    rw [hh a (by simp), ih (fun b hb => hh b (by simp [hb]))]

theorem setPos_length (h : List Cond) (a p : Nat) : (setPos h a p).length = h.length := by
  induction h generalizing a with
  | nil => rfl
  | cons c cs ih => cases a <;> simp [setPos, ih]

theorem setPos_get_ne (h : List Cond) (a b p : Nat) (hne : b ≠ a) : (setPos h a p)[b]? = h[b]? := by
  induction h generalizing a b with
  | nil => rfl
  | cons c cs ih =>
    cases a with
    | zero =>
      cases b with
      | zero => exact absurd rfl hne
      | succ b => simp [setPos]
    | succ a =>
      cases b with
      | zero => simp [setPos]
      | succ b => simp [setPos, ih a b (by omega)]

theorem freshAddrs_mem (n k a : Nat) (h : a ∈ freshAddrs n k) : n ≤ a ∧ a < n + k := by
  induction k generalizing n with
  | zero => simp [freshAddrs] at h
  | succ k ih =>
    simp only [freshAddrs, List.mem_cons] at h
    rcases h with rfl | h
    · omega
    · have := ih (n + 1) h; omega

theorem getAll_fresh (h out : List Cond) : getAll (h ++ out) (freshAddrs h.length out.length) = some out := by
  induction out generalizing h with
  | nil => rfl
  | cons c cs ih =>
    simp only [List.length_cons, freshAddrs, getAll]
    have h1 : (h ++ c :: cs)[h.length]? = some c := by simp
    have h2 := ih (h ++ [c])
    simp only [List.length_append, List.length_cons, List.length_nil, List.append_assoc, List.cons_append,
      List.nil_append, Nat.zero_add] at h2
    rw [h1, h2]

/-- the heap below its old length is untouched by `new` and `build` -/
theorem step_heap_prefix (w : World) (op : Op) (hop : ∀ a p, op ≠ .reposition a p) (a : Nat) (ha : a < w.heap.length) :
    (step w op).heap[a]? = w.heap[a]? := by
  cases op with
  | new c => simp [step, List.getElem?_append_left ha]
  | build trials addrs =>
    simp only [step]
    split
    · rfl
    · split
      · rfl
      · simp [List.getElem?_append_left ha]
  | reposition a p => exact absurd rfl (hop a p)

theorem step_eqs_prefix (w : World) (op : Op) (k : Nat) (hk : k < w.eqs.length) :
    (step w op).eqs[k]? = w.eqs[k]? ∧ w.eqs.length ≤ (step w op).eqs.length := by
  cases op with
  | new c => simp [step]
  | build trials addrs =>
    simp only [step]
    split
    · simp
    · split
      · simp
      · simp [List.getElem?_append_left hk]
  | reposition a p =>
    simp only [step]
    split <;> simp

theorem step_wf (w : World) (op : Op) (hw : w.WF) : (step w op).WF := by
  cases op with
  | new c =>
    intro e he a ha
    have := hw e he a ha
    simp [step]; omega
  | build trials addrs =>
    simp only [step]
    split
    · exact hw
    · split
      · exact hw
      · intro e he a ha
        simp only [List.mem_append, List.mem_singleton] at he
        simp only [List.length_append]
        rcases he with he | rfl
        · have := hw e he a ha; omega
        · have := freshAddrs_mem _ _ a ha; omega
  | reposition a p =>
    simp only [step]
    split
    · exact hw
    · intro e he b hb
      simp only [setPos_length]
      exact hw e he b hb

/-- one operation never changes what an equation built earlier reports -/
theorem step_frame (w : World) (op : Op) (hw : w.WF) (k : Nat) (hk : k < w.eqs.length) :
    readEq (step w op) k = readEq w k := by
  unfold readEq
  rw [(step_eqs_prefix w op k hk).1]
  have hke : w.eqs[k]? = some w.eqs[k] := List.getElem?_eq_getElem hk
  rw [hke]
  simp only
  apply getAll_congr
  intro a ha
  have hlt : a < w.heap.length := hw _ (List.getElem_mem hk) a ha
  cases op with
  | reposition a0 p =>
    simp only [step]
    split
    · rfl
    · rename_i hown
      apply setPos_get_ne
      intro e
      subst e
      apply hown
      simp only [World.owned, List.any_eq_true]
      exact ⟨_, List.getElem_mem hk, by simpa using ha⟩
  | new c => exact step_heap_prefix w _ (by intro a p h; cases h) a hlt
  | build t as => exact step_heap_prefix w _ (by intro a p h; cases h) a hlt

end Sympde.BC
