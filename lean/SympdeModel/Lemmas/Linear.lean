/-
  Helper lemmas for C08 (Model/Linear.lean): on the operator-free fragment (numbers, constants,
  symbols, functions, components, sums, products, powers with a numeral exponent, elementary
  functions, partial derivatives) the re-evaluation `reeval` always succeeds and preserves the
  classical meaning `denG`.
-/
import SympdeModel.Sem.DenG
import SympdeModel.Model.Linear
import SympdeModel.Lemmas.Subst
import SympdeModel.Lemmas.Calc
namespace Sympde.Linear
open E
open Sympde.Sub

variable {K : Type} [CommRing K] [Algebra ℚ K]

mutual
/-- the operator-free fragment -/
def OpFree : E → Bool
  | num _ _ => true
  | cst _ => true
  | sym _ => true
  | sf _ _ => true
  | vf _ _ => true
  | idx b _ => OpFree b
  | add as => OpFreeList as
  | mul as => OpFreeList as
  | pow b (num _ _) => OpFree b
  | fn _ a => OpFree a
  | pd _ a => OpFree a
  | _ => false
def OpFreeList : List E → Bool
  | [] => true
  | a :: as => OpFree a && OpFreeList as
end

theorem OpFreeList_iff (as : List E) : OpFreeList as = true ↔ ∀ a ∈ as, OpFree a = true := by
  induction as with
  | nil => simp [OpFreeList]
  | cons a as ih => simp [OpFreeList, ih]

/-! ### sums and products -/

theorem denGSum_append (S : DRing K) (d : Nat) (lg : Bool) (xs ys : List E) (i j : Nat) :
    denGSum S d lg (xs ++ ys) i j = denGSum S d lg xs i j + denGSum S d lg ys i j := by
  induction xs with
  | nil => simp [denGSum]
  | cons x xs ih => simp [denGSum, ih, add_assoc]

theorem denGProd_append (S : DRing K) (d : Nat) (lg : Bool) (xs ys : List E) (i j : Nat) :
    denGProd S d lg (xs ++ ys) i j = denGProd S d lg xs i j * denGProd S d lg ys i j := by
  induction xs with
  | nil => simp [denGProd]
  | cons x xs ih => simp [denGProd, ih, mul_assoc]

theorem denG_zeroNum (S : DRing K) (d : Nat) (lg : Bool) (x : E) (h : isZeroNum x = true) (i j : Nat) :
    denG S d lg x i j = 0 := by
  cases x <;> simp [isZeroNum] at h
  subst h
  simp [denG]

theorem denG_oneNum (S : DRing K) (d : Nat) (lg : Bool) (x : E) (h : isOneNum x = true) (i j : Nat) :
    denG S d lg x i j = 1 := by
  cases x <;> simp [isOneNum] at h
  obtain ⟨h1, h2⟩ := h
  subst h1 h2
  simp [denG]

theorem denGSum_flatAdd (S : DRing K) (d : Nat) (lg : Bool) (xs : List E) (i j : Nat) :
    denGSum S d lg (flatAdd xs) i j = denGSum S d lg xs i j := by
  induction xs with
  | nil => rfl
  | cons x xs ih =>
    cases x <;> simp [flatAdd, denGSum, ih, denGSum_append, denG]

theorem denGProd_flatMul (S : DRing K) (d : Nat) (lg : Bool) (xs : List E) (i j : Nat) :
    denGProd S d lg (flatMul xs) i j = denGProd S d lg xs i j := by
  induction xs with
  | nil => rfl
  | cons x xs ih =>
    cases x <;> simp [flatMul, denGProd, ih, denGProd_append, denG]

theorem denGSum_filter_zero (S : DRing K) (d : Nat) (lg : Bool) (xs : List E) (i j : Nat) :
    denGSum S d lg (xs.filter (fun x => !isZeroNum x)) i j = denGSum S d lg xs i j := by
  induction xs with
  | nil => rfl
  | cons x xs ih =>
    cases h : isZeroNum x
    · simp [List.filter_cons, h, denGSum, ih]
    · simp [List.filter_cons, h, denGSum, ih, denG_zeroNum S d lg x h]

theorem denGProd_filter_one (S : DRing K) (d : Nat) (lg : Bool) (xs : List E) (i j : Nat) :
    denGProd S d lg (xs.filter (fun x => !isOneNum x)) i j = denGProd S d lg xs i j := by
  induction xs with
  | nil => rfl
  | cons x xs ih =>
    cases h : isOneNum x
    · simp [List.filter_cons, h, denGProd, ih]
    · simp [List.filter_cons, h, denGProd, ih, denG_oneNum S d lg x h]

theorem denGProd_zero (S : DRing K) (d : Nat) (lg : Bool) (xs : List E) (i j : Nat)
    (h : xs.any isZeroNum = true) : denGProd S d lg xs i j = 0 := by
  induction xs with
  | nil => simp at h
  | cons x xs ih =>
    simp only [List.any_cons, Bool.or_eq_true] at h
    rcases h with h | h
    · simp [denGProd, denG_zeroNum S d lg x h]
    · simp [denGProd, ih h]

theorem denG_mkAdd (S : DRing K) (d : Nat) (lg : Bool) (xs : List E) (i j : Nat) :
    denG S d lg (mkAdd xs) i j = denGSum S d lg xs i j := by
  cases xs with
  | nil => simp [mkAdd, denG, denGSum]
  | cons x xs =>
    cases xs with
    | nil => simp [mkAdd, denGSum]
    | cons y ys => simp [mkAdd, denG]

theorem denG_mkMul (S : DRing K) (d : Nat) (lg : Bool) (xs : List E) (i j : Nat) :
    denG S d lg (mkMul xs) i j = denGProd S d lg xs i j := by
  cases xs with
  | nil => simp [mkMul, denG, denGProd]
  | cons x xs =>
    cases xs with
    | nil => simp [mkMul, denGProd]
    | cons y ys => simp [mkMul, denG]

/-! ### the trivial canonicalisation preserves the fragment and the meaning -/

theorem OpFree_mkAdd (xs : List E) (h : ∀ a ∈ xs, OpFree a = true) : OpFree (mkAdd xs) = true := by
  cases xs with
  | nil => rfl
  | cons x xs =>
    cases xs with
    | nil => exact h x (by simp)
    | cons y ys => simp only [mkAdd, OpFree]; exact (OpFreeList_iff _).mpr h

theorem OpFree_mkMul (xs : List E) (h : ∀ a ∈ xs, OpFree a = true) : OpFree (mkMul xs) = true := by
  cases xs with
  | nil => rfl
  | cons x xs =>
    cases xs with
    | nil => exact h x (by simp)
    | cons y ys => simp only [mkMul, OpFree]; exact (OpFreeList_iff _).mpr h

theorem mem_flatAdd_opfree (xs : List E) (h : ∀ a ∈ xs, OpFree a = true) : ∀ a ∈ flatAdd xs, OpFree a = true := by
  induction xs with
  | nil => intro a ha; cases ha
  | cons x xs ih =>
    have hx := h x (by simp)
    have ih' := ih (fun a ha => h a (by simp [ha]))
    intro a ha
    cases x <;> simp only [flatAdd, List.mem_cons, List.mem_append] at ha
    case add ys =>
      rcases ha with ha | ha
      · exact (OpFreeList_iff ys).mp (by simpa [OpFree] using hx) a ha
      · exact ih' a ha
    all_goals
      rcases ha with rfl | ha
      · exact hx
      · exact ih' a ha

theorem mem_flatMul_opfree (xs : List E) (h : ∀ a ∈ xs, OpFree a = true) : ∀ a ∈ flatMul xs, OpFree a = true := by
  induction xs with
  | nil => intro a ha; cases ha
  | cons x xs ih =>
    have hx := h x (by simp)
    have ih' := ih (fun a ha => h a (by simp [ha]))
    intro a ha
    cases x <;> simp only [flatMul, List.mem_cons, List.mem_append] at ha
    case mul ys =>
      rcases ha with ha | ha
      · exact (OpFreeList_iff ys).mp (by simpa [OpFree] using hx) a ha
      · exact ih' a ha
    all_goals
      rcases ha with rfl | ha
      · exact hx
      · exact ih' a ha

theorem cleanList_eq (as : List E) : cleanList as = as.map clean := by
  induction as with
  | nil => rfl
  | cons a as ih => simp [cleanList, ih]

theorem clean_opfree (S : DRing K) (d : Nat) (lg : Bool) (e : E) (h : OpFree e = true) :
    OpFree (clean e) = true ∧ ∀ i j, denG S d lg (clean e) i j = denG S d lg e i j := by
  induction e using E.rec
    (motive_2 := fun as => OpFreeList as = true →
      (∀ a ∈ cleanList as, OpFree a = true) ∧
      (∀ i j, denGSum S d lg (cleanList as) i j = denGSum S d lg as i j) ∧
      (∀ i j, denGProd S d lg (cleanList as) i j = denGProd S d lg as i j)) with
  | nil => exact ⟨(by intro a ha; cases ha), (fun _ _ => rfl), (fun _ _ => rfl)⟩
  | cons a as iha ihas =>
    rename_i hh
    simp only [OpFreeList, Bool.and_eq_true] at hh
    obtain ⟨h1, h2⟩ := iha hh.1
    obtain ⟨g1, g2, g3⟩ := ihas hh.2
    refine ⟨?_, ?_, ?_⟩
    · intro x hx
      simp only [cleanList, List.mem_cons] at hx
      rcases hx with rfl | hx
      · exact h1
      · exact g1 x hx
    · intro i j; simp [cleanList, denGSum, h2, g2]
    · intro i j; simp [cleanList, denGProd, h2, g3]
  | add as ih =>
    obtain ⟨g1, g2, _⟩ := ih (by simpa [OpFree] using h)
    refine ⟨?_, ?_⟩
    · simp only [clean]
      apply OpFree_mkAdd
      intro a ha
      exact mem_flatAdd_opfree _ g1 a (List.mem_filter.mp ha).1
    · intro i j
      simp only [clean, denG_mkAdd, denGSum_filter_zero, denGSum_flatAdd, g2, denG]
  | mul as ih =>
    obtain ⟨g1, _, g3⟩ := ih (by simpa [OpFree] using h)
    refine ⟨?_, ?_⟩
    · simp only [clean]
      split
      · rfl
      · apply OpFree_mkMul
        intro a ha
        exact mem_flatMul_opfree _ g1 a (List.mem_filter.mp ha).1
    · intro i j
      simp only [clean]
      split
      · rename_i hz
        have := denGProd_zero S d lg _ i j hz
        rw [denGProd_filter_one, denGProd_flatMul, g3] at this
        simp [denG, this]
      · simp only [denG_mkMul, denGProd_filter_one, denGProd_flatMul, g3, denG]
  | pow b e ihb _ =>
    cases e with
    | num p q =>
      obtain ⟨h1, h2⟩ := ihb (by simpa [OpFree] using h)
      exact ⟨by simp [clean, OpFree, h1], fun i j => by simp [clean, denG, h2]⟩
    | _ => simp [OpFree] at h
  | fn f a ih =>
    obtain ⟨h1, h2⟩ := ih (by simpa [OpFree] using h)
    exact ⟨by simp [clean, OpFree, h1], fun i j => by simp [clean, denG, h2]⟩
  | pd c a ih =>
    obtain ⟨h1, h2⟩ := ih (by simpa [OpFree] using h)
    exact ⟨by simp [clean, OpFree, h1], fun i j => by simp [clean, denG, h2]⟩
  | idx b k ih =>
    obtain ⟨h1, h2⟩ := ih (by simpa [OpFree] using h)
    exact ⟨by simp [clean, OpFree, h1], fun i j => by simp [clean, denG, h2]⟩
  | num p q => exact ⟨rfl, fun _ _ => rfl⟩
  | cst n => exact ⟨rfl, fun _ _ => rfl⟩
  | sym n => exact ⟨rfl, fun _ _ => rfl⟩
  | sf n k => exact ⟨rfl, fun _ _ => rfl⟩
  | vf n k => exact ⟨rfl, fun _ _ => rfl⟩
  | _ => simp [OpFree] at h

/-! ### `dx` and `F[i]` on sums and constant multiples -/

theorem D_coef (S : DRing K) (d : Nat) (lg : Bool) (c : Coord) (x : E) (h : Calc.isCoef x = true) (i j : Nat) :
    S.D c (denG S d lg x i j) = 0 := by
  cases x <;> simp [Calc.isCoef, PD.isCoef] at h
  · simp [denG, S.D_rat]
  · simp [denG, S.D_cst]

theorem D_coef_prod (S : DRing K) (d : Nat) (lg : Bool) (c : Coord) (l : List E)
    (h : ∀ x ∈ l, Calc.isCoef x = true) (i j : Nat) : S.D c (denGProd S d lg l i j) = 0 := by
  induction l with
  | nil => simp [denGProd, S.D_one]
  | cons x xs ih =>
    simp only [denGProd, S.D_mul, D_coef S d lg c x (h x (by simp)) i j, ih (fun y hy => h y (by simp [hy]))]
    ring

theorem D_denGSum (S : DRing K) (d : Nat) (lg : Bool) (c : Coord) (l : List E) (i j : Nat) :
    S.D c (denGSum S d lg l i j) = denGSum S d lg (l.map (pd c)) i j := by
  induction l with
  | nil => simp [denGSum, S.D_zero]
  | cons x xs ih => simp [denGSum, S.D_add, ih, denG]

theorem pdTerm_sound (S : DRing K) (d : Nat) (lg : Bool) (c : Coord) (t : E) (i j : Nat) :
    denG S d lg (pdTerm c t) i j = S.D c (denG S d lg t i j) := by
  cases t with
  | mul fs =>
    simp only [pdTerm]
    split
    · simp [denG]
    · simp only [coefs, nonCoefs, denG, denGProd_append, denGProd, mul_one, denG_mulOf]
      rw [denGProd_filter S d lg Calc.isCoef fs i j, S.D_mul,
        D_coef_prod S d lg c (fs.filter Calc.isCoef) (fun x hx => (List.mem_filter.mp hx).2) i j]
      ring
  | _ => simp [pdTerm, denG]

theorem pdLin_sound (S : DRing K) (d : Nat) (lg : Bool) (c : Coord) (t : E) (i j : Nat) :
    denG S d lg (pdLin c t) i j = S.D c (denG S d lg t i j) := by
  cases t with
  | add ts =>
    simp only [pdLin, denG, D_denGSum]
    induction ts with
    | nil => rfl
    | cons x xs ih => simp [denGSum, pdTerm_sound, ih, denG]
  | _ => simp only [pdLin]; exact pdTerm_sound S d lg c _ i j

theorem OpFree_mulOf (l : List E) (h : ∀ a ∈ l, OpFree a = true) : OpFree (Calc.mulOf l) = true := by
  match l with
  | [] => rfl
  | [a] => exact h a (by simp)
  | a :: b :: rest => simp only [Calc.mulOf, PD.mulOf, OpFree]; exact (OpFreeList_iff _).mpr h

theorem isCoef_opfree (x : E) (h : Calc.isCoef x = true) : OpFree x = true := by
  cases x <;> simp_all [Calc.isCoef, PD.isCoef, OpFree]

theorem pdTerm_opfree (c : Coord) (t : E) (h : OpFree t = true) : OpFree (pdTerm c t) = true := by
  cases t with
  | mul fs =>
    have hfs := (OpFreeList_iff fs).mp (by simpa [OpFree] using h)
    simp only [pdTerm]
    split
    · simpa [OpFree] using h
    · simp only [OpFree]
      apply (OpFreeList_iff _).mpr
      intro a ha
      rcases List.mem_append.mp ha with ha | ha
      · exact hfs a (List.mem_filter.mp ha).1
      · simp only [List.mem_singleton] at ha
        subst ha
        simp only [OpFree]
        exact OpFree_mulOf _ (fun x hx => hfs x (List.mem_filter.mp hx).1)
  | _ => simpa [pdTerm, OpFree] using h

theorem pdLin_opfree (c : Coord) (t : E) (h : OpFree t = true) : OpFree (pdLin c t) = true := by
  cases t with
  | add ts =>
    have hts := (OpFreeList_iff ts).mp (by simpa [OpFree] using h)
    simp only [pdLin, OpFree]
    apply (OpFreeList_iff _).mpr
    intro a ha
    obtain ⟨x, hx, rfl⟩ := List.mem_map.mp ha
    exact pdTerm_opfree c x (hts x hx)
  | _ => simp only [pdLin]; exact pdTerm_opfree c _ h

/-- scalar factors do not depend on the component indices -/
theorem scalarFactor_indexFree (S : DRing K) (d : Nat) (lg : Bool) (x : E) (h : isScalarFactor x = true)
    (i j i' j' : Nat) : denG S d lg x i j = denG S d lg x i' j' := by
  cases x <;> simp_all [isScalarFactor, Calc.isCoef, PD.isCoef, denG]

theorem denGProd_scalar (S : DRing K) (d : Nat) (lg : Bool) (l : List E) (h : ∀ x ∈ l, isScalarFactor x = true)
    (i j i' j' : Nat) : denGProd S d lg l i j = denGProd S d lg l i' j' := by
  induction l with
  | nil => rfl
  | cons x xs ih =>
    simp only [denGProd]
    rw [scalarFactor_indexFree S d lg x (h x (by simp)) i j i' j', ih (fun y hy => h y (by simp [hy]))]

theorem idxTerm_sound (S : DRing K) (d : Nat) (lg : Bool) (k : Nat) (t : E) (i j : Nat) :
    denG S d lg (idxTerm k t) i j = denG S d lg t k 0 := by
  cases t with
  | mul fs =>
    simp only [idxTerm]
    split
    · simp [denG]
    · simp only [denG, denGProd_append, denGProd, mul_one, denG_mulOf]
      rw [denGProd_filter S d lg isScalarFactor fs k 0,
        denGProd_scalar S d lg _ (fun x hx => (List.mem_filter.mp hx).2) i j k 0]
  | _ => simp [idxTerm, denG]

theorem idxLin_sound (S : DRing K) (d : Nat) (lg : Bool) (k : Nat) (t : E) (i j : Nat) :
    denG S d lg (idxLin k t) i j = denG S d lg t k 0 := by
  cases t with
  | add ts =>
    simp only [idxLin, denG]
    induction ts with
    | nil => rfl
    | cons x xs ih => simp [denGSum, idxTerm_sound, ih]
  | _ => simp only [idxLin]; exact idxTerm_sound S d lg k _ i j

theorem idxTerm_opfree (k : Nat) (t : E) (h : OpFree t = true) : OpFree (idxTerm k t) = true := by
  cases t with
  | mul fs =>
    have hfs := (OpFreeList_iff fs).mp (by simpa [OpFree] using h)
    simp only [idxTerm]
    split
    · simpa [OpFree] using h
    · simp only [OpFree]
      apply (OpFreeList_iff _).mpr
      intro a ha
      rcases List.mem_append.mp ha with ha | ha
      · exact hfs a (List.mem_filter.mp ha).1
      · simp only [List.mem_singleton] at ha
        subst ha
        simp only [OpFree]
        exact OpFree_mulOf _ (fun x hx => hfs x (List.mem_filter.mp hx).1)
  | _ => simpa [idxTerm, OpFree] using h

theorem idxLin_opfree (k : Nat) (t : E) (h : OpFree t = true) : OpFree (idxLin k t) = true := by
  cases t with
  | add ts =>
    have hts := (OpFreeList_iff ts).mp (by simpa [OpFree] using h)
    simp only [idxLin, OpFree]
    apply (OpFreeList_iff _).mpr
    intro a ha
    obtain ⟨x, hx, rfl⟩ := List.mem_map.mp ha
    exact idxTerm_opfree k x (hts x hx)
  | _ => simp only [idxLin]; exact idxTerm_opfree k _ h

/-! ### re-evaluation on the fragment -/

/-- on the operator-free fragment `reeval` succeeds, stays in the fragment and preserves the
    meaning at every pair of indices -/
theorem reeval_opfree (S : DRing K) (d : Nat) (lg : Bool) (e : E) (h : OpFree e = true) :
    ∃ e', reeval d e = .ok e' ∧ OpFree e' = true ∧ ∀ i j, denG S d lg e' i j = denG S d lg e i j := by
  induction e using E.rec
    (motive_2 := fun as => OpFreeList as = true →
      ∃ as', reevalList d as = .ok as' ∧ OpFreeList as' = true ∧
        (∀ i j, denGSum S d lg as' i j = denGSum S d lg as i j) ∧
        (∀ i j, denGProd S d lg as' i j = denGProd S d lg as i j)) with
  | nil => exact ⟨[], rfl, rfl, (fun _ _ => rfl), (fun _ _ => rfl)⟩
  | cons a as iha ihas =>
    rename_i hh
    simp only [OpFreeList, Bool.and_eq_true] at hh
    obtain ⟨a', ha, hoa, hda⟩ := iha hh.1
    obtain ⟨as', has, hoas, hs, hp⟩ := ihas hh.2
    refine ⟨a' :: as', by simp [reevalList, ha, has], by simp [OpFreeList, hoa, hoas], ?_, ?_⟩
    · intro i j; simp [denGSum, hda, hs]
    · intro i j; simp [denGProd, hda, hp]
  | add as ih =>
    obtain ⟨as', has, hoas, hs, _⟩ := ih (by simpa [OpFree] using h)
    have hc := clean_opfree S d lg (add as') (by simpa [OpFree] using hoas)
    exact ⟨clean (add as'), by simp [reeval, has, Except.map], hc.1, fun i j => by rw [hc.2]; simp [denG, hs]⟩
  | mul as ih =>
    obtain ⟨as', has, hoas, _, hp⟩ := ih (by simpa [OpFree] using h)
    have hc := clean_opfree S d lg (mul as') (by simpa [OpFree] using hoas)
    exact ⟨clean (mul as'), by simp [reeval, has, Except.map], hc.1, fun i j => by rw [hc.2]; simp [denG, hp]⟩
  | pow b e ihb _ =>
    cases e with
    | num p q =>
      obtain ⟨b', hb, hob, hdb⟩ := ihb (by simpa [OpFree] using h)
      exact ⟨pow b' (num p q), by simp [reeval, hb], by simp [OpFree, hob], fun i j => by simp [denG, hdb]⟩
    | _ => simp [OpFree] at h
  | fn f a ih =>
    obtain ⟨a', ha, hoa, hda⟩ := ih (by simpa [OpFree] using h)
    exact ⟨fn f a', by simp [reeval, ha, Except.map], by simp [OpFree, hoa], fun i j => by simp [denG, hda]⟩
  | pd c a ih =>
    obtain ⟨a', ha, hoa, hda⟩ := ih (by simpa [OpFree] using h)
    have hc := clean_opfree S d lg (pdLin c a') (pdLin_opfree c a' hoa)
    exact ⟨clean (pdLin c a'), by simp [reeval, ha, Except.map], hc.1,
      fun i j => by rw [hc.2, pdLin_sound]; simp [denG, hda]⟩
  | idx b k ih =>
    obtain ⟨b', hb, hob, hdb⟩ := ih (by simpa [OpFree] using h)
    have hc := clean_opfree S d lg (idxLin k b') (idxLin_opfree k b' hob)
    exact ⟨clean (idxLin k b'), by simp [reeval, hb, Except.map], hc.1,
      fun i j => by rw [hc.2, idxLin_sound]; simp [denG, hdb]⟩
  | num p q => exact ⟨_, rfl, rfl, fun _ _ => rfl⟩
  | cst n => exact ⟨_, rfl, rfl, fun _ _ => rfl⟩
  | sym n => exact ⟨_, rfl, rfl, fun _ _ => rfl⟩
  | sf n k => exact ⟨_, rfl, rfl, fun _ _ => rfl⟩
  | vf n k => exact ⟨_, rfl, rfl, fun _ _ => rfl⟩
  | _ => simp [OpFree] at h

/-- substituting operator-free values for functions keeps a tree operator-free -/
theorem subst_opfree (σ : Rule) (hk : ∀ p ∈ σ, (∃ n k, p.1 = sf n k) ∨ (∃ n k, p.1 = vf n k))
    (hv : ∀ p ∈ σ, OpFree p.2 = true) (e : E) (h : OpFree e = true) : OpFree (subst σ e) = true := by
  have hl : ∀ t v, lookup σ t = some v → OpFree v = true := fun t v h => hv _ (lookup_some h)
  have hnon : ∀ t, (∀ n k, t ≠ sf n k) → (∀ n k, t ≠ vf n k) → lookup σ t = none := by
    intro t h1 h2
    cases hlk : lookup σ t with
    | none => rfl
    | some v =>
      rcases hk _ (lookup_some hlk) with ⟨n, k, he⟩ | ⟨n, k, he⟩
      · exact absurd he (h1 n k)
      · exact absurd he (h2 n k)
  induction e using E.rec (motive_2 := fun as => OpFreeList as = true → OpFreeList (substList σ as) = true) with
  | nil => exact rfl
  | cons a as iha ihas =>
    rename_i hh
    simp only [OpFreeList, Bool.and_eq_true] at hh
    simp [substList, OpFreeList, iha hh.1, ihas hh.2]
  | sf n k =>
    simp only [subst]
    cases hlk : lookup σ (sf n k) with
    | none => rfl
    | some v => simpa using hl _ _ hlk
  | vf n k =>
    simp only [subst]
    cases hlk : lookup σ (vf n k) with
    | none => rfl
    | some v => simpa using hl _ _ hlk
  | add as ih =>
    simp only [subst, hnon (add as) (by intro n k hh; cases hh) (by intro n k hh; cases hh), Option.getD_none, OpFree]
    exact ih (by simpa [OpFree] using h)
  | mul as ih =>
    simp only [subst, hnon (mul as) (by intro n k hh; cases hh) (by intro n k hh; cases hh), Option.getD_none, OpFree]
    exact ih (by simpa [OpFree] using h)
  | pow b e ihb _ =>
    cases e with
    | num p q =>
      simp only [subst, hnon (pow b (num p q)) (by intro n k hh; cases hh) (by intro n k hh; cases hh),
        hnon (num p q) (by intro n k hh; cases hh) (by intro n k hh; cases hh), Option.getD_none, OpFree]
      exact ihb (by simpa [OpFree] using h)
    | _ => simp [OpFree] at h
  | fn f a ih =>
    simp only [subst, hnon (fn f a) (by intro n k hh; cases hh) (by intro n k hh; cases hh), Option.getD_none, OpFree]
    exact ih (by simpa [OpFree] using h)
  | pd c a ih =>
    simp only [subst, hnon (pd c a) (by intro n k hh; cases hh) (by intro n k hh; cases hh), Option.getD_none, OpFree]
    exact ih (by simpa [OpFree] using h)
  | idx b k ih =>
    simp only [subst, hnon (idx b k) (by intro n k hh; cases hh) (by intro n k hh; cases hh), Option.getD_none, OpFree]
    exact ih (by simpa [OpFree] using h)
  | num p q => simp [subst, hnon (num p q) (by intro n k hh; cases hh) (by intro n k hh; cases hh), OpFree]
  | cst n => simp [subst, hnon (cst n) (by intro n k hh; cases hh) (by intro n k hh; cases hh), OpFree]
  | sym n => simp [subst, hnon (sym n) (by intro n k hh; cases hh) (by intro n k hh; cases hh), OpFree]
  | _ => simp [OpFree] at h

end Sympde.Linear
