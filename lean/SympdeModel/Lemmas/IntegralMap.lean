/-
  Helper lemmas for C04: the Jacobian computed by the model is the matrix of logical derivatives
  of the mapping components; derivative-free integrands on a surface.
-/
import SympdeModel.Lemmas.PullbackSem
import SympdeModel.Model.IntegralMap
namespace Sympde.IM
open E PD PB
open DRing (sumN)

variable {K : Type} [CommRing K] [Algebra ℚ K]

theorem mapM_ok_get {α β : Type} (f : α → Except Err β) (xs : List α) (ys : List β)
    (h : xs.mapM f = .ok ys) :
    ys.length = xs.length ∧ ∀ i (hi : i < xs.length) (hj : i < ys.length), f xs[i] = .ok ys[i] := by
  induction xs generalizing ys with
  | nil =>
    simp [List.mapM_nil, pure, Except.pure] at h
    subst h
    exact ⟨rfl, fun i hi => absurd hi (by simp)⟩
  | cons x xs ih =>
    rw [List.mapM_cons] at h
    cases hx : f x with
    | error e => simp [hx, bind, Except.bind] at h
    | ok y =>
      cases hxs : xs.mapM f with
      | error e => simp [hx, hxs, bind, Except.bind] at h
      | ok ys' =>
        simp [hx, hxs, bind, Except.bind, pure, Except.pure] at h
        subst h
        obtain ⟨h1, h2⟩ := ih ys' hxs
        refine ⟨by simp [h1], fun i hi hj => ?_⟩
        cases i with
        | zero => simpa using hx
        | succ i => simpa using h2 i (by simpa using hi) (by simpa using hj)

/-- the entries of the model's Jacobian are the results of the logical differentiator on the
    mapping components -/
theorem rjacOf_entries (name : String) (F : List E) (l : Nat) (rj : RJac) (h : rjacOf name F l = .ok rj) :
    rj.p = F.length ∧ rj.l = l ∧
      ∀ i (hi : i < F.length) k, k < l → ldiff name (lc k) F[i] = .ok (rj.J i k) := by
  unfold rjacOf at h
  cases hr : F.mapM (fun f => (List.range l).mapM (fun k => ldiff name (lc k) f)) with
  | error e => simp [hr, bind, Except.bind] at h
  | ok rows =>
    simp only [hr, bind, Except.bind] at h
    injection h with h
    subst h
    refine ⟨rfl, rfl, fun i hi k hk => ?_⟩
    obtain ⟨hlen, hget⟩ := mapM_ok_get _ F rows hr
    have hi' : i < rows.length := by omega
    have hrow := hget i hi hi'
    obtain ⟨hlen2, hget2⟩ := mapM_ok_get _ (List.range l) rows[i] hrow
    have hk1 : k < (List.range l).length := by simpa using hk
    have hk2 : k < rows[i].length := by omega
    have := hget2 k hk1 hk2
    simp only [List.getElem_range] at this
    rw [this]
    simp [List.getD_eq_getElem?_getD, hi', hk2]

/-- **the model's Jacobian is the Jacobian**: entry (i, k) denotes ∂̂_k F_i -/
theorem rjacOf_is_jacobian (S : DRing K) (T : FnTable S) (name : String) (F : List E) (l : Nat) (rj : RJac)
    (h : rjacOf name F l = .ok rj) (hint : ∀ f ∈ F, IntPow f = true) (hnd : ∀ f ∈ F, NonDeg S f)
    (i : Nat) (hi : i < F.length) (k : Nat) (hk : k < l) (x y : Nat) :
    den S (rj.J i k) x y = S.D (lc k) (den S F[i] x y) := by
  obtain ⟨_, _, hent⟩ := rjacOf_entries name F l rj h
  have hmem : F[i] ∈ F := List.getElem_mem hi
  exact (ldiff_all S T name (lc k) F[i] (hint _ hmem) (hnd _ hmem) (rj.J i k) (hent i hi k hk)).2.2 x y

/-- physical and logical reading on a surface (no physical derivatives are transformable there):
    the coordinates are the components of the mapping, H1/undefined functions are composed with it,
    everything else is shared -/
structure SurfRel (SL SP : DRing K) (p : Nat) (F : Nat → E) : Prop where
  fn_eq : SP.fn = SL.fn
  inv_eq : SP.inv = SL.inv
  cst_eq : SP.cst = SL.cst
  sf_eq : SP.sf = SL.sf
  sym_coord : ∀ i, i < p → ∀ a b, SP.sym (pc i).name = den SL (F i) a b
  sym_other : ∀ s, (∀ i, physIdx s = some i → p ≤ i) → isLogName s = false → SP.sym s = SL.sym s

mutual
/-- derivative-free integrands with integer powers -/
def SFrag : E → Bool
  | num _ _ => true
  | cst _ => true
  | sym s => !isLogName s
  | sf _ k => k == .h1 || k == .undef
  | add as => SFragList as
  | mul as => SFragList as
  | pow b e => (intLit e).isSome && SFrag b
  | fn _ a => SFrag a
  | _ => false
def SFragList : List E → Bool
  | [] => true
  | a :: as => SFrag a && SFragList as
end

theorem substCoordsList_sound (SL SP : DRing K) (p : Nat) (F : Nat → E) (as : List E)
    (ih : ∀ a ∈ as, SFrag a = true → ∀ r, substCoords p F a = .ok r → ∀ x y, den SL r x y = den SP a x y)
    (hf : SFragList as = true) (rs : List E) (h : substCoordsList p F as = .ok rs) :
    (∀ x y, denSum SL rs x y = denSum SP as x y) ∧ (∀ x y, denProd SL rs x y = denProd SP as x y) := by
  induction as generalizing rs with
  | nil =>
    simp only [substCoordsList] at h; injection h with h; subst h
    exact ⟨fun _ _ => rfl, fun _ _ => rfl⟩
  | cons a as iha =>
    simp only [substCoordsList] at h
    simp only [SFragList, Bool.and_eq_true] at hf
    cases h1 : substCoords p F a with
    | error e => simp [h1, bind, Except.bind] at h
    | ok r =>
      cases h2 : substCoordsList p F as with
      | error e => simp [h1, h2, bind, Except.bind] at h
      | ok rs' =>
        simp only [h1, h2, bind, Except.bind] at h
        injection h with h; subst h
        have p1 := ih a (by simp) hf.1 r h1
        obtain ⟨q1, q2⟩ := iha (fun x hx => ih x (by simp [hx])) hf.2 rs' h2
        exact ⟨fun x y => by simp only [denSum, p1, q1], fun x y => by simp only [denProd, p1, q2]⟩

/-- **integrands on a surface**: replacing the coordinates by the mapping components gives an
    expression whose value at the logical point is the value of the integrand at the image point -/
theorem substCoords_sound (SL SP : DRing K) (p : Nat) (hp : p ≤ 3) (F : Nat → E) (R : SurfRel SL SP p F) (e : E) :
    SFrag e = true → ∀ r, substCoords p F e = .ok r → ∀ x y, den SL r x y = den SP e x y := by
  induction e using E.rec
    (motive_2 := fun as => ∀ a ∈ as, SFrag a = true → ∀ r, substCoords p F a = .ok r →
      ∀ x y, den SL r x y = den SP a x y) with
  | num a b =>
    intro _ r h x y
    simp only [substCoords] at h; injection h with h; subst h
    simp [den]
  | cst s =>
    intro _ r h x y
    simp only [substCoords] at h; injection h with h; subst h
    simp [den, R.cst_eq]
  | sym s =>
    intro hf r h x y
    simp only [SFrag, Bool.not_eq_true'] at hf
    simp only [substCoords] at h
    cases hq : physIdx s with
    | none =>
      simp only [hq] at h; injection h with h; subst h
      simp only [den]
      exact (R.sym_other s (fun i hi => by rw [hq] at hi; cases hi) hf).symm
    | some i =>
      simp only [hq] at h
      split at h
      · rename_i hi
        injection h with h; subst h
        have hs := physIdx_name s i hq (Nat.lt_of_lt_of_le hi hp)
        simp only [den]
        rw [hs]
        exact (R.sym_coord i hi x y).symm
      · rename_i hi
        injection h with h; subst h
        simp only [den]
        refine (R.sym_other s (fun i' hi' => ?_) hf).symm
        rw [hq] at hi'; injection hi' with hi'; subst hi'
        exact Nat.le_of_not_lt hi
  | sf s k =>
    intro hf r h x y
    cases k <;> simp [SFrag] at hf <;> (simp only [substCoords] at h; injection h with h; subst h; simp [den, R.sf_eq])
  | add as ih =>
    intro hf r h x y
    simp only [SFrag] at hf
    simp only [substCoords] at h
    cases hl : substCoordsList p F as with
    | error e => simp [hl, bind, Except.bind] at h
    | ok rs =>
      simp only [hl, bind, Except.bind] at h
      injection h with h; subst h
      simp only [den]
      exact (substCoordsList_sound SL SP p F as ih hf rs hl).1 x y
  | mul as ih =>
    intro hf r h x y
    simp only [SFrag] at hf
    simp only [substCoords] at h
    cases hl : substCoordsList p F as with
    | error e => simp [hl, bind, Except.bind] at h
    | ok rs =>
      simp only [hl, bind, Except.bind] at h
      injection h with h; subst h
      simp only [den]
      exact (substCoordsList_sound SL SP p F as ih hf rs hl).2 x y
  | pow b e ihb _ =>
    intro hf r h x y
    simp only [SFrag, Bool.and_eq_true] at hf
    cases hl : intLit e with
    | none => simp [hl] at hf
    | some n =>
      have he := intLit_eq_some hl
      subst he
      simp only [substCoords] at h
      cases hb : substCoords p F b with
      | error err => simp [hb, bind, Except.bind] at h
      | ok lb =>
        simp only [hb, bind, Except.bind] at h
        injection h with h; subst h
        simp only [den, ihb hf.2 lb hb x y]
        cases n with
        | ofNat k => simp [powSem, intLit]
        | negSucc k => simp [powSem, intLit, R.inv_eq]
  | fn f a iha =>
    intro hf r h x y
    simp only [SFrag] at hf
    simp only [substCoords] at h
    cases ha : substCoords p F a with
    | error err => simp [ha, bind, Except.bind] at h
    | ok la =>
      simp only [ha, bind, Except.bind] at h
      injection h with h; subst h
      simp only [den, iha hf la ha x y, R.fn_eq]
  | vf s k => intro hf; simp [SFrag] at hf
  | idx b i _ => intro hf; simp [SFrag] at hf
  | pd c a _ => intro hf; simp [SFrag] at hf
  | op1 o a _ => intro hf; simp [SFrag] at hf
  | op2 o a b _ _ => intro hf; simp [SFrag] at hf
  | mat r c es _ => intro hf; simp [SFrag] at hf
  | tup as _ => intro hf; simp [SFrag] at hf
  | normal k => intro hf; simp [SFrag] at hf
  | other t as _ => intro hf; simp [SFrag] at hf
  | nil => cases ‹_ ∈ []›
  | cons x xs ihx ihxs =>
    rename_i a ha h1 r hr x' y'
    rcases List.mem_cons.mp ha with rfl | ha
    · exact ihx h1 r hr x' y'
    · exact ihxs a ha h1 r hr x' y'

end Sympde.IM
