/-
  Helper definitions and lemmas for C08, part 2: soundness of the re-evaluation on the
  operator-free fragment, totality of the two tests there, and the refutation scheme in the
  polynomial differential ring used by the `reject_sound_*` theorems of Props/C08.lean.
-/
import SympdeModel.Lemmas.Linear
import SympdeModel.Lemmas.RingEq
import SympdeModel.Sem.Instances
namespace Sympde.Linear
open E
open Sympde.Sub

variable {K : Type} [CommRing K] [Algebra ℚ K]

/-- the re-evaluation of a tree preserves its (scalar) meaning — the statement of C02 / C05 for
    the constructors involved; proved below for the operator-free fragment -/
def ReevalSound (S : DRing K) (d : Nat) (lg : Bool) (t : E) : Prop :=
  ∀ t', reeval2 d t = .ok t' → denG S d lg t' 0 0 = denG S d lg t 0 0

/-- the sums `l + r` and the multiples `α·l` substituted by the test -/
def sumVals (args : List E) : List E :=
  List.zipWith (fun l r => add [l, r]) (freshList "l#" args) (freshList "r#" args)
def mulVals (args : List E) : List E := (freshList "l#" args).map (fun l => mul [alpha, l])

/-- functions only -/
def isFn : E → Bool
  | sf _ _ => true
  | vf _ _ => true
  | _ => false

theorem fresh_opfree (pre : String) (k : Nat) (a : E) (h : isFn a = true) : OpFree (fresh pre k a) = true := by
  cases a <;> simp_all [isFn, fresh, OpFree]

theorem freshList_opfree (pre : String) (args : List E) (h : ∀ a ∈ args, isFn a = true) :
    ∀ x ∈ freshList pre args, OpFree x = true := by
  intro x hx
  simp only [freshList, List.mem_map] at hx
  obtain ⟨p, hp, rfl⟩ := hx
  exact fresh_opfree pre p.2 p.1 (h _ (List.of_mem_zip hp).1)

theorem zip_keys_fn (args vals : List E) (h : ∀ a ∈ args, isFn a = true) :
    ∀ p ∈ args.zip vals, (∃ n k, p.1 = sf n k) ∨ (∃ n k, p.1 = vf n k) := by
  intro p hp
  have := h _ (List.of_mem_zip hp).1
  cases hp1 : p.1 <;> simp_all [isFn]

/-- on the operator-free fragment re-evaluation is always sound -/
theorem reevalSound_opfree (S : DRing K) (d : Nat) (lg : Bool) (args vals : List E) (e : E)
    (hargs : ∀ a ∈ args, isFn a = true) (hvals : ∀ v ∈ vals, OpFree v = true) (he : OpFree e = true) :
    ReevalSound S d lg (subst (args.zip vals) e) ∧ ∃ t', reeval2 d (subst (args.zip vals) e) = .ok t' := by
  have ho := subst_opfree (args.zip vals) (zip_keys_fn args vals hargs)
    (fun p hp => hvals _ (List.of_mem_zip hp).2) e he
  obtain ⟨t1, h1, ho1, h3⟩ := reeval_opfree S d lg _ ho
  obtain ⟨t', h1', _, h3'⟩ := reeval_opfree S d lg t1 ho1
  have h2 : reeval2 d (subst (args.zip vals) e) = .ok t' := by simp [reeval2, h1, h1']
  exact ⟨fun t'' h => by rw [h2] at h; injection h with h; subst h; rw [h3' 0 0, h3 0 0], t', h2⟩

theorem sumVals_opfree (args : List E) (h : ∀ a ∈ args, isFn a = true) : ∀ v ∈ sumVals args, OpFree v = true := by
  intro v hv
  simp only [sumVals, List.mem_iff_getElem, List.getElem_zipWith, List.length_zipWith] at hv
  obtain ⟨i, hi, rfl⟩ := hv
  simp only [OpFree, OpFreeList, Bool.and_true, Bool.and_eq_true]
  exact ⟨freshList_opfree "l#" args h _ (List.getElem_mem _), freshList_opfree "r#" args h _ (List.getElem_mem _)⟩

theorem mulVals_opfree (args : List E) (h : ∀ a ∈ args, isFn a = true) : ∀ v ∈ mulVals args, OpFree v = true := by
  intro v hv
  simp only [mulVals, List.mem_map] at hv
  obtain ⟨l, hl, rfl⟩ := hv
  simp [OpFree, OpFreeList, alpha, freshList_opfree "l#" args h l hl]

/-- on the fragment the two tests never raise: they return a verdict -/
theorem tests_total (d : Nat) (args : List E) (e : E) (hargs : ∀ a ∈ args, isFn a = true) (he : OpFree e = true) :
    (∃ b, additive d args e = .ok b) ∧ (∃ b, homogeneous d args e = .ok b) := by
  let S : DRing PolyK := polyDRing (fun _ => 0) (fun _ _ => 0) (fun _ => 0)
  obtain ⟨n, hn⟩ := (reevalSound_opfree S d false args (sumVals args) e hargs (sumVals_opfree args hargs) he).2
  obtain ⟨m, hm⟩ := (reevalSound_opfree S d false args (mulVals args) e hargs (mulVals_opfree args hargs) he).2
  obtain ⟨l, hl⟩ := (reevalSound_opfree S d false args (freshList "l#" args) e hargs (freshList_opfree _ args hargs) he).2
  obtain ⟨r, hr⟩ := (reevalSound_opfree S d false args (freshList "r#" args) e hargs (freshList_opfree _ args hargs) he).2
  simp only [sumVals] at hn
  simp only [mulVals] at hm
  exact ⟨⟨RingEq.ringEq d n (add [l, r]), by simp [additive, substEval, hn, hl, hr]⟩,
    ⟨RingEq.ringEq d m (mul [alpha, l]), by simp [homogeneous, substEval, hm, hl]⟩⟩

/-- a failed homogeneity test makes the verdict negative -/
theorem isLinear_false_of_hom (d : Nat) (args : List E) (dom : String) (e : E)
    (hargs : ∀ a ∈ args, isFn a = true) (he : OpFree e = true) (hh : homogeneous d args e ≠ .ok true) :
    isLinear d args [(dom, e)] = .ok false := by
  obtain ⟨⟨a, ha⟩, ⟨b, hb⟩⟩ := tests_total d args e hargs he
  have hb' : b = false := by
    cases b with
    | false => rfl
    | true => exact absurd hb hh
  subst hb'
  cases a <;> simp [isLinear, allOK, ha, hb]

/-! ### refutations

  Each class is refuted semantically in the polynomial differential ring (`Sem/Instances.lean`)
  with `α = 2`; by `accept_sound_opfree` the model's homogeneity test must then fail, hence the
  verdict is negative (`UnconsistentLinearExpressionError`). -/

/-- the interpretation used for the refutations: `l = L`, `α = 2` -/
noncomputable def refuteRing (L : PolyK) : DRing PolyK :=
  polyDRing (fun _ => L) (fun _ _ => 0) (fun _ => 2)

theorem two_ne (a : PolyK) (pt : Coord → ℚ) (h : evalAt pt a ≠ 0) (n : Nat) (hn : 2 ≤ n) :
    (2 : PolyK) ^ n * a ≠ 2 * a := by
  apply ne_of_evalAt pt
  simp only [map_mul, map_pow, map_ofNat]
  intro he
  have h2 : (2 : ℚ) ^ n = 2 := by
    have := mul_right_cancel₀ h he
    exact this
  have : (2 : ℚ) ^ n ≥ 2 ^ 2 := pow_le_pow_right₀ (by norm_num) hn
  rw [h2] at this
  norm_num at this

/-- generic step: a semantic refutation of homogeneity gives a negative verdict -/
theorem reject_of_refutation (d : Nat) (u : String) (k : Kind) (dom : String) (e : E) (he : OpFree e = true)
    (L : PolyK)
    (href : denG (refuteRing L) d false (subst ([sf u k].zip (mulVals [sf u k])) e) 0 0
      ≠ (refuteRing L).cst "alpha#" * denG (refuteRing L) d false (subst ([sf u k].zip (freshList "l#" [sf u k])) e) 0 0) :
    isLinear d [sf u k] [(dom, e)] = .ok false := by
  have hargs : ∀ a ∈ [sf u k], isFn a = true := by intro a ha; simp at ha; subst ha; rfl
  apply isLinear_false_of_hom d _ dom e hargs he
  intro hh
  obtain ⟨⟨a, ha⟩, _⟩ := tests_total d [sf u k] e hargs he
  -- homogeneity alone is what is used below
  have key : denG (refuteRing L) d false (subst ([sf u k].zip (mulVals [sf u k])) e) 0 0
      = (refuteRing L).cst "alpha#" * denG (refuteRing L) d false (subst ([sf u k].zip (freshList "l#" [sf u k])) e) 0 0 := by
    have s1 := (reevalSound_opfree (refuteRing L) d false [sf u k] (mulVals [sf u k]) e hargs (mulVals_opfree _ hargs) he).1
    have s2 := (reevalSound_opfree (refuteRing L) d false [sf u k] (freshList "l#" [sf u k]) e hargs (freshList_opfree _ _ hargs) he).1
    unfold homogeneous at hh
    simp only [substEval] at hh
    cases h1 : reeval2 d (subst ([sf u k].zip (mulVals [sf u k])) e) with
    | error x => simp [mulVals] at h1; simp [h1] at hh
    | ok n =>
      cases h2 : reeval2 d (subst ([sf u k].zip (freshList "l#" [sf u k])) e) with
      | error x => simp [mulVals] at h1; simp [h1, h2] at hh
      | ok l =>
        have h1' := h1
        simp only [mulVals] at h1'
        simp only [h1', h2] at hh
        injection hh with hh
        have := RingEq.ringEq_sound (refuteRing L) d false n (mul [alpha, l]) hh
        rw [s1 n h1] at this
        rw [this]
        simp [denG, denGProd, alpha, s2 l h2]
  exact href key

/-- the fresh function of the single-argument case -/
def l0 (k : Kind) : E := sf ("l#" ++ toString 0) k

theorem fresh_single (u : String) (k : Kind) : freshList "l#" [sf u k] = [l0 k] := by
  simp [freshList, fresh, l0, List.range, List.range.loop]

theorem mulVals_single (u : String) (k : Kind) : mulVals [sf u k] = [mul [alpha, l0 k]] := by
  simp [mulVals, fresh_single]

theorem lookup_self (u : String) (k : Kind) (v : E) : lookup [(sf u k, v)] (sf u k) = some v := by
  simp [lookup, eqb]

theorem refute_sf (L : PolyK) (n : String) : (refuteRing L).sf n = L := rfl
theorem refute_cst (L : PolyK) (n : String) : (refuteRing L).cst n = MvPolynomial.C 2 := rfl
theorem refute_D (L : PolyK) (c : Coord) (a : PolyK) : (refuteRing L).D c a = MvPolynomial.pderiv c a := rfl
theorem refute_fn (L : PolyK) (f : String) (a : PolyK) : (refuteRing L).fn f a = a * a := rfl

theorem evalAt_C (pt : Coord → ℚ) (r : ℚ) : evalAt pt (MvPolynomial.C r) = r := by simp [evalAt]
theorem evalAt_algebraMap (pt : Coord → ℚ) (r : ℚ) : evalAt pt (algebraMap ℚ PolyK r) = r := by
  show evalAt pt (MvPolynomial.C r) = r
  simp [evalAt]

theorem two_pow_ne (m : Nat) (hm : 2 ≤ m) : (2 : ℚ) ^ m ≠ 2 := by
  intro h
  have : (2 : ℚ) ^ m ≥ 2 ^ 2 := pow_le_pow_right₀ (by norm_num) hm
  rw [h] at this
  norm_num at this

end Sympde.Linear
