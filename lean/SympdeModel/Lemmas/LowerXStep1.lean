/-
  Helper lemmas for C01 (`lower_sound_ext`), part 3a: the unary operator steps on extended scalar forms
  (the same dispatch as Lemmas/LowerStep1.lean, with the derivative budget: the argument of an
  operator of order `ord1 o` must allow `ord1 o` more derivatives than the result).
-/
import SympdeModel.Lemmas.LowerXLeaf
namespace Sympde.Lower
open E Gen
open DRing (sumN)

variable {K : Type} [CommRing K] [Algebra ℚ K]

/-- the order of a differential operator: how deep derivative nodes nest in its component formulas -/
def ord1 : Op1 → Nat
  | .grad => 1 | .div => 1 | .curl => 1 | .rot => 1
  | .laplace => 2 | .hessian => 2
  | _ => 0

syntax "leaf1X_case " term ", " term ", " term ", " term ", " term : tactic
set_option hygiene false in
macro_rules
  | `(tactic| leaf1X_case $c, $d, $hVN, $hsig, $prep) => `(tactic|
      first
      | (exfalso; simp [ty1] at hty; done)
      | (exfalso; simp at hτ; done)
      | (simp [ty1] at hty; subst hty
         simp only [op1Class, Option.some.injEq] at hcn; subst hcn
         refine leaf1_soundX S T $d (by decide) _ _ _ _ rfl _ $c _ (ph 0 $c $d) (by rfl) (by rfl) (by rfl)
           (by rfl) (by rfl) (by rfl) (by rfl) (by rfl) (by rfl)
           (by first | exact Or.inl rfl | exact Or.inr rfl) k _ (by decide) a _ $hVN $hsig hra ?_ IH t h
         simp only [$prep:term]
         reads_tac))

set_option maxRecDepth 100000 in
/-- argument lowered to a scalar form (signature `s`, or `d` for a derivative node in 1D) -/
theorem op1X_step_sc (S : DRing K) (T : FnTable S) (d : Nat) (hd : d = 1 ∨ d = 2 ∨ d = 3) (lg : Bool)
    (o : Op1) (τa τ : Ty) (hty : ty1 d o τa = some τ) (cn : String) (hcn : op1Class o = some cn)
    (k : Nat) (a a' : E) (hLS : LX a' = true) (hN : VN S (k + ord1 o) a')
    (hτ : τa = .s ∨ d = 1) (hra : rank d a = rk τa)
    (IH : ∀ i j, InR d τa i j → den S a' i j = denG S d lg a i j) (t : E)
    (h : applyLeaf d ((if lg then "Logical" else "") ++ cn ++ "_" ++ toString d ++ "d") [a'] = .ok t) :
    hasShapeX d τ t = true ∧ VN S k t ∧
      ∀ i j, InR d τ i j → den S t i j = denG S d lg (op1 o a) i j := by
  have hσ : sigmaOf d [a'] = [("@" ++ toString 0, a')] := by rw [sigmaOf_one, bindArg_LX_eq d 0 a' hLS]
  rcases sigOf_LX d a' hLS with hsig | ⟨hd1, hsig⟩
  · rcases hd with rfl | rfl | rfl
    · cases lg <;> cases o <;> cases τa <;> leaf1X_case 's', 1, hN, hsig, hσ
    · cases lg <;> cases o <;> cases τa <;> leaf1X_case 's', 2, hN, hsig, hσ
    · cases lg <;> cases o <;> cases τa <;> leaf1X_case 's', 3, hN, hsig, hσ
  · subst hd1
    cases lg <;> cases o <;> cases τa <;> leaf1X_case 'd', 1, hN, hsig, hσ

set_option maxRecDepth 100000 in
/-- argument lowered to a column (signature `v`; in 1D also what a matrix is lowered to) -/
theorem op1X_step_vec (S : DRing K) (T : FnTable S) (d : Nat) (hd : d = 1 ∨ d = 2 ∨ d = 3) (lg : Bool)
    (o : Op1) (τa τ : Ty) (hty : ty1 d o τa = some τ) (cn : String) (hcn : op1Class o = some cn)
    (k : Nat) (a : E) (es : List E) (hN : VN S (k + ord1 o) (mat d 1 es))
    (hτ : τa = .v ∨ (τa = .m ∧ d = 1)) (hra : rank d a = rk τa)
    (IH : ∀ i j, InR d τa i j → den S (mat d 1 es) i j = denG S d lg a i j) (t : E)
    (h : applyLeaf d ((if lg then "Logical" else "") ++ cn ++ "_" ++ toString d ++ "d") [mat d 1 es]
      = .ok t) :
    hasShapeX d τ t = true ∧ VN S k t ∧
      ∀ i j, InR d τ i j → den S t i j = denG S d lg (op1 o a) i j := by
  rcases hd with rfl | rfl | rfl
  · cases lg <;> cases o <;> cases τa <;>
      leaf1X_case 'v', 1, hN, (show sigOf 1 (mat 1 1 es) = some 'v' from rfl), sigmaOf_one
  · cases lg <;> cases o <;> cases τa <;>
      leaf1X_case 'v', 2, hN, (show sigOf 2 (mat 2 1 es) = some 'v' from rfl), sigmaOf_one
  · cases lg <;> cases o <;> cases τa <;>
      leaf1X_case 'v', 3, hN, (show sigOf 3 (mat 3 1 es) = some 'v' from rfl), sigmaOf_one

set_option maxRecDepth 100000 in
/-- argument lowered to a square matrix in dimension 2 or 3 (signature `m`) -/
theorem op1X_step_mat (S : DRing K) (T : FnTable S) (d : Nat) (hd : d = 2 ∨ d = 3) (lg : Bool)
    (o : Op1) (τa τ : Ty) (hty : ty1 d o τa = some τ) (cn : String) (hcn : op1Class o = some cn)
    (k : Nat) (a : E) (es : List E) (hN : VN S (k + ord1 o) (mat d d es))
    (hτ : τa = .m) (hra : rank d a = rk τa)
    (IH : ∀ i j, InR d τa i j → den S (mat d d es) i j = denG S d lg a i j) (t : E)
    (h : applyLeaf d ((if lg then "Logical" else "") ++ cn ++ "_" ++ toString d ++ "d") [mat d d es]
      = .ok t) :
    hasShapeX d τ t = true ∧ VN S k t ∧
      ∀ i j, InR d τ i j → den S t i j = denG S d lg (op1 o a) i j := by
  rcases hd with rfl | rfl
  · cases lg <;> cases o <;> cases τa <;>
      leaf1X_case 'm', 2, hN, (show sigOf 2 (mat 2 2 es) = some 'm' from rfl), sigmaOf_one
  · cases lg <;> cases o <;> cases τa <;>
      leaf1X_case 'm', 3, hN, (show sigOf 3 (mat 3 3 es) = some 'm' from rfl), sigmaOf_one

end Sympde.Lower
