/-
  The structural equality `E.beq` (Model/Expr.lean, the `BEq E` instance) decides equality.
  Core Lean only.
-/
import SympdeModel.Model.Expr
namespace Sympde
namespace E

theorem eq_of_beq' (x y : E) (h : E.beq x y = true) : x = y := by
  induction x using E.rec
    (motive_2 := fun as => ∀ bs, E.beqList as bs = true → as = bs)
    generalizing y with
  | num p q => cases y <;> simp_all [E.beq]
  | cst n => cases y <;> simp_all [E.beq]
  | sym n => cases y <;> simp_all [E.beq]
  | sf n k => cases y <;> simp_all [E.beq]
  | vf n k => cases y <;> simp_all [E.beq]
  | idx b i ih => cases y <;> simp_all [E.beq] <;> exact ih _ h.1
  | add as ih => cases y <;> simp_all [E.beq] <;> exact ih _ h
  | mul as ih => cases y <;> simp_all [E.beq] <;> exact ih _ h
  | pow b e ihb ihe => cases y <;> simp_all [E.beq] <;> exact ⟨ihb _ h.1, ihe _ h.2⟩
  | fn f a ih => cases y <;> simp_all [E.beq] <;> exact ih _ h.2
  | pd c a ih => cases y <;> simp_all [E.beq] <;> exact ih _ h.2
  | op1 o a ih => cases y <;> simp_all [E.beq] <;> exact ih _ h.2
  | op2 o a b iha ihb => cases y <;> simp_all [E.beq] <;> exact ⟨iha _ h.1.2, ihb _ h.2⟩
  | mat r c es ih => cases y <;> simp_all [E.beq] <;> exact ih _ h.2
  | tup as ih => cases y <;> simp_all [E.beq] <;> exact ih _ h
  | normal k => cases y <;> simp_all [E.beq]
  | other t as ih => cases y <;> simp_all [E.beq] <;> exact ih _ h.2
  | nil => rename_i bs h; cases bs <;> simp_all [E.beqList]
  | cons a as iha ihas =>
    rename_i bs h; cases bs <;> simp_all [E.beqList] <;> exact ⟨iha _ h.1, ihas _ h.2⟩

theorem beq_refl' (x : E) : E.beq x x = true := by
  induction x using E.rec (motive_2 := fun as => E.beqList as as = true) with
  | nil => simp [E.beqList]
  | cons a as iha ihas => simp [E.beqList, iha, ihas]
  | _ => simp_all [E.beq]

/-- `==` on expression trees is sound -/
theorem eq_of_beq {x y : E} (h : (x == y) = true) : x = y := eq_of_beq' x y h

theorem beq_refl (x : E) : (x == x) = true := beq_refl' x

instance : LawfulBEq E where
  eq_of_beq := eq_of_beq
  rfl := beq_refl _

end E
end Sympde
