/-
  C03, non-vacuity: a concrete pair of differential rings related by `PB.MapRel` for a
  genuinely non-trivial mapping, so that `PB.logical_sound` is not vacuous.

  Carrier: `PolyC = MvPolynomial Coord ℂ`, polynomials in the six indeterminates
  `x y z x1 x2 x3` over ℂ.  (ℂ and not ℚ: `FnTable` asks for a total `tan` with
  `tan' = 1 + tan²`; in a polynomial ring with the formal derivatives this forces `tan` to be a
  constant `t` with `t² = -1`, which does not exist over ℚ: compare degrees in
  `∂(tan x1)/∂x1 = 1 + (tan x1)²`.)

  Shared part of both rings (`mkRing`):
    inv p        = C ((coeff 0 p)⁻¹)        (a true inverse on the non-zero constants)
    log a        = inv a · a,  log' = inv    (chain rule holds: `inv a` is a constant)
    tan a        = C I,        tan' = 0 = 1 + (C I)²
    sin cos exp sinh cosh = 0                (forced: e.g. `E' = E·a'` has no non-zero polynomial solution)
    any other function name: a ↦ a², derivative 2a      (as in `polyDRing`)
    rpow = 0

  The mapping is the affine map of the plane
        F(x1, x2) = (2·x1 + x2, x2),   Jacobian [[2, 1], [0, 1]],   det 2,
        inverse Jacobian [[1/2, -1/2], [0, 1]].

  `SL` (logical reading): `D c = pderiv c`, coordinate symbols = indeterminates.
  `SP` (physical reading at the image point, as a function of the logical point):
        dx = ½ ∂/∂x1,   dy = -½ ∂/∂x1 + ∂/∂x2,   dz = ∂/∂z,
        sym "x" = 2·x1 + x2,   sym "y" = x2,
    functions = push-forwards of the logical ones by kind (H1: û, L2: û/2, H(curl): J⁻ᵀû,
    H(div): Jû/2).  The law `DRing.D_sym` speaks about *every* symbol and operator, also the
    logical names which never occur in a physical expression; in `SP` these are parked on the
    unused indeterminates: `dx1 = ∂/∂x`, `dx2 = ∂/∂y`, `sym "x1" = x`, `sym "x2" = y`.
-/
import Mathlib.Data.Complex.Basic
import Mathlib.Algebra.Algebra.Rat
import Mathlib.Algebra.MvPolynomial.PDeriv
import Mathlib.Algebra.MvPolynomial.CommRing
import SympdeModel.Lemmas.PullbackSem
import SympdeModel.Sem.Instances
open MvPolynomial
namespace Sympde
namespace PBInst
open E PD PB
open DRing (sumN)

abbrev PolyC := MvPolynomial Coord ℂ

theorem pderivC_comm (i j : Coord) (p : PolyC) : pderiv i (pderiv j p) = pderiv j (pderiv i p) := by
  induction p using MvPolynomial.induction_on with
  | C a => simp
  | add p q hp hq => simp [hp, hq]
  | mul_X p n ih =>
    simp only [Derivation.leibniz, smul_eq_mul, map_add, pderiv_X, ih]
    by_cases h1 : i = n <;> by_cases h2 : j = n <;> simp [h1, h2] <;> ring

theorem algebraMap_rat (r : ℚ) : algebraMap ℚ PolyC r = C (r : ℂ) := by
  rw [MvPolynomial.algebraMap_apply]; simp

/-! ### constant-coefficient first-order operators -/

/-- `a ∂/∂c₁ + b ∂/∂c₂` -/
noncomputable def lin2 (a b : ℂ) (c1 c2 : Coord) (p : PolyC) : PolyC :=
  C a * pderiv c1 p + C b * pderiv c2 p

theorem lin2_add (a b : ℂ) (c1 c2 : Coord) (p q : PolyC) :
    lin2 a b c1 c2 (p + q) = lin2 a b c1 c2 p + lin2 a b c1 c2 q := by
  simp only [lin2, map_add]; ring

theorem lin2_mul (a b : ℂ) (c1 c2 : Coord) (p q : PolyC) :
    lin2 a b c1 c2 (p * q) = p * lin2 a b c1 c2 q + lin2 a b c1 c2 p * q := by
  simp only [lin2, Derivation.leibniz, smul_eq_mul]; ring

theorem lin2_C (a b : ℂ) (c1 c2 : Coord) (z : ℂ) : lin2 a b c1 c2 (C z) = 0 := by
  simp [lin2]

theorem lin2_comm (a b a' b' : ℂ) (c1 c2 c1' c2' : Coord) (p : PolyC) :
    lin2 a b c1 c2 (lin2 a' b' c1' c2' p) = lin2 a' b' c1' c2' (lin2 a b c1 c2 p) := by
  simp only [lin2, map_add, Derivation.leibniz, smul_eq_mul, pderiv_C, mul_zero, add_zero]
  rw [pderivC_comm c1 c1' p, pderivC_comm c1 c2' p, pderivC_comm c2 c1' p, pderivC_comm c2 c2' p]
  ring

theorem lin2_pderiv (c : Coord) (p : PolyC) : lin2 1 0 c c p = pderiv c p := by
  simp [lin2]

/-- a family of constant-coefficient operators, one per coordinate operator -/
structure Ops where
  a : Coord → ℂ
  b : Coord → ℂ
  u : Coord → Coord
  v : Coord → Coord

noncomputable def Ops.D (O : Ops) (c : Coord) (p : PolyC) : PolyC := lin2 (O.a c) (O.b c) (O.u c) (O.v c) p

/-! ### the shared interpretation of inverse and elementary functions -/

noncomputable def invC (p : PolyC) : PolyC := C ((coeff 0 p)⁻¹)

def isZeroFn (f : String) : Bool :=
  f == "sin" || f == "cos" || f == "exp" || f == "sinh" || f == "cosh"

noncomputable def fnC (f : String) (a : PolyC) : PolyC :=
  if f = "log" then invC a * a
  else if f = "tan" then C Complex.I
  else if isZeroFn f then 0
  else a * a

noncomputable def fnC' (f : String) (a : PolyC) : PolyC :=
  if f = "log" then invC a
  else if f = "tan" then 0
  else if isZeroFn f then 0
  else 2 * a

/-- the differential ring on `PolyC` with operators `O`, symbols `σ`, functions `sfv`, `vfv`,
    constants `cstv` -/
noncomputable def mkRing (O : Ops) (σ : String → PolyC)
    (hσ : ∀ c s, O.D c (σ s) = if s = c.name then 1 else 0)
    (sfv : String → PolyC) (vfv : String → Nat → PolyC) (cstv : String → ℂ) : DRing PolyC where
  D := O.D
  D_add c p q := lin2_add _ _ _ _ p q
  D_mul c p q := lin2_mul _ _ _ _ p q
  D_comm c c' p := lin2_comm _ _ _ _ _ _ _ _ p
  D_rat c r := by rw [algebraMap_rat]; exact lin2_C _ _ _ _ _
  sf := sfv
  vf := vfv
  cst s := C (cstv s)
  D_cst c s := lin2_C _ _ _ _ _
  sym := σ
  D_sym := hσ
  fn := fnC
  fn' := fnC'
  D_fn c f p := by
    unfold fnC fnC'
    split
    · show O.D c (C _ * p) = _
      unfold Ops.D
      rw [lin2_mul, lin2_C]; simp [invC]
    · split
      · unfold Ops.D; rw [lin2_C]; simp
      · split
        · have : O.D c 0 = 0 := by
            have := lin2_C (O.a c) (O.b c) (O.u c) (O.v c) 0
            simpa [Ops.D] using this
          rw [this]; simp
        · unfold Ops.D; rw [lin2_mul]; ring
  inv := invC
  rpow _ _ := 0
  D_rpow c b e := by
    have : O.D c 0 = 0 := by
      have := lin2_C (O.a c) (O.b c) (O.u c) (O.v c) 0
      simpa [Ops.D] using this
    rw [this]; simp
  rpow_pred b e _ := by simp

theorem mkRing_fnTable (O : Ops) (σ : String → PolyC) hσ sfv vfv cstv :
    FnTable (mkRing O σ hσ sfv vfv cstv) where
  sin x := by simp [mkRing, fnC, fnC', isZeroFn]
  cos x := by simp [mkRing, fnC, fnC', isZeroFn]
  exp x := by simp [mkRing, fnC, fnC', isZeroFn]
  log x := by simp [mkRing, fnC']
  sinh x := by simp [mkRing, fnC, fnC', isZeroFn]
  cosh x := by simp [mkRing, fnC, fnC', isZeroFn]
  tan x := by
    simp only [mkRing, fnC, fnC']
    simp only [show ("tan" = "log") = False from by decide, if_false, if_true]
    rw [← map_pow, Complex.I_sq]; simp

/-! ### the affine mapping `F(x1, x2) = (2·x1 + x2, x2)` -/

section Affine2

/-- `1/2` as a constant polynomial -/
noncomputable def half : PolyC := C 2⁻¹

theorem two_mul_half : (2 : PolyC) * half = 1 := by
  unfold half
  rw [show (2 : PolyC) = C 2 from (map_ofNat C 2).symm, ← C_mul]
  norm_num

theorem C_two : (C 2 : PolyC) = 2 := map_ofNat C 2

theorem pderiv_two (c : Coord) : pderiv c (2 : PolyC) = 0 := by
  rw [show (2 : PolyC) = C 2 from (map_ofNat C 2).symm]; simp

theorem invC_two : invC (2 : PolyC) = half := by
  unfold invC half
  rw [show (2 : PolyC) = C 2 from (map_ofNat C 2).symm]
  simp

variable (sfv : String → PolyC) (vfv : String → Nat → PolyC) (cstv par : String → ℂ)
  (κs κv : String → Kind)

/-- logical operators: the formal partial derivatives -/
def opsL : Ops := { a := fun _ => 1, b := fun _ => 0, u := id, v := id }

theorem opsL_D (c : Coord) (p : PolyC) : opsL.D c p = pderiv c p := lin2_pderiv c p

/-- coordinate symbols are the indeterminates, any other symbol is a (constant) parameter -/
noncomputable def symL (s : String) : PolyC :=
  match Coord.ofName s with
  | some c => X c
  | none => C (par s)

theorem symL_D (c : Coord) (s : String) : opsL.D c (symL par s) = if s = c.name then 1 else 0 := by
  rw [opsL_D]
  unfold symL
  cases h : Coord.ofName s with
  | none =>
    have : s ≠ c.name := by
      intro e; rw [e, Coord.ofName_name] at h; cases h
    simp [this]
  | some c' =>
    have hs := Coord.name_of_ofName h
    simp only [pderiv_X, Pi.single_apply]
    by_cases hc : c' = c
    · subst hc; simp [hs]
    · have : s ≠ c.name := by
        intro e; rw [hs] at e; exact hc (Coord.name_inj e)
      simp [hc, this]

/-- the logical reading -/
noncomputable def SL : DRing PolyC := mkRing opsL (symL par) (symL_D par) sfv vfv cstv

/-- physical operators through the inverse Jacobian `[[1/2, -1/2], [0, 1]]`;
    the logical names are parked on the unused indeterminates `x`, `y` -/
noncomputable def opsP : Ops where
  a := fun c => match c with | .x => 2⁻¹ | .y => -2⁻¹ | _ => 1
  b := fun c => match c with | .y => 1 | _ => 0
  u := fun c => match c with | .x => .x1 | .y => .x1 | .z => .z | .x1 => .x | .x2 => .y | .x3 => .x3
  v := fun c => match c with | .x => .x1 | .y => .x2 | .z => .z | .x1 => .x | .x2 => .y | .x3 => .x3

noncomputable def symP (s : String) : PolyC :=
  if s = "x" then 2 * X .x1 + X .x2
  else if s = "y" then X .x2
  else if s = "x1" then X .x
  else if s = "x2" then X .y
  else symL par s

theorem symP_D (c : Coord) (s : String) : opsP.D c (symP par s) = if s = c.name then 1 else 0 := by
  have hh : (C (2⁻¹ : ℂ) : PolyC) * 2 = 1 := by rw [mul_comm]; exact two_mul_half
  unfold symP
  by_cases h1 : s = "x"
  · subst h1; cases c <;> simp [Ops.D, opsP, lin2, Coord.name, hh, pderiv_two]
  by_cases h2 : s = "y"
  · subst h2; cases c <;> simp [Ops.D, opsP, lin2, Coord.name]
  by_cases h3 : s = "x1"
  · subst h3; cases c <;> simp [Ops.D, opsP, lin2, Coord.name]
  by_cases h4 : s = "x2"
  · subst h4; cases c <;> simp [Ops.D, opsP, lin2, Coord.name]
  simp only [h1, h2, h3, h4, if_false]
  unfold symL
  cases h : Coord.ofName s with
  | none =>
    have : s ≠ c.name := by
      intro e; rw [e, Coord.ofName_name] at h; cases h
    simp [this, Ops.D, lin2]
  | some c' =>
    have hs := Coord.name_of_ofName h
    subst hs
    cases c' <;> simp [Coord.name] at h1 h2 h3 h4 <;>
      cases c <;> simp [Ops.D, opsP, lin2, Coord.name]

/-- physical scalar functions: the push-forward of the logical one by kind -/
noncomputable def sfP (s : String) : PolyC :=
  match κs s with
  | .l2 => sfv s * half
  | _ => sfv s

/-- physical vector functions: H(curl) `J⁻ᵀ û`, H(div) `J û / det`, L2 `û / det`, else `û` -/
noncomputable def vfP (s : String) (i : Nat) : PolyC :=
  match κv s, i with
  | .hcurl, 0 => half * vfv s 0
  | .hcurl, 1 => -half * vfv s 0 + vfv s 1
  | .hdiv, 0 => (2 * vfv s 0 + vfv s 1) * half
  | .hdiv, 1 => vfv s 1 * half
  | .l2, i => vfv s i * half
  | _, i => vfv s i

/-- the physical reading at the image point -/
noncomputable def SP : DRing PolyC :=
  mkRing opsP (symP par) (symP_D par) (sfP sfv κs) (vfP vfv κv) cstv

/-! #### model side -/

def F0 : E := add [mul [num 2 1, sym "x1"], sym "x2"]
def F1 : E := sym "x2"
def M2 : Mp := { name := "", d := 2, F := [F0, F1] }

def e00 : E := add [add [mul [num 0 1, sym "x1"],
  mul [num 2 1, add [mul [num 1 1], mul [sym "x1", num 0 1]]]], num 0 1]
def e01 : E := add [add [mul [num 0 1, sym "x1"],
  mul [num 2 1, add [mul [num 0 1], mul [sym "x1", num 0 1]]]], num 1 1]
def e10 : E := num 0 1
def e11 : E := num 1 1

/-- the Jacobian the model computes for `M2` (`jacOf_M2`) -/
def jj : Jac := { d := 2, J := fun i l => ([[e00, e01], [e10, e11]].getD i []).getD l zero }

theorem jacOf_M2 : jacOf M2 = .ok jj := by rfl

theorem den_e00 (a b : Nat) : den (SL sfv vfv cstv par) e00 a b = 2 := by
  simp [e00, den, denSum, denProd, C_two]
theorem den_e01 (a b : Nat) : den (SL sfv vfv cstv par) e01 a b = 1 := by
  simp [e01, den, denSum, denProd]
theorem den_e10 (a b : Nat) : den (SL sfv vfv cstv par) e10 a b = 0 := by
  simp [e10, den]
theorem den_e11 (a b : Nat) : den (SL sfv vfv cstv par) e11 a b = 1 := by
  simp [e11, den]

theorem den_detJ (a b : Nat) : den (SL sfv vfv cstv par) (detJ jj) a b = 2 := by
  simp only [detJ, jj, den_sub, den_mul2, List.getD_cons_zero, List.getD_cons_succ,
    den_e00, den_e01, den_e10, den_e11]
  ring

/-- the components of the mapping as the model sees them -/
def Fn : Nat → E := M2.comp

theorem symL_x1 : symL par "x1" = X .x1 := by simp [symL, Coord.ofName]
theorem symL_x2 : symL par "x2" = X .x2 := by simp [symL, Coord.ofName]

theorem den_invJ00 (a b : Nat) : den (SL sfv vfv cstv par) (invJ jj 0 0) a b = half := by
  rw [den_invJ, den_detJ]
  show den _ (adjJ jj 0 0) a b * invC 2 = half
  rw [invC_two]
  simp [adjJ, jj, den_e11]

theorem den_invJ01 (a b : Nat) : den (SL sfv vfv cstv par) (invJ jj 0 1) a b = -half := by
  rw [den_invJ, den_detJ]
  show den _ (adjJ jj 0 1) a b * invC 2 = -half
  rw [invC_two]
  simp [adjJ, jj, den_neg, den_e01]

theorem den_invJ10 (a b : Nat) : den (SL sfv vfv cstv par) (invJ jj 1 0) a b = 0 := by
  rw [den_invJ, den_detJ]
  show den _ (adjJ jj 1 0) a b * invC 2 = 0
  simp [adjJ, jj, den_neg, den_e10]

theorem den_invJ11 (a b : Nat) : den (SL sfv vfv cstv par) (invJ jj 1 1) a b = 1 := by
  rw [den_invJ, den_detJ]
  show den _ (adjJ jj 1 1) a b * invC 2 = 1
  rw [invC_two]
  simp [adjJ, jj, den_e00, two_mul_half]

/-- **the two readings are related by the affine mapping** -/
theorem mapRel : MapRel (SL sfv vfv cstv par) (SP sfv vfv cstv par κs κv) "" jj Fn κs κv where
  d_pos := by decide
  d_le := by decide
  fn_eq := rfl
  inv_eq := rfl
  rpow_eq := rfl
  cst_eq := rfl
  sym_coord i hi a b := by
    have hi : i < 2 := hi
    match i, hi with
    | 0, _ =>
      show symP par "x" = den _ F0 a b
      simp [symP, F0, den, denSum, denProd, SL, mkRing, symL_x1, symL_x2, C_two]
    | 1, _ =>
      show symP par "y" = den _ F1 a b
      simp [symP, F1, den, SL, mkRing, symL_x2]
  sym_other s hp hl := by
    show symP par s = symL par s
    have h1 : s ≠ "x" := by
      intro e; subst e; have := hp 0 rfl; exact absurd this (by decide)
    have h2 : s ≠ "y" := by
      intro e; subst e; have := hp 1 rfl; exact absurd this (by decide)
    have h3 : s ≠ "x1" := by
      intro e; subst e; exact absurd hl (by decide)
    have h4 : s ≠ "x2" := by
      intro e; subst e; exact absurd hl (by decide)
    simp [symP, h1, h2, h3, h4]
  F_int i := by
    match i with
    | 0 => rfl
    | 1 => rfl
    | _ + 2 => rfl
  F_nd i := by
    match i with
    | 0 => simp [Fn, Mp.comp, M2, F0, NonDeg, NonDegList]
    | 1 => simp [Fn, Mp.comp, M2, F1, NonDeg]
    | _ + 2 => simp [Fn, Mp.comp, M2, zero, NonDeg]
  J_int i l := by
    rcases i with _ | _ | i <;> rcases l with _ | _ | l <;> rfl
  J_nd i l := by
    rcases i with _ | _ | i <;> rcases l with _ | _ | l <;>
      simp [jj, e00, e01, e10, e11, zero, NonDeg, NonDegList]
  det_unit a b := by
    rw [den_detJ]
    show (2 : PolyC) * invC 2 = 1
    rw [invC_two]; exact two_mul_half
  chain i hi k a b := by
    have hi : i < 2 := hi
    match i, hi with
    | 0, _ =>
      show opsP.D .x k = sumN 2 (fun l => den _ (invJ jj l 0) a b * opsL.D (lc l) k)
      simp only [sumN, den_invJ00, den_invJ10, opsL_D, lc, Coord.ofIdx]
      simp [Ops.D, opsP, lin2, half]
    | 1, _ =>
      show opsP.D .y k = sumN 2 (fun l => den _ (invJ jj l 1) a b * opsL.D (lc l) k)
      simp only [sumN, den_invJ01, den_invJ11, opsL_D, lc, Coord.ofIdx]
      simp [Ops.D, opsP, lin2, half]
  sf_pb s a b := by
    show sfP sfv κs s = _
    unfold sfP
    cases h : κs s <;> simp only [den_sf, den_mul2, den_invDet, den_detJ] <;> first | rfl | skip
    show sfv s * half = sfv s * invC 2
    rw [invC_two]
  vf_pb s i hi a b := by
    have hi : i < 2 := hi
    show vfP vfv κv s i = _
    unfold vfP
    have hd : jj.d = 2 := rfl
    have j00 : jj.J 0 0 = e00 := rfl
    have j01 : jj.J 0 1 = e01 := rfl
    have j10 : jj.J 1 0 = e10 := rfl
    have j11 : jj.J 1 1 = e11 := rfl
    have hvf : (SL sfv vfv cstv par).vf = vfv := rfl
    have hinv : (SL sfv vfv cstv par).inv 2 = half := invC_two
    match i, hi with
    | 0, _ =>
      cases h : κv s <;>
        simp only [pbVec, hd, sum3, den_idx_vf, den_mul2, den_add2, den_invDet, den_detJ, den_invJ00,
          den_invJ10, j00, j01, den_e00, den_e01, hvf, hinv] <;> ring
    | 1, _ =>
      cases h : κv s <;>
        simp only [pbVec, hd, sum3, den_idx_vf, den_mul2, den_add2, den_invDet, den_detJ, den_invJ01,
          den_invJ11, j10, j11, den_e10, den_e11, hvf, hinv] <;> ring

/-! #### what the physical reading is, in closed form -/

theorem SP_Dx (k : PolyC) : (SP sfv vfv cstv par κs κv).D .x k = half * pderiv .x1 k := by
  show opsP.D .x k = _
  simp [Ops.D, opsP, lin2, half]

theorem SP_Dy (k : PolyC) :
    (SP sfv vfv cstv par κs κv).D .y k = -half * pderiv .x1 k + pderiv .x2 k := by
  show opsP.D .y k = _
  simp [Ops.D, opsP, lin2, half]

theorem SP_sym_x : (SP sfv vfv cstv par κs κv).sym "x" = 2 * X .x1 + X .x2 := by
  show symP par "x" = _
  simp [symP]

theorem SP_sym_y : (SP sfv vfv cstv par κs κv).sym "y" = X .x2 := by
  show symP par "y" = _
  simp [symP]

theorem SP_sf (s : String) : (SP sfv vfv cstv par κs κv).sf s = sfP sfv κs s := rfl
theorem SP_vf (s : String) (i : Nat) : (SP sfv vfv cstv par κs κv).vf s i = vfP vfv κv s i := rfl

theorem pderiv_half (c : Coord) : pderiv c half = 0 := by simp [half]

theorem pderiv_half_mul (c : Coord) (p : PolyC) : pderiv c (half * p) = half * pderiv c p := by
  simp [half]

theorem pderiv_mul_half (c : Coord) (p : PolyC) : pderiv c (p * half) = pderiv c p * half := by
  simp [half, mul_comm]

theorem half_ne_zero : half ≠ 0 := by
  intro h
  have := two_mul_half
  rw [h, mul_zero] at this
  exact zero_ne_one this

end Affine2

end PBInst
end Sympde
