/-
  Helper lemmas for `subdomain_spec` (Props/C13.lean): the loops of `Domain.get_subdomain`.
-/
import SympdeModel.Lemmas.Topology
namespace Sympde.Topo

/-! ### Union output has no repetition -/

theorem dedupBy_pairwise {α : Type} (same : α → α → Bool) (l : List α) :
    (dedupBy same l).Pairwise (fun a b => same a b = false) := by
  induction l with
  | nil => simp [dedupBy]
  | cons x xs ih =>
    simp only [dedupBy, List.pairwise_cons]
    constructor
    · intro y hy
      have := (List.mem_filter.mp hy).2
      simpa using this
    · exact ih.sublist List.filter_sublist

theorem unionBy_nodup {α : Type} (key : α → String) (same : α → α → Bool) (hrefl : ∀ a, same a a = true)
    (l : List α) : (unionBy key same l).Nodup := by
  unfold unionBy
  rw [(sortBy_perm key _).nodup_iff]
  exact (dedupBy_pairwise same l).imp (fun {a b} h e => by subst e; rw [hrefl] at h; cases h)

theorem mem_dedupBy {α : Type} (same : α → α → Bool) (hrefl : ∀ a, same a a = true) (l : List α)
    (hinj : ∀ a ∈ l, ∀ b ∈ l, same a b = true → a = b) (x : α) : x ∈ dedupBy same l ↔ x ∈ l := by
  constructor
  · exact fun h => (dedupBy_sublist same l).subset h
  · induction l with
    | nil => intro h; cases h
    | cons y ys ih =>
      intro hx
      simp only [dedupBy, List.mem_cons, List.mem_filter]
      by_cases hxy : x = y
      · exact Or.inl hxy
      · right
        have hx' : x ∈ ys := by
          rcases List.mem_cons.mp hx with h | h
          · exact absurd h hxy
          · exact h
        refine ⟨ih (fun a ha b hb => hinj a (List.mem_cons_of_mem _ ha) b (List.mem_cons_of_mem _ hb)) hx', ?_⟩
        cases hs : same y x with
        | false => rfl
        | true => exact absurd (hinj y (by simp) x hx hs).symm hxy

theorem mem_unionBy {α : Type} (key : α → String) (same : α → α → Bool) (hrefl : ∀ a, same a a = true)
    (l : List α) (hinj : ∀ a ∈ l, ∀ b ∈ l, same a b = true → a = b) (x : α) :
    x ∈ unionBy key same l ↔ x ∈ l := by
  unfold unionBy
  rw [(sortBy_perm key _).mem_iff]
  exact mem_dedupBy same hrefl l hinj x

/-! ### dictionaries -/

theorem popPair_snd (d : List ((String × String) × Iface)) (k : String × String) :
    (popPair d k).2 = d.filter (fun e => !(e.1 == k)) := by
  unfold popPair
  split
  · rename_i h
    rw [List.find?_eq_none] at h
    simp only
    rw [List.filter_eq_self.mpr]
    intro e he
    simpa using h e he
  · rfl

theorem popPair_fst (d : List ((String × String) × Iface)) (k : String × String)
    (hk : (d.map (·.1)).Nodup) (i : Iface) : (popPair d k).1 = some i ↔ (k, i) ∈ d := by
  unfold popPair
  split
  · rename_i h
    rw [List.find?_eq_none] at h
    simp only [reduceCtorEq, false_iff]
    intro hm
    exact h _ hm (by simp)
  · rename_i e he
    simp only [Option.some.injEq]
    have hmem := List.mem_of_find?_eq_some he
    have hkey : e.1 = k := by simpa using List.find?_some he
    constructor
    · rintro rfl
      rw [← hkey]; exact hmem
    · intro hm
      have := List.inj_on_of_nodup_map hk hmem hm (by simp [hkey])
      rw [this]

/-! ### the inner loop of `get_subdomain` -/

/-- the body of the loop `for other_name in self.interior_names` -/
def stepInner (name : String) (names : List String) (other : String) (st : SubState) : SubState :=
  if other != name then
    let (iMinus, d1) := popPair st.idict (name, other)
    let (iPlus, d2) := popPair d1 (other, name)
    if !names.contains other then
      let b1 := match iMinus with
        | some i => st.bnds ++ [i.minus]
        | none => st.bnds
      let b2 := match iPlus with
        | some i => b1 ++ [i.plus]
        | none => b1
      { idict := d2, bnds := b2, ifs := st.ifs }
    else
      let f1 := match iPlus with
        | some i => st.ifs ++ [i]
        | none => st.ifs
      let f2 := match iMinus with
        | some i => f1 ++ [i]
        | none => f1
      { idict := d2, bnds := st.bnds, ifs := f2 }
  else st

theorem subInner_cons (name : String) (names : List String) (other : String) (rest : List String) (st : SubState) :
    subInner name names (other :: rest) st = subInner name names rest (stepInner name names other st) := by
  simp only [subInner, stepInner]
  split <;> rfl

theorem filter_keys_nodup {d : List ((String × String) × Iface)} (p : (String × String) × Iface → Bool)
    (h : (d.map (·.1)).Nodup) : ((d.filter p).map (·.1)).Nodup :=
  List.Nodup.sublist (List.Sublist.map _ List.filter_sublist) h

theorem stepInner_spec (name : String) (names : List String) (other : String) (st : SubState)
    (hk : (st.idict.map (·.1)).Nodup) (hne : other ≠ name) :
    (stepInner name names other st).idict =
      st.idict.filter (fun e => !(e.1 == (name, other)) && !(e.1 == (other, name))) ∧
    (∀ f, f ∈ (stepInner name names other st).bnds ↔ f ∈ st.bnds ∨ (other ∉ names ∧ ∃ i,
        (((name, other), i) ∈ st.idict ∧ f = i.minus) ∨ (((other, name), i) ∈ st.idict ∧ f = i.plus))) ∧
    (∀ i, i ∈ (stepInner name names other st).ifs ↔ i ∈ st.ifs ∨ (other ∈ names ∧
        (((name, other), i) ∈ st.idict ∨ ((other, name), i) ∈ st.idict))) := by
  have hne' : (other != name) = true := by simpa using hne
  have hd1 := popPair_snd st.idict (name, other)
  have hk1 : (((popPair st.idict (name, other)).2).map (·.1)).Nodup := by rw [hd1]; exact filter_keys_nodup _ hk
  have hd2 := popPair_snd (popPair st.idict (name, other)).2 (other, name)
  have hm := popPair_fst st.idict (name, other) hk
  have hp := popPair_fst (popPair st.idict (name, other)).2 (other, name) hk1
  have hp' : ∀ i, (popPair (popPair st.idict (name, other)).2 (other, name)).1 = some i ↔ ((other, name), i) ∈ st.idict := by
    intro i
    rw [hp i, hd1, List.mem_filter]
    constructor
    · exact fun h => h.1
    · intro h
      refine ⟨h, ?_⟩
      simp only [Bool.not_eq_true', beq_eq_false_iff_ne, ne_eq, Prod.mk.injEq, not_and]
      intro e; exact absurd e hne
  have hidict : (popPair (popPair st.idict (name, other)).2 (other, name)).2 =
      st.idict.filter (fun e => !(e.1 == (name, other)) && !(e.1 == (other, name))) := by
    rw [hd2, hd1, List.filter_filter]
    apply List.filter_congr; intro e _; rw [Bool.and_comm]
  unfold stepInner
  rw [if_pos hne']
  simp only
  by_cases hin : other ∈ names
  · have hc : names.contains other = true := by simpa using hin
    simp only [hc, Bool.not_true, Bool.false_eq_true, if_false]
    refine ⟨hidict, ?_, ?_⟩
    · intro f; simp [hin]
    · intro i
      cases h1 : (popPair (popPair st.idict (name, other)).2 (other, name)).1 with
      | none =>
        cases h2 : (popPair st.idict (name, other)).1 with
        | none =>
          simp only [hin, true_and]
          constructor
          · exact Or.inl
          · rintro (h | h | h)
            · exact h
            · rw [(hm i).mpr h] at h2; cases h2
            · rw [(hp' i).mpr h] at h1; cases h1
        | some j =>
          simp only [List.mem_append, List.mem_cons, List.not_mem_nil, or_false, hin, true_and]
          constructor
          · rintro (h | rfl)
            · exact Or.inl h
            · exact Or.inr (Or.inl ((hm _).mp h2))
          · rintro (h | h | h)
            · exact Or.inl h
            · have := (hm i).mpr h; rw [h2] at this; exact Or.inr (by simpa using this.symm)
            · rw [(hp' i).mpr h] at h1; cases h1
      | some k =>
        cases h2 : (popPair st.idict (name, other)).1 with
        | none =>
          simp only [List.mem_append, List.mem_cons, List.not_mem_nil, or_false, hin, true_and]
          constructor
          · rintro (h | rfl)
            · exact Or.inl h
            · exact Or.inr (Or.inr ((hp' _).mp h1))
          · rintro (h | h | h)
            · exact Or.inl h
            · rw [(hm i).mpr h] at h2; cases h2
            · have := (hp' i).mpr h; rw [h1] at this; exact Or.inr (by simpa using this.symm)
        | some j =>
          simp only [List.mem_append, List.mem_cons, List.not_mem_nil, or_false, hin, true_and]
          constructor
          · rintro ((h | rfl) | rfl)
            · exact Or.inl h
            · exact Or.inr (Or.inr ((hp' _).mp h1))
            · exact Or.inr (Or.inl ((hm _).mp h2))
          · rintro (h | h | h)
            · exact Or.inl (Or.inl h)
            · have := (hm i).mpr h; rw [h2] at this; exact Or.inr (by simpa using this.symm)
            · have := (hp' i).mpr h; rw [h1] at this; exact Or.inl (Or.inr (by simpa using this.symm))
  · have hc : names.contains other = false := by simpa using hin
    simp only [hc, Bool.not_false, if_true]
    refine ⟨hidict, ?_, ?_⟩
    · intro f
      cases h1 : (popPair (popPair st.idict (name, other)).2 (other, name)).1 with
      | none =>
        cases h2 : (popPair st.idict (name, other)).1 with
        | none =>
          simp only [hin, not_false_eq_true, true_and]
          constructor
          · exact Or.inl
          · rintro (h | ⟨i, ⟨h, _⟩ | ⟨h, _⟩⟩)
            · exact h
            · rw [(hm i).mpr h] at h2; cases h2
            · rw [(hp' i).mpr h] at h1; cases h1
        | some j =>
          simp only [List.mem_append, List.mem_cons, List.not_mem_nil, or_false, hin, not_false_eq_true, true_and]
          constructor
          · rintro (h | rfl)
            · exact Or.inl h
            · exact Or.inr ⟨j, Or.inl ⟨(hm _).mp h2, rfl⟩⟩
          · rintro (h | ⟨i, ⟨h, rfl⟩ | ⟨h, rfl⟩⟩)
            · exact Or.inl h
            · have := (hm i).mpr h; rw [h2] at this
              simp only [Option.some.injEq] at this; subst this; exact Or.inr rfl
            · rw [(hp' i).mpr h] at h1; cases h1
      | some k =>
        cases h2 : (popPair st.idict (name, other)).1 with
        | none =>
          simp only [List.mem_append, List.mem_cons, List.not_mem_nil, or_false, hin, not_false_eq_true, true_and]
          constructor
          · rintro (h | rfl)
            · exact Or.inl h
            · exact Or.inr ⟨k, Or.inr ⟨(hp' _).mp h1, rfl⟩⟩
          · rintro (h | ⟨i, ⟨h, rfl⟩ | ⟨h, rfl⟩⟩)
            · exact Or.inl h
            · rw [(hm i).mpr h] at h2; cases h2
            · have := (hp' i).mpr h; rw [h1] at this
              simp only [Option.some.injEq] at this; subst this; exact Or.inr rfl
        | some j =>
          simp only [List.mem_append, List.mem_cons, List.not_mem_nil, or_false, hin, not_false_eq_true, true_and]
          constructor
          · rintro ((h | rfl) | rfl)
            · exact Or.inl h
            · exact Or.inr ⟨j, Or.inl ⟨(hm _).mp h2, rfl⟩⟩
            · exact Or.inr ⟨k, Or.inr ⟨(hp' _).mp h1, rfl⟩⟩
          · rintro (h | ⟨i, ⟨h, rfl⟩ | ⟨h, rfl⟩⟩)
            · exact Or.inl (Or.inl h)
            · have := (hm i).mpr h; rw [h2] at this
              simp only [Option.some.injEq] at this; subst this; exact Or.inl (Or.inr rfl)
            · have := (hp' i).mpr h; rw [h1] at this
              simp only [Option.some.injEq] at this; subst this; exact Or.inr rfl
    · intro i; simp [hin]

theorem subInner_spec (name : String) (names : List String) (others : List String) (st : SubState)
    (hk : (st.idict.map (·.1)).Nodup) :
    (subInner name names others st).idict =
      st.idict.filter (fun e => !(others.any (fun o => o != name && (e.1 == (name, o) || e.1 == (o, name))))) ∧
    (∀ f, f ∈ (subInner name names others st).bnds ↔ f ∈ st.bnds ∨ ∃ o ∈ others, o ≠ name ∧ o ∉ names ∧ ∃ i,
        (((name, o), i) ∈ st.idict ∧ f = i.minus) ∨ (((o, name), i) ∈ st.idict ∧ f = i.plus)) ∧
    (∀ i, i ∈ (subInner name names others st).ifs ↔ i ∈ st.ifs ∨ ∃ o ∈ others, o ≠ name ∧ o ∈ names ∧
        (((name, o), i) ∈ st.idict ∨ ((o, name), i) ∈ st.idict)) := by
  induction others generalizing st with
  | nil => simp [subInner]
  | cons other rest ih =>
    rw [subInner_cons]
    by_cases hne : other = name
    · have hst : stepInner name names other st = st := by simp [stepInner, hne]
      rw [hst]
      obtain ⟨h1, h2, h3⟩ := ih st hk
      refine ⟨?_, ?_, ?_⟩
      · rw [h1]; apply List.filter_congr; intro e _; simp [hne]
      · intro f; rw [h2 f]; simp [hne]
      · intro i; rw [h3 i]; simp [hne]
    · obtain ⟨s1, s2, s3⟩ := stepInner_spec name names other st hk hne
      have hk1 : ((stepInner name names other st).idict.map (·.1)).Nodup := by
        rw [s1]; exact filter_keys_nodup _ hk
      obtain ⟨h1, h2, h3⟩ := ih (stepInner name names other st) hk1
      -- membership in the dictionary after the step
      have hmem : ∀ k i, (k, i) ∈ (stepInner name names other st).idict ↔
          (k, i) ∈ st.idict ∧ k ≠ (name, other) ∧ k ≠ (other, name) := by
        intro k i; rw [s1, List.mem_filter]; simp
      refine ⟨?_, ?_, ?_⟩
      · rw [h1, s1, List.filter_filter]
        apply List.filter_congr; intro e _
        have : (other != name) = true := by simpa using hne
        simp only [List.any_cons, this, Bool.true_and, Bool.not_or, Bool.and_comm]
      · intro f
        rw [h2 f, s2 f]
        constructor
        · rintro ((h | ⟨hn, i, hi⟩) | ⟨o, ho, hon, hos, i, hi⟩)
          · exact Or.inl h
          · exact Or.inr ⟨other, by simp, hne, hn, i, hi⟩
          · refine Or.inr ⟨o, List.mem_cons_of_mem _ ho, hon, hos, i, ?_⟩
            rcases hi with ⟨h, e⟩ | ⟨h, e⟩
            · exact Or.inl ⟨((hmem _ _).mp h).1, e⟩
            · exact Or.inr ⟨((hmem _ _).mp h).1, e⟩
        · rintro (h | ⟨o, ho, hon, hos, i, hi⟩)
          · exact Or.inl (Or.inl h)
          · rcases List.mem_cons.mp ho with rfl | ho'
            · exact Or.inl (Or.inr ⟨hos, i, hi⟩)
            · by_cases hoo : o = other
              · subst hoo; exact Or.inl (Or.inr ⟨hos, i, hi⟩)
              · refine Or.inr ⟨o, ho', hon, hos, i, ?_⟩
                rcases hi with ⟨h, e⟩ | ⟨h, e⟩
                · refine Or.inl ⟨(hmem _ _).mpr ⟨h, ?_, ?_⟩, e⟩
                  · simp [hoo]
                  · simp only [ne_eq, Prod.mk.injEq, not_and]; intro e1; exact absurd e1.symm hne
                · refine Or.inr ⟨(hmem _ _).mpr ⟨h, ?_, ?_⟩, e⟩
                  · simp only [ne_eq, Prod.mk.injEq, not_and]; intro e1; exact absurd e1 hon
                  · simp [hoo]
      · intro i
        rw [h3 i, s3 i]
        constructor
        · rintro ((h | ⟨hn, hi⟩) | ⟨o, ho, hon, hos, hi⟩)
          · exact Or.inl h
          · exact Or.inr ⟨other, by simp, hne, hn, hi⟩
          · refine Or.inr ⟨o, List.mem_cons_of_mem _ ho, hon, hos, ?_⟩
            rcases hi with h | h
            · exact Or.inl ((hmem _ _).mp h).1
            · exact Or.inr ((hmem _ _).mp h).1
        · rintro (h | ⟨o, ho, hon, hos, hi⟩)
          · exact Or.inl (Or.inl h)
          · rcases List.mem_cons.mp ho with rfl | ho'
            · exact Or.inl (Or.inr ⟨hos, hi⟩)
            · by_cases hoo : o = other
              · subst hoo; exact Or.inl (Or.inr ⟨hos, hi⟩)
              · refine Or.inr ⟨o, ho', hon, hos, ?_⟩
                rcases hi with h | h
                · refine Or.inl ((hmem _ _).mpr ⟨h, ?_, ?_⟩)
                  · simp [hoo]
                  · simp only [ne_eq, Prod.mk.injEq, not_and]; intro e1; exact absurd e1.symm hne
                · refine Or.inr ((hmem _ _).mpr ⟨h, ?_, ?_⟩)
                  · simp only [ne_eq, Prod.mk.injEq, not_and]; intro e1; exact absurd e1 hon
                  · simp [hoo]

/-! ### well-formed joined domains -/

def Iface.mname (i : Iface) : String := i.minus.patch.name
def Iface.pname (i : Iface) : String := i.plus.patch.name
def Iface.key (i : Iface) : String × String := (i.mname, i.pname)

/-- what `join_partition` / `join_declared` establish about a joined domain, plus "no patch is
    joined to itself" -/
structure WF (ps : List Patch) (d : Dom) : Prop where
  names : NamesOk ps
  len : 2 ≤ ps.length
  ints : d.interiors.Perm ps
  part : (d.boundary ++ ifaceSides d.ifaces).Perm (allFaces ps)
  inames : (d.ifaces.map Iface.name).Nodup
  iname : ∀ i ∈ d.ifaces, i.name = ifaceName i.mname i.pname
  noself : ∀ i ∈ d.ifaces, i.mname ≠ i.pname
  dims : ∀ p ∈ ps, p.dim = headDim ps

theorem mem_ifaceSides (ifs : List Iface) (f : Face) :
    f ∈ ifaceSides ifs ↔ ∃ i ∈ ifs, f = i.minus ∨ f = i.plus := by
  simp [ifaceSides, List.mem_flatMap]

namespace WF
variable {ps : List Patch} {d : Dom} (w : WF ps d)
include w

theorem sidesNodup : (ifaceSides d.ifaces).Nodup :=
  (List.nodup_append.mp (w.part.nodup_iff.mpr (allFaces_nodup w.names.nodup))).2.1

theorem bndNodup : d.boundary.Nodup :=
  (List.nodup_append.mp (w.part.nodup_iff.mpr (allFaces_nodup w.names.nodup))).1

theorem bnd_not_side {f : Face} (h : f ∈ d.boundary) : f ∉ ifaceSides d.ifaces := fun h2 =>
  (List.nodup_append.mp (w.part.nodup_iff.mpr (allFaces_nodup w.names.nodup))).2.2 f h f h2 rfl

theorem bnd_all {f : Face} (h : f ∈ d.boundary) : f ∈ allFaces ps := w.part.subset (List.mem_append_left _ h)
theorem side_all {f : Face} (h : f ∈ ifaceSides d.ifaces) : f ∈ allFaces ps :=
  w.part.subset (List.mem_append_right _ h)

theorem minus_all {i : Iface} (h : i ∈ d.ifaces) : i.minus ∈ allFaces ps :=
  w.side_all ((mem_ifaceSides _ _).mpr ⟨i, h, Or.inl rfl⟩)
theorem plus_all {i : Iface} (h : i ∈ d.ifaces) : i.plus ∈ allFaces ps :=
  w.side_all ((mem_ifaceSides _ _).mpr ⟨i, h, Or.inr rfl⟩)

theorem iface_inj {i j : Iface} (hi : i ∈ d.ifaces) (hj : j ∈ d.ifaces) (h : i.name = j.name) : i = j :=
  List.inj_on_of_nodup_map w.inames hi hj h

theorem key_inj {i j : Iface} (hi : i ∈ d.ifaces) (hj : j ∈ d.ifaces) (h : i.key = j.key) : i = j := by
  apply w.iface_inj hi hj
  rw [w.iname i hi, w.iname j hj]
  simp only [Iface.key, Prod.mk.injEq] at h
  rw [h.1, h.2]

/-- the sides of the interfaces are pairwise different faces -/
theorem side_unique {i j : Iface} (hi : i ∈ d.ifaces) (hj : j ∈ d.ifaces) :
    (i.minus = j.minus → i = j) ∧ (i.plus = j.plus → i = j) ∧ i.minus ≠ j.plus := by
  have hnd := w.sidesNodup
  unfold ifaceSides at hnd
  rw [List.nodup_flatMap] at hnd
  obtain ⟨h1, h2⟩ := hnd
  by_cases e : i = j
  · subst e
    refine ⟨fun _ => rfl, fun _ => rfl, ?_⟩
    have := h1 i hi
    simpa using this
  · have hdis : ∀ f, f ∈ [i.minus, i.plus] → f ∈ [j.minus, j.plus] → False := by
      have hsym : ∀ ⦃a⦄, a ∈ d.ifaces → ∀ ⦃b⦄, b ∈ d.ifaces →
          (a ≠ b → List.Disjoint [a.minus, a.plus] [b.minus, b.plus]) := by
        apply List.Pairwise.forall_of_forall_of_flip
        · intro a _ h; exact absurd rfl h
        · refine h2.imp ?_
          intro a b h _; exact h
        · refine h2.imp ?_
          intro a b h
          show b ≠ a → List.Disjoint [b.minus, b.plus] [a.minus, a.plus]
          intro _; exact List.disjoint_comm.mp h
      intro f hf1 hf2
      exact hsym hi hj e hf1 hf2
    refine ⟨fun h => ?_, fun h => ?_, fun h => ?_⟩
    · exact absurd (hdis i.minus (by simp) (by simp [h])) id
    · exact absurd (hdis i.plus (by simp) (by simp [h])) id
    · exact hdis i.minus (by simp) (by simp [h])

theorem mname_mem {i : Iface} (h : i ∈ d.ifaces) : i.mname ∈ d.interiors.map Patch.name :=
  List.mem_map_of_mem (w.ints.mem_iff.mpr ((mem_allFaces ps _).mp (w.minus_all h)).1)
theorem pname_mem {i : Iface} (h : i ∈ d.ifaces) : i.pname ∈ d.interiors.map Patch.name :=
  List.mem_map_of_mem (w.ints.mem_iff.mpr ((mem_allFaces ps _).mp (w.plus_all h)).1)

end WF

/-! ### the dictionary of interfaces keyed by (minus patch, plus patch) -/

theorem foldl_dictSet_map {α κ ν : Type} [BEq κ] [LawfulBEq κ] (k : α → κ) (v : α → ν) (l : List α)
    (acc : List (κ × ν)) (h : (acc.map (·.1) ++ l.map k).Nodup) :
    l.foldl (fun d x => dictSet (· == ·) d (k x) (v x)) acc = acc ++ l.map (fun x => (k x, v x)) := by
  induction l generalizing acc with
  | nil => simp
  | cons x xs ih =>
    simp only [List.foldl_cons]
    rw [dictSet_fresh, ih]
    · simp
    · simpa using h
    · intro e he
      rw [List.nodup_append] at h
      have := h.2.2 e.1 (List.mem_map_of_mem he) (k x) (by simp)
      simpa using this

def idict0 (d : Dom) : List ((String × String) × Iface) :=
  (sortBy Iface.name d.ifaces).foldl
    (fun acc i => dictSet (· == ·) acc (i.minus.patch.name, i.plus.patch.name) i) []

namespace WF
variable {ps : List Patch} {d : Dom} (w : WF ps d)
include w

theorem idict0_eq : idict0 d = (sortBy Iface.name d.ifaces).map (fun i => (i.key, i)) := by
  unfold idict0
  have hperm := sortBy_perm Iface.name d.ifaces
  have := foldl_dictSet_map (fun i : Iface => (i.minus.patch.name, i.plus.patch.name)) (fun i => i)
    (sortBy Iface.name d.ifaces) [] (by
      simp only [List.map_nil, List.nil_append]
      apply List.Nodup.map_on
      · intro x hx y hy e
        exact w.key_inj (hperm.subset hx) (hperm.subset hy) e
      · exact hperm.nodup_iff.mpr (List.Nodup.of_map _ w.inames))
  simpa [Iface.key, Iface.mname, Iface.pname] using this

theorem mem_idict0 (k : String × String) (i : Iface) : (k, i) ∈ idict0 d ↔ i ∈ d.ifaces ∧ k = i.key := by
  rw [w.idict0_eq, List.mem_map]
  constructor
  · rintro ⟨j, hj, e⟩
    simp only [Prod.mk.injEq] at e
    obtain ⟨e1, rfl⟩ := e
    exact ⟨(sortBy_perm _ _).subset hj, e1.symm⟩
  · rintro ⟨hi, rfl⟩
    exact ⟨i, (sortBy_perm _ _).mem_iff.mpr hi, rfl⟩

theorem idict0_keys : ((idict0 d).map (·.1)).Nodup := by
  rw [w.idict0_eq, List.map_map]
  have hperm := sortBy_perm Iface.name d.ifaces
  apply List.Nodup.map_on
  · intro x hx y hy e
    exact w.key_inj (hperm.subset hx) (hperm.subset hy) e
  · exact hperm.nodup_iff.mpr (List.Nodup.of_map _ w.inames)

end WF

/-! ### the outer loop -/

/-- the faces that form the boundary of the patches `done` inside the selection `S` -/
def Bnd (ps : List Patch) (d : Dom) (S done : List String) (f : Face) : Prop :=
  f ∈ allFaces ps ∧ f.patch.name ∈ done ∧
    (f ∈ d.boundary ∨ ∃ i ∈ d.ifaces, (f = i.minus ∧ i.pname ∉ S) ∨ (f = i.plus ∧ i.mname ∉ S))

/-- `A|B|C`: the name given to the joined sub-domain -/
def nameOf : List String → String
  | [] => ""
  | n :: ns => ns.foldl ifaceName n

theorem nameOf_snoc (done : List String) (name : String) (h : done ≠ []) :
    nameOf (done ++ [name]) = ifaceName (nameOf done) name := by
  cases done with
  | nil => exact absurd rfl h
  | cons n ns => simp [nameOf, List.foldl_append]

structure Inv (ps : List Patch) (d : Dom) (S done : List String) (st : SubState) (prev : Option Dom) : Prop where
  idict : st.idict = (idict0 d).filter (fun e => !(done.contains e.1.1) && !(done.contains e.1.2))
  ifs : ∀ i, i ∈ st.ifs ↔ i ∈ d.ifaces ∧ i.mname ∈ S ∧ i.pname ∈ S ∧ (i.mname ∈ done ∨ i.pname ∈ done)
  prev : match prev with
    | none => done = []
    | some pd => done ≠ [] ∧ pd.ifaces = [] ∧ (∀ p, p ∈ pd.interiors ↔ p ∈ ps ∧ p.name ∈ done) ∧
        (∀ f, f ∈ pd.boundary ↔ Bnd ps d S done f) ∧ pd.name = nameOf done ∧
        pd.interiors.Nodup ∧ pd.boundary.Nodup

theorem Bnd_snoc (ps : List Patch) (d : Dom) (S done : List String) (name : String) (f : Face) :
    Bnd ps d S (done ++ [name]) f ↔ Bnd ps d S done f ∨ Bnd ps d S [name] f := by
  simp only [Bnd, List.mem_append, List.mem_singleton]
  constructor
  · rintro ⟨h1, h2 | h2, h3⟩
    · exact Or.inl ⟨h1, h2, h3⟩
    · exact Or.inr ⟨h1, h2, h3⟩
  · rintro (⟨h1, h2, h3⟩ | ⟨h1, h2, h3⟩)
    · exact ⟨h1, Or.inl h2, h3⟩
    · exact ⟨h1, Or.inr h2, h3⟩

/-- the free faces of one patch as `get_subdomain` collects them from `boundary_dict` -/
theorem mem_bnds0 {ps : List Patch} {d : Dom} (w : WF ps d) (interior : Patch) (hi : interior ∈ ps) (f : Face) :
    f ∈ interior.faces.filterMap (fun g => (d.boundary.filter (fun b => b.patch.name == interior.name)).find?
        (fun b => b.same g)) ↔ f ∈ d.boundary ∧ f.patch.name = interior.name := by
  rw [List.mem_filterMap]
  constructor
  · rintro ⟨g, _, hfind⟩
    have hm := List.mem_of_find?_eq_some hfind
    rw [List.mem_filter] at hm
    exact ⟨hm.1, by simpa using hm.2⟩
  · rintro ⟨hb, hn⟩
    have hfa := w.bnd_all hb
    have hp : f.patch = interior := w.names.inj ((mem_allFaces ps f).mp hfa).1 hi hn
    have hff : f ∈ interior.faces := by
      rw [← hp]; exact (mem_faces _ _).mpr ⟨rfl, ((mem_allFaces ps f).mp hfa).2⟩
    refine ⟨f, hff, ?_⟩
    apply find?_unique
    · rw [List.mem_filter]; exact ⟨hb, by simpa using hn⟩
    · exact same_refl f
    · intro y hy hs
      rw [List.mem_filter] at hy
      exact (same_iff_eq w.names ((mem_allFaces ps y).mp (w.bnd_all hy.1)).1 ((mem_allFaces ps f).mp hfa).1).mp hs

theorem mem_stidict {ps : List Patch} {d : Dom} (w : WF ps d) {S done : List String} {st : SubState}
    {prev : Option Dom} (hinv : Inv ps d S done st prev) (k : String × String) (i : Iface) :
    (k, i) ∈ st.idict ↔ i ∈ d.ifaces ∧ k = i.key ∧ i.mname ∉ done ∧ i.pname ∉ done := by
  rw [hinv.idict, List.mem_filter, w.mem_idict0]
  constructor
  · rintro ⟨⟨h1, rfl⟩, h2⟩
    simp only [Iface.key, Bool.and_eq_true, Bool.not_eq_true', List.contains_eq_mem,
      decide_eq_false_iff_not] at h2
    exact ⟨h1, rfl, h2.1, h2.2⟩
  · rintro ⟨h1, rfl, h2, h3⟩
    refine ⟨⟨h1, rfl⟩, ?_⟩
    simp [Iface.key, h2, h3]

theorem inner_step {ps : List Patch} {d : Dom} (w : WF ps d) (S done : List String) (name : String)
    (st : SubState) (prev : Option Dom) (hinv : Inv ps d S done st prev)
    (hdS : ∀ n ∈ done, n ∈ S) (hnS : name ∈ S) (hnd : name ∉ done) (bnds0 : List Face)
    (hb0 : ∀ f, f ∈ bnds0 ↔ f ∈ d.boundary ∧ f.patch.name = name) :
    (subInner name S (d.interiors.map Patch.name) { st with bnds := bnds0 }).idict =
      (idict0 d).filter (fun e => !((done ++ [name]).contains e.1.1) && !((done ++ [name]).contains e.1.2)) ∧
    (∀ i, i ∈ (subInner name S (d.interiors.map Patch.name) { st with bnds := bnds0 }).ifs ↔
      i ∈ d.ifaces ∧ i.mname ∈ S ∧ i.pname ∈ S ∧ (i.mname ∈ done ++ [name] ∨ i.pname ∈ done ++ [name])) ∧
    (∀ f, f ∈ (subInner name S (d.interiors.map Patch.name) { st with bnds := bnds0 }).bnds ↔
      Bnd ps d S [name] f) := by
  have hk : (({ st with bnds := bnds0 } : SubState).idict.map (·.1)).Nodup := by
    show (st.idict.map (·.1)).Nodup
    rw [hinv.idict]; exact filter_keys_nodup _ w.idict0_keys
  obtain ⟨h1, h2, h3⟩ := subInner_spec name S (d.interiors.map Patch.name) { st with bnds := bnds0 } hk
  have hmem := mem_stidict w hinv
  refine ⟨?_, ?_, ?_⟩
  · rw [h1]
    show st.idict.filter _ = _
    rw [hinv.idict, List.filter_filter]
    apply List.filter_congr
    rintro ⟨k, i⟩ he
    obtain ⟨hi, rfl⟩ := (w.mem_idict0 k i).mp he
    have hm := w.mname_mem hi
    have hp := w.pname_mem hi
    have hns := w.noself i hi
    have hany : ((d.interiors.map Patch.name).any
        (fun o => o != name && ((i.key == (name, o)) || (i.key == (o, name))))) = true ↔
        (i.mname = name ∨ i.pname = name) := by
      rw [List.any_eq_true]
      constructor
      · rintro ⟨o, _, ho⟩
        simp only [Iface.key, Bool.and_eq_true, bne_iff_ne, ne_eq, Bool.or_eq_true, beq_iff_eq,
          Prod.mk.injEq] at ho
        rcases ho.2 with h | h
        · exact Or.inl h.1
        · exact Or.inr h.2
      · rintro (h | h)
        · refine ⟨i.pname, hp, ?_⟩
          simp only [Iface.key, Bool.and_eq_true, bne_iff_ne, ne_eq, Bool.or_eq_true, beq_iff_eq, Prod.mk.injEq]
          exact ⟨fun e => hns (h.trans e.symm), Or.inl ⟨h, trivial⟩⟩
        · refine ⟨i.mname, hm, ?_⟩
          simp only [Iface.key, Bool.and_eq_true, bne_iff_ne, ne_eq, Bool.or_eq_true, beq_iff_eq, Prod.mk.injEq]
          exact ⟨fun e => hns (e.trans h.symm), Or.inr ⟨trivial, h⟩⟩
    rw [Bool.eq_iff_iff]
    simp only [Bool.and_eq_true, Bool.not_eq_true', List.contains_eq_mem, decide_eq_false_iff_not,
      List.mem_append, List.mem_singleton, not_or]
    have hany' : ((d.interiors.map Patch.name).any
        (fun o => o != name && ((i.key == (name, o)) || (i.key == (o, name))))) = false ↔
        (i.mname ≠ name ∧ i.pname ≠ name) := by
      rw [← Bool.not_eq_true, hany]; simp only [not_or]
    rw [hany']
    simp only [Iface.key, Iface.mname, Iface.pname]
    constructor
    · rintro ⟨⟨a, b⟩, c, e⟩; exact ⟨⟨c, a⟩, e, b⟩
    · rintro ⟨⟨c, a⟩, e, b⟩; exact ⟨⟨a, b⟩, c, e⟩
  · intro i
    rw [h3 i]
    show (i ∈ st.ifs ∨ ∃ o ∈ d.interiors.map Patch.name, o ≠ name ∧ o ∈ S ∧
      (((name, o), i) ∈ st.idict ∨ ((o, name), i) ∈ st.idict)) ↔ _
    rw [hinv.ifs i]
    simp only [hmem, Iface.key, Prod.mk.injEq, List.mem_append, List.mem_singleton]
    constructor
    · rintro (⟨a, b, c, e⟩ | ⟨o, ho, hon, hos, ⟨a, ⟨e1, e2⟩, _, _⟩ | ⟨a, ⟨e1, e2⟩, _, _⟩⟩)
      · exact ⟨a, b, c, e.imp Or.inl Or.inl⟩
      · exact ⟨a, by rw [← e1]; exact hnS, by rw [← e2]; exact hos, Or.inl (Or.inr e1.symm)⟩
      · exact ⟨a, by rw [← e1]; exact hos, by rw [← e2]; exact hnS, Or.inr (Or.inr e2.symm)⟩
    · rintro ⟨a, b, c, e⟩
      by_cases hold : i.mname ∈ done ∨ i.pname ∈ done
      · exact Or.inl ⟨a, b, c, hold⟩
      · right
        simp only [not_or] at hold
        have hns := w.noself i a
        rcases e with (e | e) | (e | e)
        · exact absurd e hold.1
        · exact ⟨i.pname, w.pname_mem a, fun h => hns (e.trans h.symm), c,
            Or.inl ⟨a, ⟨e.symm, rfl⟩, hold.1, hold.2⟩⟩
        · exact absurd e hold.2
        · exact ⟨i.mname, w.mname_mem a, fun h => hns (h.trans e.symm), b,
            Or.inr ⟨a, ⟨rfl, e.symm⟩, hold.1, hold.2⟩⟩
  · intro f
    rw [h2 f]
    show (f ∈ bnds0 ∨ ∃ o ∈ d.interiors.map Patch.name, o ≠ name ∧ o ∉ S ∧ ∃ i,
      (((name, o), i) ∈ st.idict ∧ f = i.minus) ∨ (((o, name), i) ∈ st.idict ∧ f = i.plus)) ↔ _
    rw [hb0 f]
    simp only [hmem, Iface.key, Prod.mk.injEq, Bnd, List.mem_singleton]
    constructor
    · rintro (⟨a, b⟩ | ⟨o, ho, hon, hos, i, ⟨⟨a, ⟨e1, e2⟩, _, _⟩, rfl⟩ | ⟨⟨a, ⟨e1, e2⟩, _, _⟩, rfl⟩⟩)
      · exact ⟨w.bnd_all a, b, Or.inl a⟩
      · exact ⟨w.minus_all a, e1.symm, Or.inr ⟨i, a, Or.inl ⟨rfl, by rw [← e2]; exact hos⟩⟩⟩
      · exact ⟨w.plus_all a, e2.symm, Or.inr ⟨i, a, Or.inr ⟨rfl, by rw [← e1]; exact hos⟩⟩⟩
    · rintro ⟨hfa, hfn, hb | ⟨i, a, ⟨rfl, hp⟩ | ⟨rfl, hm⟩⟩⟩
      · exact Or.inl ⟨hb, hfn⟩
      · right
        have hns := w.noself i a
        refine ⟨i.pname, w.pname_mem a, fun h => hns (hfn.trans h.symm), hp, i, Or.inl ⟨⟨a, ⟨hfn.symm, rfl⟩, ?_, ?_⟩, rfl⟩⟩
        · show i.mname ∉ done
          rw [show i.mname = name from hfn]; exact hnd
        · exact fun h => hp (hdS _ h)
      · right
        have hns := w.noself i a
        refine ⟨i.mname, w.mname_mem a, fun h => hns (h.trans hfn.symm), hm, i, Or.inr ⟨⟨a, ⟨rfl, hfn.symm⟩, ?_, ?_⟩, rfl⟩⟩
        · exact fun h => hm (hdS _ h)
        · show i.pname ∉ done
          rw [show i.pname = name from hfn]; exact hnd

theorem patch_same_eq {ps : List Patch} (hn : NamesOk ps) {a b : Patch} (ha : a ∈ ps) (hb : b ∈ ps)
    (h : Patch.same a b = true) : a = b := hn.inj ha hb (by simpa [Patch.same] using h)

theorem mem_unionPatches {ps : List Patch} (hn : NamesOk ps) (l : List Patch) (hl : ∀ p ∈ l, p ∈ ps) (x : Patch) :
    x ∈ unionPatches l ↔ x ∈ l :=
  mem_unionBy _ _ (fun a => by simp [Patch.same]) l
    (fun a ha b hb h => patch_same_eq hn (hl a ha) (hl b hb) h) x

theorem mem_unionFaces {ps : List Patch} (hn : NamesOk ps) (l : List Face) (hl : ∀ f ∈ l, f ∈ allFaces ps) (x : Face) :
    x ∈ unionFaces l ↔ x ∈ l :=
  mem_unionBy _ _ same_refl l
    (fun a ha b hb h => (same_iff_eq hn ((mem_allFaces ps a).mp (hl a ha)).1 ((mem_allFaces ps b).mp (hl b hb)).1).mp h) x

theorem externalFaces_nil (l : List Face) : externalFaces l [] = unionFaces l := by
  unfold externalFaces
  congr 1
  rw [List.filter_eq_self]
  intro f _; simp [memFace]

theorem joinDoms_ok {ps : List Patch} {d : Dom} (w : WF ps d) (pd nd : Dom) (nm : String) (interior : Patch)
    (hpi : ∀ p ∈ pd.interiors, p ∈ ps) (hpne : pd.interiors ≠ [])
    (hni : nd.interiors = [interior]) (hi : interior ∈ ps) (hnot : interior ∉ pd.interiors)
    (hpb : ∀ f ∈ pd.boundary, f ∈ allFaces ps) (hnb : ∀ f ∈ nd.boundary, f ∈ allFaces ps) :
    ∃ j, joinDoms pd nd nm = .ok j ∧ j.name = nm ∧ j.ifaces = [] ∧
      (∀ p, p ∈ j.interiors ↔ p ∈ pd.interiors ∨ p = interior) ∧
      (∀ f, f ∈ j.boundary ↔ f ∈ pd.boundary ∨ f ∈ nd.boundary) ∧
      j.interiors.Nodup ∧ j.boundary.Nodup := by
  have hmemI : ∀ p, p ∈ unionPatches (pd.interiors ++ nd.interiors) ↔ p ∈ pd.interiors ∨ p = interior := by
    intro p
    rw [mem_unionPatches w.names _ (by
      intro q hq; rcases List.mem_append.mp hq with h | h
      · exact hpi q h
      · rw [hni] at h; simp at h; rw [h]; exact hi)]
    simp [hni]
  have hfin : ∃ j, finishJoin nm (unionPatches (pd.interiors ++ nd.interiors))
      (externalFaces (pd.boundary ++ nd.boundary) []) [] = .ok j := by
    apply finishJoin_ok
    · intro x hx
      cases hp0 : pd.interiors with
      | nil => exact hpne hp0
      | cons p0 _ =>
        have h0 : p0 ∈ pd.interiors := by rw [hp0]; simp
        have m1 := (hmemI p0).mpr (Or.inl h0)
        have m2 := (hmemI interior).mpr (Or.inr rfl)
        rw [hx] at m1 m2
        simp only [List.mem_singleton] at m1 m2
        exact hnot (by rw [m2, ← m1]; exact h0)
    · intro _ i hi'; cases hi'
  obtain ⟨j, hj⟩ := hfin
  obtain ⟨h1, h2, h3, h4⟩ := finishJoin_core hj
  refine ⟨j, ?_, h1, h4, ?_, ?_, by rw [h2]; exact unionBy_nodup _ _ (fun a => by simp [Patch.same]) _,
    by rw [h3]; exact unionBy_nodup _ _ same_refl _⟩
  · unfold joinDoms
    simp only []
    split
    · rename_i hne
      exfalso
      cases hp0 : pd.interiors with
      | nil => exact absurd hp0 hpne
      | cons p0 _ =>
        rw [hp0, hni] at hne
        simp only [bne_iff_ne, ne_eq] at hne
        exact hne (by rw [w.dims p0 (hpi p0 (by rw [hp0]; simp)), w.dims interior hi])
    · exact hj
  · intro p; rw [h2]; exact hmemI p
  · intro f
    rw [h3, externalFaces_nil, mem_unionFaces w.names _ (by
      intro g hg; rcases List.mem_append.mp hg with h | h
      · exact hpb g h
      · exact hnb g h)]
    simp

/-- the loop `for name in names` keeps the invariant and ends with all selected names done -/
theorem subOuter_spec {ps : List Patch} {d : Dom} (w : WF ps d) (S : List String) (hS : S.Nodup)
    (hSN : ∀ s ∈ S, s ∈ d.interiors.map Patch.name) :
    ∀ (rest done : List String) (st : SubState) (prev : Option Dom), done ++ rest = S →
      Inv ps d S done st prev →
      ∃ prev' st', subOuter d S rest st prev = .ok (prev', st'.ifs) ∧ Inv ps d S S st' prev' := by
  intro rest
  induction rest with
  | nil =>
    intro done st prev hd hinv
    simp only [List.append_nil] at hd
    subst hd
    exact ⟨prev, st, rfl, hinv⟩
  | cons name rest ih =>
    intro done st prev hd hinv
    have hnS : name ∈ S := by rw [← hd]; simp
    have hdS : ∀ n ∈ done, n ∈ S := fun n hn => by rw [← hd]; exact List.mem_append_left _ hn
    have hnd : name ∉ done := by
      rw [← hd] at hS
      intro h
      exact (List.nodup_append.mp hS).2.2 name h name (by simp) rfl
    -- the interior called `name`
    obtain ⟨interior, hint, hin⟩ := List.mem_map.mp (hSN name hnS)
    have hfind : ∃ q, d.interiors.find? (fun p => p.name == name) = some q ∧ q ∈ d.interiors ∧ q.name = name := by
      cases hf : d.interiors.find? (fun p => p.name == name) with
      | none =>
        rw [List.find?_eq_none] at hf
        exact absurd (by simpa using hin) (hf interior hint)
      | some q =>
        exact ⟨q, rfl, List.mem_of_find?_eq_some hf, by simpa using List.find?_some hf⟩
    obtain ⟨q, hq, hqm, hqn⟩ := hfind
    have hqps : q ∈ ps := w.ints.subset hqm
    have hb0 := mem_bnds0 w q hqps
    rw [hqn] at hb0
    obtain ⟨i1, i2, i3⟩ := inner_step w S done name st prev hinv hdS hnS hnd _ hb0
    have hd' : (done ++ [name]) ++ rest = S := by rw [← hd]; simp
    -- the new single-patch domain
    have hnb : ∀ f, f ∈ (patchDomain q (subInner name S (d.interiors.map Patch.name)
        { st with bnds := q.faces.filterMap (fun g =>
          (d.boundary.filter (fun b => b.patch.name == name)).find? (fun b => b.same g)) }).bnds).boundary ↔
        Bnd ps d S [name] f := by
      intro f
      show f ∈ unionFaces _ ↔ _
      rw [mem_unionFaces w.names _ (fun g hg => ((i3 g).mp hg).1)]
      exact i3 f
    have hnI : (patchDomain q (subInner name S (d.interiors.map Patch.name)
        { st with bnds := q.faces.filterMap (fun g =>
          (d.boundary.filter (fun b => b.patch.name == name)).find? (fun b => b.same g)) }).bnds).interiors = [q] := by
      unfold patchDomain Patch.toDom Patch.toCore; cases q.mapping <;> rfl
    have hnF : (patchDomain q (subInner name S (d.interiors.map Patch.name)
        { st with bnds := q.faces.filterMap (fun g =>
          (d.boundary.filter (fun b => b.patch.name == name)).find? (fun b => b.same g)) }).bnds).ifaces = [] := by
      unfold patchDomain Patch.toDom Patch.toCore; cases q.mapping <;> rfl
    have hnN : (patchDomain q (subInner name S (d.interiors.map Patch.name)
        { st with bnds := q.faces.filterMap (fun g =>
          (d.boundary.filter (fun b => b.patch.name == name)).find? (fun b => b.same g)) }).bnds).name = name := by
      unfold patchDomain Patch.toDom Patch.toCore; cases q.mapping <;> exact hqn
    simp only [subOuter, hq]
    cases prev with
    | none =>
      have hdone : done = [] := hinv.prev
      subst hdone
      simp only
      apply ih ([] ++ [name]) _ _ hd'
      refine ⟨i1, i2, ?_⟩
      refine ⟨by simp, hnF, ?_, ?_, by simpa [nameOf] using hnN, by rw [hnI]; simp,
        unionBy_nodup _ _ same_refl _⟩
      · intro p; rw [hnI]
        simp only [List.mem_singleton, List.nil_append]
        constructor
        · rintro rfl; exact ⟨hqps, hqn⟩
        · rintro ⟨h1, h2⟩; exact w.names.inj h1 hqps (h2.trans hqn.symm)
      · intro f; rw [hnb f]; simp
    | some pd =>
      obtain ⟨p1, p2, p3, p4, p5, _, _⟩ := hinv.prev
      have hnot : q ∉ pd.interiors := fun h => hnd (by rw [← hqn]; exact ((p3 q).mp h).2)
      have hpne : pd.interiors ≠ [] := by
        cases hdn : done with
        | nil => exact absurd hdn p1
        | cons n _ =>
          obtain ⟨pn, hpn, hpnn⟩ := List.mem_map.mp (hSN n (hdS n (by rw [hdn]; simp)))
          intro he
          have := (p3 pn).mpr ⟨w.ints.subset hpn, by rw [hpnn, hdn]; simp⟩
          rw [he] at this; cases this
      obtain ⟨j, hj, j1, j2, j3, j4, j5, j6⟩ := joinDoms_ok w pd _ (ifaceName pd.name
          (patchDomain q (subInner name S (d.interiors.map Patch.name)
            { st with bnds := q.faces.filterMap (fun g =>
              (d.boundary.filter (fun b => b.patch.name == name)).find? (fun b => b.same g)) }).bnds).name) q
        (fun p hp => ((p3 p).mp hp).1) hpne hnI hqps hnot (fun f hf => ((p4 f).mp hf).1)
        (fun f hf => ((hnb f).mp hf).1)
      simp only [hj, bind, Except.bind]
      apply ih (done ++ [name]) _ _ hd'
      refine ⟨i1, i2, ?_⟩
      refine ⟨by simp, j2, ?_, ?_, ?_, j5, j6⟩
      · intro p; rw [j3 p, p3 p]
        simp only [List.mem_append, List.mem_singleton]
        constructor
        · rintro (⟨h1, h2⟩ | rfl)
          · exact ⟨h1, Or.inl h2⟩
          · exact ⟨hqps, Or.inr hqn⟩
        · rintro ⟨h1, h2 | h2⟩
          · exact Or.inl ⟨h1, h2⟩
          · exact Or.inr (w.names.inj h1 hqps (h2.trans hqn.symm))
      · intro f; rw [j4 f, p4 f, hnb f, Bnd_snoc]
      · rw [j1, hnN, p5, nameOf_snoc _ _ p1]

/-! ### writing the collected interfaces into the connectivity of the sub-domain -/

theorem connSet_mem (acc : List Iface) (x : Iface) (hinj : ∀ a ∈ acc, a.name = x.name → a = x) (i : Iface) :
    i ∈ connSet acc x ↔ i ∈ acc ∨ i = x := by
  unfold connSet
  split
  · rename_i h
    rw [List.any_eq_true] at h
    obtain ⟨e, he, hen⟩ := h
    have hex : e = x := hinj e he (by simpa using hen)
    have hmap : acc.map (fun e => if e.name == x.name then x else e) = acc := by
      conv_rhs => rw [← List.map_id acc]
      apply List.map_congr_left
      intro a ha
      by_cases hn : a.name = x.name
      · simp [hn, hinj a ha hn]
      · simp [hn]
    rw [hmap]
    constructor
    · exact Or.inl
    · rintro (h | rfl)
      · exact h
      · rw [← hex]; exact he
  · simp

theorem connSet_names (acc : List Iface) (x : Iface) (h : (acc.map Iface.name).Nodup) :
    ((connSet acc x).map Iface.name).Nodup := by
  unfold connSet
  split
  · have : (acc.map (fun e => if e.name == x.name then x else e)).map Iface.name = acc.map Iface.name := by
      rw [List.map_map]
      apply List.map_congr_left
      intro a _
      by_cases hn : a.name = x.name
      · simp [Function.comp, hn]
      · simp [Function.comp, hn]
    rw [this]; exact h
  · rename_i hany
    rw [List.map_append, List.nodup_append]
    refine ⟨h, by simp, ?_⟩
    intro a ha b hb
    simp only [List.map_cons, List.map_nil, List.mem_singleton] at hb
    subst hb
    obtain ⟨e, he, rfl⟩ := List.mem_map.mp ha
    intro heq
    apply hany
    rw [List.any_eq_true]
    exact ⟨e, he, by simpa using heq⟩

theorem foldl_connSet_spec (l acc : List Iface)
    (hinj : ∀ a ∈ acc ++ l, ∀ b ∈ acc ++ l, a.name = b.name → a = b) (hacc : (acc.map Iface.name).Nodup) :
    ((l.foldl connSet acc).map Iface.name).Nodup ∧ ∀ i, i ∈ l.foldl connSet acc ↔ i ∈ acc ∨ i ∈ l := by
  induction l generalizing acc with
  | nil => exact ⟨hacc, by simp⟩
  | cons x xs ih =>
    simp only [List.foldl_cons]
    have hm := connSet_mem acc x (fun a ha hn => hinj a (by simp [ha]) x (by simp) hn)
    obtain ⟨h1, h2⟩ := ih (connSet acc x) (by
      intro a ha b hb
      have ha' : a ∈ acc ++ x :: xs := by
        rcases List.mem_append.mp ha with h | h
        · rcases (hm a).mp h with h | rfl <;> simp [*]
        · simp [h]
      have hb' : b ∈ acc ++ x :: xs := by
        rcases List.mem_append.mp hb with h | h
        · rcases (hm b).mp h with h | rfl <;> simp [*]
        · simp [h]
      exact hinj a ha' b hb') (connSet_names acc x hacc)
    refine ⟨h1, ?_⟩
    intro i
    rw [h2 i, hm i]
    simp only [List.mem_cons]
    tauto

/-- no patch is joined to itself -/
def NoSelf (ps : List Patch) (cs : List Conn) : Prop :=
  ∀ c ∈ resolved ps cs, c.minus.patch.name ≠ c.plus.patch.name

instance (ps : List Patch) (cs : List Conn) : Decidable (NoSelf ps cs) := by unfold NoSelf; infer_instance

/-- `get_subdomain(tuple)` once the assertions on the names are passed -/
theorem getSubdomain_tup (d : Dom) (S : List String) (hS : S.Nodup) (hne : S ≠ [])
    (hSN : ∀ s ∈ S, s ∈ d.interiors.map Patch.name) (hns : ∀ p, d.interiors ≠ [p]) :
    d.getSubdomain (.tup S) =
      (if S.length == (d.interiors.map Patch.name).length || S.contains d.name then .ok .self
       else (subOuter d S S ⟨idict0 d, [], []⟩ none).bind (fun r =>
        match r.1 with
        | none => .error .outside
        | some pd => .ok (.dom { pd with ifaces := r.2.foldl connSet pd.ifaces }))) := by
  have hdd : dedupBy (· == ·) S = S := dedupBy_eq_self _ _ (hS.imp (by intro a b h; simpa using h))
  have hall : S.all (fun n => (d.interiors.map Patch.name).contains n || n == d.name) = true := by
    rw [List.all_eq_true]; intro n hn'
    simp [hSN n hn']
  cases hS' : S with
  | nil => exact absurd hS' hne
  | cons s0 ss =>
    rw [← hS']
    unfold Dom.getSubdomain
    rw [hS']
    simp only
    rw [← hS', hdd]
    simp only [bne_self_eq_false, Bool.false_eq_true, if_false, hall, Bool.not_true]
    rfl

/-! ### one mapping applied to a whole plain domain: `F(Omega)` -/

theorem mappedName_inj (m a b : String) (h : mappedName m a = mappedName m b) : a = b := by
  unfold mappedName at h
  have := congrArg String.toList h
  simp only [String.toList_append] at this
  have h1 := List.append_cancel_right this
  have h2 := List.append_cancel_left h1
  exact String.toList_inj.mp h2

theorem mapBy_name (m : String) (p : Patch) : (p.mapBy m).name = mappedName m p.lname := rfl

theorem plain_name {p : Patch} (h : p.mapping = none) : p.name = p.lname := by simp [Patch.name, h]

theorem namesOk_mapBy {ps : List Patch} (hn : NamesOk ps) (hplain : ∀ p ∈ ps, p.mapping = none) (m : String) :
    NamesOk (ps.map (Patch.mapBy m)) := by
  unfold NamesOk at hn ⊢
  rw [List.map_map]
  apply List.Nodup.map_on _ (List.Nodup.of_map _ hn)
  intro x hx y hy h
  simp only [Function.comp, mapBy_name] at h
  have := mappedName_inj m _ _ h
  rw [← plain_name (hplain x hx), ← plain_name (hplain y hy)] at this
  exact List.inj_on_of_nodup_map hn hx hy this

theorem mapBy_strip {p : Patch} (h : p.mapping = none) (m : String) : (p.mapBy m).strip = p := by
  cases p; simp_all [Patch.mapBy, Patch.strip]

theorem face_mapBy_strip {f : Face} (h : f.patch.mapping = none) (m : String) : (f.mapBy m).strip = f := by
  cases f; simp only [Face.mapBy, Face.strip, Face.mk.injEq, and_true]; exact mapBy_strip h m

theorem foldl_connSet_fresh (l acc : List Iface) (h : (acc.map Iface.name ++ l.map Iface.name).Nodup) :
    l.foldl connSet acc = acc ++ l := by
  induction l generalizing acc with
  | nil => simp
  | cons x xs ih =>
    simp only [List.foldl_cons]
    rw [connSet_fresh, ih]
    · simp
    · simpa using h
    · intro e he heq
      rw [List.nodup_append] at h
      exact h.2.2 e.name (List.mem_map_of_mem he) x.name (by simp) heq

end Sympde.Topo
