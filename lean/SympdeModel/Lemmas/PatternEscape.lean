/-
  Helper lemmas for C20, part 6: escapes.  A name written with the escapes `\,` `\:` `\ `
  is first rewritten with fresh marker characters (utils.py:64-74) and the markers are turned
  back into the escaped characters at the very end (`literal`, utils.py:75-79).  The invariant
  `Inv` follows the three turns of the replacement loop.
-/
import SympdeModel.Lemmas.PatternLayout
namespace Sympde.Pat

/-- the three characters that can be escaped -/
inductive Esc where
  | comma | colon | blank
  deriving DecidableEq, Repr

def Esc.char : Esc → Char
  | .comma => ','
  | .colon => ':'
  | .blank => ' '

/-- a character of a name: written as itself, or escaped -/
inductive Tok where
  | plain (c : Char)
  | esc (e : Esc)
  deriving DecidableEq, Repr

/-- the character the token stands for -/
def Tok.value : Tok → Char
  | .plain c => c
  | .esc e => e.char

/-- the text of a token when the escapes `e` with `f e = some m` are already replaced by `m` -/
def Tok.rw (f : Esc → Option Char) : Tok → Str
  | .plain c => [c]
  | .esc e => match f e with
    | some m => [m]
    | none => ['\\', e.char]

def renderWith (f : Esc → Option Char) (ts : List Tok) : Str := ts.flatMap (Tok.rw f)

/-- the text as the user writes it -/
def renderToks (ts : List Tok) : Str := renderWith (fun _ => none) ts

/-- characters allowed unescaped in the escape theorem: no separator, colon or backslash, and
    not one of the three smallest code points (which serve as markers) -/
def PlainOK (c : Char) : Prop :=
  isSpace c = false ∧ c ≠ ',' ∧ c ≠ ':' ∧ c ≠ '\\' ∧ 3 ≤ c.toNat

theorem Esc.char_inj {a b : Esc} (h : a.char = b.char) : a = b := by
  cases a <;> cases b <;> first | rfl | (revert h; decide)

theorem Esc.char_ne_backslash (e : Esc) : e.char ≠ '\\' := by cases e <;> decide

theorem Esc.char_toNat (e : Esc) : 32 ≤ e.char.toNat := by cases e <;> decide

/-! ### replacement of a two-character escape -/

theorem replaceAux_nomatch (x m c : Char) (cs : Str) (hc : c ≠ '\\') :
    replaceAux ['\\', x] [m] (c :: cs) 0 = c :: replaceAux ['\\', x] [m] cs 0 := by
  conv => lhs; unfold replaceAux
  simp [List.isPrefixOf, Ne.symm hc]

theorem replaceAux_match (x m : Char) (cs : Str) :
    replaceAux ['\\', x] [m] ('\\' :: x :: cs) 0 = m :: replaceAux ['\\', x] [m] cs 0 := by
  conv => lhs; unfold replaceAux
  simp only [List.isPrefixOf, beq_self_eq_true, Bool.and_self, Bool.true_and, if_true]
  show [m] ++ replaceAux ['\\', x] [m] (x :: cs) 1 = _
  conv => lhs; rhs; unfold replaceAux
  rfl

theorem replaceAux_other (x m y : Char) (cs : Str) (hy : y ≠ x) (hy2 : y ≠ '\\') :
    replaceAux ['\\', x] [m] ('\\' :: y :: cs) 0 = '\\' :: y :: replaceAux ['\\', x] [m] cs 0 := by
  have h1 : (x == y) = false := by simpa using Ne.symm hy
  conv => lhs; unfold replaceAux
  simp only [List.isPrefixOf, beq_self_eq_true, h1, Bool.true_and, Bool.false_and,
    Bool.false_eq_true, if_false]
  rw [replaceAux_nomatch x m y cs hy2]

/-- update of the marker table -/
def upd (f : Esc → Option Char) (e : Esc) (m : Char) : Esc → Option Char :=
  fun e' => if e' = e then some m else f e'

theorem replace_toks (f : Esc → Option Char) (e : Esc) (m : Char) (ts : List Tok) (hfe : f e = none)
    (hmk : ∀ e' m', f e' = some m' → m' ≠ '\\') (hpl : ∀ c, Tok.plain c ∈ ts → c ≠ '\\') :
    replaceSub ['\\', e.char] [m] (renderWith f ts) = renderWith (upd f e m) ts := by
  unfold replaceSub
  induction ts with
  | nil => rfl
  | cons t ts ih =>
    have ih' := ih (fun c hc => hpl c (by simp [hc]))
    simp only [renderWith, List.flatMap_cons] at ih' ⊢
    cases t with
    | plain c =>
      simp only [Tok.rw, List.cons_append, List.nil_append]
      rw [replaceAux_nomatch _ _ _ _ (hpl c (by simp)), ih']
    | esc e' =>
      cases hf : f e' with
      | some m' =>
        have hne : e' ≠ e := by intro h; subst h; rw [hfe] at hf; cases hf
        simp only [Tok.rw, hf, upd, hne, if_false, List.cons_append, List.nil_append]
        rw [replaceAux_nomatch _ _ _ _ (hmk e' m' hf), ih']
      | none =>
        by_cases he : e' = e
        · subst he
          simp only [Tok.rw, hf, upd, if_true, List.cons_append, List.nil_append]
          rw [replaceAux_match, ih']
        · simp only [Tok.rw, hf, upd, he, if_false, List.cons_append, List.nil_append]
          rw [replaceAux_other _ _ _ _ (fun h => he (Esc.char_inj h)) (Esc.char_ne_backslash e'), ih']

theorem hasSub_toks (f : Esc → Option Char) (e : Esc) (ts : List Tok) (hfe : f e = none)
    (hmk : ∀ e' m', f e' = some m' → m' ≠ '\\') (hpl : ∀ c, Tok.plain c ∈ ts → c ≠ '\\') :
    hasSub ['\\', e.char] (renderWith f ts) = true ↔ Tok.esc e ∈ ts := by
  induction ts with
  | nil => simp [renderWith, hasSub]
  | cons t ts ih =>
    have ih' := ih (fun c hc => hpl c (by simp [hc]))
    simp only [renderWith, List.flatMap_cons] at ih' ⊢
    have step1 : ∀ (c : Char) (r : Str), c ≠ '\\' →
        hasSub ['\\', e.char] (c :: r) = hasSub ['\\', e.char] r := by
      intro c r hc
      conv => lhs; unfold hasSub
      simp [List.isPrefixOf, Ne.symm hc]
    cases t with
    | plain c =>
      simp only [Tok.rw, List.cons_append, List.nil_append]
      rw [step1 c _ (hpl c (by simp)), ih']
      simp
    | esc e' =>
      cases hf : f e' with
      | some m' =>
        have hne : e' ≠ e := by intro h; subst h; rw [hfe] at hf; cases hf
        simp only [Tok.rw, hf, List.cons_append, List.nil_append]
        rw [step1 m' _ (hmk e' m' hf), ih']
        simp [Ne.symm hne]
      | none =>
        by_cases he : e' = e
        · subst he
          simp only [Tok.rw, hf, List.cons_append, List.nil_append]
          constructor
          · intro _; simp
          · intro _
            unfold hasSub
            simp [List.isPrefixOf]
        · have hce : (e.char == e'.char) = false := by
            simpa using fun h => he (Esc.char_inj h.symm)
          simp only [Tok.rw, hf, List.cons_append, List.nil_append]
          have : hasSub ['\\', e.char] ('\\' :: e'.char :: List.flatMap (Tok.rw f) ts)
              = hasSub ['\\', e.char] (List.flatMap (Tok.rw f) ts) := by
            conv => lhs; unfold hasSub
            simp only [List.isPrefixOf, beq_self_eq_true, hce, Bool.true_and, Bool.false_and,
              Bool.false_or]
            exact step1 e'.char _ (Esc.char_ne_backslash e')
          rw [this, ih']
          simp [Ne.symm he]

/-! ### `literal` acts character by character -/

theorem replaceSub_single (m : Char) (r s : Str) :
    replaceSub [m] r s = s.flatMap (fun c => if c = m then r else [c]) := by
  unfold replaceSub
  induction s with
  | nil => rfl
  | cons c cs ih =>
    conv => lhs; unfold replaceAux
    by_cases h : c = m
    · subst h
      simp [List.isPrefixOf, ih]
    · simp [List.isPrefixOf, Ne.symm h, h, ih]

theorem replaceSub_single_append (m : Char) (r a b : Str) :
    replaceSub [m] r (a ++ b) = replaceSub [m] r a ++ replaceSub [m] r b := by
  simp [replaceSub_single]

theorem literal_append (lits : List (Char × Str)) (a b : Str) :
    literal lits (a ++ b) = literal lits a ++ literal lits b := by
  unfold literal
  induction lits generalizing a b with
  | nil => rfl
  | cons l ls ih =>
    simp only [List.foldl_cons]
    rw [replaceSub_single_append, ih]

theorem literal_nil_str (lits : List (Char × Str)) : literal lits [] = [] := by
  unfold literal
  induction lits with
  | nil => rfl
  | cons l ls ih => simpa [List.foldl_cons, replaceSub, replaceAux] using ih

theorem literal_flatMap (lits : List (Char × Str)) (s : Str) :
    literal lits s = s.flatMap (fun c => literal lits [c]) := by
  induction s with
  | nil => simp [literal_nil_str]
  | cons c cs ih =>
    rw [show c :: cs = [c] ++ cs by rfl, literal_append, ih]
    simp

theorem literal_snoc (lits : List (Char × Str)) (m : Char) (r s : Str) :
    literal (lits ++ [(m, r)]) s = replaceSub [m] r (literal lits s) := by
  simp [literal, List.foldl_append]

/-! ### the invariant of the escape loop -/

/-- state `st` of the loop after the escapes in `done` have been looked at -/
structure Inv (ts : List Tok) (st : EscState) (f : Esc → Option Char) (done : List Esc) : Prop where
  names : st.names = renderWith f ts
  bound : st.marker ≤ done.length
  small : ∀ e m, f e = some m → m.toNat < st.marker
  back : ∀ e m, f e = some m → literal st.lits [m] = [e.char]
  fixed : ∀ c : Char, st.marker ≤ c.toNat → literal st.lits [c] = [c]
  todo : ∀ e, e ∉ done → f e = none
  complete : ∀ e, e ∈ done → Tok.esc e ∈ ts → (f e).isSome = true

theorem ofNat_small (k : Nat) (h : k < 3) : (Char.ofNat k).toNat = k := by
  have : k = 0 ∨ k = 1 ∨ k = 2 := by omega
  rcases this with rfl | rfl | rfl <;> decide

theorem mem_renderWith (f : Esc → Option Char) (ts : List Tok) (c : Char) (h : c ∈ renderWith f ts) :
    (Tok.plain c ∈ ts) ∨ (∃ e, f e = some c) ∨ c = '\\' ∨ (∃ e : Esc, c = e.char) := by
  obtain ⟨t, ht, hc⟩ := List.mem_flatMap.mp h
  cases t with
  | plain c' => simp [Tok.rw] at hc; subst hc; exact Or.inl ht
  | esc e =>
    cases hf : f e with
    | some m => simp [Tok.rw, hf] at hc; subst hc; exact Or.inr (Or.inl ⟨e, hf⟩)
    | none =>
      simp [Tok.rw, hf] at hc
      rcases hc with rfl | rfl
      · exact Or.inr (Or.inr (Or.inl rfl))
      · exact Or.inr (Or.inr (Or.inr ⟨e, rfl⟩))

theorem inv_step (ts : List Tok) (hpl : ∀ c, Tok.plain c ∈ ts → PlainOK c) (st : EscState)
    (f : Esc → Option Char) (done : List Esc) (e : Esc) (hinv : Inv ts st f done) (he : e ∉ done)
    (hlen : done.length < 3) :
    ∃ f', Inv ts (escapeStep st ['\\', e.char]) f' (done ++ [e]) := by
  have hfe := hinv.todo e he
  have hmk : ∀ e' m', f e' = some m' → m' ≠ '\\' := by
    intro e' m' h hbs
    have := hinv.small e' m' h
    have hb := hinv.bound
    subst hbs
    have : ('\\' : Char).toNat = 92 := by decide
    omega
  have hpl' : ∀ c, Tok.plain c ∈ ts → c ≠ '\\' := fun c hc => (hpl c hc).2.2.2.1
  have hk : st.marker < 3 := by have := hinv.bound; omega
  have hm := ofNat_small st.marker hk
  by_cases hp : Tok.esc e ∈ ts
  · -- the escape occurs: a fresh marker replaces it
    have hsub : hasSub ['\\', e.char] st.names = true := by
      rw [hinv.names]; exact (hasSub_toks f e ts hfe hmk hpl').mpr hp
    have hfresh : Char.ofNat st.marker ∉ st.names := by
      rw [hinv.names]
      intro hmem
      rcases mem_renderWith f ts _ hmem with h | ⟨e', h⟩ | h | ⟨e', h⟩
      · have := (hpl _ h).2.2.2.2; omega
      · have := hinv.small e' _ h; omega
      · have := congrArg Char.toNat h
        rw [hm] at this
        have h92 : ('\\' : Char).toNat = 92 := by decide
        omega
      · have := congrArg Char.toNat h
        rw [hm] at this
        have := e'.char_toNat
        omega
    have hnm : nextMarker st.names (st.names.length + 1) st.marker = st.marker := by
      unfold nextMarker
      have : st.names.contains (Char.ofNat st.marker) = false := by simpa using hfresh
      simp only [this, Bool.false_eq_true, if_false]
    refine ⟨upd f e (Char.ofNat st.marker), ?_⟩
    have hstep : escapeStep st ['\\', e.char] =
        { names := renderWith (upd f e (Char.ofNat st.marker)) ts, marker := st.marker + 1,
          lits := st.lits ++ [(Char.ofNat st.marker, [e.char])] } := by
      unfold escapeStep
      simp only [hsub, if_true, hnm]
      rw [hinv.names, replace_toks f e _ ts hfe hmk hpl']
      rfl
    rw [hstep]
    refine ⟨rfl, ?_, ?_, ?_, ?_, ?_, ?_⟩
    · have := hinv.bound; simp; omega
    · intro e' m' h
      simp only [upd] at h
      split at h
      · injection h with h; subst h; simp [hm]
      · have := hinv.small e' m' h; simp; omega
    · intro e' m' h
      simp only [upd] at h
      rw [literal_snoc]
      split at h
      · rename_i heq
        injection h with h; subst h; subst heq
        rw [hinv.fixed _ (by rw [hm]; exact Nat.le_refl _)]
        simp [replaceSub_single]
      · rw [hinv.back e' m' h]
        have hne : e'.char ≠ Char.ofNat st.marker := by
          intro hc
          have := congrArg Char.toNat hc
          rw [hm] at this
          have := e'.char_toNat
          omega
        simp [replaceSub_single, hne]
    · intro c hc
      rw [literal_snoc, hinv.fixed c (by simp at hc; omega)]
      have hne : c ≠ Char.ofNat st.marker := by
        intro h
        have := congrArg Char.toNat h
        rw [hm] at this
        simp at hc; omega
      simp [replaceSub_single, hne]
    · intro e' he'
      simp only [List.mem_append, List.mem_singleton, not_or] at he'
      simp [upd, he'.2, hinv.todo e' he'.1]
    · intro e' he' hp'
      simp only [List.mem_append, List.mem_singleton] at he'
      simp only [upd]
      split
      · rfl
      · rcases he' with h | h
        · exact hinv.complete e' h hp'
        · rename_i hne; exact absurd h hne
  · -- the escape does not occur: nothing changes
    have hsub : hasSub ['\\', e.char] st.names = false := by
      cases h : hasSub ['\\', e.char] st.names with
      | false => rfl
      | true => rw [hinv.names] at h; exact absurd ((hasSub_toks f e ts hfe hmk hpl').mp h) hp
    refine ⟨f, ?_⟩
    have hstep : escapeStep st ['\\', e.char] = st := by
      unfold escapeStep; simp [hsub]
    rw [hstep]
    refine ⟨hinv.names, ?_, hinv.small, hinv.back, hinv.fixed, ?_, ?_⟩
    · have := hinv.bound; simp; omega
    · intro e' he'
      simp only [List.mem_append, List.mem_singleton, not_or] at he'
      exact hinv.todo e' he'.1
    · intro e' he' hp'
      simp only [List.mem_append, List.mem_singleton] at he'
      rcases he' with h | h
      · exact hinv.complete e' h hp'
      · subst h; exact absurd hp' hp

theorem inv_init (ts : List Tok) :
    Inv ts { names := renderToks ts, marker := 0, lits := [] } (fun _ => none) [] :=
  ⟨rfl, (by simp), (by intro e m h; cases h), (by intro e m h; cases h), (by intro c _; rfl),
   (by intro e _; rfl), (by intro e h; cases h)⟩

theorem inv_final (ts : List Tok) (hpl : ∀ c, Tok.plain c ∈ ts → PlainOK c) :
    ∃ f, Inv ts (escapeAll (renderToks ts)) f [.comma, .colon, .blank] := by
  have h0 := inv_init ts
  obtain ⟨f1, h1⟩ := inv_step ts hpl _ _ [] .comma h0 (by simp) (by simp)
  obtain ⟨f2, h2⟩ := inv_step ts hpl _ _ _ .colon h1 (by simp) (by simp)
  obtain ⟨f3, h3⟩ := inv_step ts hpl _ _ _ .blank h2 (by simp) (by simp)
  exact ⟨f3, h3⟩

/-- **escapes**: a name written with plain characters and the escapes `\,` `\:` `\ ` expands to
    the single name in which every escape stands for its character -/
theorem expandStr_escaped (ts : List Tok) (hne : ts ≠ []) (hpl : ∀ c, Tok.plain c ∈ ts → PlainOK c) :
    expandStr .none (renderToks ts) = .ok (.name (ts.map Tok.value)) := by
  obtain ⟨f, hinv⟩ := inv_final ts hpl
  have hk : (escapeAll (renderToks ts)).marker ≤ 3 := by simpa using hinv.bound
  -- every escape token has a marker
  have hall : ∀ e, Tok.esc e ∈ ts → ∃ m, f e = some m := by
    intro e he
    have := hinv.complete e (by cases e <;> simp) he
    cases hf : f e with
    | none => simp [hf] at this
    | some m => exact ⟨m, rfl⟩
  -- the text after the escape stage, character by character
  have hchars : ∀ c ∈ (escapeAll (renderToks ts)).names,
      isSpace c = false ∧ c ≠ ',' ∧ c ≠ '\\' ∧ c ≠ ':' := by
    intro c hc
    rw [hinv.names] at hc
    obtain ⟨t, ht, hct⟩ := List.mem_flatMap.mp hc
    cases t with
    | plain c' =>
      simp [Tok.rw] at hct; subst hct
      have := hpl c ht
      exact ⟨this.1, this.2.1, this.2.2.2.1, this.2.2.1⟩
    | esc e =>
      obtain ⟨m, hm⟩ := hall e ht
      simp [Tok.rw, hm] at hct; subst hct
      have hlt := hinv.small e c hm
      have h3 : c.toNat < 3 := by omega
      refine ⟨?_, ?_, ?_, ?_⟩
      · cases hsp : isSpace c with
        | false => rfl
        | true =>
          simp only [isSpace, Bool.or_eq_true, Bool.and_eq_true, decide_eq_true_eq, beq_iff_eq] at hsp
          omega
      · intro h; subst h; revert h3; decide
      · intro h; subst h; revert h3; decide
      · intro h; subst h; revert h3; decide
  have hnn : (escapeAll (renderToks ts)).names ≠ [] := by
    rw [hinv.names]
    cases ts with
    | nil => exact absurd rfl hne
    | cons t ts =>
      simp only [renderWith, List.flatMap_cons]
      cases t with
      | plain c => simp [Tok.rw]
      | esc e => cases hf : f e <;> simp [Tok.rw, hf]
  -- the layout: one field, one name
  let p : Layout := ⟨[], ⟨(escapeAll (renderToks ts)).names, []⟩, [], none, []⟩
  have hp : p.WF := by
    refine ⟨(by intro c hc; cases hc), ⟨⟨hnn, fun c hc => ?_⟩, (by intro t ht; cases ht)⟩,
      (by intro t ht; cases ht), (by intro w hw; cases hw), (by intro c hc; cases hc)⟩
    have := hchars c hc
    exact ⟨this.1, this.2.1, this.2.2.1⟩
  have hrender : p.render = (escapeAll (renderToks ts)).names := by
    simp [p, Layout.render, midOf, Field.core]
  have hnames : p.names = [(escapeAll (renderToks ts)).names] := by
    simp [p, Layout.names, Field.names]
  rw [expandStr_post, ← hrender, postEscape_layout p hp, hnames]
  have hcol : ':' ∉ (escapeAll (renderToks ts)).names := fun hm => (hchars _ hm).2.2.2 rfl
  have hname : expandName (escapeAll (renderToks ts)).lits (escapeAll (renderToks ts)).names
      = .ok ([literal (escapeAll (renderToks ts)).lits (escapeAll (renderToks ts)).names], false) := by
    unfold expandName
    have h1 : (escapeAll (renderToks ts)).names.isEmpty = false := by simpa using hnn
    simp [h1, hcol]
  -- the markers are turned back into the escaped characters
  have hsub : ∀ l : List Tok, (∀ t ∈ l, t ∈ ts) →
      (l.flatMap (Tok.rw f)).flatMap (fun c => literal (escapeAll (renderToks ts)).lits [c])
        = l.map Tok.value := by
    intro l
    induction l with
    | nil => intro _; rfl
    | cons t l ih =>
      intro hl
      have ht := hl t (by simp)
      simp only [List.flatMap_cons, List.flatMap_append, List.map_cons]
      rw [ih (fun x hx => hl x (by simp [hx]))]
      cases t with
      | plain c =>
        have := (hpl c ht).2.2.2.2
        simp [Tok.rw, Tok.value, hinv.fixed c (by omega)]
      | esc e =>
        obtain ⟨m, hm⟩ := hall e ht
        simp [Tok.rw, Tok.value, hm, hinv.back e m hm]
  have hlit : literal (escapeAll (renderToks ts)).lits (escapeAll (renderToks ts)).names
      = ts.map Tok.value := by
    rw [literal_flatMap, hinv.names]
    exact hsub ts (fun t ht => ht)
  simp [expandNames, hname, hlit, finish, p]

end Sympde.Pat
