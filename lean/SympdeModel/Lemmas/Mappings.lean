/-
  Lemmas and tactics used by the generated mapping theorems (Gen/Map/*.lean, property C16).
-/
import Mathlib.Tactic.IntervalCases
import Mathlib.Tactic.Tauto
import SympdeModel.Lemmas.Frac
namespace Sympde
open E PD Frac
open DRing (sumN)

variable {K : Type} [CommRing K] [Algebra ℚ K]

@[simp] theorem algebraMap_int_div_one_map (n : Int) :
    algebraMap ℚ K ((n : ℚ) / ((1 : ℕ) : ℚ)) = (n : K) := by simp

/-- an expression whose cross-multiplied numerator vanishes is zero -/
theorem frac_zero (S : DRing K) (t : E) (h : NonDeg S t) (i j : Nat)
    (hn : den S (asFrac t).n i j = 0) : den S t i j = 0 := by
  obtain ⟨h1, h2⟩ := asFrac_sound S t h i j
  rw [hn] at h1
  have : den S t i j = den S t i j * den S (asFrac t).d i j * den S (asFrac t).di i j := by
    linear_combination (-(den S t i j)) * h2
  rw [this, h1, zero_mul]

/-- two expressions are equal as soon as the cross-multiplied numerator of their difference vanishes -/
theorem eq_of_frac_zero (S : DRing K) (a b : E) (h : NonDeg S (.add [a, .mul [.num (-1) 1, b]])) (i j : Nat)
    (hn : den S (asFrac (.add [a, .mul [.num (-1) 1, b]])).n i j = 0) : den S a i j = den S b i j := by
  have := frac_zero S _ h i j hn
  simp [den, denSum, denProd] at this
  linear_combination this

/-- determinants of the 1x1, 2x2 and 3x3 matrices of values -/
def detK (n : Nat) (a : Nat → Nat → K) : K :=
  match n with
  | 1 => a 0 0
  | 2 => a 0 0 * a 1 1 - a 0 1 * a 1 0
  | 3 => a 0 0 * (a 1 1 * a 2 2 - a 1 2 * a 2 1) - a 0 1 * (a 1 0 * a 2 2 - a 1 2 * a 2 0)
          + a 0 2 * (a 1 0 * a 2 1 - a 1 1 * a 2 0)
  | _ => 0

/-- evaluate `den` (and the fraction) of explicit expressions built from the named generated entries,
    then close the remaining commutative-ring identity -/
syntax "map_tac " "[" ident,* "]" : tactic
macro_rules
  | `(tactic| map_tac [$ids,*]) => `(tactic|
      (simp [$[$ids:ident],*, asFrac, asFracSum, asFracProd, powN, invE, mulS, isOne, PD.intLit, PD.sdiff, PD.sdiffList,
         PD.prodRule, PD.powRule, PD.fnDeriv, PD.mulOf, den, denSum, denProd, denNth, powSem, Coord.name, Coord.ofIdx,
         E.zero, E.one, E.neg, sumN, detK, map_ofNat, map_neg, map_one, map_zero, map_intCast, map_natCast] <;>
       try ring))

end Sympde
