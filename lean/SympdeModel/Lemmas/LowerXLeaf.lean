/-
  Helper lemmas for C01 (`lower_sound_ext`), part 2: instantiated leaf formulas on extended scalar
  forms with a derivative budget (`instX_sound`: the arguments must allow as many further
  derivatives as the formula nests, `pdDepth`), shapes `hasShapeX` and budgets `VN` of lowered
  values, the generic leaf steps `leaf1_soundX` / `leaf2_soundX`, and sums and products.
-/
import SympdeModel.Lemmas.LowerXScalar
import SympdeModel.Lemmas.LowerLeaf
namespace Sympde.Lower
open E PD Gen
open DRing (sumN)

variable {K : Type} [CommRing K] [Algebra ℚ K]

/-! ### instantiated formulas with a derivative budget -/

mutual
/-- how deep derivative nodes nest in a formula -/
def pdDepth : E → Nat
  | pd _ a => pdDepth a + 1
  | add as => pdDepthList as
  | mul as => pdDepthList as
  | mat _ _ es => pdDepthList es
  | _ => 0
def pdDepthList : List E → Nat
  | [] => 0
  | a :: as => max (pdDepth a) (pdDepthList as)
end

theorem pdDepth_mem (as : List E) (a : E) (ha : a ∈ as) : pdDepth a ≤ pdDepthList as := by
  induction as with
  | nil => cases ha
  | cons x xs ih =>
    simp only [pdDepthList]
    rcases List.mem_cons.mp ha with rfl | ha
    · omega
    · have := ih ha; omega

theorem instListX_sound (S : DRing K) (d : Nat) (σ : List (String × E)) (k : Nat) (fs : List E)
    (ih : ∀ f ∈ fs, ∀ t, inst d σ f = .ok t →
      LN S k t ∧ ∀ i j, den S t i j = den (bindS S σ) f i j)
    (ts : List E) (h : instList d σ fs = .ok ts) :
    (∀ t ∈ ts, LN S k t) ∧ ts.length = fs.length ∧
      (∀ i j, denSum S ts i j = denSum (bindS S σ) fs i j) ∧
      (∀ i j, denProd S ts i j = denProd (bindS S σ) fs i j) ∧
      ∀ n, denNth S ts n = denNth (bindS S σ) fs n := by
  induction fs generalizing ts with
  | nil =>
    simp only [instList] at h
    injection h with h; subst h
    exact ⟨fun t ht => (by cases ht), rfl, fun i j => by simp [denSum], fun i j => by simp [denProd],
      fun n => by simp [denNth]⟩
  | cons f fs ihf =>
    simp only [instList, bind, Except.bind] at h
    cases h1 : inst d σ f with
    | error e => rw [h1] at h; cases h
    | ok t =>
      rw [h1] at h
      cases h2 : instList d σ fs with
      | error e => rw [h2] at h; cases h
      | ok ts' =>
        rw [h2] at h
        injection h with h; subst h
        have ha := ih f (by simp) t h1
        have := ihf (fun x hx => ih x (by simp [hx])) ts' h2
        refine ⟨fun x hx => ?_, by simp [this.2.1], fun i j => ?_, fun i j => ?_, fun n => ?_⟩
        · rcases List.mem_cons.mp hx with rfl | hx
          · exact ha.1
          · exact this.1 x hx
        · simp only [denSum, ha.2 i j, this.2.2.1 i j]
        · simp only [denProd, ha.2 i j, this.2.2.2.1 i j]
        · cases n with
          | zero => simp [denNth, ha.2 0 0]
          | succ n => simp [denNth, this.2.2.2.2 n]

/-- **an instantiated scalar formula**: if the bound values may be differentiated `k + pdDepth f`
    more times, the result may be differentiated `k` more times and denotes the formula read in the
    bound ring -/
theorem instX_sound (S : DRing K) (T : FnTable S) (d : Nat) (σ : List (String × E)) (f : E)
    (hf : FS f = true) (k : Nat) (hσ : ∀ p ∈ σ, LN S (k + pdDepth f) p.2) (t : E)
    (h : inst d σ f = .ok t) :
    LN S k t ∧ ∀ i j, den S t i j = den (bindS S σ) f i j := by
  induction f using E.rec
    (motive_2 := fun fs => ∀ f ∈ fs, FS f = true → ∀ k, (∀ p ∈ σ, LN S (k + pdDepth f) p.2) →
      ∀ t, inst d σ f = .ok t → LN S k t ∧ ∀ i j, den S t i j = den (bindS S σ) f i j)
    generalizing k t with
  | num p q =>
    simp only [inst] at h
    injection h with h; subst h
    exact ⟨LN_num S k p q, fun i j => by simp [den]⟩
  | sf n kd =>
    simp only [inst] at h
    injection h with h; subst h
    cases hb : findBind σ n with
    | none => exact ⟨⟨rfl, trivial⟩, fun i j => by simp [den, bindS, hb]⟩
    | some e =>
      obtain ⟨p, hp, rfl⟩ := findBind_mem σ n e hb
      have hl := hσ p hp
      simp only [pdDepth, Nat.add_zero] at hl
      refine ⟨by simpa using hl, fun i j => ?_⟩
      simp only [Option.getD_some, den, bindS_sf S σ n _ hb]
      exact den_LX_free S _ hl.1 i j
  | pd c a ih =>
    simp only [inst, bind, Except.bind] at h
    cases h1 : inst d σ a with
    | error e => rw [h1] at h; cases h
    | ok a' =>
      rw [h1] at h
      have ha := ih (by simpa [FS] using hf) (k + 1) (by
        intro p hp
        have := hσ p hp
        simp only [pdDepth] at this
        have e : k + (pdDepth a + 1) = k + 1 + pdDepth a := by omega
        rwa [e] at this) a' h1
      have := dEval_LX S T d c k a' ha.1 t h
      exact ⟨this.1, fun i j => by simp only [den, bindS_D]; rw [this.2 i j, ha.2 i j]⟩
  | add as ih =>
    have hf' : ∀ a ∈ as, FS a = true := fun a ha => FSList_mem (by simpa [FS] using hf) ha
    simp only [inst, bind, Except.bind] at h
    cases h1 : instList d σ as with
    | error e => rw [h1] at h; cases h
    | ok ts =>
      rw [h1] at h
      injection h with h; subst h
      have := instListX_sound S d σ k as (fun f hfm t ht => ih f hfm (hf' f hfm) k (fun p hp =>
        LN_mono S _ _ (by have := pdDepth_mem as f hfm; simp only [pdDepth]; omega) _ (hσ p hp)) t ht) ts h1
      exact ⟨LN_add S k ts this.1, fun i j => by simpa [den] using this.2.2.1 i j⟩
  | mul as ih =>
    have hf' : ∀ a ∈ as, FS a = true := fun a ha => FSList_mem (by simpa [FS] using hf) ha
    simp only [inst, bind, Except.bind] at h
    cases h1 : instList d σ as with
    | error e => rw [h1] at h; cases h
    | ok ts =>
      rw [h1] at h
      injection h with h; subst h
      have := instListX_sound S d σ k as (fun f hfm t ht => ih f hfm (hf' f hfm) k (fun p hp =>
        LN_mono S _ _ (by have := pdDepth_mem as f hfm; simp only [pdDepth]; omega) _ (hσ p hp)) t ht) ts h1
      exact ⟨LN_mul S k ts this.1, fun i j => by simpa [den] using this.2.2.2.1 i j⟩
  | nil => cases ‹_ ∈ []›
  | cons a as iha ihas =>
    rename_i x hx h1 k' hσ' t' ht
    rcases List.mem_cons.mp hx with rfl | hx
    · exact iha h1 k' hσ' t' ht
    · exact ihas x hx h1 k' hσ' t' ht
  | _ => simp [FS] at hf

theorem instX_mat_sound (S : DRing K) (T : FnTable S) (d : Nat) (σ : List (String × E)) (r c : Nat)
    (fs : List E) (hf : FSList fs = true) (k : Nat) (hσ : ∀ p ∈ σ, LN S (k + pdDepthList fs) p.2)
    (t : E) (h : inst d σ (mat r c fs) = .ok t) :
    ∃ ts, t = mat r c ts ∧ (∀ x ∈ ts, LN S k x) ∧ ts.length = fs.length ∧
      ∀ i j, den S t i j = den (bindS S σ) (mat r c fs) i j := by
  simp only [inst, bind, Except.bind] at h
  cases h1 : instList d σ fs with
  | error e => rw [h1] at h; cases h
  | ok ts =>
    rw [h1] at h
    injection h with h; subst h
    have := instListX_sound S d σ k fs
      (fun f hfm t ht => instX_sound S T d σ f (FSList_mem hf hfm) k (fun p hp =>
        LN_mono S _ _ (by have := pdDepth_mem fs f hfm; omega) _ (hσ p hp)) t ht) ts h1
    refine ⟨ts, rfl, this.1, this.2.1, fun i j => ?_⟩
    simp only [den, this.2.2.2.2]

/-! ### lowered values: budgets and shapes -/

/-- every scalar entry of a lowered value may be differentiated `k` more times -/
def VN (S : DRing K) (k : Nat) : E → Prop
  | mat _ _ es => ∀ e ∈ es, LN S k e
  | t => LN S k t

theorem VN_of_LN (S : DRing K) (k : Nat) (t : E) (h : LN S k t) : VN S k t := by
  cases t <;> first | exact h | exact absurd h.1 (by simp [LX])

theorem VN_mono (S : DRing K) (k k' : Nat) (hk : k ≤ k') (t : E) (h : VN S k' t) : VN S k t := by
  cases t <;> first | exact LN_mono S k k' hk _ h | exact fun e he => LN_mono S k k' hk e (h e he)

theorem nth_LN (S : DRing K) (k : Nat) (es : List E) (h : ∀ e ∈ es, LN S k e) (n : Nat) :
    LN S k (nth es n) := by
  unfold nth
  induction es generalizing n with
  | nil => simpa using LN_zero S k
  | cons a as ih =>
    cases n with
    | zero => simpa using h a (by simp)
    | succ n => simpa using ih (fun e he => h e (by simp [he])) n

theorem bindArg_LN (S : DRing K) (k d j : Nat) (a : E) (h : VN S k a) :
    ∀ p ∈ bindArg d j a, LN S k p.2 := by
  intro p hp
  cases a with
  | mat r c es =>
    simp only [VN] at h
    simp only [bindArg] at hp
    split at hp
    · obtain ⟨i, _, rfl⟩ := List.mem_map.mp hp
      exact nth_LN S k es h _
    · obtain ⟨i, _, hp⟩ := List.mem_flatMap.mp hp
      obtain ⟨j', _, rfl⟩ := List.mem_map.mp hp
      exact nth_LN S k es h _
  | tup as => exact absurd h.1 (by simp [LX])
  | _ =>
    simp only [bindArg, List.append_nil, List.mem_singleton, ite_self] at hp
    subst hp
    exact h

theorem sigmaOf_LN (S : DRing K) (k d : Nat) (args : List E) (h : ∀ a ∈ args, VN S k a) :
    ∀ p ∈ sigmaOf d args, LN S k p.2 := by
  intro p hp
  unfold sigmaOf at hp
  obtain ⟨⟨a, j⟩, hak, hp⟩ := List.mem_flatMap.mp hp
  have hm := List.mem_zipIdx hak
  have ha : a ∈ args := by rw [hm.2.2]; exact List.getElem_mem _
  exact bindArg_LN S k d j a (h a ha) p hp

/-- the shape of the lowered form of a value of type `τ`, over extended scalar forms -/
def hasShapeX (d : Nat) : Ty → E → Bool
  | .s, t => LX t
  | .v, mat r c es => r == d && c == 1 && es.length == d && LXList es
  | .v, t => d == 1 && LX t
  | .m, mat r c es => r == d && c == d && es.length == d * d && LXList es
  | .m, t => d == 1 && LX t

theorem hasShapeX_s_LX (d : Nat) (t : E) (h : hasShapeX d .s t = true) : LX t = true := by
  simpa [hasShapeX] using h

theorem inst_shapeX (S : DRing K) (T : FnTable S) (d : Nat) (σ : List (String × E)) (k : Nat)
    (τ : Ty) (F : E) (hF : shapeOK d τ F = true) (hσ : ∀ p ∈ σ, LN S (k + pdDepth F) p.2) (t : E)
    (h : inst d σ F = .ok t) :
    hasShapeX d τ t = true ∧ VN S k t ∧ ∀ i j, den S t i j = den (bindS S σ) F i j := by
  by_cases hm : ∃ r c fs, F = mat r c fs
  · obtain ⟨r, c, fs, rfl⟩ := hm
    have hfs : FSList fs = true := by
      cases τ <;> simp [shapeOK, FS] at hF <;> exact hF.2
    obtain ⟨ts, rfl, hts, hlen, hden⟩ := instX_mat_sound S T d σ r c fs hfs k
      (by simpa [pdDepth] using hσ) t h
    refine ⟨?_, hts, hden⟩
    have hL : LXList ts = true := LXList_of_mem (fun x hx => (hts x hx).1)
    cases τ <;> simp [shapeOK, FS] at hF <;> simp [hasShapeX, hF, hL, hlen]
  · have hFS : FS F = true ∧ (τ = .s ∨ d = 1) := by
      cases τ <;> cases F <;> simp_all [shapeOK, FS]
    have := instX_sound S T d σ F hFS.1 k hσ t h
    refine ⟨?_, VN_of_LN S k t this.1, this.2⟩
    have hl := this.1.1
    cases τ
    · simpa [hasShapeX] using hl
    · have hd : d = 1 := by simpa using hFS.2
      cases t <;> simp_all [hasShapeX, LX]
    · have hd : d = 1 := by simpa using hFS.2
      cases t <;> simp_all [hasShapeX, LX]

/-! ### the leaf steps -/

/-- **unary leaf step** on extended forms: the argument must allow `m ≥ pdDepth F` more derivatives
    than the result -/
theorem leaf1_soundX (S : DRing K) (T : FnTable S) (d : Nat) (hd : 1 ≤ d) (lg : Bool) (o : Op1)
    (τa τ : Ty) (hty : ty1 d o τa = some τ) (cname : String) (c : Char) (r : LeafEntry) (P : E)
    (hk : classKnown cname = true)
    (hr : findEntry cname (String.ofList [c]) = some r)
    (hl : lookup cname (String.ofList [c]) = some (.formula r.F))
    (hdim : r.dim = d) (hlg : r.lg = lg) (hnode : r.node = op1 o P)
    (hri : r.ri = rows d τ) (hrj : r.rj = cols d τ)
    (hF : shapeOK d τ r.F = true)
    (hrk : d = 1 ∨ rank d P = rk τa)
    (k m : Nat) (hdep : pdDepth r.F ≤ m)
    (a a' : E) (hVN : VN S (k + m) a') (hsig : sigOf d a' = some c)
    (hra : rank d a = rk τa)
    (hP : ∀ i j, InR d τa i j → denG (bindS S (sigmaOf d [a'])) d lg P i j = den S a' i j)
    (IH : ∀ i j, InR d τa i j → den S a' i j = denG S d lg a i j)
    (t : E) (h : applyLeaf d cname [a'] = .ok t) :
    hasShapeX d τ t = true ∧ VN S k t ∧
      ∀ i j, InR d τ i j → den S t i j = denG S d lg (op1 o a) i j := by
  have hsigs : [a'].mapM (sigOf d) = some [c] := by simp [hsig]
  rw [applyLeaf_formula d cname [a'] [c] r.F hk hsigs hl] at h
  have hσ : ∀ p ∈ sigmaOf d [a'], LN S (k + pdDepth r.F) p.2 := fun p hp =>
    LN_mono S _ (k + m) (by omega) _ (sigmaOf_LN S (k + m) d [a'] (by simpa using hVN) p hp)
  obtain ⟨hshape, hvn, hden⟩ := inst_shapeX S T d _ k τ r.F hF hσ t h
  refine ⟨hshape, hvn, fun i j hij => ?_⟩
  rw [hden i j]
  have hb := (InR_iff d τ i j).mp hij
  rw [findEntry_sound (bindS S _) cname _ r hr i j (by rw [hri]; exact hb.1) (by rw [hrj]; exact hb.2),
    hdim, hlg, hnode]
  rw [denG_op1, denG_op1, op1sem_bindS, hra]
  have hcongr := op1sem_congr S d hd lg o τa τ hty (denG (bindS S (sigmaOf d [a'])) d lg P)
    (denG S d lg a) (fun i j h => (hP i j h).trans (IH i j h)) i j hij
  rcases hrk with h1 | hrP
  · subst h1
    obtain ⟨rfl, rfl⟩ := (InR_one τ i j).mp hij
    rw [op1sem_rank_1d S lg o τa τ hty (rank 1 P) (rk τa)]
    exact hcongr
  · rw [hrP]; exact hcongr

/-- **binary leaf step** on extended forms -/
theorem leaf2_soundX (S : DRing K) (T : FnTable S) (d : Nat) (hd : 1 ≤ d) (lg : Bool) (o : Op2)
    (τa τb τ : Ty) (hty : ty2 d o τa τb = some τ) (cname : String) (ca cb : Char) (r : LeafEntry)
    (P Q : E)
    (hk : classKnown cname = true)
    (hr : findEntry cname (String.ofList [ca, cb]) = some r)
    (hl : lookup cname (String.ofList [ca, cb]) = some (.formula r.F))
    (hdim : r.dim = d) (hlg : r.lg = lg ∨ o = .dot ∨ o = .cross ∨ o = .inner)
    (hnode : r.node = op2 o P Q)
    (hri : r.ri = rows d τ) (hrj : r.rj = cols d τ)
    (hF : shapeOK d τ r.F = true)
    (hrk : d = 1 ∨ (rank d P = rk τa ∧ rank d Q = rk τb))
    (k m : Nat) (hdep : pdDepth r.F ≤ m)
    (a b a' b' : E) (hVNa : VN S (k + m) a') (hVNb : VN S (k + m) b')
    (hsiga : sigOf d a' = some ca) (hsigb : sigOf d b' = some cb)
    (hra : rank d a = rk τa) (hrb : rank d b = rk τb)
    (hP : ∀ i j, InR d τa i j → denG (bindS S (sigmaOf d [a', b'])) d r.lg P i j = den S a' i j)
    (hQ : ∀ i j, InR d τb i j → denG (bindS S (sigmaOf d [a', b'])) d r.lg Q i j = den S b' i j)
    (IHa : ∀ i j, InR d τa i j → den S a' i j = denG S d lg a i j)
    (IHb : ∀ i j, InR d τb i j → den S b' i j = denG S d lg b i j)
    (t : E) (h : applyLeaf d cname [a', b'] = .ok t) :
    hasShapeX d τ t = true ∧ VN S k t ∧
      ∀ i j, InR d τ i j → den S t i j = denG S d lg (op2 o a b) i j := by
  have hsigs : [a', b'].mapM (sigOf d) = some [ca, cb] := by simp [hsiga, hsigb]
  rw [applyLeaf_formula d cname [a', b'] [ca, cb] r.F hk hsigs hl] at h
  have hσ : ∀ p ∈ sigmaOf d [a', b'], LN S (k + pdDepth r.F) p.2 := fun p hp =>
    LN_mono S _ (k + m) (by omega) _ (sigmaOf_LN S (k + m) d [a', b'] (by
      intro x hx
      simp only [List.mem_cons, List.not_mem_nil, or_false] at hx
      rcases hx with rfl | rfl <;> assumption) p hp)
  obtain ⟨hshape, hvn, hden⟩ := inst_shapeX S T d _ k τ r.F hF hσ t h
  refine ⟨hshape, hvn, fun i j hij => ?_⟩
  rw [hden i j]
  have hb := (InR_iff d τ i j).mp hij
  rw [findEntry_sound (bindS S _) cname _ r hr i j (by rw [hri]; exact hb.1) (by rw [hrj]; exact hb.2),
    hdim, hnode]
  rw [denG_op2, denG_op2, op2sem_bindS, hra, hrb, op2sem_lg S d r.lg lg o hlg]
  have hcongr := op2sem_congr S d hd lg o τa τb τ hty
    (denG (bindS S (sigmaOf d [a', b'])) d r.lg P) (denG S d lg a)
    (denG (bindS S (sigmaOf d [a', b'])) d r.lg Q) (denG S d lg b)
    (fun i j h => (hP i j h).trans (IHa i j h)) (fun i j h => (hQ i j h).trans (IHb i j h)) i j hij
  rcases hrk with h1 | hrP
  · subst h1
    obtain ⟨rfl, rfl⟩ := (InR_one τ i j).mp hij
    rw [op2sem_rank_1d S lg o τa τb τ hty (rank 1 P) (rank 1 Q) (rk τa) (rk τb)]
    exact hcongr
  · rw [hrP.1, hrP.2]; exact hcongr

/-! ### forms of lowered values, sums and products (ported from Lemmas/LowerLeaf.lean) -/

theorem bindArg_LX_eq (d k : Nat) (a : E) (h : LX a = true) :
    bindArg d k a = [("@" ++ toString k, a)] := by
  cases a <;> simp_all [bindArg, LX]

/-- the three forms of a lowered value: a scalar form (always for a scalar; in dimension 1 also
    for a vector or matrix), a column (vectors), a square matrix (matrices; 1×1 in dimension 1) -/
theorem shape_casesX (d : Nat) (τ : Ty) (t : E) (h : hasShapeX d τ t = true) :
    (LX t = true ∧ (τ = .s ∨ d = 1)) ∨
    (∃ es, t = mat d 1 es ∧ LXList es = true ∧ es.length = d ∧ τ = .v) ∨
    (∃ es, t = mat d d es ∧ LXList es = true ∧ es.length = d * d ∧ τ = .m) := by
  cases τ
  · left; exact ⟨by simpa [hasShapeX] using h, Or.inl rfl⟩
  · by_cases hm : ∃ r c es, t = mat r c es
    · obtain ⟨r, c, es, rfl⟩ := hm
      simp only [hasShapeX, Bool.and_eq_true, beq_iff_eq] at h
      obtain ⟨⟨⟨rfl, rfl⟩, hl⟩, hs⟩ := h
      right; left; exact ⟨es, rfl, hs, hl, rfl⟩
    · left
      cases t <;> simp_all [hasShapeX]
  · by_cases hm : ∃ r c es, t = mat r c es
    · obtain ⟨r, c, es, rfl⟩ := hm
      simp only [hasShapeX, Bool.and_eq_true, beq_iff_eq] at h
      obtain ⟨⟨⟨rfl, rfl⟩, hl⟩, hs⟩ := h
      right; right; exact ⟨es, rfl, hs, hl, rfl⟩
    · left
      cases t <;> simp_all [hasShapeX]

/-- the signature of a scalar form: `d` for a derivative node in dimension 1, `s` otherwise -/
theorem sigOf_LX (d : Nat) (t : E) (h : LX t = true) :
    sigOf d t = some 's' ∨ (d = 1 ∧ sigOf d t = some 'd') := by
  cases t <;> simp_all [sigOf, LX]
  by_cases hd : d = 1 <;> simp [hd]

theorem hasShapeX_nonmat (d : Nat) (τ : Ty) (t : E) (h : hasShapeX d τ t = true)
    (hm : ∀ r c es, t ≠ mat r c es) : LX t = true ∧ (τ = .s ∨ d = 1) := by
  rcases shape_casesX d τ t h with h1 | ⟨es, rfl, _⟩ | ⟨es, rfl, _⟩
  · exact h1
  · exact absurd rfl (hm _ _ _)
  · exact absurd rfl (hm _ _ _)

theorem hasShapeX_mat (d : Nat) (τ : Ty) (r c : Nat) (es : List E)
    (h : hasShapeX d τ (mat r c es) = true) :
    r = d ∧ c = cols d τ ∧ es.length = d * cols d τ ∧ LXList es = true ∧ τ ≠ .s := by
  cases τ <;> simp_all [hasShapeX, cols, LX]

theorem hasShapeX_mk_mat (d : Nat) (τ : Ty) (es : List E) (hτ : τ ≠ .s) (hs : LXList es = true)
    (hl : es.length = d * cols d τ) : hasShapeX d τ (mat d (cols d τ) es) = true := by
  cases τ <;> simp_all [hasShapeX, cols]

theorem hasShapeX_mk_LX (d : Nat) (τ : Ty) (t : E) (hs : LX t = true) (hτ : τ = .s ∨ d = 1) :
    hasShapeX d τ t = true := by
  cases τ
  · simpa [hasShapeX] using hs
  · have hd : d = 1 := by simpa using hτ
    cases t <;> simp_all [hasShapeX, LX]
  · have hd : d = 1 := by simpa using hτ
    cases t <;> simp_all [hasShapeX, LX]

theorem LX_not_mat (t : E) (h : LX t = true) : ∀ r c es, t ≠ mat r c es := by
  intro r c es he; subst he; simp [LX] at h

theorem addV_LX (a b : E) (ha : LX a = true) (hb : LX b = true) : addV a b = .ok (add [a, b]) := by
  cases a <;> cases b <;> first | rfl | (simp only [LX] at ha; exact absurd ha Bool.false_ne_true) | (simp only [LX] at hb; exact absurd hb Bool.false_ne_true)

theorem addV_LX_mat (a : E) (ha : LX a = true) (r c : Nat) (es : List E) :
    addV a (mat r c es) = if r == 1 && c == 1 then
      .ok (mat 1 1 (([a].zip es).map (fun p => add [p.1, p.2]))) else .error .typeError := by
  cases a <;> first | rfl | (simp only [LX] at ha; exact absurd ha Bool.false_ne_true)

theorem addV_mat_LX (b : E) (hb : LX b = true) (r c : Nat) (es : List E) :
    addV (mat r c es) b = if r == 1 && c == 1 then
      .ok (mat 1 1 ((es.zip [b]).map (fun p => add [p.1, p.2]))) else .error .typeError := by
  cases b <;> first | rfl | (simp only [LX] at hb; exact absurd hb Bool.false_ne_true)

theorem mulV_LX (a b : E) (ha : LX a = true) (hb : LX b = true) : mulV a b = .ok (mul [a, b]) := by
  cases a <;> cases b <;> first | rfl | (simp only [LX] at ha; exact absurd ha Bool.false_ne_true) | (simp only [LX] at hb; exact absurd hb Bool.false_ne_true)

theorem mulV_LX_mat (a : E) (ha : LX a = true) (r c : Nat) (es : List E) :
    mulV a (mat r c es) = .ok (mat r c (es.map (fun e => mul [a, e]))) := by
  cases a <;> first | rfl | (simp only [LX] at ha; exact absurd ha Bool.false_ne_true)

theorem mulV_mat_LX (b : E) (hb : LX b = true) (r c : Nat) (es : List E) :
    mulV (mat r c es) b = .ok (mat r c (es.map (fun e => mul [e, b]))) := by
  cases b <;> first | rfl | (simp only [LX] at hb; exact absurd hb Bool.false_ne_true)

theorem LXList_zip_add (es es' : List E) (h : LXList es = true) (h' : LXList es' = true) :
    LXList ((es.zip es').map (fun p => add [p.1, p.2])) = true := by
  apply LXList_of_mem
  intro x hx
  obtain ⟨p, hp, rfl⟩ := List.mem_map.mp hx
  have := List.of_mem_zip hp
  simp [LX, LXList, LXList_mem h this.1, LXList_mem h' this.2]

theorem LXList_map_mul (es : List E) (h : LXList es = true) (f : E → E)
    (hf : ∀ e, LX e = true → LX (f e) = true) : LXList (es.map f) = true := by
  apply LXList_of_mem
  intro x hx
  obtain ⟨e, he, rfl⟩ := List.mem_map.mp hx
  exact hf e (LXList_mem h he)


theorem VN_mat_iff (S : DRing K) (k : Nat) (r c : Nat) (es : List E) :
    VN S k (mat r c es) ↔ ∀ e ∈ es, LN S k e := Iff.rfl

theorem VN_LN (S : DRing K) (k : Nat) (t : E) (hL : LX t = true) (h : VN S k t) : LN S k t := by
  cases t <;> first | exact h | exact absurd hL (by simp [LX])

/-- shape and budget of a lowered value -/
def ShN (S : DRing K) (d k : Nat) (τ : Ty) (t : E) : Prop := hasShapeX d τ t = true ∧ VN S k t

/-- the sum of two lowered values of one type (in dimension 1 a scalar form and a 1×1 matrix add
    up to a 1×1 matrix) -/
theorem addV_soundX (S : DRing K) (d k : Nat) (τ : Ty) (a b t : E)
    (ha : ShN S d k τ a) (hb : ShN S d k τ b) (h : addV a b = .ok t) :
    ShN S d k τ t ∧ ∀ i j, InR d τ i j → den S t i j = den S a i j + den S b i j := by
  by_cases hma : ∃ r c es, a = mat r c es
  · obtain ⟨r, c, es, rfl⟩ := hma
    obtain ⟨hr, hc, hl, hs, hτ⟩ := hasShapeX_mat d τ r c es ha.1
    subst r c
    by_cases hmb : ∃ r c es, b = mat r c es
    · obtain ⟨r', c', es', rfl⟩ := hmb
      obtain ⟨hr', hc', hl', hs', _⟩ := hasShapeX_mat d τ r' c' es' hb.1
      subst r' c'
      simp only [addV, beq_self_eq_true, Bool.and_self, if_true] at h
      injection h with h; subst h
      refine ⟨⟨hasShapeX_mk_mat d τ _ hτ (LXList_zip_add es es' hs hs') (by simp [hl, hl']), ?_⟩, ?_⟩
      · intro x hx
        obtain ⟨p, hp, rfl⟩ := List.mem_map.mp hx
        have := List.of_mem_zip hp
        apply LN_add
        intro y hy
        simp only [List.mem_cons, List.not_mem_nil, or_false] at hy
        rcases hy with rfl | rfl
        · exact ha.2 _ this.1
        · exact hb.2 _ this.2
      · intro i j _
        simp only [den]
        split
        · exact denNth_zip_add S es es' (by rw [hl, hl']) _
        · simp
    · have hb' := hasShapeX_nonmat d τ b hb.1 (by
        intro r c es he; exact hmb ⟨r, c, es, he⟩)
      have hlb := VN_LN S k b hb'.1 hb.2
      obtain ⟨hd, hc, e0, rfl⟩ := mixed_1d d τ es hτ hb'.2 hl
      subst hd
      have hva := ha.2
      rw [hc] at h hva ⊢
      rw [addV_mat_LX b hb'.1] at h
      simp only [beq_self_eq_true, Bool.and_self, if_true] at h
      injection h with h; subst h
      have hle : LN S k e0 := hva e0 (by simp)
      have hln : LN S k (add [e0, b]) := by apply LN_add; ln_list
      refine ⟨⟨?_, ?_⟩, fun i j hij => ?_⟩
      · have := hln.1
        cases τ <;> simp_all [hasShapeX, LX, LXList]
      · intro x hx
        simp only [List.zip_cons_cons, List.zip_nil_right, List.map_cons, List.map_nil,
          List.mem_singleton] at hx
        subst hx; exact hln
      · obtain ⟨rfl, rfl⟩ := (InR_one τ i j).mp hij
        simp [den, denNth, denSum]
  · have ha' := hasShapeX_nonmat d τ a ha.1 (by intro r c es he; exact hma ⟨r, c, es, he⟩)
    have hla := VN_LN S k a ha'.1 ha.2
    by_cases hmb : ∃ r c es, b = mat r c es
    · obtain ⟨r', c', es', rfl⟩ := hmb
      obtain ⟨hr, hc, hl, hs, hτ⟩ := hasShapeX_mat d τ r' c' es' hb.1
      subst r' c'
      obtain ⟨hd, hc, e0, rfl⟩ := mixed_1d d τ es' hτ ha'.2 hl
      subst hd
      have hvb := hb.2
      rw [hc] at h hvb ⊢
      rw [addV_LX_mat a ha'.1] at h
      simp only [beq_self_eq_true, Bool.and_self, if_true] at h
      injection h with h; subst h
      have hle : LN S k e0 := hvb e0 (by simp)
      have hln : LN S k (add [a, e0]) := by apply LN_add; ln_list
      refine ⟨⟨?_, ?_⟩, fun i j hij => ?_⟩
      · have := hln.1
        cases τ <;> simp_all [hasShapeX, LX, LXList]
      · intro x hx
        simp only [List.zip_cons_cons, List.zip_nil_right, List.map_cons, List.map_nil,
          List.mem_singleton] at hx
        subst hx; exact hln
      · obtain ⟨rfl, rfl⟩ := (InR_one τ i j).mp hij
        simp [den, denNth, denSum]
    · have hb' := hasShapeX_nonmat d τ b hb.1 (by intro r c es he; exact hmb ⟨r, c, es, he⟩)
      rw [addV_LX a b ha'.1 hb'.1] at h
      injection h with h; subst h
      have hlb := VN_LN S k b hb'.1 hb.2
      have hln : LN S k (add [a, b]) := by apply LN_add; ln_list
      refine ⟨⟨hasShapeX_mk_LX d τ _ hln.1 ha'.2, hln⟩, ?_⟩
      intro i j _; simp [den, denSum]

/-- the product of a scalar and a lowered value (either order) -/
theorem mulV_soundX (S : DRing K) (d k : Nat) (τa τb τ : Ty) (a b t : E)
    (ha : ShN S d k τa a) (hb : ShN S d k τb b) (htm : tmul τa τb = some τ)
    (h : mulV a b = .ok t) :
    ShN S d k τ t ∧ ∀ i j, den S t i j = den S a i j * den S b i j := by
  by_cases hma : ∃ r c es, a = mat r c es
  · obtain ⟨r, c, es, rfl⟩ := hma
    obtain ⟨hr, hc, hl, hs, hτ⟩ := hasShapeX_mat d τa r c es ha.1
    subst r c
    by_cases hmb : ∃ r c es, b = mat r c es
    · obtain ⟨r', c', es', rfl⟩ := hmb
      obtain ⟨_, _, _, _, hτ'⟩ := hasShapeX_mat d τb r' c' es' hb.1
      rcases tmul_cases τa τb τ htm with h1 | h1
      · exact absurd h1.1 hτ
      · exact absurd h1.1 hτ'
    · have hb' := hasShapeX_nonmat d τb b hb.1 (by intro r c es he; exact hmb ⟨r, c, es, he⟩)
      have hτe : τb = .s ∧ τ = τa := by
        rcases tmul_cases τa τb τ htm with h1 | h1
        · exact absurd h1.1 hτ
        · exact h1
      obtain ⟨_, rfl⟩ := hτe
      rw [mulV_mat_LX b hb'.1] at h
      injection h with h; subst h
      have hlb := VN_LN S k b hb'.1 hb.2
      refine ⟨⟨hasShapeX_mk_mat d τ _ hτ (LXList_map_mul es hs _ (fun e he => by
        simp [LX, LXList, he, hb'.1])) (by simp [hl]), ?_⟩, ?_⟩
      · intro x hx
        obtain ⟨e, he, rfl⟩ := List.mem_map.mp hx
        have hle := ha.2 e he
        apply LN_mul; ln_list
      · intro i j
        simp only [den]
        split
        · rw [denNth_map_mul_right, den_LX_free S b hb'.1 i j]
        · simp
  · have ha' := hasShapeX_nonmat d τa a ha.1 (by intro r c es he; exact hma ⟨r, c, es, he⟩)
    have hla := VN_LN S k a ha'.1 ha.2
    by_cases hmb : ∃ r c es, b = mat r c es
    · obtain ⟨r', c', es', rfl⟩ := hmb
      obtain ⟨hr, hc, hl, hs, hτ⟩ := hasShapeX_mat d τb r' c' es' hb.1
      subst r' c'
      have hτe : τa = .s ∧ τ = τb := by
        rcases tmul_cases τa τb τ htm with h1 | h1
        · exact h1
        · exact absurd h1.1 hτ
      obtain ⟨_, rfl⟩ := hτe
      rw [mulV_LX_mat a ha'.1] at h
      injection h with h; subst h
      refine ⟨⟨hasShapeX_mk_mat d τ _ hτ (LXList_map_mul es' hs _ (fun e he => by
        simp [LX, LXList, he, ha'.1])) (by simp [hl]), ?_⟩, ?_⟩
      · intro x hx
        obtain ⟨e, he, rfl⟩ := List.mem_map.mp hx
        have hle := hb.2 e he
        apply LN_mul; ln_list
      · intro i j
        simp only [den]
        split
        · rw [denNth_map_mul_left, den_LX_free S a ha'.1 i j]
        · simp
    · have hb' := hasShapeX_nonmat d τb b hb.1 (by intro r c es he; exact hmb ⟨r, c, es, he⟩)
      have hlb := VN_LN S k b hb'.1 hb.2
      rw [mulV_LX a b ha'.1 hb'.1] at h
      injection h with h; subst h
      have hτ : τ = .s ∨ d = 1 := by
        rcases tmul_cases τa τb τ htm with h1 | h1
        · rw [h1.2]; exact hb'.2
        · rw [h1.2]; exact ha'.2
      have hln : LN S k (mul [a, b]) := by apply LN_mul; ln_list
      refine ⟨⟨hasShapeX_mk_LX d τ _ hln.1 hτ, hln⟩, ?_⟩
      intro i j; simp [den, denProd]

theorem foldAdd_soundX (S : DRing K) (d k : Nat) (τ : Ty) (ts : List E) (acc t : E)
    (hacc : ShN S d k τ acc) (hts : ∀ x ∈ ts, ShN S d k τ x)
    (h : ts.foldlM addV acc = .ok t) :
    ShN S d k τ t ∧ ∀ i j, InR d τ i j → den S t i j = den S acc i j + denSum S ts i j := by
  induction ts generalizing acc with
  | nil =>
    simp only [List.foldlM_nil, pure, Except.pure] at h
    injection h with h; subst h
    exact ⟨hacc, fun i j _ => by simp [denSum]⟩
  | cons x ts ih =>
    simp only [List.foldlM_cons, bind, Except.bind] at h
    cases h1 : addV acc x with
    | error e => rw [h1] at h; cases h
    | ok acc' =>
      rw [h1] at h
      have hx := addV_soundX S d k τ acc x acc' hacc (hts x (by simp)) h1
      have := ih acc' hx.1 (fun y hy => hts y (by simp [hy])) h
      refine ⟨this.1, fun i j hij => ?_⟩
      rw [this.2 i j hij, hx.2 i j hij]; simp only [denSum]; ring

theorem foldMul_soundX (S : DRing K) (d k : Nat) (ts : List E) (τs : List Ty) (acc t : E) (τacc τ : Ty)
    (hacc : ShN S d k τacc acc) (hts : List.Forall₂ (fun x τx => ShN S d k τx x) ts τs)
    (hτ : tmulList τacc τs = some τ) (h : ts.foldlM mulV acc = .ok t) :
    ShN S d k τ t ∧ ∀ i j, den S t i j = den S acc i j * denProd S ts i j := by
  induction hts generalizing acc τacc with
  | nil =>
    simp only [List.foldlM_nil, pure, Except.pure] at h
    injection h with h; subst h
    simp only [tmulList, Option.some.injEq] at hτ; subst hτ
    exact ⟨hacc, fun i j => by simp [denProd]⟩
  | @cons x τx ts τs hx _ ih =>
    simp only [List.foldlM_cons, bind, Except.bind] at h
    simp only [tmulList] at hτ
    cases hm : tmul τacc τx with
    | none => rw [hm] at hτ; simp at hτ
    | some τ' =>
      rw [hm] at hτ
      simp only [Option.bind_some] at hτ
      cases h1 : mulV acc x with
      | error e => rw [h1] at h; cases h
      | ok acc' =>
        rw [h1] at h
        have hx' := mulV_soundX S d k τacc τx τ' acc x acc' hacc hx hm h1
        have := ih acc' τ' hx'.1 hτ h
        refine ⟨this.1, fun i j => ?_⟩
        rw [this.2 i j, hx'.2 i j]; simp only [denProd]; ring

end Sympde.Lower
