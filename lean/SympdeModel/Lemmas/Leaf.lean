/-
  Tactic and simp set used by the generated leaf theorems (Gen/LeafThms.lean).
-/
import Mathlib.Tactic.IntervalCases
import SympdeModel.Sem.DenG
namespace Sympde
open E

variable {K : Type} [CommRing K] [Algebra ℚ K]

@[simp] theorem algebraMap_int_div_one (n : Int) :
    algebraMap ℚ K ((n : ℚ) / ((1 : ℕ) : ℚ)) = (n : K) := by simp

/-- unfold both denotations on an explicit finite formula and close the ring identity -/
syntax "leaf_tac " ident ident ident : tactic
macro_rules
  | `(tactic| leaf_tac $f:ident $i:ident $j:ident) => `(tactic|
      (interval_cases $i:ident <;> interval_cases $j:ident <;>
       simp [$f:ident, den, denSum, denProd, denNth, denG, denGSum, denGProd, denGNth, rank, rankHead,
             rankMax, Di, Coord.ofIdx, DRing.sumN] <;>
       first
        | ring
        | exact DRing.D_comm _ _ _ _      -- mixed second derivatives commute
        | skip))

end Sympde
