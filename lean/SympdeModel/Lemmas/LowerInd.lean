/-
  Helper lemmas for C01 (`lower_sound`), part 5: the typing judgement `ty` of the covered fragment
  (rank and index-freeness of well-typed expressions) and the structural induction over the
  dispatcher `Lower.lower`.
-/
import SympdeModel.Lemmas.LowerStep1
import SympdeModel.Lemmas.LowerStep2
set_option linter.unusedTactic false
namespace Sympde.Lower
open E Gen
open DRing (sumN)

variable {K : Type} [CommRing K] [Algebra ℚ K]

/-! ### the covered fragment: a typing judgement on generic expressions -/

mutual
/-- the type of a generic expression of the covered fragment (`none` outside it): numbers,
    constants, coordinates and parameters, scalar and vector functions and their components,
    non-empty sums of terms of one type, non-empty products with at most one non-scalar factor,
    and the operators grad, div, curl, rot, laplace, hessian, dot, cross, inner, bracket applied
    to arguments of the types `ty1` / `ty2` accept (arbitrarily nested) -/
def ty (d : Nat) : E → Option Ty
  | num _ _ => some .s
  | cst _ => some .s
  | sym _ => some .s
  | sf _ _ => some .s
  | vf _ _ => some .v
  | idx (vf _ _) _ => some .s
  | add as => tyAdd d as
  | mul as => tyMul d as
  | op1 o a => (ty d a).bind (ty1 d o)
  | op2 o a b => (ty d a).bind (fun τa => (ty d b).bind (fun τb => ty2 d o τa τb))
  | _ => none
def tyAdd (d : Nat) : List E → Option Ty
  | [] => none
  | a :: as => (ty d a).bind (fun τ => if tyAll d τ as then some τ else none)
def tyAll (d : Nat) (τ : Ty) : List E → Bool
  | [] => true
  | a :: as => (ty d a == some τ) && tyAll d τ as
def tyMul (d : Nat) : List E → Option Ty
  | [] => none
  | a :: as => (ty d a).bind (fun τ => tyMulAcc d τ as)
def tyMulAcc (d : Nat) (τ : Ty) : List E → Option Ty
  | [] => some τ
  | a :: as => (ty d a).bind (fun τa => (tmul τ τa).bind (fun τ' => tyMulAcc d τ' as))
end

theorem tyAll_mem (d : Nat) (τ : Ty) (as : List E) (h : tyAll d τ as = true) :
    ∀ a ∈ as, ty d a = some τ := by
  induction as with
  | nil => intro a ha; cases ha
  | cons x xs ih =>
    simp only [tyAll, Bool.and_eq_true, beq_iff_eq] at h
    intro a ha
    rcases List.mem_cons.mp ha with rfl | ha
    · exact h.1
    · exact ih h.2 a ha

theorem tmul_rk (τa τb τ : Ty) (h : tmul τa τb = some τ) : rk τ = max (rk τa) (rk τb) := by
  cases τa <;> cases τb <;> simp_all [tmul, rk] <;> subst h <;> rfl

theorem tyMulAcc_rank (d : Nat) (as : List E)
    (ih : ∀ a ∈ as, ∀ τ, ty d a = some τ → rank d a = rk τ) (τ0 τ : Ty)
    (h : tyMulAcc d τ0 as = some τ) : rk τ = max (rk τ0) (rankMax d as) := by
  induction as generalizing τ0 with
  | nil =>
    simp only [tyMulAcc, Option.some.injEq] at h
    subst h; simp [rankMax]
  | cons x xs ihx =>
    simp only [tyMulAcc] at h
    cases hx : ty d x with
    | none => rw [hx] at h; simp at h
    | some τx =>
      rw [hx] at h
      simp only [Option.bind_some] at h
      cases hm : tmul τ0 τx with
      | none => rw [hm] at h; simp at h
      | some τ' =>
        rw [hm] at h
        simp only [Option.bind_some] at h
        have := ihx (fun a ha => ih a (by simp [ha])) τ' h
        rw [this, tmul_rk τ0 τx τ' hm, ← ih x (by simp) τx hx]
        simp only [rankMax]
        omega

/-- **a well-typed expression has the rank of its type** -/
theorem ty_rank (d : Nat) (e : E) (τ : Ty) (h : ty d e = some τ) : rank d e = rk τ := by
  induction e using E.rec
    (motive_2 := fun as => ∀ a ∈ as, ∀ τ, ty d a = some τ → rank d a = rk τ) generalizing τ with
  | num _ _ => simp only [ty, Option.some.injEq] at h; subst h; simp [rank, rk]
  | cst _ => simp only [ty, Option.some.injEq] at h; subst h; simp [rank, rk]
  | sym _ => simp only [ty, Option.some.injEq] at h; subst h; simp [rank, rk]
  | sf _ _ => simp only [ty, Option.some.injEq] at h; subst h; simp [rank, rk]
  | vf _ _ => simp only [ty, Option.some.injEq] at h; subst h; simp [rank, rk]
  | idx b k _ =>
    cases b <;> simp only [ty] at h <;> first | (cases h; done) | skip
    simp only [Option.some.injEq] at h; subst h; simp [rank, rk]
  | add as ih =>
    simp only [ty] at h
    cases as with
    | nil => simp [tyAdd] at h
    | cons a rest =>
      simp only [tyAdd] at h
      cases ha : ty d a with
      | none => rw [ha] at h; simp at h
      | some τa =>
        rw [ha] at h
        simp only [Option.bind_some] at h
        split at h
        · simp only [Option.some.injEq] at h; subst h
          simp only [rank, rankHead]
          exact ih a (by simp) τa ha
        · cases h
  | mul as ih =>
    simp only [ty] at h
    cases as with
    | nil => simp [tyMul] at h
    | cons a rest =>
      simp only [tyMul] at h
      cases ha : ty d a with
      | none => rw [ha] at h; simp at h
      | some τa =>
        rw [ha] at h
        simp only [Option.bind_some] at h
        have := tyMulAcc_rank d rest (fun x hx => ih x (by simp [hx])) τa τ h
        simp only [rank, rankMax]
        rw [this, ih a (by simp) τa ha]
  | op1 o a iha =>
    simp only [ty] at h
    cases ha : ty d a with
    | none => rw [ha] at h; simp at h
    | some τa =>
      rw [ha] at h
      simp only [Option.bind_some] at h
      have hr := iha τa ha
      cases o <;> cases τa <;> simp only [ty1] at h <;>
        first
        | (cases h; done)
        | (simp only [Option.some.injEq] at h; subst h; simp [rank, rk, hr])
        | (split at h <;> first
            | (cases h; done)
            | (simp only [Option.some.injEq] at h; subst h; simp_all [rank, rk])
            | (split at h <;> first
                | (simp only [Option.some.injEq] at h; subst h; simp_all [rank, rk])
                | (cases h; done)))
  | op2 o a b iha ihb =>
    simp only [ty] at h
    cases ha : ty d a with
    | none => rw [ha] at h; simp at h
    | some τa =>
      rw [ha] at h
      simp only [Option.bind_some] at h
      cases hb : ty d b with
      | none => rw [hb] at h; simp at h
      | some τb =>
        rw [hb] at h
        simp only [Option.bind_some] at h
        have hra := iha τa ha
        have hrb := ihb τb hb
        cases o <;> cases τa <;> cases τb <;> simp only [ty2] at h <;>
          first
          | (cases h; done)
          | (simp only [Option.some.injEq] at h; subst h; simp [rank, rk, hra, hrb])
          | (split at h <;> first
              | (cases h; done)
              | (simp only [Option.some.injEq] at h; subst h; simp_all [rank, rk])
              | (split at h <;> first
                  | (simp only [Option.some.injEq] at h; subst h; simp_all [rank, rk])
                  | (cases h; done)))
  | nil => cases ‹_ ∈ []›
  | cons a as iha ihas =>
    rename_i x hx τ' hτ'
    rcases List.mem_cons.mp hx with rfl | hx
    · exact iha τ' hτ'
    · exact ihas x hx τ' hτ'
  | _ => simp [ty] at h

theorem denGSum_congr' (S : DRing K) (d : Nat) (lg : Bool) (as : List E) (i j i' j' : Nat)
    (h : ∀ a ∈ as, denG S d lg a i j = denG S d lg a i' j') :
    denGSum S d lg as i j = denGSum S d lg as i' j' := by
  induction as with
  | nil => simp [denGSum]
  | cons a as ih =>
    simp only [denGSum]
    rw [h a (by simp), ih (fun x hx => h x (by simp [hx]))]

theorem denGProd_congr' (S : DRing K) (d : Nat) (lg : Bool) (as : List E) (i j i' j' : Nat)
    (h : ∀ a ∈ as, denG S d lg a i j = denG S d lg a i' j') :
    denGProd S d lg as i j = denGProd S d lg as i' j' := by
  induction as with
  | nil => simp [denGProd]
  | cons a as ih =>
    simp only [denGProd]
    rw [h a (by simp), ih (fun x hx => h x (by simp [hx]))]

theorem tmul_s (τa τb : Ty) (h : tmul τa τb = some .s) : τa = .s ∧ τb = .s := by
  cases τa <;> cases τb <;> simp_all [tmul]

theorem tyMulAcc_s (d : Nat) (as : List E) (τ0 : Ty) (h : tyMulAcc d τ0 as = some .s) :
    τ0 = .s ∧ ∀ a ∈ as, ty d a = some .s := by
  induction as generalizing τ0 with
  | nil =>
    simp only [tyMulAcc, Option.some.injEq] at h
    exact ⟨h, fun a ha => (by cases ha)⟩
  | cons x xs ih =>
    simp only [tyMulAcc] at h
    cases hx : ty d x with
    | none => rw [hx] at h; simp at h
    | some τx =>
      rw [hx] at h
      simp only [Option.bind_some] at h
      cases hm : tmul τ0 τx with
      | none => rw [hm] at h; simp at h
      | some τ' =>
        rw [hm] at h
        simp only [Option.bind_some] at h
        obtain ⟨rfl, hrest⟩ := ih τ' h
        obtain ⟨rfl, rfl⟩ := tmul_s τ0 τx hm
        refine ⟨rfl, fun a ha => ?_⟩
        rcases List.mem_cons.mp ha with rfl | ha
        · exact hx
        · exact hrest a ha

/-- **a scalar-typed expression has an index-free classical value** -/
theorem ty_indexFree (S : DRing K) (d : Nat) (lg : Bool) (e : E) (h : ty d e = some .s) :
    ∀ i j, denG S d lg e i j = denG S d lg e 0 0 := by
  induction e using E.rec
    (motive_2 := fun as => ∀ a ∈ as, ty d a = some .s →
      ∀ i j, denG S d lg a i j = denG S d lg a 0 0) with
  | num _ _ => intro i j; simp [denG]
  | cst _ => intro i j; simp [denG]
  | sym _ => intro i j; simp [denG]
  | sf _ _ => intro i j; simp [denG]
  | vf _ _ => simp [ty] at h
  | idx b k _ => intro i j; simp [denG]
  | add as ih =>
    intro i j
    simp only [ty] at h
    cases as with
    | nil => simp [tyAdd] at h
    | cons a rest =>
      simp only [tyAdd] at h
      cases ha : ty d a with
      | none => rw [ha] at h; simp at h
      | some τa =>
        rw [ha] at h
        simp only [Option.bind_some] at h
        split at h
        · rename_i hall
          simp only [Option.some.injEq] at h; subst h
          simp only [denG]
          apply denGSum_congr'
          intro x hx
          rcases List.mem_cons.mp hx with rfl | hx'
          · exact ih x (by simp) ha i j
          · exact ih x hx (tyAll_mem d _ rest hall x hx') i j
        · cases h
  | mul as ih =>
    intro i j
    simp only [ty] at h
    cases as with
    | nil => simp [tyMul] at h
    | cons a rest =>
      simp only [tyMul] at h
      cases ha : ty d a with
      | none => rw [ha] at h; simp at h
      | some τa =>
        rw [ha] at h
        simp only [Option.bind_some] at h
        obtain ⟨rfl, hrest⟩ := tyMulAcc_s d rest τa h
        simp only [denG]
        apply denGProd_congr'
        intro x hx
        rcases List.mem_cons.mp hx with rfl | hx'
        · exact ih x (by simp) ha i j
        · exact ih x hx (hrest x hx') i j
  | op1 o a iha =>
    intro i j
    simp only [ty] at h
    cases ha : ty d a with
    | none => rw [ha] at h; simp at h
    | some τa =>
      rw [ha] at h
      simp only [Option.bind_some] at h
      have hr := ty_rank d a τa ha
      cases o <;> cases τa <;> simp only [ty1] at h <;> try (cases h; done)
      -- curl v (d = 2)
      · have hd : d = 2 := by
          by_cases h3 : d = 3
          · simp [h3] at h
          · by_cases h2 : d = 2
            · exact h2
            · simp [h3, h2] at h
        subst hd
        simp [denG]
      -- rot s: the result is a vector
      · split at h <;> cases h
      -- div v
      · simp [denG, hr, rk]
      -- laplace s
      · simp only [denG]
        rw [iha ha i j]
  | op2 o a b iha ihb =>
    intro i j
    simp only [ty] at h
    cases ha : ty d a with
    | none => rw [ha] at h; simp at h
    | some τa =>
      rw [ha] at h
      simp only [Option.bind_some] at h
      cases hb : ty d b with
      | none => rw [hb] at h; simp at h
      | some τb =>
        rw [hb] at h
        simp only [Option.bind_some] at h
        have hra := ty_rank d a τa ha
        have hrb := ty_rank d b τb hb
        cases o <;> cases τa <;> cases τb <;> simp only [ty2] at h <;> try (cases h; done)
        -- dot v v
        · simp [denG, hra, hrb, rk]
        -- cross v v (d = 2)
        · have hd : d = 2 := by
            by_cases h3 : d = 3
            · simp [h3] at h
            · by_cases h2 : d = 2
              · exact h2
              · simp [h3, h2] at h
          subst hd
          simp [denG]
        -- inner v v, inner m m
        · simp [denG]
        · simp [denG]
        -- bracket s s
        · simp [denG]
  | nil => cases ‹_ ∈ []›
  | cons a as iha ihas =>
    rename_i x hx hτ i j
    rcases List.mem_cons.mp hx with rfl | hx
    · exact iha hτ i j
    · exact ihas x hx hτ i j
  | _ => simp [ty] at h

theorem lowerList_spec (d : Nat) (lg : Bool) (as ts : List E) (h : lowerList d lg as = .ok ts) :
    List.Forall₂ (fun a t => lower d lg a = .ok t) as ts := by
  induction as generalizing ts with
  | nil =>
    simp only [lowerList] at h
    injection h with h; subst h
    exact List.Forall₂.nil
  | cons a as ih =>
    simp only [lowerList, bind, Except.bind] at h
    cases h1 : lower d lg a with
    | error e => rw [h1] at h; cases h
    | ok t =>
      rw [h1] at h
      cases h2 : lowerList d lg as with
      | error e => rw [h2] at h; cases h
      | ok ts' =>
        rw [h2] at h
        injection h with h; subst h
        exact List.Forall₂.cons h1 (ih ts' h2)

/-! ### unfolding the dispatcher on operator nodes -/

theorem ty1_class (d : Nat) (o : Op1) (τa τ : Ty) (h : ty1 d o τa = some τ) :
    ∃ cn, op1Class o = some cn := by
  cases o <;> cases τa <;> simp_all [ty1, op1Class]

theorem lower_op1 (d : Nat) (lg : Bool) (o : Op1) (a : E) (cn : String) (h : op1Class o = some cn) :
    lower d lg (op1 o a) = (do
      let a' ← lower d lg a
      applyLeaf d ((if lg then "Logical" else "") ++ cn ++ "_" ++ toString d ++ "d") [a']) := by
  cases o <;> simp only [op1Class] at h <;> first | (cases h; done) | (cases h; simp only [lower, op1Class])

theorem lower_op2 (d : Nat) (lg : Bool) (o : Op2) (a b : E) :
    lower d lg (op2 o a b) = (do
      let a' ← lower d lg a
      let b' ← lower d lg b
      applyLeaf d (op2Name lg o d) [a', b']) := by
  cases o <;> simp only [lower, op2Name]

/-! ### sums and products: from the members to the fold -/

/-- what the induction hypothesis says of a lowered member of type `τ` -/
def Good (S : DRing K) (d : Nat) (lg : Bool) (τ : Ty) (a t : E) : Prop :=
  hasShape d τ t = true ∧ ∀ i j, InR d τ i j → den S t i j = denG S d lg a i j

theorem forall2_members (d : Nat) (lg : Bool) (Q : E → E → Prop) (as ts : List E)
    (F : List.Forall₂ (fun a t => lower d lg a = .ok t) as ts)
    (h : ∀ a ∈ as, ∀ t, lower d lg a = .ok t → Q a t) : List.Forall₂ Q as ts := by
  induction F with
  | nil => exact List.Forall₂.nil
  | @cons a t as ts hat _ ih =>
    exact List.Forall₂.cons (h a (by simp) t hat) (ih (fun x hx => h x (by simp [hx])))

theorem sum_members (S : DRing K) (d : Nat) (lg : Bool) (τ : Ty) (as ts : List E)
    (F : List.Forall₂ (Good S d lg τ) as ts) :
    (∀ x ∈ ts, hasShape d τ x = true) ∧
    ∀ i j, InR d τ i j → denSum S ts i j = denGSum S d lg as i j := by
  induction F with
  | nil => exact ⟨fun x hx => (by cases hx), fun i j _ => by simp [denSum, denGSum]⟩
  | @cons a t as ts hat _ ih =>
    refine ⟨fun x hx => ?_, fun i j hij => ?_⟩
    · rcases List.mem_cons.mp hx with rfl | hx
      · exact hat.1
      · exact ih.1 x hx
    · simp only [denSum, denGSum, hat.2 i j hij, ih.2 i j hij]

theorem tyMulAcc_mono (d : Nat) (as : List E) (τ0 τ : Ty) (h : tyMulAcc d τ0 as = some τ) :
    τ0 = .s ∨ τ0 = τ := by
  induction as generalizing τ0 with
  | nil => simp only [tyMulAcc, Option.some.injEq] at h; exact Or.inr h
  | cons x xs ih =>
    simp only [tyMulAcc] at h
    cases hx : ty d x with
    | none => rw [hx] at h; simp at h
    | some τx =>
      rw [hx] at h
      simp only [Option.bind_some] at h
      cases hm : tmul τ0 τx with
      | none => rw [hm] at h; simp at h
      | some τ' =>
        rw [hm] at h
        simp only [Option.bind_some] at h
        rcases tmul_cases τ0 τx τ' hm with ⟨h0, _⟩ | ⟨_, h'⟩
        · exact Or.inl h0
        · subst h'; exact ih τ' h

/-- a factor of type `s` or of the type of the product, read at a component of the product -/
theorem factor_den (S : DRing K) (d : Nat) (hd : 1 ≤ d) (lg : Bool) (b tb : E) (τb τ : Ty)
    (hty : ty d b = some τb) (hg : Good S d lg τb b tb) (hτ : τb = .s ∨ τb = τ) (i j : Nat)
    (hij : InR d τ i j) : den S tb i j = denG S d lg b i j := by
  rcases hτ with rfl | rfl
  · rw [den_LS_free S tb (hasShape_s_LS d tb hg.1) i j, hg.2 0 0 (InR_zero_zero d hd _),
      ty_indexFree S d lg b hty i j]
  · exact hg.2 i j hij

theorem mul_members (S : DRing K) (d : Nat) (hd : 1 ≤ d) (lg : Bool) (as ts : List E)
    (F : List.Forall₂ (fun a t => ∃ τa, ty d a = some τa ∧ Good S d lg τa a t) as ts)
    (τ0 τ : Ty) (h : tyMulAcc d τ0 as = some τ) :
    ∃ τs, List.Forall₂ (fun x τx => hasShape d τx x = true) ts τs ∧ tmulList τ0 τs = some τ ∧
      ∀ i j, InR d τ i j → denProd S ts i j = denGProd S d lg as i j := by
  induction F generalizing τ0 with
  | nil =>
    simp only [tyMulAcc, Option.some.injEq] at h
    exact ⟨[], List.Forall₂.nil, by simp [tmulList, h], fun i j _ => by simp [denProd, denGProd]⟩
  | @cons b tb as ts hb _ ih =>
    obtain ⟨τb, htb, hg⟩ := hb
    simp only [tyMulAcc, htb, Option.bind_some] at h
    cases hm : tmul τ0 τb with
    | none => rw [hm] at h; simp at h
    | some τ' =>
      rw [hm] at h
      simp only [Option.bind_some] at h
      obtain ⟨τs, hF, hτs, hden⟩ := ih τ' h
      refine ⟨τb :: τs, List.Forall₂.cons hg.1 hF, by simp [tmulList, hm, hτs], fun i j hij => ?_⟩
      have hτb : τb = .s ∨ τb = τ := by
        rcases tmul_cases τ0 τb τ' hm with ⟨_, h'⟩ | ⟨h', _⟩
        · subst h'; exact tyMulAcc_mono d as _ τ h
        · exact Or.inl h'
      simp only [denProd, denGProd, hden i j hij, factor_den S d hd lg b tb τb τ htb hg hτb i j hij]

theorem nth_map_range (d : Nat) (f : Nat → E) (i : Nat) (hi : i < d) :
    nth ((List.range d).map f) i = f i := by
  simp [nth, List.getD, hi]

/-! ### dispatch on the forms of the lowered arguments -/

/-- a covered unary operator applied to a lowered argument: the leaf class returns a value, and
    every value it returns is good -/
theorem op1_dispatch (S : DRing K) (d : Nat) (hd : d = 1 ∨ d = 2 ∨ d = 3) (lg : Bool) (o : Op1)
    (τa τ : Ty) (hty : ty1 d o τa = some τ) (cn : String) (hcn : op1Class o = some cn) (a a' : E)
    (ga : Good S d lg τa a a') (hra : rank d a = rk τa) :
    (∃ t, applyLeaf d ((if lg then "Logical" else "") ++ cn ++ "_" ++ toString d ++ "d") [a'] = .ok t) ∧
    ∀ t, applyLeaf d ((if lg then "Logical" else "") ++ cn ++ "_" ++ toString d ++ "d") [a'] = .ok t →
      Good S d lg τ (op1 o a) t := by
  rcases shape_cases d τa a' ga.1 with ⟨hLS, hτ⟩ | ⟨es, rfl, hes, _, rfl⟩ | ⟨es, rfl, hes, _, rfl⟩
  · exact op1_step_sc S d hd lg o τa τ hty cn hcn a a' hLS hτ hra ga.2
  · exact op1_step_vec S d hd lg o .v τ hty cn hcn a es hes (Or.inl rfl) hra ga.2
  · rcases hd with rfl | hd'
    · exact op1_step_vec S 1 (Or.inl rfl) lg o .m τ hty cn hcn a es hes (Or.inr ⟨rfl, rfl⟩) hra ga.2
    · exact op1_step_mat S d hd' lg o .m τ hty cn hcn a es hes rfl hra ga.2

theorem op2_dispatch (S : DRing K) (d : Nat) (hd : d = 1 ∨ d = 2 ∨ d = 3) (lg : Bool) (o : Op2)
    (τa τb τ : Ty) (hty : ty2 d o τa τb = some τ) (a b a' b' : E)
    (ga : Good S d lg τa a a') (gb : Good S d lg τb b b')
    (hra : rank d a = rk τa) (hrb : rank d b = rk τb) :
    (∃ t, applyLeaf d (op2Name lg o d) [a', b'] = .ok t) ∧
    ∀ t, applyLeaf d (op2Name lg o d) [a', b'] = .ok t → Good S d lg τ (op2 o a b) t := by
  -- a scalar-typed argument next to a non-scalar one is ill-typed
  have hsx : ∀ τ', ty2 d o .s τ' = some τ → τ' = .s := by
    intro τ' h; cases o <;> cases τ' <;> simp_all [ty2]
  have hxs : ∀ τ', ty2 d o τ' .s = some τ → τ' = .s := by
    intro τ' h; cases o <;> cases τ' <;> simp_all [ty2]
  rcases shape_cases d τa a' ga.1 with
    ⟨hLSa, hτa⟩ | ⟨es, rfl, hes, _, rfl⟩ | ⟨es, rfl, hes, _, rfl⟩ <;>
  rcases shape_cases d τb b' gb.1 with
    ⟨hLSb, hτb⟩ | ⟨es', rfl, hes', _, rfl⟩ | ⟨es', rfl, hes', _, rfl⟩
  · exact op2_step_sc_sc S d hd lg o τa τb τ hty a b a' b' hLSa hLSb hτa hτb hra hrb ga.2 gb.2
  · rcases hτa with rfl | rfl
    · exact absurd (hsx _ hty) (by decide)
    · exact op2_step_sc_vec S lg o τa .v τ hty a b a' es' hLSa hes' hra hrb ga.2 gb.2
  · rcases hτa with rfl | rfl
    · exact absurd (hsx _ hty) (by decide)
    · exact op2_step_sc_vec S lg o τa .m τ hty a b a' es' hLSa hes' hra hrb ga.2 gb.2
  · rcases hτb with rfl | rfl
    · exact absurd (hxs _ hty) (by decide)
    · exact op2_step_vec_sc S lg o .v τb τ hty a b b' es hes hLSb hra hrb ga.2 gb.2
  · exact op2_step_vec_vec S d hd lg o .v .v τ hty a b es es' hes hes' (Or.inl rfl)
      (Or.inl rfl) hra hrb ga.2 gb.2
  · rcases hd with rfl | hd'
    · exact op2_step_vec_vec S 1 (Or.inl rfl) lg o .v .m τ hty a b es es' hes hes'
        (Or.inl rfl) (Or.inr ⟨rfl, rfl⟩) hra hrb ga.2 gb.2
    · exact op2_step_vec_mat S d hd' lg o .v .m τ hty a b es es' hes hes' rfl rfl hra hrb ga.2 gb.2
  · rcases hτb with rfl | rfl
    · exact absurd (hxs _ hty) (by decide)
    · exact op2_step_vec_sc S lg o .m τb τ hty a b b' es hes hLSb hra hrb ga.2 gb.2
  · rcases hd with rfl | hd'
    · exact op2_step_vec_vec S 1 (Or.inl rfl) lg o .m .v τ hty a b es es' hes hes'
        (Or.inr ⟨rfl, rfl⟩) (Or.inl rfl) hra hrb ga.2 gb.2
    · exact op2_step_mat_vec S d hd' lg o .m .v τ hty a b es es' hes hes' rfl rfl hra hrb ga.2 gb.2
  · rcases hd with rfl | hd'
    · exact op2_step_vec_vec S 1 (Or.inl rfl) lg o .m .m τ hty a b es es' hes hes'
        (Or.inr ⟨rfl, rfl⟩) (Or.inr ⟨rfl, rfl⟩) hra hrb ga.2 gb.2
    · exact op2_step_mat_mat S d hd' lg o .m .m τ hty a b es es' hes hes' rfl rfl hra hrb ga.2 gb.2

/-! ### the structural induction -/

/-- **lowering a well-typed expression of the covered fragment preserves its classical meaning**,
    component by component, in every differential ring; and the result has the shape of the type -/
theorem lower_ty_sound (S : DRing K) (d : Nat) (hd : d = 1 ∨ d = 2 ∨ d = 3) (lg : Bool) (e : E)
    (τ : Ty) (t : E) (hty : ty d e = some τ) (hl : lower d lg e = .ok t) :
    Good S d lg τ e t := by
  have hd1 : 1 ≤ d := by omega
  induction e using E.rec
    (motive_2 := fun as => ∀ a ∈ as, ∀ τ t, ty d a = some τ → lower d lg a = .ok t →
      Good S d lg τ a t) generalizing τ t with
  | num p q =>
    simp only [ty, Option.some.injEq] at hty; subst hty
    simp only [lower] at hl; injection hl with hl; subst hl
    exact ⟨rfl, fun i j _ => by simp [den, denG]⟩
  | cst n =>
    simp only [ty, Option.some.injEq] at hty; subst hty
    simp only [lower] at hl; injection hl with hl; subst hl
    exact ⟨rfl, fun i j _ => by simp [den, denG]⟩
  | sym n =>
    simp only [ty, Option.some.injEq] at hty; subst hty
    simp only [lower] at hl; injection hl with hl; subst hl
    exact ⟨rfl, fun i j _ => by simp [den, denG]⟩
  | sf n k =>
    simp only [ty, Option.some.injEq] at hty; subst hty
    simp only [lower] at hl; injection hl with hl; subst hl
    exact ⟨rfl, fun i j _ => by simp [den, denG]⟩
  | vf n k =>
    simp only [ty, Option.some.injEq] at hty; subst hty
    simp only [lower] at hl; injection hl with hl; subst hl
    refine ⟨?_, fun i j hij => ?_⟩
    · simp only [hasShape, beq_self_eq_true, List.length_map, List.length_range, Bool.true_and]
      apply LSList_of_mem
      intro x hx
      obtain ⟨i, _, rfl⟩ := List.mem_map.mp hx
      rfl
    · obtain ⟨hi, rfl⟩ := hij
      rw [den_mat_nth, if_pos ⟨hi, by decide⟩, Nat.mul_one, Nat.add_zero, nth_map_range d _ i hi]
      simp [den, denG]
  | idx b k _ =>
    cases b <;> simp only [ty] at hty <;> first | (cases hty; done) | skip
    simp only [Option.some.injEq] at hty; subst hty
    simp only [lower] at hl; injection hl with hl; subst hl
    exact ⟨rfl, fun i j _ => by simp [den, denG]⟩
  | add as ih =>
    simp only [ty] at hty
    simp only [lower, bind, Except.bind] at hl
    cases hls : lowerList d lg as with
    | error e => rw [hls] at hl; cases hl
    | ok ts =>
      rw [hls] at hl
      simp only at hl
      have F := lowerList_spec d lg as ts hls
      cases as with
      | nil => simp [tyAdd] at hty
      | cons a rest =>
        simp only [tyAdd] at hty
        cases ha : ty d a with
        | none => rw [ha] at hty; simp at hty
        | some τa =>
          rw [ha] at hty
          simp only [Option.bind_some] at hty
          split at hty
          · rename_i hall
            simp only [Option.some.injEq] at hty; subst hty
            cases F with
            | cons hat Frest =>
              rename_i ta trest
              have ga := ih a (by simp) τa ta ha hat
              have Fg : List.Forall₂ (Good S d lg τa) rest trest :=
                forall2_members d lg _ rest trest Frest (fun x hx tx hlx =>
                  ih x (by simp [hx]) τa tx (tyAll_mem d τa rest hall x hx) hlx)
              have hs := sum_members S d lg τa rest trest Fg
              simp only [foldV] at hl
              have := foldAdd_soundR S d τa trest ta t ga.1 hs.1 hl
              refine ⟨this.1, fun i j hij => ?_⟩
              rw [this.2 i j hij, ga.2 i j hij, hs.2 i j hij]
              simp only [denG, denGSum]
          · cases hty
  | mul as ih =>
    simp only [ty] at hty
    simp only [lower, bind, Except.bind] at hl
    cases hls : lowerList d lg as with
    | error e => rw [hls] at hl; cases hl
    | ok ts =>
      rw [hls] at hl
      simp only at hl
      have F := lowerList_spec d lg as ts hls
      cases as with
      | nil => simp [tyMul] at hty
      | cons a rest =>
        simp only [tyMul] at hty
        cases ha : ty d a with
        | none => rw [ha] at hty; simp at hty
        | some τa =>
          rw [ha] at hty
          simp only [Option.bind_some] at hty
          cases F with
          | cons hat Frest =>
            rename_i ta trest
            have ga := ih a (by simp) τa ta ha hat
            have Fg : List.Forall₂ (fun a t => ∃ τa, ty d a = some τa ∧ Good S d lg τa a t) rest trest :=
              forall2_members d lg _ rest trest Frest (fun x hx tx hlx => by
                cases hx' : ty d x with
                | none =>
                  exfalso
                  have : ∀ (l : List E) (τ0 : Ty), x ∈ l → tyMulAcc d τ0 l ≠ some τ := by
                    intro l
                    induction l with
                    | nil => intro _ hm; cases hm
                    | cons y ys ihl =>
                      intro τ0 hm
                      simp only [tyMulAcc]
                      rcases List.mem_cons.mp hm with rfl | hm
                      · simp [hx']
                      · cases hy : ty d y with
                        | none => simp
                        | some τy =>
                          simp only [Option.bind_some]
                          cases hmm : tmul τ0 τy with
                          | none => simp
                          | some τ'' => simpa using ihl τ'' hm
                  exact this rest τa hx hty
                | some τx => exact ⟨τx, rfl, ih x (by simp [hx]) τx tx hx' hlx⟩)
            obtain ⟨τs, hF, hτs, hden⟩ := mul_members S d hd1 lg rest trest Fg τa τ hty
            simp only [foldV] at hl
            have := foldMul_sound S d trest τs ta t τa τ ga.1 hF hτs hl
            refine ⟨this.1, fun i j hij => ?_⟩
            rw [this.2 i j, hden i j hij,
              factor_den S d hd1 lg a ta τa τ ha ga (tyMulAcc_mono d rest τa τ hty) i j hij]
            simp only [denG, denGProd]
  | op1 o a iha =>
    simp only [ty] at hty
    cases ha : ty d a with
    | none => rw [ha] at hty; simp at hty
    | some τa =>
      rw [ha] at hty
      simp only [Option.bind_some] at hty
      obtain ⟨cn, hcn⟩ := ty1_class d o τa τ hty
      rw [lower_op1 d lg o a cn hcn] at hl
      simp only [bind, Except.bind] at hl
      cases hla : lower d lg a with
      | error e => rw [hla] at hl; cases hl
      | ok a' =>
        rw [hla] at hl
        simp only at hl
        have ga := iha τa a' ha hla
        exact (op1_dispatch S d hd lg o τa τ hty cn hcn a a' ga (ty_rank d a τa ha)).2 t hl
  | op2 o a b iha ihb =>
    simp only [ty] at hty
    cases ha : ty d a with
    | none => rw [ha] at hty; simp at hty
    | some τa =>
      rw [ha] at hty
      simp only [Option.bind_some] at hty
      cases hb : ty d b with
      | none => rw [hb] at hty; simp at hty
      | some τb =>
        rw [hb] at hty
        simp only [Option.bind_some] at hty
        rw [lower_op2 d lg o a b] at hl
        simp only [bind, Except.bind] at hl
        cases hla : lower d lg a with
        | error e => rw [hla] at hl; cases hl
        | ok a' =>
          rw [hla] at hl
          simp only at hl
          cases hlb : lower d lg b with
          | error e => rw [hlb] at hl; cases hl
          | ok b' =>
            rw [hlb] at hl
            simp only at hl
            have ga := iha τa a' ha hla
            have gb := ihb τb b' hb hlb
            exact (op2_dispatch S d hd lg o τa τb τ hty a b a' b' ga gb (ty_rank d a τa ha)
              (ty_rank d b τb hb)).2 t hl
  | nil => cases ‹_ ∈ []›
  | cons a as iha ihas =>
    rename_i x hx τ' t' hτ' hl'
    rcases List.mem_cons.mp hx with rfl | hx
    · exact iha τ' t' hτ' hl'
    · exact ihas x hx τ' t' hτ' hl'
  | _ => simp [ty] at hty

theorem lower_ty_shape (d : Nat) (hd : d = 1 ∨ d = 2 ∨ d = 3) (lg : Bool) (e : E) (τ : Ty) (t : E)
    (hty : ty d e = some τ) (hl : lower d lg e = .ok t) : hasShape d τ t = true :=
  (lower_ty_sound trivialRing d hd lg e τ t hty hl).1

/-! ### on the fragment lowering does not fail -/

theorem forall2_right_all (P : E → Prop) (as ts : List E)
    (F : List.Forall₂ (fun (_ : E) t => P t) as ts) : ∀ x ∈ ts, P x := by
  induction F with
  | nil => intro x hx; cases hx
  | @cons _ t _ ts h1 _ ih =>
    intro x hx
    rcases List.mem_cons.mp hx with rfl | hx
    · exact h1
    · exact ih x hx

theorem lowerList_total (d : Nat) (lg : Bool) (as : List E)
    (h : ∀ a ∈ as, ∃ t, lower d lg a = .ok t) : ∃ ts, lowerList d lg as = .ok ts := by
  induction as with
  | nil => exact ⟨[], rfl⟩
  | cons a as ih =>
    obtain ⟨t, ht⟩ := h a (by simp)
    obtain ⟨ts, hts⟩ := ih (fun x hx => h x (by simp [hx]))
    exact ⟨t :: ts, by simp [lowerList, ht, hts, bind, Except.bind]⟩

/-- **totality**: in dimension 1, 2 and 3 the dispatcher returns a value for every well-typed
    expression of the fragment (in dimension 1 since the repair of the `Add` branch: `grad(h) + F`) -/
theorem lower_ty_total_all (d : Nat) (hd3 : d = 1 ∨ d = 2 ∨ d = 3) (lg : Bool) (e : E) (τ : Ty)
    (hty : ty d e = some τ) : ∃ t, lower d lg e = .ok t := by
  have hd1' : 1 ≤ d := by omega
  induction e using E.rec
    (motive_2 := fun as => ∀ a ∈ as, ∀ τ, ty d a = some τ → ∃ t, lower d lg a = .ok t)
    generalizing τ with
  | num p q => simp [lower]
  | cst n => simp [lower]
  | sym n => simp [lower]
  | sf n k => simp [lower]
  | vf n k => simp [lower]
  | idx b k _ => cases b <;> simp [lower]
  | add as ih =>
    simp only [ty] at hty
    cases as with
    | nil => simp [tyAdd] at hty
    | cons a rest =>
      simp only [tyAdd] at hty
      cases ha : ty d a with
      | none => rw [ha] at hty; simp at hty
      | some τa =>
        rw [ha] at hty
        simp only [Option.bind_some] at hty
        split at hty
        · rename_i hall
          simp only [Option.some.injEq] at hty; subst hty
          have hall' : ∀ x ∈ a :: rest, ty d x = some τa := by
            intro x hx
            rcases List.mem_cons.mp hx with rfl | hx
            · exact ha
            · exact tyAll_mem d τa rest hall x hx
          obtain ⟨ts, hts⟩ := lowerList_total d lg (a :: rest) (fun x hx => ih x hx τa (hall' x hx))
          have F := lowerList_spec d lg (a :: rest) ts hts
          cases F with
          | cons hat Frest =>
            rename_i ta trest
            have hsa := lower_ty_shape d hd3 lg a τa ta ha hat
            have Fs : List.Forall₂ (fun (_ : E) t => hasShape d τa t = true) rest trest :=
              forall2_members d lg _ rest trest Frest (fun x hx tx hlx =>
                lower_ty_shape d hd3 lg x τa tx (tyAll_mem d τa rest hall x hx) hlx)
            have hs : ∀ x ∈ trest, hasShape d τa x = true := forall2_right_all _ rest trest Fs
            obtain ⟨t, ht⟩ := foldAdd_total_all trivialRing d τa trest ta hsa hs
            exact ⟨t, by simp [lower, hts, foldV, ht, bind, Except.bind]⟩
        · cases hty
  | mul as ih =>
    simp only [ty] at hty
    cases as with
    | nil => simp [tyMul] at hty
    | cons a rest =>
      simp only [tyMul] at hty
      cases ha : ty d a with
      | none => rw [ha] at hty; simp at hty
      | some τa =>
        rw [ha] at hty
        simp only [Option.bind_some] at hty
        have hmem : ∀ x ∈ rest, ∃ τx, ty d x = some τx := by
          intro x hx
          cases hx' : ty d x with
          | some τx => exact ⟨τx, rfl⟩
          | none =>
            exfalso
            have : ∀ (l : List E) (τ0 : Ty), x ∈ l → tyMulAcc d τ0 l ≠ some τ := by
              intro l
              induction l with
              | nil => intro _ hm; cases hm
              | cons y ys ihl =>
                intro τ0 hm
                simp only [tyMulAcc]
                rcases List.mem_cons.mp hm with rfl | hm
                · simp [hx']
                · cases hy : ty d y with
                  | none => simp
                  | some τy =>
                    simp only [Option.bind_some]
                    cases hmm : tmul τ0 τy with
                    | none => simp
                    | some τ'' => simpa using ihl τ'' hm
            exact this rest τa hx hty
        obtain ⟨ts, hts⟩ := lowerList_total d lg (a :: rest) (fun x hx => by
          rcases List.mem_cons.mp hx with rfl | hx'
          · exact ih x hx τa ha
          · obtain ⟨τx, hτx⟩ := hmem x hx'
            exact ih x hx τx hτx)
        have F := lowerList_spec d lg (a :: rest) ts hts
        cases F with
        | cons hat Frest =>
          rename_i ta trest
          have ga := lower_ty_sound trivialRing d hd3 lg a τa ta ha hat
          have Fg : List.Forall₂ (fun a t => ∃ τa, ty d a = some τa ∧ Good trivialRing d lg τa a t) rest trest :=
            forall2_members d lg _ rest trest Frest (fun x hx tx hlx => by
              obtain ⟨τx, hτx⟩ := hmem x hx
              exact ⟨τx, hτx, lower_ty_sound trivialRing d hd3 lg x τx tx hτx hlx⟩)
          obtain ⟨τs, hF, hτs, _⟩ := mul_members trivialRing d hd1' lg rest trest Fg τa τ hty
          obtain ⟨t, ht⟩ := foldMul_total trivialRing d trest τs ta τa τ ga.1 hF hτs
          exact ⟨t, by simp [lower, hts, foldV, ht, bind, Except.bind]⟩
  | op1 o a iha =>
    simp only [ty] at hty
    cases ha : ty d a with
    | none => rw [ha] at hty; simp at hty
    | some τa =>
      rw [ha] at hty
      simp only [Option.bind_some] at hty
      obtain ⟨cn, hcn⟩ := ty1_class d o τa τ hty
      obtain ⟨a', hla⟩ := iha τa ha
      have ga := lower_ty_sound trivialRing d hd3 lg a τa a' ha hla
      obtain ⟨t, ht⟩ := (op1_dispatch trivialRing d hd3 lg o τa τ hty cn hcn a a' ga (ty_rank d a τa ha)).1
      exact ⟨t, by rw [lower_op1 d lg o a cn hcn]; simp only [hla, bind, Except.bind]; exact ht⟩
  | op2 o a b iha ihb =>
    simp only [ty] at hty
    cases ha : ty d a with
    | none => rw [ha] at hty; simp at hty
    | some τa =>
      rw [ha] at hty
      simp only [Option.bind_some] at hty
      cases hb : ty d b with
      | none => rw [hb] at hty; simp at hty
      | some τb =>
        rw [hb] at hty
        simp only [Option.bind_some] at hty
        obtain ⟨a', hla⟩ := iha τa ha
        obtain ⟨b', hlb⟩ := ihb τb hb
        have ga := lower_ty_sound trivialRing d hd3 lg a τa a' ha hla
        have gb := lower_ty_sound trivialRing d hd3 lg b τb b' hb hlb
        obtain ⟨t, ht⟩ := (op2_dispatch trivialRing d hd3 lg o τa τb τ hty a b a' b' ga gb
          (ty_rank d a τa ha) (ty_rank d b τb hb)).1
        exact ⟨t, by rw [lower_op2 d lg o a b]; simp only [hla, hlb, bind, Except.bind]; exact ht⟩
  | nil => cases ‹_ ∈ []›
  | cons a as iha ihas =>
    rename_i x hx τ' hτ'
    rcases List.mem_cons.mp hx with rfl | hx
    · exact iha τ' hτ'
    · exact ihas x hx τ' hτ'
  | _ => simp [ty] at hty

/-- the special case d = 2, 3 (statement kept for Props/C11.lean) -/
theorem lower_ty_total (d : Nat) (hd : d = 2 ∨ d = 3) (lg : Bool) (e : E) (τ : Ty)
    (hty : ty d e = some τ) : ∃ t, lower d lg e = .ok t :=
  lower_ty_total_all d (Or.inr hd) lg e τ hty

end Sympde.Lower
