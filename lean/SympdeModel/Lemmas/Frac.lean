/-
  Soundness of `Frac.asFrac` (C16): `den e * den d = den n` and `den d * den di = 1`, under the
  side condition `NonDeg` (the bases of negative integer powers are invertible).
-/
import SympdeModel.Lemmas.PDeriv
import SympdeModel.Model.Frac
namespace Sympde
namespace Frac
open E PD

variable {K : Type} [CommRing K] [Algebra ℚ K]

theorem isOne_den (S : DRing K) (a : E) (h : isOne a = true) (i j : Nat) : den S a i j = 1 := by
  unfold isOne at h
  split at h
  · simp [den]
  · cases h

theorem den_powN (S : DRing K) (a : E) (k i j : Nat) : den S (powN a k) i j = den S a i j ^ k := by
  unfold powN
  split
  · rename_i h; rw [isOne_den S a h, den_one, one_pow]
  · split
    · rename_i h; simp at h; subst h; simp
    · simp [den, powSem, intLit]

theorem den_invE (S : DRing K) (a : E) (i j : Nat) : den S (invE a) i j = S.inv (den S a i j) := by
  simp [invE, den, powSem_neg_one]

theorem den_mulS (S : DRing K) (a b : E) (i j : Nat) : den S (mulS a b) i j = den S a i j * den S b i j := by
  unfold mulS
  split
  · rename_i h; rw [isOne_den S a h, one_mul]
  · split
    · rename_i h; rw [isOne_den S b h, mul_one]
    · simp [den, denProd]

theorem den_add2 (S : DRing K) (a b : E) (i j : Nat) : den S (add [a, b]) i j = den S a i j + den S b i j := by
  simp [den, denSum]

theorem polyLike_nonDeg (S : DRing K) (e : E) (h : polyLike e = true) : NonDeg S e := by
  induction e using E.rec (motive_2 := fun as => polyLikeList as = true → NonDegList S as) with
  | add as ih => simp only [polyLike] at h; simpa [NonDeg] using ih h
  | mul as ih => simp only [polyLike] at h; simpa [NonDeg] using ih h
  | pow b e ihb _ =>
    simp only [polyLike, Bool.and_eq_true] at h
    simp only [NonDeg]
    cases hl : intLit e with
    | none => rw [hl] at h; simp at h
    | some n =>
      rw [hl] at h
      cases n with
      | ofNat k => exact ⟨trivial, ihb h.2, by
          -- an integer literal has no powers inside
          cases e <;> simp [intLit] at hl
          rename_i p q
          split at hl <;> simp_all [NonDeg]⟩
      | negSucc k => simp at h
  | fn f a iha => simp only [polyLike] at h; simpa [NonDeg] using iha h
  | mat r c es ih => simp only [polyLike] at h; simpa [NonDeg] using ih h
  | nil => trivial
  | cons a as iha ihas =>
    rename_i h
    simp only [polyLikeList, Bool.and_eq_true] at h
    exact ⟨iha h.1, ihas h.2⟩
  | _ => first | (simp [NonDeg]; done) | (simp [polyLike] at h)

/-- the value `v` is the fraction `f` -/
def IsFrac (S : DRing K) (v : K) (f : Fr) (i j : Nat) : Prop :=
  v * den S f.d i j = den S f.n i j ∧ den S f.d i j * den S f.di i j = 1

theorem asFrac_sound (S : DRing K) (e : E) (h : NonDeg S e) :
    ∀ i j, IsFrac S (den S e i j) (asFrac e) i j := by
  induction e using E.rec
    (motive_2 := fun as => NonDegList S as →
      ∀ i j, IsFrac S (denSum S as i j) (asFracSum as) i j ∧ IsFrac S (denProd S as i j) (asFracProd as) i j) with
  | num p q =>
    intro i j
    simp only [asFrac]
    split
    · simp [IsFrac, den_one]
    · rename_i hq
      simp only [Bool.or_eq_true, beq_iff_eq, not_or] at hq
      have hq0 : (q : ℚ) ≠ 0 := by exact_mod_cast hq.1
      simp only [IsFrac, den, ← map_mul]
      constructor
      · congr 1
        simp only [Int.ofNat_eq_natCast, Int.cast_natCast, Nat.cast_one, div_one]
        exact div_mul_cancel₀ _ hq0
      · rw [← map_one (algebraMap ℚ K)]; congr 1
        simp only [Int.ofNat_eq_natCast, Int.cast_natCast, Nat.cast_one, div_one, Int.cast_one, one_div]
        exact mul_inv_cancel₀ hq0
  | add as ih => intro i j; simp only [asFrac, den]; exact (ih (by simpa [NonDeg] using h) i j).1
  | mul as ih => intro i j; simp only [asFrac, den]; exact (ih (by simpa [NonDeg] using h) i j).2
  | pow b e ihb _ =>
    intro i j
    simp only [NonDeg] at h
    obtain ⟨hb1, hb2⟩ := ihb h.2.1 i j
    simp only [asFrac]
    cases hl : intLit e with
    | none => simp [IsFrac, den_one]
    | some n =>
      simp only
      cases n with
      | ofNat k =>
        have hlt : ¬ (Int.ofNat k < 0) := by simp
        rw [if_neg hlt]
        simp only [IsFrac, den_powN, Int.natAbs_natCast, Int.ofNat_eq_natCast]
        have hd : den S (pow b e) i j = den S b i j ^ k := by simp [den, powSem, hl]
        rw [hd, ← mul_pow, ← mul_pow, hb1, hb2, one_pow]
        exact ⟨rfl, rfl⟩
      | negSucc k =>
        have hinv : den S b i j * S.inv (den S b i j) = 1 := by
          have := h.1; rw [hl] at this; exact this i j
        have hlt : Int.negSucc k < 0 := Int.negSucc_lt_zero k
        rw [if_pos hlt]
        simp only [IsFrac, den_powN, den_mulS, den_invE, Int.natAbs_negSucc]
        have hd : den S (pow b e) i j = S.inv (den S b i j) ^ (k + 1) := by simp [den, powSem, hl]
        rw [hd, ← mul_pow, ← mul_pow]
        constructor
        · congr 1
          linear_combination (-(S.inv (den S b i j))) * hb1 + (den S (asFrac b).d i j) * hinv
        · have : den S (asFrac b).n i j * (S.inv (den S b i j) * den S (asFrac b).di i j) = 1 := by
            linear_combination (S.inv (den S b i j) * den S (asFrac b).di i j) * (-hb1)
              + (den S (asFrac b).d i j * den S (asFrac b).di i j) * hinv + hb2
          rw [this, one_pow]
  | nil => rename_i i j; simp [asFracSum, asFracProd, IsFrac, denSum, denProd, den_zero, den_one]
  | cons a as iha ihas =>
    rename_i hnd i j
    simp only [NonDegList] at hnd
    obtain ⟨ha1, ha2⟩ := iha hnd.1 i j
    obtain ⟨⟨hs1, hs2⟩, ⟨hp1, hp2⟩⟩ := ihas hnd.2 i j
    constructor
    · cases as with
      | nil => simpa [asFracSum, denSum, IsFrac] using And.intro ha1 ha2
      | cons a' as' =>
        simp only [asFracSum, IsFrac, den_mulS, den_add2] at hs1 hs2 ⊢
        simp only [denSum] at hs1 ⊢
        refine ⟨?_, ?_⟩
        · linear_combination (den S (asFracSum (a' :: as')).d i j) * ha1 + (den S (asFrac a).d i j) * hs1
        · linear_combination (den S (asFracSum (a' :: as')).d i j * den S (asFracSum (a' :: as')).di i j) * ha2 + hs2
    · simp only [asFracProd, IsFrac, denProd, den_mulS]
      refine ⟨?_, ?_⟩
      · linear_combination (denProd S as i j * den S (asFracProd as).d i j) * ha1 + (den S (asFrac a).n i j) * hp1
      · linear_combination (den S (asFracProd as).d i j * den S (asFracProd as).di i j) * ha2 + hp2
  | _ => intro i j; simp [asFrac, IsFrac, den_one]

end Frac
end Sympde
