import SympdeModel.Model.Exterior
namespace Sympde.Ext
open XE

theorem isZero_zero : isZero zero = true := by simp [zero, isZero]

theorem anyZero_iff (xs : List XE) : anyZero xs = xs.any isZero := by
  induction xs with
  | nil => simp [anyZero]
  | cons a as ih => simp [anyZero, ih]

theorem allZero_iff (xs : List XE) : allZero xs = xs.all isZero := by
  induction xs with
  | nil => simp [allZero]
  | cons a as ih => simp [allZero, ih]

theorem allLin_iff (b : XE → Bool) (xs : List XE) : allLin b xs = xs.all (isLin b) := by
  induction xs with
  | nil => simp [allLin]
  | cons a as ih => simp [allLin, ih]

theorem allCoefOrLin_iff (b : XE → Bool) (xs : List XE) :
    allCoefOrLin b xs = xs.all (fun a => isCoef a || isLin b a) := by
  induction xs with
  | nil => simp [allCoefOrLin]
  | cons a as ih => simp [allCoefOrLin, ih]

theorem uEvalList_eq (o : U) (xs : List XE) : uEvalList o xs = xs.map (uEval o) := by
  induction xs with
  | nil => simp [uEvalList]
  | cons a as ih => simp [uEvalList, ih]

theorem countVecs_eq (xs : List XE) : countVecs xs = (vecs xs).length := by
  induction xs with
  | nil => simp [countVecs, vecs]
  | cons a as ih =>
    simp only [countVecs, vecs, List.filter] at *
    cases h : isCoef a <;> simp [ih] <;> omega

/-- the pre-computed results of the non-coefficient factors -/
theorem rvs_eq (o : U) (xs : List XE) :
    ((xs.zip (uEvalList o xs)).filter (fun p => !isCoef p.1)).map (·.2)
      = (vecs xs).map (uEval o) := by
  induction xs with
  | nil => simp [uEvalList, vecs]
  | cons a as ih =>
    simp only [uEvalList, List.zip_cons_cons, List.filter, vecs] at *
    cases h : isCoef a <;> simp [ih]

/-! ### sMul / sAdd lemmas -/

theorem isZero_finishMul (ys : List XE) (h : ys.any isZero = true) : isZero (finishMul ys) = true := by
  match ys, h with
  | [y], h => simpa [finishMul] using h
  | y1 :: y2 :: ys, h => simp only [finishMul, isZero, anyZero_iff]; exact h

theorem isZero_sMul (xs : List XE) (h : ∃ x ∈ xs, isZero x = true) : isZero (sMul xs) = true := by
  unfold sMul
  simp only
  split
  · exact isZero_zero
  · rename_i hn
    exfalso
    apply hn
    obtain ⟨x, hx, hz⟩ := h
    -- the zero factor survives flattening and the removal of ones
    have key : ∀ (xs : List XE), (∃ x ∈ xs, isZero x = true) → ∃ y ∈ flatMulArgs xs, isZero y = true := by
      intro xs
      induction xs with
      | nil => simp
      | cons a as ih =>
        rintro ⟨x, hx, hz⟩
        rcases List.mem_cons.mp hx with rfl | hx'
        · cases hx0 : x with
          | mul ys =>
            subst hx0
            simp only [isZero, anyZero_iff, List.any_eq_true] at hz
            obtain ⟨y, hy, hyz⟩ := hz
            exact ⟨y, by simp [flatMulArgs, hy], hyz⟩
          | _ => subst hx0; exact ⟨_, by simp [flatMulArgs], hz⟩
        · obtain ⟨y, hy, hyz⟩ := ih ⟨x, hx', hz⟩
          refine ⟨y, ?_, hyz⟩
          cases a <;> simp [flatMulArgs, hy]
    obtain ⟨y, hy, hyz⟩ := key xs ⟨x, hx, hz⟩
    simp only [List.any_eq_true, List.mem_filter]
    refine ⟨y, ⟨hy, ?_⟩, hyz⟩
    cases y <;> simp_all [isOne, isZero]

/-! ### canonical linear combinations -/

theorem isLin_zero (b : XE → Bool) : isLin b zero = true := by simp [zero, isLin]

theorem isLin_base (b : XE → Bool) (e : XE) (h : b e = true) (hna : ∀ as, e ≠ add as)
    (hnm : ∀ as, e ≠ mul as) : isLin b e = true := by
  cases e <;> simp_all [isLin]

theorem isLin_finishAdd (b : XE → Bool) (ys : List XE) (h : ∀ y ∈ ys, isLin b y = true) :
    isLin b (finishAdd ys) = true := by
  match ys, h with
  | [], _ => simp [finishAdd, isLin_zero]
  | [y], h => simpa [finishAdd] using h
  | y1 :: y2 :: ys, h =>
    simp only [finishAdd, isLin, allLin_iff, List.all_eq_true]
    exact h

theorem mem_flatAddArgs_lin (b : XE → Bool) (xs : List XE) (h : ∀ x ∈ xs, isLin b x = true) :
    ∀ y ∈ flatAddArgs xs, isLin b y = true := by
  induction xs with
  | nil => simp [flatAddArgs]
  | cons a as ih =>
    have ha := h a (by simp)
    have ih' := ih (fun x hx => h x (by simp [hx]))
    intro y hy
    cases a with
    | add ys =>
      simp only [flatAddArgs, List.mem_append] at hy
      rcases hy with hy | hy
      · simp only [isLin, allLin_iff, List.all_eq_true] at ha
        exact ha y hy
      · exact ih' y hy
    | _ =>
      simp only [flatAddArgs, List.mem_cons] at hy
      rcases hy with rfl | hy
      · exact ha
      · exact ih' y hy

theorem isLin_sAdd (b : XE → Bool) (xs : List XE) (h : ∀ x ∈ xs, isLin b x = true) :
    isLin b (sAdd xs) = true := by
  unfold sAdd
  apply isLin_finishAdd
  intro y hy
  exact mem_flatAddArgs_lin b xs h y (List.mem_filter.mp hy).1

theorem flatMulArgs_coefs (cs xs : List XE) (h : ∀ c ∈ cs, isCoef c = true) :
    flatMulArgs (cs ++ xs) = cs ++ flatMulArgs xs := by
  induction cs with
  | nil => simp
  | cons c cs ih =>
    have hc := h c (by simp)
    have := ih (fun x hx => h x (by simp [hx]))
    cases c <;> simp_all [flatMulArgs, isCoef]

theorem isOne_isCoef (y : XE) (h : isOne y = true) : isCoef y = true := by
  cases y <;> simp_all [isOne, isCoef]

theorem vecs_filter_notOne (l : List XE) : vecs (l.filter (fun y => !isOne y)) = vecs l := by
  unfold vecs
  rw [List.filter_filter]
  apply List.filter_congr
  intro y _
  cases h : isOne y
  · simp
  · simp [isOne_isCoef y h]

theorem vecs_append_coefs (cs l : List XE) (h : ∀ c ∈ cs, isCoef c = true) :
    vecs (cs ++ l) = vecs l := by
  unfold vecs
  rw [List.filter_append]
  have : cs.filter (fun a => !isCoef a) = [] := by
    rw [List.filter_eq_nil_iff]; intro a ha; simp [h a ha]
  simp [this]

theorem isLin_finishMul (b : XE → Bool) (ys : List XE) (hc : countVecs ys = 1)
    (ha : ∀ y ∈ ys, (isCoef y || isLin b y) = true) : isLin b (finishMul ys) = true := by
  match ys, hc, ha with
  | [y], hc, ha =>
    simp only [finishMul]
    have := ha y (by simp)
    cases hy : isCoef y
    · simpa [hy] using this
    · simp [countVecs, hy] at hc
  | y1 :: y2 :: ys, hc, ha =>
    simp only [finishMul, isLin, allCoefOrLin_iff, Bool.and_eq_true, List.all_eq_true]
    refine ⟨⟨?_, by simpa using hc⟩, ha⟩
    -- at least one coefficient among ≥ 2 factors with exactly one non-coefficient
    rw [countVecs_eq] at hc
    have hlen : (coefs (y1 :: y2 :: ys)).length + (vecs (y1 :: y2 :: ys)).length = (y1 :: y2 :: ys).length := by
      unfold coefs vecs
      have := List.length_eq_countP_add_countP isCoef (l := y1 :: y2 :: ys)
      simp only [List.countP_eq_length_filter] at this
      have e : (List.filter (fun a => decide ¬isCoef a = true) (y1 :: y2 :: ys))
          = (List.filter (fun a => !isCoef a) (y1 :: y2 :: ys)) := by
        apply List.filter_congr; intro a _; cases isCoef a <;> simp
      rw [e] at this
      omega
    simp only [List.length_cons] at hlen
    cases hcs : coefs (y1 :: y2 :: ys) with
    | nil => rw [hcs] at hlen; simp at hlen; omega
    | cons _ _ => simp

theorem isLin_mul_parts (b : XE → Bool) (rs : List XE) (h : isLin b (mul rs) = true) :
    (coefs rs).isEmpty = false ∧ countVecs rs = 1 ∧ ∀ y ∈ rs, (isCoef y || isLin b y) = true := by
  simp only [isLin, allCoefOrLin_iff, Bool.and_eq_true, List.all_eq_true] at h
  obtain ⟨⟨h1, h2⟩, h3⟩ := h
  exact ⟨by simpa using h1, by simpa using h2, h3⟩

/-- a linear term that is not (syntactically) zero and not a product is not a coefficient,
    provided the base predicate never holds of a coefficient -/
theorem isLin_sMul (b : XE → Bool) (hb : ∀ e, b e = true → isCoef e = false)
    (cs : List XE) (r : XE) (hcs : ∀ c ∈ cs, isCoef c = true)
    (hr : isLin b r = true) : isLin b (sMul (cs ++ [r])) = true := by
  unfold sMul
  simp only
  split
  · exact isLin_zero b
  · rename_i hnz
    apply isLin_finishMul
    · -- exactly one non-coefficient factor
      rw [countVecs_eq, vecs_filter_notOne, flatMulArgs_coefs cs [r] hcs, vecs_append_coefs _ _ hcs]
      cases hrr : r with
      | mul rs =>
        subst hrr
        have := (isLin_mul_parts b rs hr).2.1
        simpa [flatMulArgs, countVecs_eq] using this
      | num p q =>
        subst hrr
        simp only [isLin, Bool.or_eq_true, beq_iff_eq] at hr
        rcases hr with hr | hr
        · exfalso; apply hnz
          subst hr
          simp [flatMulArgs_coefs cs _ hcs, flatMulArgs, isOne, isZero]
        · have := hb _ hr; simp [isCoef] at this
      | cst _ => subst hrr; simp only [isLin] at hr; have := hb _ hr; simp [isCoef] at this
      | other t as =>
        -- an opaque node in the base predicate is not a coefficient (in particular not a power
        -- of constants), so it is the single non-coefficient factor
        subst hrr; simp only [isLin] at hr; have := hb _ hr
        simp [flatMulArgs, vecs, this]
      | add _ => simp [flatMulArgs, vecs, isCoef]
      | _ => simp [flatMulArgs, vecs, isCoef]
    · intro y hy
      have hy' := (List.mem_filter.mp hy).1
      rw [flatMulArgs_coefs cs [r] hcs, List.mem_append] at hy'
      rcases hy' with hy' | hy'
      · simp [hcs y hy']
      · cases hrr : r with
        | mul rs =>
          subst hrr
          simp only [flatMulArgs, List.append_nil] at hy'
          exact (isLin_mul_parts b rs hr).2.2 y hy'
        | _ =>
          subst hrr
          simp only [flatMulArgs, List.mem_singleton] at hy'
          subst hy'
          simp [hr]

theorem isNode_not_coef (o : U) (e : XE) (h : isNode o e = true) : isCoef e = false := by
  cases o <;> cases e <;> simp_all [isNode, isCoef]

theorem isNode_node (o : U) (a : XE) : isNode o (o.node a) = true := by
  cases o <;> simp [U.node, isNode]

theorem isImg_node (o : U) (a : XE) : isImg o (o.node a) = true := by
  cases o <;> simp [U.node, isImg, isLin, isNode]

/-! ### coefficients (numbers, Constants, powers of those) -/

theorem isReg_isCoef (a : XE) (h : isReg a = true) : isCoef a = true := by
  cases a <;> simp_all [isReg, isCoef]

theorem isCoef_cases (a : XE) (h : isCoef a = true) :
    (∃ p q, a = num p q) ∨ (∃ s, a = cst s) ∨
      (∃ b e, a = other "Pow" [b, e] ∧ isReg b = true ∧ isReg e = true) := by
  cases a with
  | num p q => exact .inl ⟨p, q, rfl⟩
  | cst s => exact .inr (.inl ⟨s, rfl⟩)
  | other t as =>
    simp only [isCoef, Bool.and_eq_true, beq_iff_eq] at h
    obtain ⟨rfl, h2⟩ := h
    match as, h2 with
    | [b, e], h2 =>
      simp only [isRegPair, Bool.and_eq_true] at h2
      exact .inr (.inr ⟨b, e, rfl, h2.1, h2.2⟩)
  | _ => simp [isCoef] at h

/-- a coefficient has no inferred degree (`infere_type` returns `None` on it, it never raises) -/
theorem infer_coef (a : XE) (h : isCoef a = true) : infer a = .ok none := by
  cases a <;> simp_all [isCoef, infer]

/-- factors after the single non-coefficient one: all coefficients, inference succeeds on them -/
theorem inferList_coefs (as : List XE) (h : vecs as = []) :
    ∃ ts, inferList as = .ok ts ∧
      ((as.zip ts).filter (fun p => !isCoef p.1)).map (·.2) = [] := by
  induction as with
  | nil => exact ⟨[], by simp [inferList]⟩
  | cons a as ih =>
    have ha : isCoef a = true := by
      cases hc : isCoef a
      · simp [vecs, List.filter, hc] at h
      · rfl
    have hrest : vecs as = [] := by simpa [vecs, List.filter, ha] using h
    obtain ⟨ts, hts, hf⟩ := ih hrest
    refine ⟨none :: ts, ?_, ?_⟩
    · simp [inferList, infer_coef a ha, hts, bind, Except.bind]
    · simpa [List.filter, ha] using hf

/-- degree inference on the factors of a product with exactly one non-coefficient factor `v`:
    it fails exactly as it fails on `v`, and otherwise records the degree of `v` at `v`'s place -/
theorem inferList_one_vec (as : List XE) (v : XE) (h : vecs as = [v]) :
    (∀ e, infer v = .error e → inferList as = .error e) ∧
    (∀ t, infer v = .ok t → ∃ ts, inferList as = .ok ts ∧
      ((as.zip ts).filter (fun p => !isCoef p.1)).map (·.2) = [t]) := by
  induction as with
  | nil => simp [vecs] at h
  | cons a as ih =>
    cases hc : isCoef a
    · -- `a` is the non-coefficient factor
      have hav : a = v ∧ vecs as = [] := by simpa [vecs, List.filter, hc] using h
      obtain ⟨rfl, hrest⟩ := hav
      obtain ⟨ts, hts, hf⟩ := inferList_coefs as hrest
      constructor
      · intro e he; simp [inferList, he, bind, Except.bind]
      · intro t ht
        refine ⟨t :: ts, by simp [inferList, ht, hts, bind, Except.bind], ?_⟩
        simpa [List.filter, hc] using hf
    · have hrest : vecs as = [v] := by simpa [vecs, List.filter, hc] using h
      obtain ⟨ih1, ih2⟩ := ih hrest
      constructor
      · intro e he; simp [inferList, infer_coef a hc, ih1 e he, bind, Except.bind]
      · intro t ht
        obtain ⟨ts, hts, hf⟩ := ih2 t ht
        refine ⟨none :: ts, by simp [inferList, infer_coef a hc, hts, bind, Except.bind], ?_⟩
        simpa [List.filter, hc] using hf

theorem flatMulArgs_coef_cons (c : XE) (xs : List XE) (hc : isCoef c = true) :
    flatMulArgs (c :: xs) = c :: flatMulArgs xs := by
  simpa using flatMulArgs_coefs [c] xs (by simpa using hc)

/-- sympy's `Mul` of a coefficient that is neither 0 nor 1 and one irreducible other factor -/
theorem sMul_coef_pair (c x : XE) (hc : isCoef c = true) (h0 : isZero c = false)
    (h1 : isOne c = false) (hxm : ∀ ys, x ≠ mul ys) (hx0 : isZero x = false)
    (hx1 : isOne x = false) : sMul [c, x] = mul [c, x] := by
  have fx : flatMulArgs [x] = [x] := by
    cases x with
    | mul ys => exact absurd rfl (hxm ys)
    | _ => simp [flatMulArgs]
  unfold sMul
  simp [flatMulArgs_coef_cons c [x] hc, fx, List.filter, h0, h1, hx0, hx1, finishMul]

end Sympde.Ext
