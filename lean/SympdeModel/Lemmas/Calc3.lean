/-
  Helpers for the soundness of the interface-operator constructors (Props/C02c.lean): the
  recursive equations of the two-sided meaning `denI` (Sem/DenI.lean), the interface operators
  as operations on pairs of values, and the product rules of Jump / Average / Minus / Plus / Dn.
-/
import SympdeModel.Sem.DenI
import SympdeModel.Lemmas.Calc2
namespace Sympde
open E Calc
open DRing (sumN sumN_add sumN_mul_left sumN_congr sumN_zero)

variable {K : Type} [CommRing K] [Algebra ℚ K]

/-! ### the recursive equations of `denI` -/

theorem elimList_eq (d : Nat) (lg : Bool) (s : Side) (as : List E) :
    elimList d lg s as = as.map (elim d lg s) := by
  induction as with
  | nil => simp [elimList]
  | cons a as ih => simp [elimList, ih]

theorem denGSum_elim (S : DRing K) (d : Nat) (lg : Bool) (s : Side) (as : List E) (i j : Nat) :
    denGSum S d lg (elimList d lg s as) i j = (as.map (fun a => denI S d lg s a i j)).sum := by
  induction as with
  | nil => simp [elimList, denGSum]
  | cons a as ih => simp only [elimList, denGSum, List.map, List.sum_cons, ih, denI]

theorem denGProd_elim (S : DRing K) (d : Nat) (lg : Bool) (s : Side) (as : List E) (i j : Nat) :
    denGProd S d lg (elimList d lg s as) i j = (as.map (fun a => denI S d lg s a i j)).prod := by
  induction as with
  | nil => simp [elimList, denGProd]
  | cons a as ih => simp only [elimList, denGProd, List.map, List.prod_cons, ih, denI]

theorem denI_add (S : DRing K) (d : Nat) (lg : Bool) (s : Side) (as : List E) (i j : Nat) :
    denI S d lg s (add as) i j = (as.map (fun a => denI S d lg s a i j)).sum := by
  simp only [denI, elim, denG, denGSum_elim]

theorem denI_mul (S : DRing K) (d : Nat) (lg : Bool) (s : Side) (as : List E) (i j : Nat) :
    denI S d lg s (mul as) i j = (as.map (fun a => denI S d lg s a i j)).prod := by
  simp only [denI, elim, denG, denGProd_elim]

/-- a scalar function has an independent value on each side -/
theorem denI_sf (S : DRing K) (d : Nat) (lg : Bool) (s : Side) (n : String) (k : Kind) (i j : Nat) :
    denI S d lg s (sf n k) i j = S.sf (s.tag ++ n) := by
  simp only [denI, elim, denG]

theorem denI_minus (S : DRing K) (d : Nat) (lg : Bool) (s : Side) (a : E) (i j : Nat) :
    denI S d lg s (op1 .minus a) i j = denI S d lg .m a i j := by
  simp only [denI, elim]

theorem denI_plus (S : DRing K) (d : Nat) (lg : Bool) (s : Side) (a : E) (i j : Nat) :
    denI S d lg s (op1 .plus a) i j = denI S d lg .p a i j := by
  simp only [denI, elim]

theorem denI_jump (S : DRing K) (d : Nat) (lg : Bool) (s : Side) (a : E) (i j : Nat) :
    denI S d lg s (op1 .jump a) i j = denI S d lg .m a i j - denI S d lg .p a i j := by
  simp only [denI, elim, denG, denGSum, denGProd]
  simp
  ring

/-- the rational 1/2 of the value ring -/
def halfK (K : Type) [CommRing K] [Algebra ℚ K] : K := algebraMap ℚ K (1 / 2)

theorem halfK_two : (halfK K) * 2 = 1 := by
  unfold halfK
  have : (2 : K) = algebraMap ℚ K 2 := (map_ofNat (algebraMap ℚ K) 2).symm
  rw [this, ← map_mul]
  norm_num

theorem denI_avg (S : DRing K) (d : Nat) (lg : Bool) (s : Side) (a : E) (i j : Nat) :
    denI S d lg s (op1 .avg a) i j = halfK K * (denI S d lg .m a i j + denI S d lg .p a i j) := by
  simp only [denI, elim, denG, denGSum, denGProd, halfK]
  simp

/-- k-th component of the normal of side `s` -/
def nVal (S : DRing K) (s : Side) (k : Nat) : K :=
  S.sf (s.ntag ++ toString k)

theorem denG_nComp (S : DRing K) (d : Nat) (lg : Bool) (s : Side) (k i j : Nat) :
    denG S d lg (nComp s k) i j = nVal S s k := by
  simp only [nComp, denG, nVal]

theorem denGSum_range (S : DRing K) (d : Nat) (lg : Bool) (f : Nat → E) (n i j : Nat) :
    denGSum S d lg ((List.range n).map f) i j = sumN n (fun k => denG S d lg (f k) i j) := by
  induction n with
  | zero => simp [denGSum, sumN]
  | succ n ih =>
    rw [List.range_succ, List.map_append, denGSum_append, ih]
    simp only [List.map, denGSum, sumN, add_zero]

/-- the normal derivative: Σ_k n_k ∂_k of every component, on each side with its own normal -/
theorem denI_dn (S : DRing K) (d : Nat) (lg : Bool) (s : Side) (a : E) (i j : Nat) :
    denI S d lg s (op1 .dn a) i j
      = sumN d (fun k => nVal S s k * Di S lg k (denI S d lg s a i j)) := by
  simp only [denI, elim, dnTree, denG]
  rw [denGSum_range]
  apply sumN_congr
  intro k _
  simp only [denG, denGProd, mul_one, nComp, nVal, Di]

theorem denGNth_range (S : DRing K) (d : Nat) (lg : Bool) (f : Nat → E) (n i : Nat) :
    denGNth S d lg ((List.range n).map f) i = if i < n then denG S d lg (f i) 0 0 else 0 := by
  have key : ∀ (l : List Nat) (i : Nat), denGNth S d lg (l.map f) i
      = if h : i < l.length then denG S d lg (f (l[i])) 0 0 else 0 := by
    intro l
    induction l with
    | nil => intro i; simp [denGNth]
    | cons x xs ih =>
      intro i
      cases i with
      | zero => simp [denGNth]
      | succ i => simp [denGNth, ih]
  rw [key]
  simp

/-- the normal vector of side `s` -/
theorem denG_nVec (S : DRing K) (d : Nat) (lg : Bool) (s : Side) (i j : Nat) :
    denG S d lg (nVec d s) i j = if i < d then nVal S s i else 0 := by
  simp only [nVec, denG]
  rw [denGNth_range]
  simp only [denG_nComp]

theorem denI_normal (S : DRing K) (d : Nat) (lg : Bool) (s : Side) (i j : Nat) :
    denI S d lg s (normal "NormalVector:n") i j = (if i < d then nVal S s i else 0)
    ∧ denI S d lg s (normal "MinusNormalVector:n") i j = (if i < d then nVal S .m i else 0)
    ∧ denI S d lg s (normal "PlusNormalVector:n") i j = (if i < d then nVal S .p i else 0) := by
  refine ⟨?_, ?_, ?_⟩ <;> simp [denI, elim, denG_nVec]

/-! ### the interface operators on pairs of values -/

/-- what the interface operator `k` does to the pair `v` of values (of one component) on the
    two sides, seen from side `s` -/
def opI (S : DRing K) (d : Nat) (lg : Bool) (k : IK) (v : Side → K) (s : Side) : K :=
  match k with
  | .minus => v .m
  | .plus => v .p
  | .jump => v .m - v .p
  | .avg => halfK K * (v .m + v .p)
  | .dn => sumN d (fun c => nVal S s c * Di S lg c (v s))

theorem denI_op (S : DRing K) (d : Nat) (lg : Bool) (k : IK) (a : E) (s : Side) (i j : Nat) :
    denI S d lg s (op1 k.op a) i j = opI S d lg k (fun s' => denI S d lg s' a i j) s := by
  cases k <;> simp only [IK.op, opI]
  · exact denI_jump S d lg s a i j
  · exact denI_avg S d lg s a i j
  · exact denI_minus S d lg s a i j
  · exact denI_plus S d lg s a i j
  · exact denI_dn S d lg s a i j

/-- the derivation `Σ_c n_c ∂_c` of side `s` -/
def dnK (S : DRing K) (d : Nat) (lg : Bool) (s : Side) (x : K) : K :=
  sumN d (fun c => nVal S s c * Di S lg c x)

theorem dnK_deriv (S : DRing K) (d : Nat) (lg : Bool) (s : Side) : Deriv (dnK S d lg s) where
  add := by
    intro x y; simp only [dnK, Di_add]; rw [← sumN_add]; apply sumN_congr; intro c _; ring
  mul := by
    intro x y; simp only [dnK, Di_mul]
    rw [← sumN_mul_left, ← sumN_mul_right, ← sumN_add]
    apply sumN_congr; intro c _; ring
  zero := by simp only [dnK, Di_zero, mul_zero, sumN_zero]
  one := by simp only [dnK, Di, S.D_one, mul_zero, sumN_zero]

theorem opI_add (S : DRing K) (d : Nat) (lg : Bool) (k : IK) (v w : Side → K) (s : Side) :
    opI S d lg k (fun s' => v s' + w s') s = opI S d lg k v s + opI S d lg k w s := by
  cases k <;> simp only [opI]
  · ring
  · ring
  · exact (dnK_deriv S d lg s).add _ _

theorem opI_zero (S : DRing K) (d : Nat) (lg : Bool) (k : IK) (s : Side) :
    opI S d lg k (fun _ => 0) s = 0 := by
  cases k <;> simp only [opI]
  · ring
  · ring
  · exact (dnK_deriv S d lg s).zero

theorem opI_sum (S : DRing K) (d : Nat) (lg : Bool) (k : IK) (s : Side) {α : Type} (l : List α)
    (v : α → Side → K) :
    opI S d lg k (fun s' => (l.map (fun a => v a s')).sum) s
      = (l.map (fun a => opI S d lg k (v a) s)).sum := by
  induction l with
  | nil => simp only [List.map, List.sum_nil]; exact opI_zero S d lg k s
  | cons a l ih =>
    simp only [List.map, List.sum_cons]
    rw [opI_add S d lg k (v a) (fun s' => (l.map (fun a => v a s')).sum), ih]

/-- a constant that is the same on both sides comes out -/
theorem opI_smul (S : DRing K) (d : Nat) (lg : Bool) (k : IK) (c : K) (hc : ∀ m, Di S lg m c = 0)
    (v : Side → K) (s : Side) :
    opI S d lg k (fun s' => c * v s') s = c * opI S d lg k v s := by
  cases k <;> simp only [opI]
  · ring
  · ring
  · rw [← sumN_mul_left]; apply sumN_congr; intro m _
    rw [Di_smul S lg m c _ (hc m)]; ring

/-- jump and average of a product:  [vw] = {v}[w] + [v]{w},  {vw} = {v}{w} + [v][w]/4 -/
theorem jump_mul (v w : Side → K) :
    (v .m * w .m - v .p * w .p)
      = halfK K * (v .m + v .p) * (w .m - w .p) + (v .m - v .p) * (halfK K * (w .m + w .p)) := by
  have h := halfK_two (K := K)
  linear_combination (- (v .m * w .m - v .p * w .p)) * h

theorem avg_mul (v w : Side → K) :
    halfK K * (v .m * w .m + v .p * w .p)
      = halfK K * (v .m + v .p) * (halfK K * (w .m + w .p))
        + halfK K * halfK K * ((v .m - v .p) * (w .m - w .p)) := by
  have h := halfK_two (K := K)
  linear_combination (- halfK K * (v .m * w .m + v .p * w .p)) * h

/-! ### lists of factors and their evaluated operators -/

theorem ifaceEvalListE_eq (d : Nat) (k : IK) (as : List E) :
    ifaceEvalListE d k as = as.map (ifaceEval d k) := by
  induction as with
  | nil => simp [ifaceEvalListE]
  | cons a as ih => simp [ifaceEvalListE, ih]

/-- the non-coefficient factors paired with the (optional) value of the operator on them -/
theorem pick_eq (ev : E → Except Err E) (as : List E) :
    ((as.zip (as.map ev)).filter (fun p => !isCoef p.1)).map (fun p => (p.1, okOrNone p.2))
      = (as.filter (fun x => !isCoef x)).map (fun f => (f, okOrNone (ev f))) := by
  induction as with
  | nil => simp
  | cons a as ih =>
    simp only [List.map, List.zip_cons_cons, List.filter]
    cases hp : (!isCoef a) <;> simp [ih]

theorem allSome_spec (ev : E → Except Err E) (vs : List E) (rs : List (E × E))
    (h : allSome (vs.map (fun f => (f, okOrNone (ev f)))) = some rs) :
    rs.map (·.1) = vs ∧ ∀ p ∈ rs, ev p.1 = .ok p.2 := by
  induction vs generalizing rs with
  | nil =>
    simp only [List.map, allSome] at h
    injection h with h; subst h
    simp
  | cons f vs ih =>
    simp only [List.map] at h
    cases hf : ev f with
    | error e =>
      rw [hf] at h
      change allSome ((f, none) :: _) = _ at h
      simp [allSome] at h
    | ok r =>
      rw [hf] at h
      change allSome ((f, some r) :: _) = _ at h
      simp only [allSome] at h
      cases hrest : allSome (vs.map (fun f => (f, okOrNone (ev f)))) with
      | none => rw [hrest] at h; simp at h
      | some rs' =>
        rw [hrest] at h
        simp only [Option.map] at h
        injection h with h; subst h
        obtain ⟨h1, h2⟩ := ih rs' hrest
        refine ⟨by simp [h1], ?_⟩
        intro p hp
        rcases List.mem_cons.mp hp with rfl | hp
        · exact hf
        · exact h2 p hp

omit [Algebra ℚ K] in
theorem prod_map_filter {α : Type} (p : α → Bool) (X : α → K) (as : List α) :
    (as.map X).prod = ((as.filter p).map X).prod * ((as.filter (fun a => !p a)).map X).prod := by
  induction as with
  | nil => simp
  | cons a as ih =>
    simp only [List.map, List.prod_cons, List.filter]
    cases hp : p a <;> simp [ih] <;> ring

theorem elim_mulOf (d : Nat) (lg : Bool) (s : Side) (l : List E) :
    elim d lg s (Calc.mulOf l) = Calc.mulOf (elimList d lg s l) := by
  match l with
  | [] => simp [Calc.mulOf, PD.mulOf, elimList, elim, E.one]
  | [a] => simp [Calc.mulOf, PD.mulOf, elimList]
  | a :: b :: rest => simp [Calc.mulOf, PD.mulOf, elimList, elim]

theorem denI_mulOf (S : DRing K) (d : Nat) (lg : Bool) (s : Side) (l : List E) (i j : Nat) :
    denI S d lg s (Calc.mulOf l) i j = (l.map (fun a => denI S d lg s a i j)).prod := by
  simp only [denI, elim_mulOf, denG_mulOf, denGProd_elim]

theorem denI_zero (S : DRing K) (d : Nat) (lg : Bool) (s : Side) (i j : Nat) :
    denI S d lg s E.zero i j = 0 := by simp [denI, elim, E.zero, denG]

theorem denI_one (S : DRing K) (d : Nat) (lg : Bool) (s : Side) (i j : Nat) :
    denI S d lg s E.one i j = 1 := by simp [denI, elim, E.one, denG]

theorem denI_mul2 (S : DRing K) (d : Nat) (lg : Bool) (s : Side) (x y : E) (i j : Nat) :
    denI S d lg s (mul [x, y]) i j = denI S d lg s x i j * denI S d lg s y i j := by
  simp [denI_mul]

theorem denI_add2 (S : DRing K) (d : Nat) (lg : Bool) (s : Side) (x y : E) (i j : Nat) :
    denI S d lg s (add [x, y]) i j = denI S d lg s x i j + denI S d lg s y i j := by
  simp [denI_add]

/-- coefficients (numbers, Constants) have the same, constant value on both sides -/
theorem denI_coef (S : DRing K) (d : Nat) (lg : Bool) (x : E) (h : PD.isCoef x = true) (s : Side)
    (i j : Nat) :
    denI S d lg s x i j = denI S d lg .m x 0 0 ∧ ∀ m, Di S lg m (denI S d lg .m x 0 0) = 0 := by
  cases x <;> simp_all [PD.isCoef, denI, elim, denG, Di, S.D_rat, S.D_cst]

/-! ### product rules -/

/-- restriction to one side: the product of the restricted factors -/
theorem sideProd_sound (S : DRing K) (d : Nat) (lg : Bool) (s : Side) (i j : Nat)
    (rs : List (E × E)) (W : E → K) (hr : ∀ p ∈ rs, denI S d lg s p.2 i j = W p.1) :
    denI S d lg s (sideProd rs) i j = (rs.map (fun p => W p.1)).prod := by
  induction rs with
  | nil => simp [sideProd, denI_one]
  | cons p rest ih =>
    obtain ⟨f, r⟩ := p
    cases rest with
    | nil => simp only [sideProd, List.map, List.prod_cons, List.prod_nil, mul_one]; exact hr (f, r) (by simp)
    | cons q rest' =>
      simp only [sideProd]
      rw [denI_mul2, hr (f, r) (by simp), ih (fun p hp => hr p (by simp [hp]))]
      simp only [List.map, List.prod_cons]

/-- normal derivative: the Leibniz rule -/
theorem dnProd_sound (S : DRing K) (d : Nat) (lg : Bool) (s : Side) (i j : Nat) {δ : K → K}
    (hδ : Deriv δ) (rs : List (E × E))
    (hr : ∀ p ∈ rs, denI S d lg s p.2 i j = δ (denI S d lg s p.1 i j)) :
    denI S d lg s (dnProd rs) i j = δ ((rs.map (fun p => denI S d lg s p.1 i j)).prod) := by
  induction rs with
  | nil => simp [dnProd, denI_zero, hδ.one]
  | cons p rest ih =>
    obtain ⟨f, r⟩ := p
    cases rest with
    | nil =>
      simp only [dnProd, List.map, List.prod_cons, List.prod_nil, mul_one]; exact hr (f, r) (by simp)
    | cons q rest' =>
      simp only [dnProd]
      rw [denI_add2, denI_mul2, denI_mul2, hr (f, r) (by simp), ih (fun p hp => hr p (by simp [hp])),
        denI_mulOf]
      simp only [List.map, List.prod_cons, List.map_map]
      rw [hδ.mul (denI S d lg s f i j)]
      rfl

theorem denI_quarter (S : DRing K) (d : Nat) (lg : Bool) (s : Side) (i j : Nat) :
    denI S d lg s quarter i j = halfK K * halfK K := by
  simp only [denI, quarter, elim, denG, halfK]
  rw [← map_mul]
  norm_num

/-- jump and average of a product, from the jumps and averages of the factors -/
theorem jaProd_sound (S : DRing K) (d : Nat) (lg : Bool) (s : Side) (i j : Nat)
    (ts : List (E × E × E)) (v : E → Side → K)
    (ht : ∀ t ∈ ts, denI S d lg s t.2.1 i j = v t.1 .m - v t.1 .p
      ∧ denI S d lg s t.2.2 i j = halfK K * (v t.1 .m + v t.1 .p)) :
    denI S d lg s (jaProd ts).1 i j
        = (ts.map (fun t => v t.1 .m)).prod - (ts.map (fun t => v t.1 .p)).prod
    ∧ denI S d lg s (jaProd ts).2 i j
        = halfK K * ((ts.map (fun t => v t.1 .m)).prod + (ts.map (fun t => v t.1 .p)).prod) := by
  induction ts with
  | nil =>
    simp only [jaProd, List.map, List.prod_nil, denI_zero, denI_one]
    have h := halfK_two (K := K)
    constructor
    · ring
    · linear_combination -h
  | cons t rest ih =>
    obtain ⟨f, jf, af⟩ := t
    have hf := ht (f, jf, af) (by simp)
    simp only at hf
    cases rest with
    | nil =>
      simp only [jaProd, List.map, List.prod_cons, List.prod_nil, mul_one]
      exact hf
    | cons q rest' =>
      have ih' := ih (fun t ht' => ht t (by simp [ht']))
      simp only [jaProd]
      cases hja : jaProd (q :: rest') with
      | mk jr ar =>
        rw [hja] at ih'
        simp only at ih' ⊢
        simp only [List.map, List.prod_cons] at ih' ⊢
        constructor
        · rw [denI_add2, denI_mul2, denI_mul2, hf.1, hf.2, ih'.1, ih'.2]
          have := jump_mul (K := K) (v f)
            (fun s' => match s' with
              | .m => v q.1 .m * (rest'.map (fun t => v t.1 .m)).prod
              | .p => v q.1 .p * (rest'.map (fun t => v t.1 .p)).prod)
          simp only at this
          rw [this]
        · rw [denI_add2, denI_mul2, denI_mul]
          simp only [List.map, List.prod_cons, List.prod_nil, mul_one]
          rw [hf.2, ih'.2, denI_quarter, hf.1, ih'.1]
          have := avg_mul (K := K) (v f)
            (fun s' => match s' with
              | .m => v q.1 .m * (rest'.map (fun t => v t.1 .m)).prod
              | .p => v q.1 .p * (rest'.map (fun t => v t.1 .p)).prod)
          simp only at this
          rw [this]

/-! ### the branches of `ifaceEval` -/

theorem zip_triples (js av : List (E × E)) (h : js.map (·.1) = av.map (·.1)) :
    ((js.zip av).map (fun p => (p.1.1, p.1.2, p.2.2))).map (·.1) = js.map (·.1)
    ∧ ∀ t ∈ (js.zip av).map (fun p => (p.1.1, p.1.2, p.2.2)),
        (t.1, t.2.1) ∈ js ∧ (t.1, t.2.2) ∈ av := by
  induction js generalizing av with
  | nil => simp
  | cons x js ih =>
    cases av with
    | nil => simp at h
    | cons y av =>
      simp only [List.map, List.cons.injEq] at h
      obtain ⟨h1, h2⟩ := ih av h.2
      constructor
      · simp only [List.zip_cons_cons, List.map, List.cons.injEq, true_and]
        exact h1
      · intro t ht
        simp only [List.zip_cons_cons, List.map, List.mem_cons] at ht
        rcases ht with rfl | ht
        · simp only
          refine ⟨by simp, ?_⟩
          rw [h.1]; simp
        · have := h2 t ht
          exact ⟨by simp [this.1], by simp [this.2]⟩

theorem ifaceEvalList_sum (S : DRing K) (d : Nat) (lg : Bool) (k : IK) (s : Side) (i j : Nat)
    (X : E → K) (as : List E)
    (ih : ∀ a ∈ as, ∀ r, ifaceEval d k a = .ok r → denI S d lg s r i j = X a)
    (rs : List E) (h : ifaceEvalList d k as = .ok rs) :
    (rs.map (fun r => denI S d lg s r i j)).sum = (as.map X).sum := by
  induction as generalizing rs with
  | nil =>
    simp only [ifaceEvalList] at h
    injection h with h; subst h; simp
  | cons a as iha =>
    simp only [ifaceEvalList, bind, Except.bind] at h
    cases hr : ifaceEval d k a with
    | error x => rw [hr] at h; cases h
    | ok r =>
      rw [hr] at h; simp only at h
      cases hrs : ifaceEvalList d k as with
      | error x => rw [hrs] at h; cases h
      | ok rs' =>
        rw [hrs] at h
        injection h with h; subst h
        simp only [List.map, List.sum_cons]
        rw [ih a (by simp) r hr, iha (fun b hb => ih b (by simp [hb])) rs' hrs]

theorem ifaceEvalList_nth (S : DRing K) (d : Nat) (lg : Bool) (k : IK) (s s' : Side)
    (as : List E)
    (ih : ∀ a ∈ as, ∀ r, ifaceEval d k a = .ok r → denI S d lg s r 0 0 = denI S d lg s' a 0 0)
    (rs : List E) (h : ifaceEvalList d k as = .ok rs) (n : Nat) :
    denGNth S d lg (elimList d lg s rs) n = denGNth S d lg (elimList d lg s' as) n := by
  induction as generalizing rs n with
  | nil =>
    simp only [ifaceEvalList] at h
    injection h with h; subst h; simp [elimList]
  | cons a as iha =>
    simp only [ifaceEvalList, bind, Except.bind] at h
    cases hr : ifaceEval d k a with
    | error x => rw [hr] at h; cases h
    | ok r =>
      rw [hr] at h; simp only at h
      cases hrs : ifaceEvalList d k as with
      | error x => rw [hrs] at h; cases h
      | ok rs' =>
        rw [hrs] at h
        injection h with h; subst h
        cases n with
        | zero =>
          simp only [elimList, denGNth]
          exact ih a (by simp) r hr
        | succ n =>
          simp only [elimList, denGNth]
          exact iha (fun b hb => ih b (by simp [hb])) rs' hrs n

/-- the final branch -/
def ifLeaf (k : IK) (e : E) : Except Err E :=
  match k with
  | .minus | .plus =>
      if isNormal e then .ok (sideNormal k)
      else if isZeroNum e then .ok zero
      else .ok (op1 k.op e)
  | _ => .ok (op1 k.op e)

theorem ifLeaf_sound (S : DRing K) (d : Nat) (lg : Bool) (k : IK) (e r : E)
    (h : ifLeaf k e = .ok r) (s : Side) (i j : Nat) :
    denI S d lg s r i j = opI S d lg k (fun s' => denI S d lg s' e i j) s := by
  have node : denI S d lg s (op1 k.op e) i j = opI S d lg k (fun s' => denI S d lg s' e i j) s :=
    denI_op S d lg k e s i j
  have side : ∀ (k : IK) (sd : Side) (nm : String), (k = .minus ∧ sd = .m ∧ nm = "MinusNormalVector:n")
      ∨ (k = .plus ∧ sd = .p ∧ nm = "PlusNormalVector:n") →
      (if isNormal e then (Except.ok (normal nm) : Except Err E)
        else if isZeroNum e then .ok zero else .ok (op1 k.op e)) = .ok r →
      denI S d lg s (op1 k.op e) i j = denI S d lg sd e i j →
      denI S d lg s r i j = denI S d lg sd e i j := by
    intro k sd nm hk h hn
    split at h
    · rename_i hN
      injection h with h; subst h
      cases e with
      | normal t =>
        simp only [isNormal, beq_iff_eq] at hN
        subst hN
        have h1 := denI_normal S d lg s i j
        have h2 := denI_normal S d lg sd i j
        rcases hk with ⟨_, rfl, rfl⟩ | ⟨_, rfl, rfl⟩
        · rw [h1.2.1, h2.1]
        · rw [h1.2.2, h2.1]
      | _ => simp [isNormal] at hN
    · split at h
      · rename_i hZ
        injection h with h; subst h
        cases e with
        | num p q =>
          simp only [isZeroNum, beq_iff_eq] at hZ
          subst hZ
          simp [denI, elim, denG, E.zero]
        | _ => simp [isZeroNum] at hZ
      · injection h with h; subst h
        exact hn
  cases k with
  | minus =>
    simp only [ifLeaf, sideNormal] at h
    simp only [opI]
    exact side .minus .m _ (Or.inl ⟨rfl, rfl, rfl⟩) h (denI_minus S d lg s e i j)
  | plus =>
    simp only [ifLeaf, sideNormal] at h
    simp only [opI]
    exact side .plus .p _ (Or.inr ⟨rfl, rfl, rfl⟩) h (denI_plus S d lg s e i j)
  | _ =>
    simp only [ifLeaf] at h
    injection h with h; subst h
    exact node

/-! ### the `Mul` branch -/

/-- the body of the `Mul` branch (everything but the coefficients), as a function of the
    evaluator of the factors -/
def ifBody (k : IK) (vs : List E) (ev : IK → E → Except Err E) : E :=
  let fallback : E := op1 k.op (Calc.mulOf vs)
  let pick (kk : IK) : List (E × Option E) := vs.map (fun f => (f, okOrNone (ev kk f)))
  if vs.isEmpty then (if k == .jump || k == .dn then zero else one)
  else match k with
    | .jump | .avg =>
        (match allSome (pick .jump), allSome (pick .avg) with
         | some js, some av =>
             let r := jaProd ((js.zip av).map (fun p => (p.1.1, p.1.2, p.2.2)))
             (match vs with
              | [_] => (match allSome (pick k) with
                        | some [(_, r1)] => r1
                        | _ => fallback)
              | _ => if k == .jump then r.1 else r.2)
         | _, _ =>
             (match vs, allSome (pick k) with
              | [_], some [(_, r1)] => r1
              | _, _ => fallback))
    | .dn => (match allSome (pick .dn) with
              | some rs => dnProd rs
              | none => fallback)
    | s => (match allSome (pick s) with
            | some rs => sideProd rs
            | none => fallback)

theorem ifaceEval_mul (d : Nat) (k : IK) (as : List E) :
    ifaceEval d k (mul as)
      = .ok (mul [Calc.mulOf (as.filter isCoef),
          ifBody k (as.filter (fun x => !isCoef x)) (ifaceEval d)]) := by
  simp only [ifaceEval, ifaceEvalListE_eq, pick_eq]
  rfl

/-- Jump, Average, Dn never look below a `Dn` node; Minus and Plus rewrite it -/
def strict : IK → Bool
  | .minus => false
  | .plus => false
  | _ => true

theorem opI_one (S : DRing K) (d : Nat) (lg : Bool) (k : IK) (s : Side) :
    opI S d lg k (fun _ => (1 : K)) s = if k == .jump || k == .dn then 0 else 1 := by
  have h := halfK_two (K := K)
  cases k <;> simp only [opI]
  · simp
  · simp; linear_combination h
  · simp
  · simp
  · simp [Di, S.D_one, sumN_zero]

theorem ifBody_sound (S : DRing K) (d : Nat) (lg : Bool) (k : IK) (vs : List E)
    (ev : IK → E → Except Err E)
    (ih : ∀ f ∈ vs, ∀ kk, (strict kk = true ∨ kk = k) → ∀ r, ev kk f = .ok r → ∀ s i j,
      denI S d lg s r i j = opI S d lg kk (fun s' => denI S d lg s' f i j) s)
    (s : Side) (i j : Nat) :
    denI S d lg s (ifBody k vs ev) i j
      = opI S d lg k (fun s' => (vs.map (fun f => denI S d lg s' f i j)).prod) s := by
  -- the unevaluated node around the product of the factors
  have hfb : denI S d lg s (op1 k.op (Calc.mulOf vs)) i j
      = opI S d lg k (fun s' => (vs.map (fun f => denI S d lg s' f i j)).prod) s := by
    rw [denI_op]
    congr 1
    funext s'
    exact denI_mulOf S d lg s' vs i j
  -- a single factor: the operator on it
  have hone : ∀ g r1, allSome (vs.map (fun f => (f, okOrNone (ev k f)))) = some [(g, r1)] →
      denI S d lg s r1 i j
        = opI S d lg k (fun s' => (vs.map (fun f => denI S d lg s' f i j)).prod) s := by
    intro g r1 hrs
    obtain ⟨h1, h2⟩ := allSome_spec (ev k) vs _ hrs
    simp only [List.map] at h1
    have := h2 (g, r1) (by simp)
    rw [ih g (by rw [← h1]; simp) k (Or.inr rfl) r1 this s i j, ← h1]
    simp
  unfold ifBody
  simp only
  split
  · rename_i he
    have : vs = [] := by simpa using he
    subst this
    simp only [List.map, List.prod_nil]
    rw [opI_one]
    split
    · exact denI_zero S d lg s i j
    · exact denI_one S d lg s i j
  · -- jump / average of a product from the jumps and averages of the factors
    have hja : ∀ js av, allSome (vs.map (fun f => (f, okOrNone (ev .jump f)))) = some js →
        allSome (vs.map (fun f => (f, okOrNone (ev .avg f)))) = some av →
        (denI S d lg s (jaProd ((js.zip av).map (fun p => (p.1.1, p.1.2, p.2.2)))).1 i j
          = opI S d lg .jump (fun s' => (vs.map (fun f => denI S d lg s' f i j)).prod) s)
        ∧ (denI S d lg s (jaProd ((js.zip av).map (fun p => (p.1.1, p.1.2, p.2.2)))).2 i j
          = opI S d lg .avg (fun s' => (vs.map (fun f => denI S d lg s' f i j)).prod) s) := by
      intro js av hjs hav
      obtain ⟨j1, j2⟩ := allSome_spec (ev .jump) vs js hjs
      obtain ⟨a1, a2⟩ := allSome_spec (ev .avg) vs av hav
      obtain ⟨z1, z2⟩ := zip_triples js av (by rw [j1, a1])
      have := jaProd_sound S d lg s i j ((js.zip av).map (fun p => (p.1.1, p.1.2, p.2.2)))
        (fun f s' => denI S d lg s' f i j) (by
          intro t ht
          have hm := z2 t ht
          have hf : t.1 ∈ vs := by
            rw [← j1]; exact List.mem_map.mpr ⟨_, hm.1, rfl⟩
          have e1 := ih t.1 hf .jump (Or.inl rfl) t.2.1 (j2 _ hm.1) s i j
          have e2 := ih t.1 hf .avg (Or.inl rfl) t.2.2 (a2 _ hm.2) s i j
          simp only [opI] at e1 e2
          exact ⟨e1, e2⟩)
      have hm : ∀ s', (((js.zip av).map (fun p => (p.1.1, p.1.2, p.2.2))).map
            (fun t => denI S d lg s' t.1 i j)).prod
          = (vs.map (fun f => denI S d lg s' f i j)).prod := by
        intro s'
        rw [← j1, ← z1]
        simp only [List.map_map]
        rfl
      simp only [opI]
      rw [← hm .m, ← hm .p]
      exact this
    cases k with
    | jump =>
      simp only
      split
      · rename_i js av hjs hav
        split
        · split
          · exact hone _ _ (by assumption)
          · exact hfb
        · simp only [beq_self_eq_true, if_true]
          exact (hja js av hjs hav).1
      · split
        · exact hone _ _ (by assumption)
        · exact hfb
    | avg =>
      simp only
      split
      · rename_i js av hjs hav
        split
        · split
          · exact hone _ _ (by assumption)
          · exact hfb
        · have : (IK.avg == IK.jump) = false := rfl
          simp only [this, Bool.false_eq_true, if_false]
          exact (hja js av hjs hav).2
      · split
        · exact hone _ _ (by assumption)
        · exact hfb
    | dn =>
      simp only
      split
      · rename_i rs hrs
        obtain ⟨h1, h2⟩ := allSome_spec (ev .dn) vs rs hrs
        rw [dnProd_sound S d lg s i j (dnK_deriv S d lg s) rs (by
          intro p hp
          have hf : p.1 ∈ vs := by rw [← h1]; exact List.mem_map.mpr ⟨_, hp, rfl⟩
          have := ih p.1 hf .dn (Or.inl rfl) p.2 (h2 p hp) s i j
          simpa only [opI, dnK] using this)]
        simp only [opI, dnK]
        rw [← h1, List.map_map]
        rfl
      · exact hfb
    | minus =>
      simp only
      split
      · rename_i rs hrs
        obtain ⟨h1, h2⟩ := allSome_spec (ev .minus) vs rs hrs
        rw [sideProd_sound S d lg s i j rs (fun f => denI S d lg .m f i j) (by
          intro p hp
          have hf : p.1 ∈ vs := by rw [← h1]; exact List.mem_map.mpr ⟨_, hp, rfl⟩
          have := ih p.1 hf .minus (Or.inr rfl) p.2 (h2 p hp) s i j
          simpa only [opI] using this)]
        simp only [opI]
        rw [← h1, List.map_map]
        rfl
      · exact hfb
    | plus =>
      simp only
      split
      · rename_i rs hrs
        obtain ⟨h1, h2⟩ := allSome_spec (ev .plus) vs rs hrs
        rw [sideProd_sound S d lg s i j rs (fun f => denI S d lg .p f i j) (by
          intro p hp
          have hf : p.1 ∈ vs := by rw [← h1]; exact List.mem_map.mpr ⟨_, hp, rfl⟩
          have := ih p.1 hf .plus (Or.inr rfl) p.2 (h2 p hp) s i j
          simpa only [opI] using this)]
        simp only [opI]
        rw [← h1, List.map_map]
        rfl
      · exact hfb

theorem Di_prod_const (S : DRing K) (lg : Bool) (m : Nat) (l : List K)
    (h : ∀ x ∈ l, Di S lg m x = 0) : Di S lg m l.prod = 0 := by
  induction l with
  | nil => simp [Di, S.D_one]
  | cons x xs ih =>
    simp only [List.prod_cons, Di_mul]
    rw [h x (by simp), ih (fun y hy => h y (by simp [hy]))]
    ring

/-- the `Mul` branch: coefficients out, the operator on the product of the other factors -/
theorem ifMul_sound (S : DRing K) (d : Nat) (lg : Bool) (k : IK) (as : List E)
    (ih : ∀ f ∈ as, ∀ kk, (strict kk = true ∨ kk = k) → ∀ r, ifaceEval d kk f = .ok r → ∀ s i j,
      denI S d lg s r i j = opI S d lg kk (fun s' => denI S d lg s' f i j) s)
    (r : E) (h : ifaceEval d k (mul as) = .ok r) (s : Side) (i j : Nat) :
    denI S d lg s r i j = opI S d lg k (fun s' => denI S d lg s' (mul as) i j) s := by
  rw [ifaceEval_mul] at h
  injection h with h; subst h
  rw [denI_mul2, denI_mulOf,
    ifBody_sound S d lg k _ (ifaceEval d) (fun f hf => ih f (List.mem_filter.mp hf).1) s i j]
  -- the coefficients: one constant, the same on both sides
  have hcs : ∀ s', ((as.filter isCoef).map (fun a => denI S d lg s' a i j)).prod
      = ((as.filter isCoef).map (fun a => denI S d lg .m a 0 0)).prod := by
    intro s'
    congr 1
    apply List.map_congr_left
    intro a ha
    exact (denI_coef S d lg a (List.mem_filter.mp ha).2 s' i j).1
  have hD : ∀ m, Di S lg m ((as.filter isCoef).map (fun a => denI S d lg .m a 0 0)).prod = 0 := by
    intro m
    apply Di_prod_const
    intro x hx
    obtain ⟨a, ha, rfl⟩ := List.mem_map.mp hx
    exact (denI_coef S d lg a (List.mem_filter.mp ha).2 .m 0 0).2 m
  have hfun : (fun s' => denI S d lg s' (mul as) i j)
      = fun s' => ((as.filter isCoef).map (fun a => denI S d lg .m a 0 0)).prod
          * ((as.filter (fun x => !isCoef x)).map (fun f => denI S d lg s' f i j)).prod := by
    funext s'
    rw [denI_mul, prod_map_filter isCoef, hcs s']
  rw [hfun, opI_smul S d lg k _ hD, hcs s]

/-! ### minus / plus of a normal derivative -/

/-- arguments of `Dn` for which `minus(Dn u)`, `plus(Dn u)` are covered: scalar leaves -/
def DnLeaf : E → Bool
  | sf _ _ => true
  | sym _ => true
  | cst _ => true
  | _ => false

def sideOf : IK → Side
  | .plus => .p
  | _ => .m

theorem dnSide_sem (S : DRing K) (d : Nat) (lg : Bool) (k : IK) (hk : k = .minus ∨ k = .plus)
    (u : E) (hu : DnLeaf u = true) (s : Side) (i j : Nat) :
    denI S d lg s (mul [E.one, E.one, op2 .dot (op1 .grad (op1 k.op u)) (sideNormal k)]) i j
      = opI S d lg k (fun s' => denI S d lg s' (op1 .dn u) i j) s := by
  have hel : elim d lg s (op2 .dot (op1 .grad (op1 k.op u)) (sideNormal k))
      = op2 .dot (op1 .grad (elim d lg (sideOf k) u)) (nVec d (sideOf k)) := by
    rcases hk with rfl | rfl <;> simp [elim, IK.op, sideNormal, sideOf]
  have hsc : Scal d (elim d lg (sideOf k) u) = true := by
    cases u <;> simp_all [DnLeaf, elim, Scal]
  have hr := Scal_rank d _ hsc
  have hfree := (Scal_spec S d lg _ hsc).2
  have hval : denI S d lg s (op2 .dot (op1 .grad (op1 k.op u)) (sideNormal k)) i j
      = sumN d (fun c => nVal S (sideOf k) c * Di S lg c (denI S d lg (sideOf k) u i j)) := by
    simp only [denI, hel]
    have e := dot_vec S d lg (op1 .grad (elim d lg (sideOf k) u)) (nVec d (sideOf k))
      (by simp [isMat, rank, hr]) (by simp [isMat, nVec, rank]) i j
    rw [e]
    apply sumN_congr
    intro c hc
    rw [denG_nVec, if_pos hc, hfree i j]
    simp only [denG, hr, if_true]
    ring
  rw [denI_mul]
  simp only [List.map, List.prod_cons, List.prod_nil, denI_one, one_mul, mul_one]
  rw [hval]
  rcases hk with rfl | rfl
  · simp only [opI, sideOf]; exact (denI_dn S d lg .m u i j).symm
  · simp only [opI, sideOf]; exact (denI_dn S d lg .p u i j).symm

theorem mkBilin_grad_normal (d : Nat) (x : E) (nm : String) :
    mkBilin d .dot (op1 .grad x) (normal nm)
      = .ok (mul [E.one, E.one, op2 .dot (op1 .grad x) (normal nm)]) := rfl

theorem dnSide_shape (d : Nat) (k : IK) (hk : k = .minus ∨ k = .plus) (u : E)
    (hu : DnLeaf u = true) (r : E)
    (h : (do
        let su ← ifaceEval d k u
        let gu ← gradEval d su
        mkBilin d .dot gu (sideNormal k)) = .ok r) :
    r = mul [E.one, E.one, op2 .dot (op1 .grad (op1 k.op u)) (sideNormal k)] := by
  rcases hk with rfl | rfl <;> cases u <;> simp [DnLeaf] at hu <;>
    simp [ifaceEval, bind, Except.bind, isNormal, isZeroNum, gradEval, hasF, atomNode, kindOf,
      Calc.isNumber, PD.isNumber, IK.op] at h
  all_goals first
    | (simp only [sideNormal, mkBilin_grad_normal] at h
       injection h with h; exact h.symm)
    | (split at h
       · cases h
       · rename_i v hv
         split at hv
         · injection hv with hv; subst hv
           simp only [sideNormal, mkBilin_grad_normal] at h
           injection h with h; exact h.symm
         · cases hv)

mutual
/-- side condition of the Minus / Plus theorems: every `Dn` met along the recursion (terms of
    sums, factors of products, entries of matrices) is applied to a scalar leaf -/
def DnOK : E → Bool
  | add as => DnOKList as
  | mul as => DnOKList as
  | op1 .dn u => DnLeaf u
  | mat _ _ es => DnOKList es
  | _ => true
def DnOKList : List E → Bool
  | [] => true
  | a :: as => DnOK a && DnOKList as
end

theorem DnOKList_iff (as : List E) : DnOKList as = as.all DnOK := by
  induction as with
  | nil => simp [DnOKList]
  | cons a as ih => simp [DnOKList, ih]

theorem ifaceEval_sound' (S : DRing K) (d : Nat) (lg : Bool) (e : E) :
    ∀ k, (strict k = true ∨ DnOK e = true) → ∀ r, ifaceEval d k e = .ok r → ∀ s i j,
      denI S d lg s r i j = opI S d lg k (fun s' => denI S d lg s' e i j) s := by
  have key : ∀ e k r, ifLeaf k e = .ok r → ∀ s i j,
      denI S d lg s r i j = opI S d lg k (fun s' => denI S d lg s' e i j) s :=
    fun e k r h s i j => ifLeaf_sound S d lg k e r h s i j
  induction e using E.rec
    (motive_2 := fun as => ∀ a ∈ as, ∀ k, (strict k = true ∨ DnOK a = true) → ∀ r,
      ifaceEval d k a = .ok r → ∀ s i j,
      denI S d lg s r i j = opI S d lg k (fun s' => denI S d lg s' a i j) s) with
  | add as ih =>
    intro k hk r h s i j
    have hk' : ∀ a ∈ as, strict k = true ∨ DnOK a = true := by
      intro a ha
      rcases hk with hk | hk
      · exact Or.inl hk
      · simp only [DnOK, DnOKList_iff, List.all_eq_true] at hk
        exact Or.inr (hk a ha)
    simp only [ifaceEval, bind, Except.bind] at h
    cases hrs : ifaceEvalList d k as with
    | error x => rw [hrs] at h; cases h
    | ok rs =>
      rw [hrs] at h
      injection h with h; subst h
      rw [denI_add, ifaceEvalList_sum S d lg k s i j
        (fun a => opI S d lg k (fun s' => denI S d lg s' a i j) s) as
        (fun a ha r hr => ih a ha k (hk' a ha) r hr s i j) rs hrs]
      have : (fun s' => denI S d lg s' (add as) i j)
          = fun s' => (as.map (fun a => denI S d lg s' a i j)).sum := by
        funext s'; exact denI_add S d lg s' as i j
      rw [this, opI_sum]
  | mul as ih =>
    intro k hk r h s i j
    refine ifMul_sound S d lg k as ?_ r h s i j
    intro f hf kk hkk
    apply ih f hf kk
    rcases hkk with hkk | rfl
    · exact Or.inl hkk
    · rcases hk with hk | hk
      · exact Or.inl hk
      · simp only [DnOK, DnOKList_iff, List.all_eq_true] at hk
        exact Or.inr (hk f hf)
  | nil => cases ‹_ ∈ []›
  | cons a as iha ihas =>
    rename_i x hx k hk r h s i j
    rcases List.mem_cons.mp hx with rfl | hx
    · exact iha k hk r h s i j
    · exact ihas x hx k hk r h s i j
  | mat rr c es ih =>
    intro k hk r h s i j
    cases k with
    | minus =>
      simp only [ifaceEval, bind, Except.bind] at h
      cases hrs : ifaceEvalList d .minus es with
      | error x => rw [hrs] at h; cases h
      | ok rs =>
        rw [hrs] at h
        injection h with h; subst h
        have hk' : ∀ a ∈ es, strict .minus = true ∨ DnOK a = true := by
          intro a ha
          rcases hk with hk | hk
          · exact Or.inl hk
          · simp only [DnOK, DnOKList_iff, List.all_eq_true] at hk
            exact Or.inr (hk a ha)
        simp only [opI, denI, elim, denG]
        rw [ifaceEvalList_nth S d lg .minus s .m es (fun a ha r hr => by
          have := ih a ha .minus (hk' a ha) r hr s 0 0
          simpa only [opI] using this) rs hrs]
    | plus =>
      simp only [ifaceEval, bind, Except.bind] at h
      cases hrs : ifaceEvalList d .plus es with
      | error x => rw [hrs] at h; cases h
      | ok rs =>
        rw [hrs] at h
        injection h with h; subst h
        have hk' : ∀ a ∈ es, strict .plus = true ∨ DnOK a = true := by
          intro a ha
          rcases hk with hk | hk
          · exact Or.inl hk
          · simp only [DnOK, DnOKList_iff, List.all_eq_true] at hk
            exact Or.inr (hk a ha)
        simp only [opI, denI, elim, denG]
        rw [ifaceEvalList_nth S d lg .plus s .p es (fun a ha r hr => by
          have := ih a ha .plus (hk' a ha) r hr s 0 0
          simpa only [opI] using this) rs hrs]
    | _ =>
      simp only [ifaceEval] at h
      injection h with h; subst h
      exact denI_op S d lg _ _ s i j
  | op1 o u _ =>
    intro k hk r h s i j
    cases o with
    | dn =>
      cases k with
      | minus =>
        have hu : DnLeaf u = true := by
          rcases hk with hk | hk
          · cases hk
          · simpa [DnOK] using hk
        simp only [ifaceEval] at h
        rw [dnSide_shape d .minus (Or.inl rfl) u hu r h]
        exact dnSide_sem S d lg .minus (Or.inl rfl) u hu s i j
      | plus =>
        have hu : DnLeaf u = true := by
          rcases hk with hk | hk
          · cases hk
          · simpa [DnOK] using hk
        simp only [ifaceEval] at h
        rw [dnSide_shape d .plus (Or.inr rfl) u hu r h]
        exact dnSide_sem S d lg .plus (Or.inr rfl) u hu s i j
      | _ =>
        simp only [ifaceEval] at h
        injection h with h; subst h
        exact denI_op S d lg _ _ s i j
    | _ => cases k <;> exact key _ _ r (by simpa only [ifaceEval, ifLeaf] using h) s i j
  | _ =>
    intro k hk r h s i j
    cases k <;> exact key _ _ r (by simpa only [ifaceEval, ifLeaf] using h) s i j

end Sympde
