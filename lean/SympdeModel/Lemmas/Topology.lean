/-
  Helper lemmas for Props/C13.lean (model: Model/Topology.lean).
-/
import Mathlib.Data.List.Nodup
import Mathlib.Data.List.Perm.Subperm
import Mathlib.Data.List.Forall2
import SympdeModel.Model.Topology
namespace Sympde.Topo

/-! ### Union = dedup + stable insertion sort -/

theorem insertBy_perm {α : Type} (key : α → String) (x : α) (l : List α) :
    (insertBy key x l).Perm (x :: l) := by
  induction l with
  | nil => simp [insertBy]
  | cons y ys ih =>
    simp only [insertBy]
    split
    · exact (List.Perm.cons y ih).trans (List.Perm.swap x y ys)
    · exact List.Perm.refl _

theorem sortBy_perm {α : Type} (key : α → String) (l : List α) : (sortBy key l).Perm l := by
  induction l with
  | nil => simp [sortBy]
  | cons x xs ih =>
    simp only [sortBy]
    exact (insertBy_perm key x _).trans (List.Perm.cons x ih)

theorem dedupBy_sublist {α : Type} (same : α → α → Bool) (l : List α) : (dedupBy same l).Sublist l := by
  induction l with
  | nil => simp [dedupBy]
  | cons x xs ih =>
    simp only [dedupBy]
    exact List.Sublist.cons_cons x ((List.filter_sublist).trans ih)

/-- no two members are identified by `same`: the dedup step does nothing -/
theorem dedupBy_eq_self {α : Type} (same : α → α → Bool) (l : List α)
    (h : l.Pairwise (fun a b => same a b = false)) : dedupBy same l = l := by
  induction l with
  | nil => simp [dedupBy]
  | cons x xs ih =>
    rw [List.pairwise_cons] at h
    simp only [dedupBy, ih h.2]
    congr 1
    rw [List.filter_eq_self]
    intro y hy
    simp [h.1 y hy]

theorem unionBy_perm {α : Type} (key : α → String) (same : α → α → Bool) (l : List α)
    (h : l.Pairwise (fun a b => same a b = false)) : (unionBy key same l).Perm l := by
  unfold unionBy
  rw [dedupBy_eq_self same l h]
  exact sortBy_perm key l

theorem mem_unionBy_of {α : Type} (key : α → String) (same : α → α → Bool) (l : List α) (x : α)
    (h : x ∈ unionBy key same l) : x ∈ l :=
  (dedupBy_sublist same l).subset ((sortBy_perm key _).subset h)

/-! ### names -/

def NamesOk (ps : List Patch) : Prop := (ps.map Patch.name).Nodup

instance (ps : List Patch) : Decidable (NamesOk ps) := by unfold NamesOk; infer_instance

theorem NamesOk.nodup {ps : List Patch} (h : NamesOk ps) : ps.Nodup := List.Nodup.of_map _ h

theorem NamesOk.inj {ps : List Patch} (h : NamesOk ps) {p q : Patch} (hp : p ∈ ps) (hq : q ∈ ps)
    (e : p.name = q.name) : p = q := List.inj_on_of_nodup_map h hp hq e

theorem NamesOk.pairwise {ps : List Patch} (h : NamesOk ps) :
    ps.Pairwise (fun a b => Patch.same a b = false) := by
  unfold NamesOk at h
  rw [List.Nodup, List.pairwise_map] at h
  exact h.imp (by intro a b hab; simpa [Patch.same] using hab)

theorem unionPatches_perm {ps : List Patch} (h : NamesOk ps) : (unionPatches ps).Perm ps :=
  unionBy_perm _ _ _ h.pairwise

/-! ### faces of an n-cube -/

theorem mem_facesFrom (p : Patch) (n : Nat) (f : Face) :
    f ∈ facesFrom p n ↔ f.patch = p ∧ f.axis < n ∧ (f.ext = -1 ∨ f.ext = 1) := by
  induction n with
  | zero => simp [facesFrom]
  | succ n ih =>
    simp only [facesFrom, List.mem_append, ih, List.mem_cons, List.not_mem_nil, or_false]
    constructor
    · rintro (⟨h1, h2, h3⟩ | rfl | rfl)
      · exact ⟨h1, by omega, h3⟩
      · exact ⟨rfl, by simp, Or.inl rfl⟩
      · exact ⟨rfl, by simp, Or.inr rfl⟩
    · rintro ⟨h1, h2, h3⟩
      by_cases hlt : f.axis < n
      · exact Or.inl ⟨h1, hlt, h3⟩
      · have : f.axis = n := by omega
        rcases h3 with h3 | h3
        · right; left; cases f; simp_all
        · right; right; cases f; simp_all

theorem mem_faces (p : Patch) (f : Face) :
    f ∈ p.faces ↔ f.patch = p ∧ f.axis < p.dim ∧ (f.ext = -1 ∨ f.ext = 1) := mem_facesFrom p p.dim f

theorem facesFrom_nodup (p : Patch) (n : Nat) : (facesFrom p n).Nodup := by
  induction n with
  | zero => simp [facesFrom]
  | succ n ih =>
    simp only [facesFrom]
    rw [List.nodup_append]
    refine ⟨ih, by simp, ?_⟩
    intro a ha b hb
    have := (mem_facesFrom p n a).mp ha
    simp only [List.mem_cons, List.not_mem_nil, or_false] at hb
    rcases hb with rfl | rfl <;> (intro e; subst e; simp at this)

theorem faces_nodup (p : Patch) : p.faces.Nodup := facesFrom_nodup p p.dim

/-- every face of every patch -/
def allFaces (ps : List Patch) : List Face := ps.flatMap Patch.faces

theorem mem_allFaces (ps : List Patch) (f : Face) :
    f ∈ allFaces ps ↔ f.patch ∈ ps ∧ f.axis < f.patch.dim ∧ (f.ext = -1 ∨ f.ext = 1) := by
  simp only [allFaces, List.mem_flatMap, mem_faces]
  constructor
  · rintro ⟨p, hp, rfl, h2, h3⟩; exact ⟨hp, h2, h3⟩
  · rintro ⟨h1, h2, h3⟩; exact ⟨f.patch, h1, rfl, h2, h3⟩

theorem allFaces_nodup {ps : List Patch} (h : ps.Nodup) : (allFaces ps).Nodup := by
  unfold allFaces
  rw [List.nodup_flatMap]
  refine ⟨fun p _ => faces_nodup p, ?_⟩
  refine h.imp ?_
  intro a b hab
  simp only [Function.onFun]
  intro f hfa hfb
  exact hab (((mem_faces a f).mp hfa).1.symm.trans ((mem_faces b f).mp hfb).1)

theorem same_iff_eq {ps : List Patch} (h : NamesOk ps) {f g : Face} (hf : f.patch ∈ ps) (hg : g.patch ∈ ps) :
    f.same g = true ↔ f = g := by
  constructor
  · intro hs
    simp only [Face.same, Bool.and_eq_true, beq_iff_eq] at hs
    obtain ⟨⟨h1, h2⟩, h3⟩ := hs
    have := h.inj hf hg h1
    cases f; cases g; simp_all
  · rintro rfl; simp [Face.same]

theorem same_refl (f : Face) : f.same f = true := by simp [Face.same]

/-- within one patch, two different faces are never identified -/
theorem faces_pairwise_not_same (p : Patch) : p.faces.Pairwise (fun a b => Face.same a b = false) := by
  have hnd := faces_nodup p
  refine (List.Pairwise.and_mem.mp hnd).imp ?_
  rintro a b ⟨ha, hb, hne⟩
  have h1 := ((mem_faces p a).mp ha).1
  have h2 := ((mem_faces p b).mp hb).1
  cases hs : Face.same a b with
  | false => rfl
  | true =>
    exfalso; apply hne
    simp only [Face.same, Bool.and_eq_true, beq_iff_eq] at hs
    cases a; cases b; simp_all

theorem boundary_perm (p : Patch) : p.boundary.Perm p.faces :=
  unionBy_perm _ _ _ (faces_pairwise_not_same p)

theorem mem_boundary (p : Patch) (f : Face) : f ∈ p.boundary ↔ f ∈ p.faces := (boundary_perm p).mem_iff

theorem allBoundary_perm (ps : List Patch) : (ps.flatMap Patch.boundary).Perm (allFaces ps) :=
  List.Perm.flatMap_left ps (fun p _ => boundary_perm p)

theorem allFaces_pairwise_not_same {ps : List Patch} (h : NamesOk ps) :
    (allFaces ps).Pairwise (fun a b => Face.same a b = false) := by
  have hnd := allFaces_nodup h.nodup
  refine (List.Pairwise.and_mem.mp hnd).imp ?_
  rintro a b ⟨ha, hb, hne⟩
  cases hs : Face.same a b with
  | false => rfl
  | true =>
    exact absurd ((same_iff_eq h ((mem_allFaces ps a).mp ha).1 ((mem_allFaces ps b).mp hb).1).mp hs) hne

/-! ### `find?` with a unique candidate -/

theorem find?_unique {α : Type} (pred : α → Bool) (l : List α) (x : α) (hx : x ∈ l) (hp : pred x = true)
    (hu : ∀ y ∈ l, pred y = true → y = x) : l.find? pred = some x := by
  induction l with
  | nil => cases hx
  | cons y ys ih =>
    simp only [List.find?]
    cases hy : pred y with
    | true => simp [hu y (by simp) hy]
    | false =>
      simp only
      rcases List.mem_cons.mp hx with rfl | hx'
      · rw [hp] at hy; cases hy
      · exact ih hx' (fun z hz => hu z (List.mem_cons_of_mem _ hz))

/-- `get_boundary` on an n-cube: exactly the face `(patch, axis, ext)`, or ValueError -/
theorem findFace_boundary (p : Patch) (a : Nat) (e : Int) :
    findFace p.boundary a e =
      if a < p.dim ∧ (e = -1 ∨ e = 1) then .ok ⟨p, a, e⟩ else .error .valueError := by
  unfold findFace
  by_cases h : a < p.dim ∧ (e = -1 ∨ e = 1)
  · rw [if_pos h]
    have hm : (⟨p, a, e⟩ : Face) ∈ p.boundary := (mem_boundary p _).mpr ((mem_faces p _).mpr ⟨rfl, h.1, h.2⟩)
    rw [find?_unique (fun (f : Face) => f.ext == e && f.axis == a) _ ⟨p, a, e⟩ hm (by simp)]
    intro y hy hpy
    have hy' := ((mem_faces p y).mp ((mem_boundary p y).mp hy)).1
    simp only [Bool.and_eq_true, beq_iff_eq] at hpy
    cases y; simp_all
  · rw [if_neg h]
    have : p.boundary.find? (fun f => f.ext == e && f.axis == a) = none := by
      rw [List.find?_eq_none]
      intro y hy hpy
      have hy' := (mem_faces p y).mp ((mem_boundary p y).mp hy)
      simp only [Bool.and_eq_true, beq_iff_eq] at hpy
      apply h
      rw [← hpy.1, ← hpy.2]
      exact ⟨by rw [hy'.1] at hy'; exact hy'.2.1, hy'.2.2⟩
    rw [this]

/-! ### the interface dictionary -/

def RConn.name (c : RConn) : String := ifaceName c.minus.patch.name c.plus.patch.name
def RConn.toIface (c : RConn) : Iface := mkIface c.minus c.plus c.ornt

theorem toIface_name (c : RConn) : c.toIface.name = c.name := rfl

theorem connSet_fresh (d : List Iface) (i : Iface) (h : ∀ e ∈ d, e.name ≠ i.name) : connSet d i = d ++ [i] := by
  unfold connSet
  have : d.any (fun e => e.name == i.name) = false := by
    rw [List.any_eq_false]; intro e he; simpa using h e he
  simp [this]

theorem stepIface_fresh (acc : List Iface) (c : RConn) (h : ∀ e ∈ acc, e.name ≠ c.name) :
    stepIface acc c = acc ++ [c.toIface] := by
  unfold stepIface
  have : acc.any (fun e => e.name == (mkIface c.minus c.plus c.ornt).name) = false := by
    rw [List.any_eq_false]; intro e he
    have := h e he
    simpa [mkIface, RConn.name] using this
  simp only [this, Bool.false_eq_true, if_false]
  exact connSet_fresh acc _ h

/-- no ordered patch pair is declared twice: the dictionary is the list of declared connections -/
theorem foldl_stepIface (cs : List RConn) (acc : List Iface)
    (h : (acc.map Iface.name ++ cs.map RConn.name).Nodup) :
    cs.foldl stepIface acc = acc ++ cs.map RConn.toIface := by
  induction cs generalizing acc with
  | nil => simp
  | cons c cs ih =>
    simp only [List.foldl_cons]
    have hfresh : ∀ e ∈ acc, e.name ≠ c.name := by
      intro e he heq
      rw [List.nodup_append] at h
      exact h.2.2 e.name (List.mem_map_of_mem he) c.name (by simp) heq
    rw [stepIface_fresh acc c hfresh, ih]
    · simp
    · simp only [List.map_append, List.map_cons, List.map_nil, toIface_name, List.append_assoc,
        List.cons_append, List.nil_append]
      simpa using h

theorem buildIfaces_eq (cs : List RConn) (h : (cs.map RConn.name).Nodup) :
    buildIfaces cs = cs.map RConn.toIface := by
  unfold buildIfaces
  simpa using foldl_stepIface cs [] (by simpa using h)

/-! ### resolving the declared connections -/

/-- the resolved connection of a declared one (junk when the real code raises) -/
def resolveD (ps : List Patch) (dim : Nat) (byIdx : Bool) (c : Conn) : RConn :=
  match resolve ps dim byIdx c with
  | .ok r => r
  | .error _ => ⟨default, default, default⟩

theorem resolveAll_ok (ps : List Patch) (dim : Nat) (b : Bool) (cs : List Conn) (rcs : List RConn) :
    resolveAll ps dim b cs = .ok rcs ↔
      (∀ c ∈ cs, ∃ r, resolve ps dim b c = .ok r) ∧ rcs = cs.map (resolveD ps dim b) := by
  induction cs generalizing rcs with
  | nil => simp [resolveAll, eq_comm]
  | cons c cs ih =>
    simp only [resolveAll, bind, Except.bind]
    cases hr : resolve ps dim b c with
    | error e => simp [hr]
    | ok r =>
      simp only
      cases hrs : resolveAll ps dim b cs with
      | error e =>
        simp only [reduceCtorEq, false_iff, not_and]
        intro hall
        exfalso
        have := (ih (cs.map (resolveD ps dim b))).mpr ⟨fun c' hc' => hall c' (List.mem_cons_of_mem _ hc'), rfl⟩
        rw [hrs] at this; cases this
      | ok rs =>
        have := (ih rs).mp hrs
        simp only [Except.ok.injEq, List.mem_cons, forall_eq_or_imp, List.map_cons]
        constructor
        · rintro rfl
          exact ⟨⟨⟨r, hr⟩, this.1⟩, by rw [this.2]; simp [resolveD, hr]⟩
        · rintro ⟨_, rfl⟩
          rw [this.2]; simp [resolveD, hr]

/-! ### what `Domain.join` returns -/

def headDim : List Patch → Nat
  | p :: _ => p.dim
  | [] => 0

/-- the declared connections after `get_boundary` and the orientation defaults
    (empty when the real code raises while resolving them) -/
def resolved (ps : List Patch) (cs : List Conn) : List RConn :=
  match resolveAll ps (headDim ps) (byIndices cs) cs with
  | .ok r => r
  | .error _ => []

theorem finishJoin_core {name : String} {ints : List Patch} {bnd : List Face} {ifs : List Iface} {d : Dom}
    (h : finishJoin name ints bnd ifs = .ok d) :
    d.name = name ∧ d.interiors = ints ∧ d.boundary = bnd ∧ d.ifaces = ifs := by
  unfold finishJoin at h
  split at h
  · cases h
  · split at h
    · simp only [bind, Except.bind] at h
      split at h
      · cases h
      · simp only [Except.ok.injEq] at h; subst h; simp
    · simp only [Except.ok.injEq] at h; subst h; simp

theorem join_finish {ps : List Patch} {cs : List Conn} {name : String} {d : Dom}
    (h : join ps cs name = .ok d) (hlen : 2 ≤ ps.length) :
    resolveAll ps (headDim ps) (byIndices cs) cs = .ok (resolved ps cs) ∧
    (∀ p ∈ ps, p.dim = headDim ps) ∧
    finishJoin name (unionPatches ps)
      (externalFaces (ps.flatMap Patch.boundary) ((resolved ps cs).flatMap RConn.sides))
      (buildIfaces (resolved ps cs)) = .ok d := by
  match ps, hlen with
  | p0 :: p1 :: rest, _ =>
    simp only [join] at h
    split at h
    · cases h
    · rename_i hdim
      simp only [bind, Except.bind] at h
      cases hr : resolveAll (p0 :: p1 :: rest) p0.dim (byIndices cs) cs with
      | error e => rw [hr] at h; cases h
      | ok rcs =>
        rw [hr] at h
        simp only at h
        have hres : resolved (p0 :: p1 :: rest) cs = rcs := by simp [resolved, headDim, hr]
        refine ⟨by simp [headDim, hr, hres], ?_, by rw [hres]; exact h⟩
        intro p hp
        simp only [headDim]
        simp only [List.any_eq_true, bne_iff_ne, ne_eq, not_exists, not_and, Decidable.not_not] at hdim
        exact hdim p hp

theorem join_fields {ps : List Patch} {cs : List Conn} {name : String} {d : Dom}
    (h : join ps cs name = .ok d) (hlen : 2 ≤ ps.length) :
    resolveAll ps (headDim ps) (byIndices cs) cs = .ok (resolved ps cs) ∧
    (∀ p ∈ ps, p.dim = headDim ps) ∧
    d.name = name ∧ d.interiors = unionPatches ps ∧
    d.boundary = externalFaces (ps.flatMap Patch.boundary) ((resolved ps cs).flatMap RConn.sides) ∧
    d.ifaces = buildIfaces (resolved ps cs) := by
  obtain ⟨h1, h2, h3⟩ := join_finish h hlen
  obtain ⟨a, b, c, e⟩ := finishJoin_core h3
  exact ⟨h1, h2, a, b, c, e⟩

theorem getBoundary_mem {p : Patch} {ax : Option Nat} {e : Int} {f : Face}
    (h : p.getBoundary ax e = .ok f) : f ∈ p.faces := by
  unfold Patch.getBoundary at h
  simp only [bind, Except.bind] at h
  split at h
  · cases h
  · rename_i a _
    rw [findFace_boundary] at h
    split at h
    · rename_i hc
      simp only [Except.ok.injEq] at h; subst h
      exact (mem_faces p _).mpr ⟨rfl, hc.1, hc.2⟩
    · cases h

theorem pyIndex_mem {α : Type} {l : List α} {i : Int} {x : α} (h : pyIndex l i = some x) : x ∈ l := by
  unfold pyIndex at h
  split at h
  · exact List.mem_of_getElem? h
  · split at h
    · exact List.mem_of_getElem? h
    · cases h

/-- the patch a side of a connection refers to, when it is one of `ps` -/
def RefsIn (ps : List Patch) (cs : List Conn) : Prop :=
  ∀ c ∈ cs, (∀ p, c.minus.ref = .obj p → p ∈ ps) ∧ (∀ p, c.plus.ref = .obj p → p ∈ ps)

theorem resolve_faces {ps : List Patch} {dim : Nat} {b : Bool} {c : Conn} {r : RConn}
    (h : resolve ps dim b c = .ok r) :
    r.minus ∈ r.minus.patch.faces ∧ r.plus ∈ r.plus.patch.faces ∧ r.minus.axis = r.plus.axis ∧
    r.minus.patch.dim = dim ∧ r.plus.patch.dim = dim ∧ mkOrnt dim c.ornt = .ok r.ornt ∧
    c.minus.ref.isIdx = b ∧ c.plus.ref.isIdx = b ∧
    (b = true → ∃ i j, c.minus.ref = .idx i ∧ pyIndex ps i = some r.minus.patch ∧
        c.plus.ref = .idx j ∧ pyIndex ps j = some r.plus.patch) ∧
    (b = false → c.minus.ref = .obj r.minus.patch ∧ c.plus.ref = .obj r.plus.patch) ∧
    r.minus.patch.getBoundary c.minus.axis c.minus.ext = .ok r.minus ∧
    r.plus.patch.getBoundary c.plus.axis c.plus.ext = .ok r.plus := by
  unfold resolve at h
  simp only [bind, Except.bind, pure, Except.pure, throw, throwThe, MonadExceptOf.throw] at h
  cases b with
  | true =>
    simp only [if_true] at h
    cases hm : c.minus.ref with
    | obj p => simp [hm] at h
    | idx i =>
      cases hp : c.plus.ref with
      | obj p => simp [hm, hp] at h; split at h <;> simp at h
      | idx j =>
        simp only [hm, hp] at h
        cases hi : pyIndex ps i with
        | none => simp [hi] at h
        | some pm =>
          cases hj : pyIndex ps j with
          | none => simp [hi, hj] at h
          | some pp =>
            simp only [hi, hj] at h
            cases hbm : pm.getBoundary c.minus.axis c.minus.ext with
            | error e => simp [hbm] at h
            | ok bm =>
              cases hbp : pp.getBoundary c.plus.axis c.plus.ext with
              | error e => simp [hbm, hbp] at h
              | ok bp =>
                simp only [hbm, hbp] at h
                cases ho : mkOrnt dim c.ornt with
                | error e => simp [ho] at h
                | ok o =>
                  simp only [ho] at h
                  split at h
                  · cases h
                  · split at h
                    · cases h
                    · split at h
                      · cases h
                      · rename_i h1 h2 h3
                        simp only [Except.ok.injEq] at h; subst h
                        have fm := getBoundary_mem hbm
                        have fp := getBoundary_mem hbp
                        have em := ((mem_faces pm bm).mp fm).1
                        have ep := ((mem_faces pp bp).mp fp).1
                        simp only [bne_iff_ne, ne_eq, Decidable.not_not] at h1 h2 h3
                        subst em; subst ep
                        exact ⟨fm, fp, h3, h2, by rw [← h1]; exact h2, rfl, by simp [Ref.isIdx],
                          by simp [Ref.isIdx], fun _ => ⟨i, j, rfl, hi, rfl, hj⟩, by simp, hbm, hbp⟩
  | false =>
    simp only [Bool.false_eq_true, if_false] at h
    cases hm : c.minus.ref with
    | idx i => simp [hm] at h
    | obj pm =>
      cases hp : c.plus.ref with
      | idx j =>
        simp only [hm, hp] at h
        cases hbm : pm.getBoundary c.minus.axis c.minus.ext <;> simp [hbm] at h
      | obj pp =>
        simp only [hm, hp] at h
        cases hbm : pm.getBoundary c.minus.axis c.minus.ext with
        | error e => simp [hbm] at h
        | ok bm =>
          cases hbp : pp.getBoundary c.plus.axis c.plus.ext with
          | error e => simp [hbm, hbp] at h
          | ok bp =>
            simp only [hbm, hbp] at h
            cases ho : mkOrnt dim c.ornt with
            | error e => simp [ho] at h
            | ok o =>
              simp only [ho] at h
              split at h
              · cases h
              · split at h
                · cases h
                · split at h
                  · cases h
                  · rename_i h1 h2 h3
                    simp only [Except.ok.injEq] at h; subst h
                    have fm := getBoundary_mem hbm
                    have fp := getBoundary_mem hbp
                    have em := ((mem_faces pm bm).mp fm).1
                    have ep := ((mem_faces pp bp).mp fp).1
                    simp only [bne_iff_ne, ne_eq, Decidable.not_not] at h1 h2 h3
                    subst em; subst ep
                    exact ⟨fm, fp, h3, h2, by rw [← h1]; exact h2, rfl, by simp [Ref.isIdx],
                      by simp [Ref.isIdx], by simp, fun _ => ⟨rfl, rfl⟩, hbm, hbp⟩

/-- what a declared connection `c` means: the faces it names and its orientation with the
    defaults of `Domain.join` (1 in 2D, (1,1,1) in 3D, none in 1D) -/
def Declares (ps : List Patch) (dim : Nat) (byIdx : Bool) (c : Conn) (i : Iface) : Prop :=
  ∃ pm pp am ap o,
    (if byIdx then (∃ k, c.minus.ref = .idx k ∧ pyIndex ps k = some pm) else c.minus.ref = .obj pm) ∧
    (if byIdx then (∃ k, c.plus.ref = .idx k ∧ pyIndex ps k = some pp) else c.plus.ref = .obj pp) ∧
    normAxis pm.dim c.minus.axis = .ok am ∧ normAxis pp.dim c.plus.axis = .ok ap ∧
    mkOrnt dim c.ornt = .ok o ∧
    i = ⟨ifaceName pm.name pp.name, ⟨pm, am, c.minus.ext⟩, ⟨pp, ap, c.plus.ext⟩, o⟩

theorem getBoundary_ok {p : Patch} {ax : Option Nat} {e : Int} {f : Face} (h : p.getBoundary ax e = .ok f) :
    ∃ a, normAxis p.dim ax = .ok a ∧ f = ⟨p, a, e⟩ := by
  unfold Patch.getBoundary at h
  simp only [bind, Except.bind] at h
  split at h
  · cases h
  · rename_i a ha
    rw [findFace_boundary] at h
    split at h
    · simp only [Except.ok.injEq] at h; exact ⟨a, ha, h.symm⟩
    · cases h

theorem resolve_declares {ps : List Patch} {dim : Nat} {b : Bool} {c : Conn} {r : RConn}
    (h : resolve ps dim b c = .ok r) : Declares ps dim b c r.toIface := by
  obtain ⟨_, _, _, _, _, ho, _, _, ht, hf, hbm, hbp⟩ := resolve_faces h
  obtain ⟨am, ham, hfm⟩ := getBoundary_ok hbm
  obtain ⟨ap, hap, hfp⟩ := getBoundary_ok hbp
  refine ⟨r.minus.patch, r.plus.patch, am, ap, r.ornt, ?_, ?_, ham, hap, ho, ?_⟩
  · cases b
    · simpa using (hf rfl).1
    · obtain ⟨i, j, h1, h2, _, _⟩ := ht rfl
      simpa using ⟨i, h1, h2⟩
  · cases b
    · simpa using (hf rfl).2
    · obtain ⟨i, j, _, _, h3, h4⟩ := ht rfl
      simpa using ⟨j, h3, h4⟩
  · cases r with
    | mk m p o =>
      simp only [RConn.toIface, mkIface] at *
      rw [← hfm, ← hfp]

/-! ### hypotheses of the partition theorems and the external boundary -/

/-- no face is used by two connections, no ordered patch pair is declared twice, and the declared
    patches are among the joined ones (decidable for every concrete layout) -/
def ConnsOk (ps : List Patch) (cs : List Conn) : Prop :=
  ((resolved ps cs).flatMap RConn.sides).Nodup ∧ ((resolved ps cs).map RConn.name).Nodup ∧
  ∀ c ∈ resolved ps cs, c.minus.patch ∈ ps ∧ c.plus.patch ∈ ps

instance (ps : List Patch) (cs : List Conn) : Decidable (ConnsOk ps cs) := by
  unfold ConnsOk; infer_instance

/-- the two sides of every interface, in dictionary order -/
def ifaceSides (ifs : List Iface) : List Face := ifs.flatMap (fun i => [i.minus, i.plus])

theorem ifaceSides_map_toIface (rcs : List RConn) :
    ifaceSides (rcs.map RConn.toIface) = rcs.flatMap RConn.sides := by
  induction rcs with
  | nil => rfl
  | cons c cs ih =>
    simp only [ifaceSides, List.map_cons, List.flatMap_cons] at ih ⊢
    rw [ih]; rfl

theorem pairwise_not_same_of_nodup {ps : List Patch} (hn : NamesOk ps) {l : List Face}
    (hl : ∀ f ∈ l, f.patch ∈ ps) (hnd : l.Nodup) : l.Pairwise (fun a b => Face.same a b = false) := by
  refine (List.Pairwise.and_mem.mp hnd).imp ?_
  rintro a b ⟨ha, hb, hne⟩
  cases hs : Face.same a b with
  | false => rfl
  | true => exact absurd ((same_iff_eq hn (hl a ha) (hl b hb)).mp hs) hne

theorem memFace_iff {ps : List Patch} (hn : NamesOk ps) {b : Face} {joined : List Face}
    (hb : b.patch ∈ ps) (hj : ∀ g ∈ joined, g.patch ∈ ps) : memFace b joined = true ↔ b ∈ joined := by
  unfold memFace
  rw [List.any_eq_true]
  constructor
  · rintro ⟨g, hg, hs⟩
    rw [← (same_iff_eq hn (hj g hg) hb).mp hs]; exact hg
  · intro h; exact ⟨b, h, same_refl b⟩

theorem externalFaces_perm {ps : List Patch} (hn : NamesOk ps) (joined : List Face)
    (hj : ∀ g ∈ joined, g.patch ∈ ps) :
    (externalFaces (ps.flatMap Patch.boundary) joined).Perm
      ((allFaces ps).filter (fun b => decide (b ∉ joined))) := by
  have hperm := allBoundary_perm ps
  have hmemps : ∀ f ∈ ps.flatMap Patch.boundary, f.patch ∈ ps := fun f hf =>
    ((mem_allFaces ps f).mp (hperm.subset hf)).1
  have h1 : (ps.flatMap Patch.boundary).filter (fun b => !memFace b joined) =
      (ps.flatMap Patch.boundary).filter (fun b => decide (b ∉ joined)) := by
    apply List.filter_congr
    intro b hb
    have := memFace_iff hn (hmemps b hb) hj
    by_cases hbj : b ∈ joined
    · simp [hbj, this.mpr hbj]
    · have : memFace b joined = false := by
        cases hm : memFace b joined with
        | false => rfl
        | true => exact absurd (this.mp hm) hbj
      simp [hbj, this]
  unfold externalFaces
  rw [h1]
  have hnd : ((ps.flatMap Patch.boundary).filter (fun b => decide (b ∉ joined))).Nodup :=
    List.Nodup.filter _ (hperm.nodup_iff.mpr (allFaces_nodup hn.nodup))
  refine (unionBy_perm _ _ _ (pairwise_not_same_of_nodup hn ?_ hnd)).trans (hperm.filter _)
  intro f hf
  exact hmemps f (List.mem_filter.mp hf).1

/-- a duplicate-free sub-collection of the faces together with its complement is all the faces -/
theorem complement_append_perm {l joined : List Face} (hl : l.Nodup) (hj : joined.Nodup)
    (hsub : ∀ f ∈ joined, f ∈ l) :
    (l.filter (fun b => decide (b ∉ joined)) ++ joined).Perm l := by
  have h1 : joined.Perm (l.filter (fun b => decide (b ∈ joined))) := by
    rw [List.perm_ext_iff_of_nodup hj (List.Nodup.filter _ hl)]
    intro a
    simp only [List.mem_filter, decide_eq_true_eq]
    exact ⟨fun h => ⟨hsub a h, h⟩, fun h => h.2⟩
  have h2 := List.filter_append_perm (fun b => decide (b ∈ joined)) l
  have h3 : l.filter (fun x => !(fun b => decide (b ∈ joined)) x) = l.filter (fun b => decide (b ∉ joined)) := by
    apply List.filter_congr; intro x _; simp
  rw [h3] at h2
  exact (List.perm_append_comm.trans ((List.Perm.append_right _ h1).trans h2))

theorem resolved_spec {ps : List Patch} {cs : List Conn}
    (hr : resolveAll ps (headDim ps) (byIndices cs) cs = .ok (resolved ps cs)) :
    resolved ps cs = cs.map (resolveD ps (headDim ps) (byIndices cs)) ∧
    ∀ c ∈ cs, resolve ps (headDim ps) (byIndices cs) c = .ok (resolveD ps (headDim ps) (byIndices cs) c) := by
  obtain ⟨h1, h2⟩ := (resolveAll_ok _ _ _ _ _).mp hr
  refine ⟨h2, ?_⟩
  intro c hc
  obtain ⟨r, hr'⟩ := h1 c hc
  simp [resolveD, hr']

theorem resolved_faces {ps : List Patch} {cs : List Conn}
    (hr : resolveAll ps (headDim ps) (byIndices cs) cs = .ok (resolved ps cs))
    {c : RConn} (hc : c ∈ resolved ps cs) :
    c.minus ∈ c.minus.patch.faces ∧ c.plus ∈ c.plus.patch.faces := by
  obtain ⟨h1, h2⟩ := resolved_spec hr
  rw [h1] at hc
  obtain ⟨c0, hc0, rfl⟩ := List.mem_map.mp hc
  have := resolve_faces (h2 c0 hc0)
  exact ⟨this.1, this.2.1⟩

theorem joined_in {ps : List Patch} {cs : List Conn}
    (hr : resolveAll ps (headDim ps) (byIndices cs) cs = .ok (resolved ps cs)) (hok : ConnsOk ps cs) :
    ∀ f ∈ (resolved ps cs).flatMap RConn.sides, f ∈ allFaces ps := by
  intro f hf
  obtain ⟨c, hc, hfc⟩ := List.mem_flatMap.mp hf
  have hfa := resolved_faces hr hc
  have hp := hok.2.2 c hc
  simp only [RConn.sides, List.mem_cons, List.not_mem_nil, or_false] at hfc
  rcases hfc with rfl | rfl
  · exact (mem_allFaces ps _).mpr ⟨hp.1, ((mem_faces _ _).mp hfa.1).2⟩
  · exact (mem_allFaces ps _).mpr ⟨hp.2, ((mem_faces _ _).mp hfa.2).2⟩

/-! ### the logical twin -/

/-- the logical names are pairwise different -/
def LNamesOk (ps : List Patch) : Prop := NamesOk (ps.map Patch.strip)

instance (ps : List Patch) : Decidable (LNamesOk ps) := by unfold LNamesOk; infer_instance

def Iface.strip (i : Iface) : Iface := mkIface i.minus.strip i.plus.strip i.ornt
def RConn.lname (c : RConn) : String := ifaceName c.minus.patch.lname c.plus.patch.lname

/-- no ordered pair of logical patches is declared twice -/
def LConnsOk (ps : List Patch) (cs : List Conn) : Prop := ((resolved ps cs).map RConn.lname).Nodup

instance (ps : List Patch) (cs : List Conn) : Decidable (LConnsOk ps cs) := by unfold LConnsOk; infer_instance

theorem strip_name (p : Patch) : p.strip.name = p.lname := by simp [Patch.strip, Patch.name]
theorem strip_dim (p : Patch) : p.strip.dim = p.dim := rfl

theorem facesFrom_strip (p : Patch) (n : Nat) : facesFrom p.strip n = (facesFrom p n).map Face.strip := by
  induction n with
  | zero => rfl
  | succ n ih => simp [facesFrom, ih, Face.strip]

theorem allFaces_strip (ps : List Patch) : allFaces (ps.map Patch.strip) = (allFaces ps).map Face.strip := by
  induction ps with
  | nil => rfl
  | cons p ps ih =>
    simp only [allFaces, List.map_cons, List.flatMap_cons, List.map_append] at ih ⊢
    rw [ih]
    congr 1
    exact facesFrom_strip p p.dim

theorem face_logical_of_mapped {f : Face} (h : f.patch.mapping.isSome) : f.logical = some f.strip := by
  simp [Face.logical, h]

theorem iface_logical_of_mapped {i : Iface} (h1 : i.minus.patch.mapping.isSome) (h2 : i.plus.patch.mapping.isSome) :
    i.logical = some i.strip := by
  simp [Iface.logical, face_logical_of_mapped h1, face_logical_of_mapped h2, Iface.strip]

theorem toIface_strip_name (c : RConn) : c.toIface.strip.name = c.lname := by
  simp [RConn.toIface, Iface.strip, mkIface, RConn.lname, Face.strip, strip_name]

theorem logicalIfaces_eq (is : List Iface) (acc : List Iface)
    (hl : ∀ i ∈ is, i.logical = some i.strip)
    (hnd : (acc.map Iface.name ++ is.map (fun i => i.strip.name)).Nodup) :
    logicalIfaces acc is = .ok (acc ++ is.map Iface.strip) := by
  induction is generalizing acc with
  | nil => simp [logicalIfaces]
  | cons i is ih =>
    simp only [logicalIfaces, hl i (by simp)]
    have hfresh : ∀ e ∈ acc, e.name ≠ i.strip.name := by
      intro e he heq
      rw [List.nodup_append] at hnd
      exact hnd.2.2 e.name (List.mem_map_of_mem he) i.strip.name (by simp) heq
    rw [connSet_fresh acc _ hfresh, ih _ (fun j hj => hl j (List.mem_cons_of_mem _ hj))]
    · simp
    · simpa using hnd

theorem dictSet_fresh {κ ν : Type} (eq : κ → κ → Bool) (d : List (κ × ν)) (k : κ) (v : ν)
    (h : ∀ e ∈ d, eq e.1 k = false) : dictSet eq d k v = d ++ [(k, v)] := by
  unfold dictSet
  have : d.any (fun e => eq e.1 k) = false := by
    rw [List.any_eq_false]; intro e he; simp [h e he]
  simp [this]

theorem mappingDict_eq (ps : List Patch) (h : (ps.map Patch.lname).Nodup) :
    mappingDict ps = ps.map (fun p => (p.lname, p.mapping.getD "")) := by
  unfold mappingDict
  suffices H : ∀ (acc : List (String × String)), (acc.map (·.1) ++ ps.map Patch.lname).Nodup →
      ps.foldl (fun d p => dictSet (· == ·) d p.lname (p.mapping.getD "")) acc =
        acc ++ ps.map (fun p => (p.lname, p.mapping.getD "")) by
    simpa using H [] (by simpa using h)
  induction ps with
  | nil => intro acc _; simp
  | cons p ps ih =>
    intro acc hacc
    simp only [List.foldl_cons]
    have hps : (ps.map Patch.lname).Nodup := (List.nodup_cons.mp h).2
    rw [dictSet_fresh, ih hps]
    · simp
    · simpa using hacc
    · intro e he
      rw [List.nodup_append] at hacc
      have := hacc.2.2 e.1 (List.mem_map_of_mem he) p.lname (by simp)
      simpa using this

theorem finishJoin_mapped {name : String} {ints : List Patch} {bnd : List Face} {ifs : List Iface} {d : Dom}
    (h : finishJoin name ints bnd ifs = .ok d) (hm : ints.all (fun e => e.mapping.isSome) = true) :
    ∃ lifs, logicalIfaces [] ifs = .ok lifs ∧
      d.logical = some ⟨name, unionPatches (ints.map Patch.strip), unionFaces (bnd.filterMap Face.logical), lifs⟩ ∧
      d.mappings = mappingDict ints := by
  unfold finishJoin at h
  split at h
  · cases h
  · rw [if_pos hm] at h
    simp only [bind, Except.bind] at h
    split at h
    · cases h
    · rename_i lifs hl
      simp only [Except.ok.injEq] at h; subst h
      exact ⟨lifs, hl, rfl, rfl⟩

theorem finishJoin_unmapped {name : String} {ints : List Patch} {bnd : List Face} {ifs : List Iface} {d : Dom}
    (h : finishJoin name ints bnd ifs = .ok d) (hm : ints.all (fun e => e.mapping.isSome) = false) :
    d.logical = none ∧ d.mappings = [] := by
  unfold finishJoin at h
  split at h
  · cases h
  · rw [if_neg (by simp [hm])] at h
    simp only [Except.ok.injEq] at h; subst h
    exact ⟨rfl, rfl⟩

theorem filterMap_eq_map_of {α β : Type} (f : α → Option β) (g : α → β) (l : List α)
    (h : ∀ x ∈ l, f x = some (g x)) : l.filterMap f = l.map g := by
  induction l with
  | nil => rfl
  | cons x xs ih =>
    simp only [List.filterMap_cons, h x (by simp), List.map_cons]
    rw [ih (fun y hy => h y (List.mem_cons_of_mem _ hy))]

theorem LNamesOk.patch_inj {ps : List Patch} (h : LNamesOk ps) {p q : Patch} (hp : p ∈ ps) (hq : q ∈ ps)
    (e : p.strip = q.strip) : p = q := by
  unfold LNamesOk NamesOk at h
  rw [List.map_map] at h
  exact List.inj_on_of_nodup_map h hp hq (by simp [Function.comp, e])

theorem LNamesOk.face_inj {ps : List Patch} (h : LNamesOk ps) {f g : Face} (hf : f.patch ∈ ps) (hg : g.patch ∈ ps)
    (e : f.strip = g.strip) : f = g := by
  have h1 : f.patch.strip = g.patch.strip := by
    have := congrArg Face.patch e; simpa [Face.strip] using this
  have h2 : f.axis = g.axis := by have := congrArg Face.axis e; simpa [Face.strip] using this
  have h3 : f.ext = g.ext := by have := congrArg Face.ext e; simpa [Face.strip] using this
  have := h.patch_inj hf hg h1
  cases f; cases g; simp_all

theorem LNamesOk.lnames {ps : List Patch} (h : LNamesOk ps) : (ps.map Patch.lname).Nodup := by
  unfold LNamesOk NamesOk at h
  rw [List.map_map] at h
  have : (Patch.name ∘ Patch.strip) = Patch.lname := by funext p; simp [Function.comp, strip_name]
  rwa [this] at h

theorem LNamesOk.perm {ps qs : List Patch} (h : LNamesOk ps) (hp : qs.Perm ps) : LNamesOk qs := by
  unfold LNamesOk NamesOk at h ⊢
  exact (((hp.map Patch.strip).map Patch.name).nodup_iff).mpr h

theorem ifaceSides_map_strip (ifs : List Iface) :
    ifaceSides (ifs.map Iface.strip) = (ifaceSides ifs).map Face.strip := by
  induction ifs with
  | nil => rfl
  | cons i is ih =>
    simp only [ifaceSides, List.map_cons, List.flatMap_cons, List.map_append] at ih ⊢
    rw [ih]; rfl

theorem strip_patch_mem {ps : List Patch} {f : Face} (h : f.patch ∈ ps) : f.strip.patch ∈ ps.map Patch.strip :=
  List.mem_map_of_mem h

/-! ### order of the declared connections -/

theorem logicalIfaces_ok_of (is : List Iface) (acc : List Iface)
    (h : ∀ i ∈ is, ∃ l, i.logical = some l) : ∃ r, logicalIfaces acc is = .ok r := by
  induction is generalizing acc with
  | nil => exact ⟨acc, rfl⟩
  | cons i is ih =>
    obtain ⟨l, hl⟩ := h i (by simp)
    simp only [logicalIfaces, hl]
    exact ih _ (fun j hj => h j (List.mem_cons_of_mem _ hj))

theorem logicalIfaces_ok_all (is : List Iface) (acc : List Iface) (r : List Iface)
    (h : logicalIfaces acc is = .ok r) : ∀ i ∈ is, ∃ l, i.logical = some l := by
  induction is generalizing acc with
  | nil => intro i hi; cases hi
  | cons i is ih =>
    simp only [logicalIfaces] at h
    cases hl : i.logical with
    | none => rw [hl] at h; cases h
    | some l =>
      rw [hl] at h
      intro j hj
      rcases List.mem_cons.mp hj with rfl | hj
      · exact ⟨l, hl⟩
      · exact ih _ h j hj

theorem finishJoin_eq_unmapped {name : String} {ints : List Patch} {bnd : List Face} {ifs : List Iface}
    (hne : ∀ x, ints ≠ [x]) (hm : ints.all (fun e => e.mapping.isSome) = false) :
    finishJoin name ints bnd ifs =
      .ok { name := name, interiors := ints, boundary := bnd, ifaces := ifs, logical := none, mappings := [] } := by
  unfold finishJoin
  split
  · rename_i x; exact absurd rfl (hne x)
  · simp [hm]

theorem finishJoin_eq_mapped {name : String} {ints : List Patch} {bnd : List Face} {ifs lifs : List Iface}
    (hne : ∀ x, ints ≠ [x]) (hm : ints.all (fun e => e.mapping.isSome) = true)
    (hl : logicalIfaces [] ifs = .ok lifs) :
    finishJoin name ints bnd ifs =
      .ok { name := name, interiors := ints, boundary := bnd, ifaces := ifs,
            logical := some ⟨name, unionPatches (ints.map Patch.strip), unionFaces (bnd.filterMap Face.logical), lifs⟩,
            mappings := mappingDict ints } := by
  unfold finishJoin
  split
  · rename_i x; exact absurd rfl (hne x)
  · simp [hm, hl, bind, Except.bind]

theorem finishJoin_not_single {name : String} {ints : List Patch} {bnd : List Face} {ifs : List Iface} {d : Dom}
    (h : finishJoin name ints bnd ifs = .ok d) : ∀ x, ints ≠ [x] := by
  intro x hx; subst hx; simp [finishJoin] at h

/-- the result of the tail of `join` depends on the order of the dictionary only through the dictionary -/
theorem finishJoin_perm {name : String} {ints : List Patch} {bnd : List Face} {ifs ifs' : List Iface} {d : Dom}
    (h : finishJoin name ints bnd ifs = .ok d) (hp : ifs'.Perm ifs) :
    ∃ d', finishJoin name ints bnd ifs' = .ok d' ∧ d'.name = d.name ∧ d'.interiors = d.interiors ∧
      d'.boundary = d.boundary ∧ d'.ifaces = ifs' ∧ d'.mappings = d.mappings ∧
      (d'.logical.isSome = d.logical.isSome) ∧
      ∀ L L', d.logical = some L → d'.logical = some L' →
        L'.name = L.name ∧ L'.interiors = L.interiors ∧ L'.boundary = L.boundary := by
  have hne := finishJoin_not_single h
  cases hm : ints.all (fun e => e.mapping.isSome) with
  | false =>
    rw [finishJoin_eq_unmapped hne hm] at h
    rw [finishJoin_eq_unmapped hne hm]
    simp only [Except.ok.injEq] at h; subst h
    refine ⟨_, rfl, rfl, rfl, rfl, rfl, rfl, rfl, ?_⟩
    intro L L' h1; cases h1
  | true =>
    obtain ⟨lifs, hl, hlog, hmap⟩ := finishJoin_mapped h hm
    obtain ⟨r, hr⟩ := logicalIfaces_ok_of ifs' [] (fun i hi =>
      logicalIfaces_ok_all ifs [] lifs hl i (hp.subset hi))
    rw [finishJoin_eq_mapped hne hm hl] at h
    rw [finishJoin_eq_mapped hne hm hr]
    simp only [Except.ok.injEq] at h; subst h
    refine ⟨_, rfl, rfl, rfl, rfl, rfl, rfl, rfl, ?_⟩
    intro L L' h1 h2
    simp only [Option.some.injEq] at h1 h2
    subst h1; subst h2
    exact ⟨rfl, rfl, rfl⟩

theorem join_of_finish {ps : List Patch} {cs : List Conn} {name : String} {d : Dom} {rcs : List RConn}
    (hlen : 2 ≤ ps.length) (hdim : ∀ p ∈ ps, p.dim = headDim ps)
    (hr : resolveAll ps (headDim ps) (byIndices cs) cs = .ok rcs)
    (hf : finishJoin name (unionPatches ps) (externalFaces (ps.flatMap Patch.boundary) (rcs.flatMap RConn.sides))
      (buildIfaces rcs) = .ok d) : join ps cs name = .ok d := by
  match ps, hlen with
  | p0 :: p1 :: rest, _ =>
    simp only [join]
    have : (p0 :: p1 :: rest).any (fun p => p.dim != p0.dim) = false := by
      rw [List.any_eq_false]; intro p hp
      have := hdim p hp
      simp only [headDim] at this
      simp [this]
    simp only [this, Bool.false_eq_true, if_false, bind, Except.bind]
    simp only [headDim] at hr
    rw [hr]
    exact hf

theorem byIndices_of_resolveAll {ps : List Patch} {dim : Nat} {b : Bool} {cs : List Conn} {rcs : List RConn}
    (h : resolveAll ps dim b cs = .ok rcs) : ∀ c ∈ cs, c.minus.ref.isIdx = b := by
  intro c hc
  obtain ⟨r, hr⟩ := ((resolveAll_ok _ _ _ _ _).mp h).1 c hc
  exact (resolve_faces hr).2.2.2.2.2.2.1

theorem byIndices_perm {ps : List Patch} {dim : Nat} {cs cs' : List Conn} {rcs : List RConn}
    (h : resolveAll ps dim (byIndices cs) cs = .ok rcs) (hp : cs'.Perm cs) : byIndices cs' = byIndices cs := by
  cases cs' with
  | nil =>
    have : cs = [] := List.Perm.eq_nil (hp.symm)
    subst this; rfl
  | cons c cs'' =>
    simp only [byIndices]
    exact byIndices_of_resolveAll h c (hp.subset (by simp))

theorem memFace_perm (b : Face) {j j' : List Face} (hp : j'.Perm j) : memFace b j' = memFace b j := by
  unfold memFace; exact hp.any_eq

theorem externalFaces_perm_joined (allB : List Face) {j j' : List Face} (hp : j'.Perm j) :
    externalFaces allB j' = externalFaces allB j := by
  unfold externalFaces
  congr 1
  apply List.filter_congr
  intro b _
  rw [memFace_perm b hp]

theorem resolved_perm {ps : List Patch} {cs cs' : List Conn}
    (hr : resolveAll ps (headDim ps) (byIndices cs) cs = .ok (resolved ps cs)) (hp : cs'.Perm cs) :
    resolveAll ps (headDim ps) (byIndices cs') cs' = .ok (resolved ps cs') ∧
    (resolved ps cs').Perm (resolved ps cs) := by
  have hb := byIndices_perm hr hp
  obtain ⟨h1, h2⟩ := (resolveAll_ok _ _ _ _ _).mp hr
  have hr' : resolveAll ps (headDim ps) (byIndices cs') cs' =
      .ok (cs'.map (resolveD ps (headDim ps) (byIndices cs))) := by
    rw [hb]
    exact (resolveAll_ok _ _ _ _ _).mpr ⟨fun c hc => h1 c (hp.subset hc), rfl⟩
  have hres' : resolved ps cs' = cs'.map (resolveD ps (headDim ps) (byIndices cs)) := by
    simp [resolved, hr']
  refine ⟨by rw [hres']; exact hr', ?_⟩
  rw [hres', h2]
  exact hp.map _

theorem ConnsOk.perm {ps : List Patch} {cs cs' : List Conn} (hok : ConnsOk ps cs)
    (hp : (resolved ps cs').Perm (resolved ps cs)) : ConnsOk ps cs' := by
  refine ⟨((hp.flatMap_right _).nodup_iff).mpr hok.1, ((hp.map _).nodup_iff).mpr hok.2.1, ?_⟩
  intro c hc
  exact hok.2.2 c (hp.subset hc)

/-! ### interface names are unambiguous when the patch names contain no `|` -/


def PipeFree (s : String) : Prop := '|' ∉ s.toList
instance (s : String) : Decidable (PipeFree s) := by unfold PipeFree; infer_instance

theorem split_at_sep {α : Type} (c : α) (l1 l2 r1 r2 : List α) (h1 : c ∉ l1) (h2 : c ∉ l2)
    (h : l1 ++ c :: r1 = l2 ++ c :: r2) : l1 = l2 ∧ r1 = r2 := by
  induction l1 generalizing l2 with
  | nil =>
    cases l2 with
    | nil => simpa using h
    | cons y ys =>
      simp only [List.nil_append, List.cons_append, List.cons.injEq] at h
      exact absurd (h.1 ▸ (by simp : y ∈ y :: ys)) (by simp [h.1] at h2)
  | cons x xs ih =>
    cases l2 with
    | nil =>
      simp only [List.nil_append, List.cons_append, List.cons.injEq] at h
      exact absurd (by rw [h.1]; simp) h1
    | cons y ys =>
      simp only [List.cons_append, List.cons.injEq] at h
      obtain ⟨r1', r2'⟩ := ih ys (fun hc => h1 (List.mem_cons_of_mem _ hc)) (fun hc => h2 (List.mem_cons_of_mem _ hc)) h.2
      exact ⟨by rw [h.1, r1'], r2'⟩

theorem ifaceName_inj {a b a' b' : String} (ha : PipeFree a) (ha' : PipeFree a')
    (h : ifaceName a b = ifaceName a' b') : a = a' ∧ b = b' := by
  unfold ifaceName at h
  have := congrArg String.toList h
  simp only [String.toList_append] at this
  have hs : ("|" : String).toList = ['|'] := rfl
  rw [hs] at this
  simp only [List.append_assoc, List.cons_append, List.nil_append] at this
  obtain ⟨h1, h2⟩ := split_at_sep '|' _ _ _ _ ha ha' this
  exact ⟨String.toList_inj.mp h1, String.toList_inj.mp h2⟩

/-! ### grids of n-cubes -/


theorem mem_gridIdx (n1 n2 n3 : Nat) (x : Nat × Nat × Nat) :
    x ∈ gridIdx n1 n2 n3 ↔ x.1 < n1 ∧ x.2.1 < n2 ∧ x.2.2 < n3 := by
  obtain ⟨a, b, c⟩ := x
  simp only [gridIdx, List.mem_flatMap, List.mem_range, List.mem_map, Prod.mk.injEq]
  constructor
  · rintro ⟨i, hi, j, hj, k, hk, rfl, rfl, rfl⟩; exact ⟨hi, hj, hk⟩
  · rintro ⟨h1, h2, h3⟩; exact ⟨a, h1, b, h2, c, h3, rfl, rfl, rfl⟩

theorem gridIdx_nodup (n1 n2 n3 : Nat) : (gridIdx n1 n2 n3).Nodup := by
  unfold gridIdx
  rw [List.nodup_flatMap]
  refine ⟨?_, ?_⟩
  · intro i _
    rw [List.nodup_flatMap]
    refine ⟨?_, ?_⟩
    · intro j _
      exact List.Nodup.map (fun a b h => by simpa using h) List.nodup_range
    · refine (List.nodup_range (n := n2)).imp ?_
      intro a b hab
      simp only [Function.onFun]
      intro x h1 h2
      simp only [List.mem_map] at h1 h2
      obtain ⟨_, _, rfl⟩ := h1
      obtain ⟨_, _, h⟩ := h2
      simp only [Prod.mk.injEq] at h
      exact hab h.2.1.symm
  · refine (List.nodup_range (n := n1)).imp ?_
    intro a b hab
    simp only [Function.onFun]
    intro x h1 h2
    simp only [List.mem_flatMap, List.mem_map] at h1 h2
    obtain ⟨_, _, _, _, rfl⟩ := h1
    obtain ⟨_, _, _, _, h⟩ := h2
    simp only [Prod.mk.injEq] at h
    exact hab h.1.symm

theorem next_spec (g : Grid) (x y : Nat × Nat × Nat) (a : Nat) (ha : a < 3) (hx : x ∈ g.idxs)
    (h : g.next x a = some y) :
    y ∈ g.idxs ∧ ∃ v, y = idxSet x a v ∧ v ≠ idxGet x a ∧
      (v = idxGet x a + 1 ∨ (v = 0 ∧ idxGet x a + 1 = g.size a)) := by
  unfold Grid.next at h
  simp only [Grid.idxs, mem_gridIdx] at hx ⊢
  obtain ⟨x1, x2, x3⟩ := x
  rcases hn : g.n with ⟨n1, n2, n3⟩
  simp only [Grid.size, hn] at h ⊢
  simp only [hn] at hx
  rcases a with _ | _ | _ | a
  · simp only [idxGet, idxSet] at h ⊢
    split at h
    · simp only [Option.some.injEq] at h; subst h
      refine ⟨⟨?_, ?_, ?_⟩, x1 + 1, rfl, ?_, Or.inl rfl⟩ <;> (try dsimp only at *) <;> omega
    · split at h
      · rename_i h1 h2
        simp only [Option.some.injEq] at h; subst h
        simp only [Bool.and_eq_true, decide_eq_true_eq] at h2
        refine ⟨⟨?_, ?_, ?_⟩, 0, rfl, ?_, Or.inr ⟨rfl, ?_⟩⟩ <;> (try dsimp only at *) <;> omega
      · cases h
  · simp only [idxGet, idxSet] at h ⊢
    split at h
    · simp only [Option.some.injEq] at h; subst h
      refine ⟨⟨?_, ?_, ?_⟩, x2 + 1, rfl, ?_, Or.inl rfl⟩ <;> (try dsimp only at *) <;> omega
    · split at h
      · rename_i h1 h2
        simp only [Option.some.injEq] at h; subst h
        simp only [Bool.and_eq_true, decide_eq_true_eq] at h2
        refine ⟨⟨?_, ?_, ?_⟩, 0, rfl, ?_, Or.inr ⟨rfl, ?_⟩⟩ <;> (try dsimp only at *) <;> omega
      · cases h
  · simp only [idxGet, idxSet] at h ⊢
    split at h
    · simp only [Option.some.injEq] at h; subst h
      refine ⟨⟨?_, ?_, ?_⟩, x3 + 1, rfl, ?_, Or.inl rfl⟩ <;> (try dsimp only at *) <;> omega
    · split at h
      · rename_i h1 h2
        simp only [Option.some.injEq] at h; subst h
        simp only [Bool.and_eq_true, decide_eq_true_eq] at h2
        refine ⟨⟨?_, ?_, ?_⟩, 0, rfl, ?_, Or.inr ⟨rfl, ?_⟩⟩ <;> (try dsimp only at *) <;> omega
      · cases h
  · omega

theorem idxSet_axis {x : Nat × Nat × Nat} {a a' v v' : Nat} (ha : a < 3) (ha' : a' < 3)
    (hv : v ≠ idxGet x a) (hv' : v' ≠ idxGet x a') (h : idxSet x a v = idxSet x a' v') : a = a' := by
  obtain ⟨x1, x2, x3⟩ := x
  rcases a with _ | _ | _ | a <;> rcases a' with _ | _ | _ | a' <;>
    simp only [idxSet, idxGet, Prod.mk.injEq] at h hv hv' <;> omega

theorem next_axis_unique (g : Grid) {x y : Nat × Nat × Nat} {a a' : Nat} (ha : a < 3) (ha' : a' < 3)
    (hx : x ∈ g.idxs) (h : g.next x a = some y) (h' : g.next x a' = some y) : a = a' := by
  obtain ⟨_, v, hy, hv, _⟩ := next_spec g x y a ha hx h
  obtain ⟨_, v', hy', hv', _⟩ := next_spec g x y a' ha' hx h'
  exact idxSet_axis ha ha' hv hv' (hy.symm.trans hy')

theorem next_inj (g : Grid) {x x' y : Nat × Nat × Nat} {a : Nat} (ha : a < 3)
    (hx : x ∈ g.idxs) (hx' : x' ∈ g.idxs) (h : g.next x a = some y) (h' : g.next x' a = some y) : x = x' := by
  obtain ⟨_, v, hy, hv, hc⟩ := next_spec g x y a ha hx h
  obtain ⟨_, v', hy', hv', hc'⟩ := next_spec g x' y a ha hx' h'
  have e := hy.symm.trans hy'
  obtain ⟨x1, x2, x3⟩ := x
  obtain ⟨y1, y2, y3⟩ := x'
  rcases a with _ | _ | _ | a <;>
    simp only [idxSet, idxGet, Prod.mk.injEq] at e hv hv' hc hc' ⊢ <;> omega

theorem next_ne (g : Grid) {x y : Nat × Nat × Nat} {a : Nat} (ha : a < 3)
    (hx : x ∈ g.idxs) (h : g.next x a = some y) : x ≠ y := by
  obtain ⟨_, v, hy, hv, _⟩ := next_spec g x y a ha hx h
  intro e; subst e
  obtain ⟨x1, x2, x3⟩ := x
  rcases a with _ | _ | _ | a <;> simp only [idxSet, idxGet, Prod.mk.injEq] at hy hv <;> omega

/-- hygiene of a grid layout: dimension 1..3, every patch has that dimension, the patch names are
    pairwise different and contain no `|` (the separator of interface names) -/
structure GridOk (g : Grid) : Prop where
  dpos : 1 ≤ g.d
  dle : g.d ≤ 3
  dim : ∀ x ∈ g.idxs, (g.patch x).dim = g.d
  names : NamesOk g.patches
  pipe : ∀ x ∈ g.idxs, PipeFree (g.patch x).name
  orntOk : ∀ x a, ∃ o, mkOrnt g.d (g.ornt x a) = .ok o

theorem GridOk.patch_inj {g : Grid} (hg : GridOk g) {x x' : Nat × Nat × Nat} (hx : x ∈ g.idxs) (hx' : x' ∈ g.idxs)
    (h : g.patch x = g.patch x') : x = x' := by
  have := hg.names
  unfold NamesOk Grid.patches at this
  rw [List.map_map] at this
  exact List.inj_on_of_nodup_map this hx hx' (by simp [Function.comp, h])

/-- the orientation of the connection (x, +a) after the defaults of `Domain.join` -/
def Grid.orntOf (g : Grid) (x : Nat × Nat × Nat) (a : Nat) : Ornt :=
  match mkOrnt g.d (g.ornt x a) with
  | .ok o => o
  | .error _ => .none

/-- the connection of the lattice positions `x` and `y = next x a`, and what it resolves to -/
def Grid.mkConn (g : Grid) (x : Nat × Nat × Nat) (a : Nat) (y : Nat × Nat × Nat) : Conn :=
  ⟨⟨.obj (g.patch x), some a, 1⟩, ⟨.obj (g.patch y), some a, -1⟩, g.ornt x a⟩

def Grid.mkR (g : Grid) (x : Nat × Nat × Nat) (a : Nat) (y : Nat × Nat × Nat) : RConn :=
  ⟨⟨g.patch x, a, 1⟩, ⟨g.patch y, a, -1⟩, g.orntOf x a⟩

theorem mem_gridConns (g : Grid) (c : Conn) :
    c ∈ g.conns ↔ ∃ x ∈ g.idxs, ∃ a, a < g.d ∧ ∃ y, g.next x a = some y ∧ c = g.mkConn x a y := by
  simp only [Grid.conns, List.mem_flatMap, List.mem_filterMap, List.mem_range, Option.map_eq_some_iff,
    Grid.mkConn]
  constructor
  · rintro ⟨x, hx, a, ha, y, hy, rfl⟩; exact ⟨x, hx, a, ha, y, hy, rfl⟩
  · rintro ⟨x, hx, a, ha, y, hy, rfl⟩; exact ⟨x, hx, a, ha, y, hy, rfl⟩

theorem resolve_grid {g : Grid} (hg : GridOk g) (ps : List Patch) {x y : Nat × Nat × Nat} {a : Nat}
    (hx : x ∈ g.idxs) (hy : y ∈ g.idxs) (ha : a < g.d) :
    resolve ps g.d false (g.mkConn x a y) = .ok (g.mkR x a y) := by
  have h1 : (g.patch x).getBoundary (some a) 1 = .ok ⟨g.patch x, a, 1⟩ := by
    simp only [Patch.getBoundary, normAxis, bind, Except.bind]
    rw [findFace_boundary]; simp [hg.dim x hx, ha]
  have h2 : (g.patch y).getBoundary (some a) (-1) = .ok ⟨g.patch y, a, -1⟩ := by
    simp only [Patch.getBoundary, normAxis, bind, Except.bind]
    rw [findFace_boundary]; simp [hg.dim y hy, ha]
  have h3 : mkOrnt g.d (g.ornt x a) = .ok (g.orntOf x a) := by
    obtain ⟨o, ho⟩ := hg.orntOk x a
    simp [Grid.orntOf, ho]
  simp only [resolve, Grid.mkConn, Bool.false_eq_true, if_false, bind, Except.bind, pure, Except.pure, h1, h2, h3,
    hg.dim x hx, hg.dim y hy, Grid.mkR]
  simp

/-- a duplicate-free selection of grid connections, in any order -/
def GridSel (g : Grid) (cs : List Conn) : Prop := cs.Nodup ∧ ∀ c ∈ cs, c ∈ g.conns

theorem headDim_grid {g : Grid} (hg : GridOk g) (h : g.patches ≠ []) : headDim g.patches = g.d := by
  unfold Grid.patches at h ⊢
  cases hi : g.idxs with
  | nil => simp [hi] at h
  | cons x xs =>
    simp only [List.map_cons, headDim]
    exact hg.dim x (by simp [hi])

theorem byIndices_grid {g : Grid} {cs : List Conn} (hs : ∀ c ∈ cs, c ∈ g.conns) : byIndices cs = false := by
  cases cs with
  | nil => rfl
  | cons c cs =>
    obtain ⟨x, _, a, _, y, _, rfl⟩ := (mem_gridConns g c).mp (hs c (by simp))
    rfl

theorem resolved_grid {g : Grid} (hg : GridOk g) {cs : List Conn} (hs : ∀ c ∈ cs, c ∈ g.conns)
    (hne : g.patches ≠ []) :
    resolveAll g.patches (headDim g.patches) (byIndices cs) cs = .ok (resolved g.patches cs) ∧
    resolved g.patches cs = cs.map (resolveD g.patches (headDim g.patches) (byIndices cs)) ∧
    ∀ c ∈ cs, ∃ x ∈ g.idxs, ∃ a, a < g.d ∧ ∃ y, g.next x a = some y ∧ y ∈ g.idxs ∧ c = g.mkConn x a y ∧
      resolveD g.patches (headDim g.patches) (byIndices cs) c = g.mkR x a y := by
  have hres : ∀ c ∈ cs, ∃ x ∈ g.idxs, ∃ a, a < g.d ∧ ∃ y, g.next x a = some y ∧ y ∈ g.idxs ∧ c = g.mkConn x a y ∧
      resolve g.patches (headDim g.patches) (byIndices cs) c = .ok (g.mkR x a y) := by
    intro c hc
    obtain ⟨x, hx, a, ha, y, hy, rfl⟩ := (mem_gridConns g c).mp (hs c hc)
    have hy' := (next_spec g x y a (by have := hg.dle; omega) hx hy).1
    refine ⟨x, hx, a, ha, y, hy, hy', rfl, ?_⟩
    rw [headDim_grid hg hne, byIndices_grid hs]
    exact resolve_grid hg _ hx hy' ha
  have hall : resolveAll g.patches (headDim g.patches) (byIndices cs) cs =
      .ok (cs.map (resolveD g.patches (headDim g.patches) (byIndices cs))) :=
    (resolveAll_ok _ _ _ _ _).mpr ⟨fun c hc => by
      obtain ⟨x, _, a, _, y, _, _, _, h⟩ := hres c hc; exact ⟨_, h⟩, rfl⟩
  have hr : resolved g.patches cs = cs.map (resolveD g.patches (headDim g.patches) (byIndices cs)) := by
    simp [resolved, hall]
  refine ⟨by rw [hr]; exact hall, hr, ?_⟩
  intro c hc
  obtain ⟨x, hx, a, ha, y, hy, hy', rfl, h⟩ := hres c hc
  exact ⟨x, hx, a, ha, y, hy, hy', rfl, by simp [resolveD, h]⟩

theorem mkR_determines {g : Grid} (hg : GridOk g) {x x' y y' : Nat × Nat × Nat} {a a' : Nat}
    (hx : x ∈ g.idxs) (hx' : x' ∈ g.idxs) (hy : y ∈ g.idxs) (hy' : y' ∈ g.idxs)
    (ha : a < g.d) (ha' : a' < g.d) (hn : g.next x a = some y) (hn' : g.next x' a' = some y')
    (h : (g.mkR x a y).minus = (g.mkR x' a' y').minus ∨ (g.mkR x a y).plus = (g.mkR x' a' y').plus ∨
         (g.mkR x a y).name = (g.mkR x' a' y').name) :
    x = x' ∧ a = a' ∧ y = y' := by
  have h3 := hg.dle
  rcases h with h | h | h
  · simp only [Grid.mkR, Face.mk.injEq] at h
    have e := hg.patch_inj hx hx' h.1
    subst e
    have := h.2.1; subst this
    rw [hn] at hn'
    exact ⟨rfl, rfl, by simpa using hn'⟩
  · simp only [Grid.mkR, Face.mk.injEq] at h
    have e := hg.patch_inj hy hy' h.1
    subst e
    have := h.2.1; subst this
    exact ⟨next_inj g (by omega) hx hx' hn hn', rfl, rfl⟩
  · simp only [Grid.mkR, RConn.name] at h
    obtain ⟨e1, e2⟩ := ifaceName_inj (hg.pipe x hx) (hg.pipe x' hx') h
    have ex := hg.patch_inj hx hx' (hg.names.inj (List.mem_map_of_mem hx) (List.mem_map_of_mem hx') e1)
    have ey := hg.patch_inj hy hy' (hg.names.inj (List.mem_map_of_mem hy) (List.mem_map_of_mem hy') e2)
    subst ex; subst ey
    exact ⟨rfl, next_axis_unique g (by omega) (by omega) hx hn hn', rfl⟩

theorem connsOk_grid {g : Grid} (hg : GridOk g) {cs : List Conn} (hsel : GridSel g cs) (hne : g.patches ≠ []) :
    ConnsOk g.patches cs := by
  obtain ⟨_, hspec, hc⟩ := resolved_grid hg hsel.2 hne
  have hd3 := hg.dle
  -- two different selected connections share no face and no name
  have key : ∀ c ∈ cs, ∀ c' ∈ cs, c ≠ c' →
      let r := resolveD g.patches (headDim g.patches) (byIndices cs) c
      let r' := resolveD g.patches (headDim g.patches) (byIndices cs) c'
      r.name ≠ r'.name ∧ ∀ f ∈ r.sides, f ∉ r'.sides := by
    intro c hcm c' hcm' hne'
    obtain ⟨x, hx, a, ha, y, hy, hym, rfl, e⟩ := hc c hcm
    obtain ⟨x', hx', a', ha', y', hy', hym', rfl, e'⟩ := hc c' hcm'
    simp only [e, e']
    have hdiff : ¬(x = x' ∧ a = a' ∧ y = y') := by
      rintro ⟨rfl, rfl, rfl⟩; exact hne' rfl
    refine ⟨fun hn => hdiff (mkR_determines hg hx hx' hym hym' ha ha' hy hy' (Or.inr (Or.inr hn))), ?_⟩
    intro f hf hf'
    simp only [RConn.sides, List.mem_cons, List.not_mem_nil, or_false] at hf hf'
    rcases hf with rfl | rfl <;> rcases hf' with h | h
    · exact hdiff (mkR_determines hg hx hx' hym hym' ha ha' hy hy' (Or.inl h))
    · simp [Grid.mkR] at h
    · simp [Grid.mkR] at h
    · exact hdiff (mkR_determines hg hx hx' hym hym' ha ha' hy hy' (Or.inr (Or.inl h)))
  have hpw : cs.Pairwise (fun c c' =>
      (resolveD g.patches (headDim g.patches) (byIndices cs) c).name ≠
        (resolveD g.patches (headDim g.patches) (byIndices cs) c').name ∧
      ∀ f ∈ (resolveD g.patches (headDim g.patches) (byIndices cs) c).sides,
        f ∉ (resolveD g.patches (headDim g.patches) (byIndices cs) c').sides) := by
    refine (List.Pairwise.and_mem.mp hsel.1).imp ?_
    rintro c c' ⟨h1, h2, h3⟩
    exact key c h1 c' h2 h3
  refine ⟨?_, ?_, ?_⟩
  · rw [hspec, List.nodup_flatMap]
    constructor
    · intro r hr
      obtain ⟨c, hcm, rfl⟩ := List.mem_map.mp hr
      obtain ⟨x, _, a, _, y, _, _, _, e⟩ := hc c hcm
      rw [e]; simp [RConn.sides, Grid.mkR]
    · rw [List.pairwise_map]
      exact hpw.imp (fun h => by
        simp only [Function.onFun]
        intro f hf hf'
        exact h.2 f hf hf')
  · rw [hspec, List.map_map, List.Nodup, List.pairwise_map]
    exact hpw.imp (fun h => h.1)
  · intro r hr
    rw [hspec] at hr
    obtain ⟨c, hcm, rfl⟩ := List.mem_map.mp hr
    obtain ⟨x, hx, a, _, y, _, hym, _, e⟩ := hc c hcm
    rw [e]
    exact ⟨List.mem_map_of_mem hx, List.mem_map_of_mem hym⟩

theorem finishJoin_ok {name : String} {ints : List Patch} {bnd : List Face} {ifs : List Iface}
    (hne : ∀ x, ints ≠ [x])
    (hm : ints.all (fun e => e.mapping.isSome) = true → ∀ i ∈ ifs, ∃ l, i.logical = some l) :
    ∃ d, finishJoin name ints bnd ifs = .ok d := by
  cases hmm : ints.all (fun e => e.mapping.isSome) with
  | false => exact ⟨_, finishJoin_eq_unmapped hne hmm⟩
  | true =>
    obtain ⟨r, hr⟩ := logicalIfaces_ok_of ifs [] (hm hmm)
    exact ⟨_, finishJoin_eq_mapped hne hmm hr⟩

theorem grid_join_ok {g : Grid} (hg : GridOk g) (hlen : 2 ≤ g.patches.length) {cs : List Conn}
    (hsel : GridSel g cs) (name : String) : ∃ d, join g.patches cs name = .ok d := by
  have hne : g.patches ≠ [] := by intro h; rw [h] at hlen; simp at hlen
  obtain ⟨hr, hspec, hc⟩ := resolved_grid hg hsel.2 hne
  have hok := connsOk_grid hg hsel hne
  have hperm := unionPatches_perm hg.names
  have hfin : ∃ d, finishJoin name (unionPatches g.patches)
      (externalFaces (g.patches.flatMap Patch.boundary) ((resolved g.patches cs).flatMap RConn.sides))
      (buildIfaces (resolved g.patches cs)) = .ok d := by
    apply finishJoin_ok
    · intro x hx
      have := hperm.length_eq
      rw [hx] at this
      simp at this; omega
    · intro hall i hi
      rw [buildIfaces_eq _ hok.2.1] at hi
      obtain ⟨r, hr', rfl⟩ := List.mem_map.mp hi
      rw [List.all_eq_true] at hall
      have hp := hok.2.2 r hr'
      exact ⟨_, iface_logical_of_mapped (hall _ (hperm.mem_iff.mpr hp.1)) (hall _ (hperm.mem_iff.mpr hp.2))⟩
  obtain ⟨d, hd⟩ := hfin
  refine ⟨d, join_of_finish hlen ?_ hr hd⟩
  intro p hp
  rw [headDim_grid hg hne]
  obtain ⟨x, hx, rfl⟩ := List.mem_map.mp hp
  exact hg.dim x hx

/-- hygiene of the logical names of a (mapped) grid -/
structure GridOkL (g : Grid) : Prop where
  lnames : LNamesOk g.patches
  lpipe : ∀ x ∈ g.idxs, PipeFree (g.patch x).lname

theorem connsOkL_grid {g : Grid} (hg : GridOk g) (hl : GridOkL g) {cs : List Conn} (hsel : GridSel g cs)
    (hne : g.patches ≠ []) : LConnsOk g.patches cs := by
  obtain ⟨_, hspec, hc⟩ := resolved_grid hg hsel.2 hne
  have hd3 := hg.dle
  unfold LConnsOk
  rw [hspec, List.map_map, List.Nodup, List.pairwise_map]
  refine (List.Pairwise.and_mem.mp hsel.1).imp ?_
  rintro c c' ⟨hcm, hcm', hne'⟩
  obtain ⟨x, hx, a, ha, y, hy, hym, rfl, e⟩ := hc c hcm
  obtain ⟨x', hx', a', ha', y', hy', hym', rfl, e'⟩ := hc c' hcm'
  simp only [Function.comp, e, e']
  intro hn
  simp only [Grid.mkR, RConn.lname] at hn
  obtain ⟨e1, e2⟩ := ifaceName_inj (hl.lpipe x hx) (hl.lpipe x' hx') hn
  have hlinj := List.inj_on_of_nodup_map hl.lnames.lnames
  have ex := hg.patch_inj hx hx' (hlinj (List.mem_map_of_mem hx) (List.mem_map_of_mem hx') e1)
  have ey := hg.patch_inj hym hym' (hlinj (List.mem_map_of_mem hym) (List.mem_map_of_mem hym') e2)
  subst ex; subst ey
  have := next_axis_unique g (by omega) (by omega) hx hy hy'
  subst this
  exact hne' rfl

end Sympde.Topo
