/-
  Helper lemmas for C01 (`lower_sound`), part 2: types and shapes of lowered values, the classical
  operators as functions of the components of their arguments (`op1sem`, `op2sem`), their
  congruence on the in-range components, and the generic step "a leaf class applied to lowered
  arguments denotes the classical operator applied to what the arguments denote".
-/
import SympdeModel.Lemmas.Lower
namespace Sympde.Lower
open E PD
open DRing (sumN sumN_congr)

variable {K : Type} [CommRing K] [Algebra ℚ K]

/-! ### types, in-range components, shapes -/

/-- scalar-, vector-, matrix-valued -/
inductive Ty where | s | v | m
  deriving DecidableEq, Repr

/-- tensor rank of a type -/
def rk : Ty → Nat
  | .s => 0 | .v => 1 | .m => 2

/-- the components of a value of type `τ` in dimension `d` (a scalar has the single component (0,0)) -/
def InR (d : Nat) : Ty → Nat → Nat → Prop
  | .s, i, j => i = 0 ∧ j = 0
  | .v, i, j => i < d ∧ j = 0
  | .m, i, j => i < d ∧ j < d

def rows (d : Nat) : Ty → Nat
  | .s => 1 | .v => d | .m => d
def cols (d : Nat) : Ty → Nat
  | .s => 1 | .v => 1 | .m => d

theorem InR_iff (d : Nat) (τ : Ty) (i j : Nat) : InR d τ i j ↔ i < rows d τ ∧ j < cols d τ := by
  cases τ <;> simp [InR, rows, cols]

theorem InR_one (τ : Ty) (i j : Nat) : InR 1 τ i j ↔ i = 0 ∧ j = 0 := by
  cases τ <;> simp [InR]

theorem InR_zero_zero (d : Nat) (hd : 1 ≤ d) (τ : Ty) : InR d τ 0 0 := by
  cases τ <;> simp [InR] <;> omega

/-- the shape of the lowered form of a value of type `τ`: a scalar form; a `d×1` column; a `d×d`
    matrix — in dimension 1 a vector or matrix may also be returned as a bare scalar form, and a
    1×1 matrix is a column -/
def hasShape (d : Nat) : Ty → E → Bool
  | .s, t => LS t
  | .v, mat r c es => r == d && c == 1 && es.length == d && LSList es
  | .v, t => d == 1 && LS t
  | .m, mat r c es => r == d && c == d && es.length == d * d && LSList es
  | .m, t => d == 1 && LS t

theorem hasShape_VF (d : Nat) (τ : Ty) (t : E) (h : hasShape d τ t = true) : VF t = true := by
  cases τ <;> cases t <;> simp_all [hasShape, VF, LS]

theorem hasShape_s_LS (d : Nat) (t : E) (h : hasShape d .s t = true) : LS t = true := by
  simpa [hasShape] using h

/-- the same test on a leaf formula -/
def shapeOK (d : Nat) : Ty → E → Bool
  | .s, f => FS f
  | .v, mat r c fs => r == d && c == 1 && fs.length == d && FSList fs
  | .v, f => d == 1 && FS f
  | .m, mat r c fs => r == d && c == d && fs.length == d * d && FSList fs
  | .m, f => d == 1 && FS f

/-- an instantiated formula of the right shape is a value of that shape, denoting the formula
    read in the bound ring -/
theorem inst_shape (S : DRing K) (d : Nat) (σ : List (String × E)) (hσ : ∀ p ∈ σ, LS p.2 = true)
    (τ : Ty) (F : E) (hF : shapeOK d τ F = true) (t : E) (h : inst d σ F = .ok t) :
    hasShape d τ t = true ∧ ∀ i j, den S t i j = den (bindS S σ) F i j := by
  by_cases hm : ∃ r c fs, F = mat r c fs
  · obtain ⟨r, c, fs, rfl⟩ := hm
    have hfs : FSList fs = true := by
      cases τ <;> simp [shapeOK, FS] at hF <;> exact hF.2
    obtain ⟨ts, rfl, hts, hlen, hden⟩ := inst_mat_sound S d σ hσ r c fs hfs t h
    refine ⟨?_, hden⟩
    cases τ <;> simp [shapeOK, FS] at hF <;> simp [hasShape, hF, hts, hlen]
  · have hFS : FS F = true ∧ (τ = .s ∨ d = 1) := by
      cases τ <;> cases F <;> simp_all [shapeOK, FS]
    have := inst_sound S d σ hσ F hFS.1 t h
    refine ⟨?_, this.2⟩
    have hl := this.1
    cases τ
    · simpa [hasShape] using hl
    · have hd : d = 1 := by simpa using hFS.2
      cases t <;> simp_all [hasShape, LS]
    · have hd : d = 1 := by simpa using hFS.2
      cases t <;> simp_all [hasShape, LS]

/-- … and instantiating a formula of a recognised shape never fails -/
theorem inst_shape_total (d : Nat) (σ : List (String × E)) (hσ : ∀ p ∈ σ, LS p.2 = true)
    (τ : Ty) (F : E) (hF : shapeOK d τ F = true) : ∃ t, inst d σ F = .ok t := by
  by_cases hm : ∃ r c fs, F = mat r c fs
  · obtain ⟨r, c, fs, rfl⟩ := hm
    have hfs : FSList fs = true := by
      cases τ <;> simp [shapeOK, FS] at hF <;> exact hF.2
    exact inst_mat_total d σ hσ r c fs hfs
  · have hFS : FS F = true := by
      cases τ <;> cases F <;> simp_all [shapeOK, FS]
    exact inst_total d σ hσ F hFS

/-! ### the classical operators as functions of the components of their arguments -/

def op1sem (S : DRing K) (d : Nat) (lg : Bool) (o : Op1) (r : Nat) (A : Nat → Nat → K)
    (i j : Nat) : K :=
  match o with
  | .grad => if r = 0 then Di S lg i (A 0 0) else Di S lg i (A j 0)
  | .div => if r = 1 then sumN d (fun k => Di S lg k (A k 0)) else sumN d (fun k => Di S lg k (A k i))
  | .curl =>
      if d = 3 then
        (match i with
         | 0 => Di S lg 1 (A 2 0) - Di S lg 2 (A 1 0)
         | 1 => Di S lg 2 (A 0 0) - Di S lg 0 (A 2 0)
         | _ => Di S lg 0 (A 1 0) - Di S lg 1 (A 0 0))
      else Di S lg 0 (A 1 0) - Di S lg 1 (A 0 0)
  | .rot =>
      (match i with
       | 0 => Di S lg 1 (A 0 0)
       | _ => - Di S lg 0 (A 0 0))
  | .laplace => sumN d (fun k => Di S lg k (Di S lg k (A i j)))
  | .hessian => Di S lg i (Di S lg j (A 0 0))
  | _ => 0

theorem denG_op1 (S : DRing K) (d : Nat) (lg : Bool) (o : Op1) (a : E) (i j : Nat) :
    denG S d lg (op1 o a) i j = op1sem S d lg o (rank d a) (denG S d lg a) i j := by
  cases o <;> simp only [denG, op1sem] <;> rcases i with _ | _ | i <;> rfl

def op2sem (S : DRing K) (d : Nat) (lg : Bool) (o : Op2) (ra rb : Nat) (A B : Nat → Nat → K)
    (i j : Nat) : K :=
  match o with
  | .dot =>
      if ra = 2 then sumN d (fun k => A i k * B k 0)
      else if rb = 2 then sumN d (fun k => B i k * A k 0)
      else sumN d (fun k => A k 0 * B k 0)
  | .cross =>
      if d = 3 then
        (match i with
         | 0 => A 1 0 * B 2 0 - A 2 0 * B 1 0
         | 1 => A 2 0 * B 0 0 - A 0 0 * B 2 0
         | _ => A 0 0 * B 1 0 - A 1 0 * B 0 0)
      else A 0 0 * B 1 0 - A 1 0 * B 0 0
  | .inner =>
      if ra = 2 then sumN d (fun k => sumN d (fun l => A k l * B k l))
      else sumN d (fun k => A k 0 * B k 0)
  | .outer => A i 0 * B j 0
  | .convect => sumN d (fun k => A k 0 * Di S lg k (B i 0))
  | .bracket => Di S lg 0 (A 0 0) * Di S lg 1 (B 0 0) - Di S lg 1 (A 0 0) * Di S lg 0 (B 0 0)

theorem denG_op2 (S : DRing K) (d : Nat) (lg : Bool) (o : Op2) (a b : E) (i j : Nat) :
    denG S d lg (op2 o a b) i j
      = op2sem S d lg o (rank d a) (rank d b) (denG S d lg a) (denG S d lg b) i j := by
  cases o <;> simp only [denG, op2sem]
  rcases i with _ | _ | i <;> rfl

theorem op1sem_bindS (S : DRing K) (σ : List (String × E)) (d : Nat) (lg : Bool) (o : Op1) (r : Nat)
    (A : Nat → Nat → K) (i j : Nat) :
    op1sem (bindS S σ) d lg o r A i j = op1sem S d lg o r A i j := rfl

theorem op2sem_bindS (S : DRing K) (σ : List (String × E)) (d : Nat) (lg : Bool) (o : Op2)
    (ra rb : Nat) (A B : Nat → Nat → K) (i j : Nat) :
    op2sem (bindS S σ) d lg o ra rb A B i j = op2sem S d lg o ra rb A B i j := rfl

/-- typing of the unary operators: argument type ↦ result type (dimension-dependent for `curl`,
    2D only for `rot`) -/
def ty1 (d : Nat) : Op1 → Ty → Option Ty
  | .grad, .s => some .v
  | .grad, .v => some .m
  | .div, .v => some .s
  | .div, .m => some .v
  | .curl, .v => if d = 3 then some .v else if d = 2 then some .s else none
  | .rot, .s => if d = 2 then some .v else none
  | .laplace, .s => some .s
  | .laplace, .v => some .v
  | .hessian, .s => some .m
  | _, _ => none

/-- typing of the binary operators -/
def ty2 (d : Nat) : Op2 → Ty → Ty → Option Ty
  | .dot, .v, .v => some .s
  | .dot, .m, .v => some .v
  | .dot, .v, .m => some .v
  | .cross, .v, .v => if d = 3 then some .v else if d = 2 then some .s else none
  | .inner, .v, .v => some .s
  | .inner, .m, .m => some .s
  | .bracket, .s, .s => if d = 2 then some .s else none
  | _, _, _ => none

/-- a well-typed unary operator only reads in-range components of its argument -/
theorem op1sem_congr (S : DRing K) (d : Nat) (hd : 1 ≤ d) (lg : Bool) (o : Op1) (τ τ' : Ty)
    (h : ty1 d o τ = some τ') (A A' : Nat → Nat → K)
    (hA : ∀ i j, InR d τ i j → A i j = A' i j) (i j : Nat) (hij : InR d τ' i j) :
    op1sem S d lg o (rk τ) A i j = op1sem S d lg o (rk τ) A' i j := by
  have h00 : ∀ τ, InR d τ 0 0 := InR_zero_zero d hd
  cases o <;> cases τ <;> simp only [ty1] at h <;> try (cases h)
  -- grad s
  · simp only [op1sem, rk, if_true]; rw [hA 0 0 (h00 _)]
  -- grad v
  · simp only [op1sem, rk]
    have : ¬ ((1 : Nat) = 0) := by decide
    simp only [this, if_false]
    rw [hA j 0 ⟨hij.2, rfl⟩]
  -- curl v
  · by_cases h3 : d = 3
    · subst h3
      simp only [op1sem, if_true]
      rw [hA 0 0 ⟨by decide, rfl⟩, hA 1 0 ⟨by decide, rfl⟩, hA 2 0 ⟨by decide, rfl⟩]
    · by_cases h2 : d = 2
      · subst h2
        simp only [op1sem, h3, if_false]
        rw [hA 0 0 ⟨by decide, rfl⟩, hA 1 0 ⟨by decide, rfl⟩]
      · simp [h3, h2] at h
  -- rot s
  · simp only [op1sem]; rw [hA 0 0 (h00 _)]
  -- div v
  · simp only [op1sem, rk, if_true]
    exact sumN_congr d _ _ (fun k hk => by rw [hA k 0 ⟨hk, rfl⟩])
  -- div m
  · simp only [op1sem, rk]
    have : ¬ ((2 : Nat) = 1) := by decide
    simp only [this, if_false]
    exact sumN_congr d _ _ (fun k hk => by rw [hA k i ⟨hk, hij.1⟩])
  -- laplace s
  · simp only [op1sem]
    obtain ⟨rfl, rfl⟩ := hij
    rw [hA 0 0 (h00 _)]
  -- laplace v
  · simp only [op1sem]; rw [hA i j hij]
  -- hessian s
  · simp only [op1sem]; rw [hA 0 0 (h00 _)]

/-- in dimension 1 the (0,0) component of a well-typed unary operator does not depend on the rank
    under which its argument is read -/
theorem op1sem_rank_1d (S : DRing K) (lg : Bool) (o : Op1) (τ τ' : Ty) (h : ty1 1 o τ = some τ')
    (r r' : Nat) (A : Nat → Nat → K) :
    op1sem S 1 lg o r A 0 0 = op1sem S 1 lg o r' A 0 0 := by
  cases o <;> cases τ <;> simp [ty1] at h <;> simp [op1sem, sumN]

/-- the algebraic binary operators do not involve the derivations -/
theorem op2sem_lg (S : DRing K) (d : Nat) (lg lg' : Bool) (o : Op2)
    (h : lg = lg' ∨ o = .dot ∨ o = .cross ∨ o = .inner) (ra rb : Nat) (A B : Nat → Nat → K) (i j : Nat) :
    op2sem S d lg o ra rb A B i j = op2sem S d lg' o ra rb A B i j := by
  rcases h with rfl | rfl | rfl | rfl <;> rfl

theorem op2sem_congr (S : DRing K) (d : Nat) (hd : 1 ≤ d) (lg : Bool) (o : Op2) (τa τb τ' : Ty)
    (h : ty2 d o τa τb = some τ') (A A' B B' : Nat → Nat → K)
    (hA : ∀ i j, InR d τa i j → A i j = A' i j) (hB : ∀ i j, InR d τb i j → B i j = B' i j)
    (i j : Nat) (hij : InR d τ' i j) :
    op2sem S d lg o (rk τa) (rk τb) A B i j = op2sem S d lg o (rk τa) (rk τb) A' B' i j := by
  have h00 : ∀ τ, InR d τ 0 0 := InR_zero_zero d hd
  cases o <;> cases τa <;> cases τb <;> simp only [ty2] at h <;> try (cases h)
  -- dot v v
  · simp only [op2sem, rk]
    have : ¬ ((1 : Nat) = 2) := by decide
    simp only [this, if_false]
    exact sumN_congr d _ _ (fun k hk => by rw [hA k 0 ⟨hk, rfl⟩, hB k 0 ⟨hk, rfl⟩])
  -- dot v m
  · simp only [op2sem, rk]
    have : ¬ ((1 : Nat) = 2) := by decide
    simp only [this, if_false, if_true]
    exact sumN_congr d _ _ (fun k hk => by rw [hA k 0 ⟨hk, rfl⟩, hB i k ⟨hij.1, hk⟩])
  -- dot m v
  · simp only [op2sem, rk, if_true]
    exact sumN_congr d _ _ (fun k hk => by rw [hA i k ⟨hij.1, hk⟩, hB k 0 ⟨hk, rfl⟩])
  -- cross v v
  · by_cases h3 : d = 3
    · subst h3
      simp only [op2sem, if_true]
      rw [hA 0 0 ⟨by decide, rfl⟩, hA 1 0 ⟨by decide, rfl⟩, hA 2 0 ⟨by decide, rfl⟩,
        hB 0 0 ⟨by decide, rfl⟩, hB 1 0 ⟨by decide, rfl⟩, hB 2 0 ⟨by decide, rfl⟩]
    · by_cases h2 : d = 2
      · subst h2
        simp only [op2sem, h3, if_false]
        rw [hA 0 0 ⟨by decide, rfl⟩, hA 1 0 ⟨by decide, rfl⟩,
          hB 0 0 ⟨by decide, rfl⟩, hB 1 0 ⟨by decide, rfl⟩]
      · simp [h3, h2] at h
  -- inner v v
  · simp only [op2sem, rk]
    have : ¬ ((1 : Nat) = 2) := by decide
    simp only [this, if_false]
    exact sumN_congr d _ _ (fun k hk => by rw [hA k 0 ⟨hk, rfl⟩, hB k 0 ⟨hk, rfl⟩])
  -- inner m m
  · simp only [op2sem, rk, if_true]
    exact sumN_congr d _ _ (fun k hk => sumN_congr d _ _ (fun l hl => by
      rw [hA k l ⟨hk, hl⟩, hB k l ⟨hk, hl⟩]))
  -- bracket s s
  · simp only [op2sem]
    rw [hA 0 0 (h00 _), hB 0 0 (h00 _)]

theorem op2sem_rank_1d (S : DRing K) (lg : Bool) (o : Op2) (τa τb τ' : Ty)
    (h : ty2 1 o τa τb = some τ') (ra rb ra' rb' : Nat) (A B : Nat → Nat → K) :
    op2sem S 1 lg o ra rb A B 0 0 = op2sem S 1 lg o ra' rb' A B 0 0 := by
  cases o <;> cases τa <;> cases τb <;> simp [ty2] at h <;> simp only [op2sem, sumN] <;>
    split_ifs <;> ring

end Sympde.Lower
