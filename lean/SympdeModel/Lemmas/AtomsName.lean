/-
  Helper lemmas for C17, part 1: symbol names.  Chains of derivatives (`mkChain`), the
  behaviour of `symbP` on a block of derivatives of one kind, the character-level description
  of a symbol name (`symChars`) and its injectivity under the hygiene hypothesis.
-/
import SympdeModel.Model.Atoms
namespace Sympde.Atoms
open E

/-- `cs = [c₁, …, cₙ]` applied to `a`: `pd c₁ (… (pd cₙ a))` (outermost first) -/
def mkChain (cs : List Coord) (a : E) : E := cs.foldr pd a

/-- all coordinates of the list are of one kind -/
def pureKind (lg : Bool) (cs : List Coord) : Prop := ∀ c ∈ cs, c.logical = lg

/-- multi-index of a list of coordinates, starting from `n` -/
def countFrom (n : Nat × Nat × Nat) (cs : List Coord) : Nat × Nat × Nat := cs.foldl incr n

theorem incr_comm (n : Nat × Nat × Nat) (a b : Coord) : incr (incr n a) b = incr (incr n b) a := by
  cases a <;> cases b <;> simp [incr, Coord.idx]

/-- the multi-index does not depend on the order of differentiation -/
theorem countFrom_perm {cs cs' : List Coord} (h : cs.Perm cs') (n : Nat × Nat × Nat) :
    countFrom n cs = countFrom n cs' := by
  induction h generalizing n with
  | nil => rfl
  | cons x _ ih => simp only [countFrom, List.foldl_cons] at ih ⊢; exact ih _
  | swap x y l => simp only [countFrom, List.foldl_cons]; rw [incr_comm]
  | trans _ _ ih1 ih2 => rw [ih1, ih2]

/-- a block of derivatives of the pending kind only increases the pending multi-index -/
theorem symbP_block (lg : Bool) (cs : List Coord) (hp : pureKind lg cs) (n : Nat × Nat × Nat)
    (outer : Option (List Char)) (a : E) :
    symbP (some (lg, n)) outer (mkChain cs a) = symbP (some (lg, countFrom n cs)) outer a := by
  induction cs generalizing n with
  | nil => rfl
  | cons c cs ih =>
    have hc : c.logical = lg := hp c (by simp)
    simp only [mkChain, List.foldr_cons, countFrom, List.foldl_cons] at ih ⊢
    rw [symbP]
    simp only [hc, beq_self_eq_true, if_true]
    exact ih (fun x hx => hp x (by simp [hx])) _

/-- a first derivative opens a block -/
theorem symbP_open (c : Coord) (outer : Option (List Char)) (a : E) :
    symbP none outer (pd c a) = symbP (some (c.logical, incr (0, 0, 0) c)) outer a := by
  rw [symbP]

/-- a derivative of the other kind closes the pending block and opens a new one -/
theorem symbP_switch (lg : Bool) (n : Nat × Nat × Nat) (c : Coord) (hc : c.logical ≠ lg)
    (outer : Option (List Char)) (a : E) :
    symbP (some (lg, n)) outer (pd c a)
      = symbP (some (c.logical, incr (0, 0, 0) c)) (some (joinCode (codeChars lg n) outer)) a := by
  rw [symbP]
  have : (c.logical == lg) = false := by simpa using hc
  simp [this, closeBlock]

/-- the name of a scalar function / vector function / component -/
def baseChars : E → List Char
  | sf n _ => n.toList
  | vf n _ => n.toList
  | idx (vf n _) i => n.toList ++ '_' :: Nat.toDigits 10 i
  | _ => []

/-- a chain ends on a function or component: the pending block becomes the code -/
theorem symbP_atom (a : E) (h : isFunAtom a = true) (pend : Option (Bool × (Nat × Nat × Nat)))
    (outer : Option (List Char)) :
    symbP pend outer a = .ok (sym (String.ofList (withCode (baseChars a) (closeBlock pend outer)))) := by
  cases a with
  | sf n k => rw [symbP]; rfl
  | idx b i =>
    cases b with
    | vf n k => rw [symbP]; rfl
    | _ => simp [isFunAtom] at h
  | _ => simp [isFunAtom] at h

theorem length_flatten_pairs (k : Nat) (d : Char) : ((List.replicate k ['x', d]).flatten).length = 2 * k := by
  induction k with
  | zero => rfl
  | succ k ih => simp only [List.replicate_succ, List.flatten_cons, List.length_append, ih]; simp; omega

theorem codeChars_length (lg : Bool) (n : Nat × Nat × Nat) :
    (codeChars lg n).length = (if lg then 2 else 1) * (n.1 + n.2.1 + n.2.2) := by
  obtain ⟨a, b, c⟩ := n
  cases lg
  · simp [codeChars]; omega
  · simp only [codeChars, if_true, List.length_append, length_flatten_pairs]; omega

/-- the code of a non-empty block is not empty -/
theorem codeChars_ne_nil (lg : Bool) (n : Nat × Nat × Nat) (h : 0 < n.1 + n.2.1 + n.2.2) :
    codeChars lg n ≠ [] := by
  intro he
  have := codeChars_length lg n
  rw [he] at this
  cases lg <;> simp at this <;> omega

/-- **the symbol of a pure chain** over a function or component: name, component, `_`, code of
    the multi-index -/
theorem symb_pure_chain (lg : Bool) (c : Coord) (cs : List Coord) (hp : pureKind lg (c :: cs)) (a : E)
    (ha : isFunAtom a = true) :
    symb (mkChain (c :: cs) a)
      = .ok (sym (String.ofList (baseChars a ++ '_' :: codeChars lg (countFrom (0, 0, 0) (c :: cs))))) := by
  have hc : c.logical = lg := hp c (by simp)
  unfold symb
  simp only [mkChain, List.foldr_cons]
  rw [symbP_open, hc]
  have := symbP_block lg cs (fun x hx => hp x (by simp [hx])) (incr (0, 0, 0) c) none a
  simp only [mkChain] at this
  rw [this, symbP_atom a ha]
  simp only [closeBlock, joinCode, withCode, countFrom, List.foldl_cons]
  have hpos : ∀ (l : List Coord) (n : Nat × Nat × Nat), 0 < n.1 + n.2.1 + n.2.2 →
      0 < (l.foldl incr n).1 + (l.foldl incr n).2.1 + (l.foldl incr n).2.2 := by
    intro l
    induction l with
    | nil => intro n h; exact h
    | cons x l ih =>
      intro n h
      simp only [List.foldl_cons]
      apply ih
      cases x <;> simp [incr, Coord.idx] <;> omega
  have h0 := hpos cs (incr (0, 0, 0) c) (by cases c <;> simp [incr, Coord.idx])
  have hne : (codeChars lg (List.foldl incr (incr (0, 0, 0) c) cs)).isEmpty = false := by
    simpa using codeChars_ne_nil lg _ h0
  simp [hne]

/-! ### names as character lists -/

/-- a block of a chain: kind and (non-zero) multi-index -/
structure Block where
  lg : Bool
  n : Nat × Nat × Nat
  deriving Repr, DecidableEq

def Block.valid (b : Block) : Prop := 0 < b.n.1 + b.n.2.1 + b.n.2.2

/-- `_code₁_code₂…` for the blocks of a chain, innermost first -/
def tailChars : List Block → List Char
  | [] => []
  | b :: bs => '_' :: codeChars b.lg b.n ++ tailChars bs

/-- `_i` for a component -/
def compChars : Option Nat → List Char
  | none => []
  | some i => '_' :: Nat.toDigits 10 i

/-- the symbol name of the chain with blocks `bs` over component `comp` of the function `name` -/
def symChars (name : List Char) (comp : Option Nat) (bs : List Block) : List Char :=
  name ++ compChars comp ++ tailChars bs

/-- what can follow a function name in a symbol: a component and/or at least one block -/
def IsSuffix (s : List Char) : Prop :=
  ∃ comp bs, (comp ≠ none ∨ bs ≠ []) ∧ (∀ b ∈ bs, b.valid) ∧ s = compChars comp ++ tailChars bs

/-- **hygiene**: no function name is another function name followed by a component and/or
    derivative code (`u_x` next to `u`, `F_0` next to `F`, `u_0_xx` next to `u`, …) -/
def Hygienic (names : List (List Char)) : Prop :=
  ∀ n1 ∈ names, ∀ n2 ∈ names, ∀ s, IsSuffix s → n2 ≠ n1 ++ s

/-- a decidable sufficient condition: no name is another name followed by `_` -/
def prefixFree (names : List (List Char)) : Bool :=
  names.all (fun n1 => names.all (fun n2 => !(n1 ++ ['_']).isPrefixOf n2))

/-! ### codes are read back unambiguously -/

theorem codeChars_no_underscore (lg : Bool) (n : Nat × Nat × Nat) : '_' ∉ codeChars lg n := by
  obtain ⟨a, b, c⟩ := n
  cases lg
  · simp only [codeChars, Bool.false_eq_true, if_false, List.mem_append, List.mem_replicate]
    rintro ((⟨_, h⟩ | ⟨_, h⟩) | ⟨_, h⟩) <;> exact absurd h (by decide)
  · simp only [codeChars, if_true, List.mem_append, List.mem_flatten, List.mem_replicate]
    rintro ((⟨l, ⟨_, rfl⟩, h⟩ | ⟨l, ⟨_, rfl⟩, h⟩) | ⟨l, ⟨_, rfl⟩, h⟩) <;> simp at h

theorem count_replicate_ne (a b : Char) (k : Nat) (h : a ≠ b) : (List.replicate k a).count b = 0 := by
  simp [List.count_replicate, h]

/-- the multi-index is recovered from a physical code by counting `x`, `y`, `z` -/
theorem code_phys_counts (n : Nat × Nat × Nat) :
    ((codeChars false n).count 'x', (codeChars false n).count 'y', (codeChars false n).count 'z') = n := by
  obtain ⟨a, b, c⟩ := n
  simp [codeChars, List.count_append, List.count_replicate]

theorem count_flatten_pairs (k : Nat) (d e : Char) (he : e ≠ 'x') :
    ((List.replicate k ['x', d]).flatten).count e = if d = e then k else 0 := by
  induction k with
  | zero => simp
  | succ k ih =>
    simp only [List.replicate_succ, List.flatten_cons, List.count_append, ih]
    have hx : ('x' == e) = false := by simpa using Ne.symm he
    by_cases h1 : d = e
    · subst h1; simp [List.count_cons, hx]; omega
    · have hd : (d == e) = false := by simpa using h1
      simp [List.count_cons, hx, hd, h1]

/-- … and from a logical code by counting `1`, `2`, `3` -/
theorem code_logi_counts (n : Nat × Nat × Nat) :
    ((codeChars true n).count '1', (codeChars true n).count '2', (codeChars true n).count '3') = n := by
  obtain ⟨a, b, c⟩ := n
  simp [codeChars, List.count_append, count_flatten_pairs _ _ _ (show ('1' : Char) ≠ 'x' by decide),
    count_flatten_pairs _ _ _ (show ('2' : Char) ≠ 'x' by decide),
    count_flatten_pairs _ _ _ (show ('3' : Char) ≠ 'x' by decide)]

theorem code_phys_no_digit (n : Nat × Nat × Nat) (d : Char) (hd : d = '1' ∨ d = '2' ∨ d = '3') :
    (codeChars false n).count d = 0 := by
  obtain ⟨a, b, c⟩ := n
  rcases hd with rfl | rfl | rfl <;> simp [codeChars, List.count_append, List.count_replicate]

/-- a code determines its kind and multi-index -/
theorem codeChars_inj (b1 b2 : Block) (h1 : b1.valid) (h2 : b2.valid)
    (h : codeChars b1.lg b1.n = codeChars b2.lg b2.n) : b1 = b2 := by
  obtain ⟨lg1, n1⟩ := b1
  obtain ⟨lg2, n2⟩ := b2
  simp only [Block.valid] at h1 h2
  simp only at h
  cases lg1 <;> cases lg2
  · have := code_phys_counts n1
    rw [h, code_phys_counts n2] at this
    rw [this]
  · -- a physical code has no digit, a valid logical code has one
    exfalso
    have c2 := code_logi_counts n2
    rw [← h] at c2
    rw [code_phys_no_digit n1 '1' (Or.inl rfl), code_phys_no_digit n1 '2' (Or.inr (Or.inl rfl)),
      code_phys_no_digit n1 '3' (Or.inr (Or.inr rfl))] at c2
    rw [← c2] at h2
    simp at h2
  · exfalso
    have c1 := code_logi_counts n1
    rw [h] at c1
    rw [code_phys_no_digit n2 '1' (Or.inl rfl), code_phys_no_digit n2 '2' (Or.inr (Or.inl rfl)),
      code_phys_no_digit n2 '3' (Or.inr (Or.inr rfl))] at c1
    rw [← c1] at h1
    simp at h1
  · have := code_logi_counts n1
    rw [h, code_logi_counts n2] at this
    rw [this]

/-- splitting at the first underscore: two texts without underscore followed by `_…` or nothing -/
theorem split_at_underscore (a b r s : List Char) (ha : '_' ∉ a) (hb : '_' ∉ b)
    (hr : r = [] ∨ ∃ r', r = '_' :: r') (hs : s = [] ∨ ∃ s', s = '_' :: s') (h : a ++ r = b ++ s) :
    a = b ∧ r = s := by
  induction a generalizing b with
  | nil =>
    cases b with
    | nil => exact ⟨rfl, by simpa using h⟩
    | cons y b =>
      exfalso
      simp only [List.nil_append, List.cons_append] at h
      rcases hr with rfl | ⟨r', rfl⟩
      · cases h
      · injection h with h1 _
        exact hb (by simp [← h1])
  | cons x a ih =>
    cases b with
    | nil =>
      exfalso
      simp only [List.nil_append, List.cons_append] at h
      rcases hs with rfl | ⟨s', rfl⟩
      · cases h
      · injection h with h1 _
        exact ha (by simp [h1])
    | cons y b =>
      simp only [List.cons_append] at h
      injection h with h1 h2
      obtain ⟨e1, e2⟩ := ih b (fun hm => ha (by simp [hm])) (fun hm => hb (by simp [hm])) h2
      exact ⟨by rw [h1, e1], e2⟩

theorem tailChars_form (bs : List Block) : tailChars bs = [] ∨ ∃ r, tailChars bs = '_' :: r := by
  cases bs with
  | nil => exact Or.inl rfl
  | cons b bs => exact Or.inr ⟨_, rfl⟩

/-- the blocks are recovered from the tail of a name -/
theorem tailChars_inj (bs1 bs2 : List Block) (h1 : ∀ b ∈ bs1, b.valid) (h2 : ∀ b ∈ bs2, b.valid)
    (h : tailChars bs1 = tailChars bs2) : bs1 = bs2 := by
  induction bs1 generalizing bs2 with
  | nil =>
    cases bs2 with
    | nil => rfl
    | cons b bs => simp [tailChars] at h
  | cons b1 bs1 ih =>
    cases bs2 with
    | nil => simp [tailChars] at h
    | cons b2 bs2 =>
      simp only [tailChars] at h
      injection h with _ h
      obtain ⟨e1, e2⟩ := split_at_underscore _ _ _ _ (codeChars_no_underscore b1.lg b1.n)
        (codeChars_no_underscore b2.lg b2.n) (tailChars_form bs1) (tailChars_form bs2) h
      have hb := codeChars_inj b1 b2 (h1 b1 (by simp)) (h2 b2 (by simp)) e1
      rw [hb, ih bs2 (fun b hb => h1 b (by simp [hb])) (fun b hb => h2 b (by simp [hb])) e2]

theorem toDigits_inj (i j : Nat) (h : Nat.toDigits 10 i = Nat.toDigits 10 j) : i = j := by
  have := congrArg (fun l => Nat.ofDigitChars 10 l 0) h
  simpa [Nat.ofDigitChars_ten_toDigits] using this

theorem toDigits_head_digit (i : Nat) : ∃ d r, Nat.toDigits 10 i = d :: r ∧ d.isDigit = true := by
  cases h : Nat.toDigits 10 i with
  | nil => exact absurd h Nat.toDigits_ne_nil
  | cons d r =>
    refine ⟨d, r, rfl, ?_⟩
    exact Nat.isDigit_of_mem_toDigits (b := 10) (n := i) (by decide) (by decide) (by rw [h]; simp)

theorem code_head_not_digit (b : Block) (d : Char) (r : List Char) (h : codeChars b.lg b.n = d :: r) :
    d.isDigit = false := by
  obtain ⟨lg, a, b', c⟩ := b
  have hmem : d ∈ codeChars lg (a, b', c) := by rw [h]; simp
  have hx : d = 'x' ∨ d = 'y' ∨ d = 'z' := by
    cases lg
    · simp only [codeChars, Bool.false_eq_true, if_false, List.mem_append, List.mem_replicate] at hmem
      rcases hmem with (⟨_, h⟩ | ⟨_, h⟩) | ⟨_, h⟩
      · exact Or.inl h
      · exact Or.inr (Or.inl h)
      · exact Or.inr (Or.inr h)
    · -- the first character of a logical code is `x`
      left
      simp only [codeChars, if_true] at h
      cases a with
      | succ k => simp [List.replicate_succ] at h; exact h.1.symm
      | zero =>
        cases b' with
        | succ k => simp [List.replicate_succ] at h; exact h.1.symm
        | zero =>
          cases c with
          | succ k => simp [List.replicate_succ] at h; exact h.1.symm
          | zero => simp at h
  rcases hx with rfl | rfl | rfl <;> decide

/-- component and blocks are recovered from what follows the function name -/
theorem suffix_inj (c1 c2 : Option Nat) (bs1 bs2 : List Block) (h1 : ∀ b ∈ bs1, b.valid)
    (h2 : ∀ b ∈ bs2, b.valid) (h : compChars c1 ++ tailChars bs1 = compChars c2 ++ tailChars bs2) :
    c1 = c2 ∧ bs1 = bs2 := by
  cases c1 with
  | none =>
    cases c2 with
    | none => exact ⟨rfl, tailChars_inj bs1 bs2 h1 h2 (by simpa [compChars] using h)⟩
    | some j =>
      exfalso
      -- `_code…` against `_digits…`
      cases bs1 with
      | nil => simp [compChars, tailChars] at h
      | cons b bs =>
        simp only [compChars, tailChars, List.nil_append, List.cons_append, List.cons.injEq, true_and] at h
        obtain ⟨d, r, hd, hdig⟩ := toDigits_head_digit j
        have hv := h1 b (by simp)
        cases hc : codeChars b.lg b.n with
        | nil =>
          -- a valid block has a non-empty code
          have := codeChars_inj b ⟨b.lg, (0, 0, 0)⟩ hv
          obtain ⟨lg, n1, n2, n3⟩ := b
          cases lg <;> simp [codeChars, Block.valid] at hc hv <;> omega
        | cons x xs =>
          rw [hc, hd] at h
          simp only [List.cons_append, List.cons.injEq] at h
          have := code_head_not_digit b x xs hc
          rw [h.1, hdig] at this
          cases this
  | some i =>
    cases c2 with
    | none =>
      exfalso
      cases bs2 with
      | nil => simp [compChars, tailChars] at h
      | cons b bs =>
        simp only [compChars, tailChars, List.nil_append, List.cons_append, List.cons.injEq, true_and] at h
        obtain ⟨d, r, hd, hdig⟩ := toDigits_head_digit i
        have hv := h2 b (by simp)
        cases hc : codeChars b.lg b.n with
        | nil =>
          obtain ⟨lg, n1, n2, n3⟩ := b
          cases lg <;> simp [codeChars, Block.valid] at hc hv <;> omega
        | cons x xs =>
          rw [hc, hd] at h
          simp only [List.cons_append, List.cons.injEq] at h
          have := code_head_not_digit b x xs hc
          rw [← h.1, hdig] at this
          cases this
    | some j =>
      simp only [compChars, List.cons_append, List.cons.injEq, true_and] at h
      obtain ⟨e1, e2⟩ := split_at_underscore _ _ _ _ Nat.underscore_not_in_toDigits
        Nat.underscore_not_in_toDigits (tailChars_form bs1) (tailChars_form bs2) h
      exact ⟨by rw [toDigits_inj i j e1], tailChars_inj bs1 bs2 h1 h2 e2⟩

/-! ### chains made of several blocks -/

/-- blocks of coordinates, outermost first, applied to `a` -/
def mkBlocks : List (Bool × List Coord) → E → E
  | [], a => a
  | (_, cs) :: rest, a => mkChain cs (mkBlocks rest a)

/-- every block is non-empty and of one kind, neighbouring blocks are of different kinds -/
def BlocksOK : List (Bool × List Coord) → Prop
  | [] => True
  | [(lg, cs)] => cs ≠ [] ∧ pureKind lg cs
  | (lg, cs) :: (lg', cs') :: rest => cs ≠ [] ∧ pureKind lg cs ∧ lg' ≠ lg ∧ BlocksOK ((lg', cs') :: rest)

/-- the block (kind, multi-index) of a list of coordinates -/
def toBlock (b : Bool × List Coord) : Block := ⟨b.1, countFrom (0, 0, 0) b.2⟩

theorem tailChars_append (l : List Block) (b : Block) :
    tailChars (l ++ [b]) = tailChars l ++ '_' :: codeChars b.lg b.n := by
  induction l with
  | nil => simp [tailChars]
  | cons x l ih => simp [tailChars, ih]

theorem countFrom_pos (cs : List Coord) (h : cs ≠ []) :
    0 < (countFrom (0, 0, 0) cs).1 + (countFrom (0, 0, 0) cs).2.1 + (countFrom (0, 0, 0) cs).2.2 := by
  have hpos : ∀ (l : List Coord) (n : Nat × Nat × Nat), 0 < n.1 + n.2.1 + n.2.2 →
      0 < (l.foldl incr n).1 + (l.foldl incr n).2.1 + (l.foldl incr n).2.2 := by
    intro l
    induction l with
    | nil => intro n h; exact h
    | cons x l ih =>
      intro n h
      simp only [List.foldl_cons]
      apply ih
      cases x <;> simp [incr, Coord.idx] <;> omega
  cases cs with
  | nil => exact absurd rfl h
  | cons c cs =>
    simp only [countFrom, List.foldl_cons]
    exact hpos cs _ (by cases c <;> simp [incr, Coord.idx])

/-- the code in front of which nothing / a non-empty outer code stands -/
def outerSuffix : Option (List Char) → List Char
  | none => []
  | some o => '_' :: o

theorem symbP_pure_head (lg : Bool) (cs : List Coord) (hne : cs ≠ []) (hp : pureKind lg cs)
    (outer : Option (List Char)) (X : E) :
    symbP none outer (mkChain cs X) = symbP (some (lg, countFrom (0, 0, 0) cs)) outer X := by
  cases cs with
  | nil => exact absurd rfl hne
  | cons c cs =>
    simp only [mkChain, List.foldr_cons]
    rw [symbP_open, hp c (by simp)]
    have := symbP_block lg cs (fun x hx => hp x (by simp [hx])) (incr (0, 0, 0) c) outer X
    simp only [mkChain] at this
    rw [this]
    rfl

theorem ok_sym_congr {a b : List Char} (h : a = b) :
    (Except.ok (sym (String.ofList a)) : Except Err E) = .ok (sym (String.ofList b)) := by rw [h]

/-- **the symbol of a chain of blocks** over a function or component -/
theorem symbP_blocks (bl : List (Bool × List Coord)) (hok : BlocksOK bl) (a : E) (ha : isFunAtom a = true)
    (outer : Option (List Char)) (ho : ∀ o, outer = some o → o ≠ []) :
    symbP none outer (mkBlocks bl a)
      = .ok (sym (String.ofList (baseChars a ++ tailChars (bl.reverse.map toBlock) ++ outerSuffix outer))) := by
  induction bl generalizing outer with
  | nil =>
    simp only [mkBlocks, List.reverse_nil, List.map_nil, tailChars, List.append_nil]
    rw [symbP_atom a ha]
    cases outer with
    | none => simp [closeBlock, withCode, outerSuffix]
    | some o =>
      have := ho o rfl
      have : o.isEmpty = false := by simpa using this
      simp [closeBlock, withCode, outerSuffix, this]
  | cons b rest ih =>
    obtain ⟨lg, cs⟩ := b
    have hb : cs ≠ [] ∧ pureKind lg cs := by
      cases rest with
      | nil => exact hok
      | cons b' rest' => exact ⟨hok.1, hok.2.1⟩
    have hcode := codeChars_ne_nil lg (countFrom (0, 0, 0) cs) (countFrom_pos cs hb.1)
    have hjoin : joinCode (codeChars lg (countFrom (0, 0, 0) cs)) outer
        = codeChars lg (countFrom (0, 0, 0) cs) ++ outerSuffix outer := by
      cases outer with
      | none => simp [joinCode, outerSuffix]
      | some o =>
        have : o.isEmpty = false := by simpa using ho o rfl
        simp [joinCode, outerSuffix, this]
    have hjne : joinCode (codeChars lg (countFrom (0, 0, 0) cs)) outer ≠ [] := by
      rw [hjoin]; simp [hcode]
    simp only [mkBlocks]
    rw [symbP_pure_head lg cs hb.1 hb.2]
    simp only [List.reverse_cons, List.map_append, List.map_cons, List.map_nil, tailChars_append, toBlock]
    cases rest with
    | nil =>
      simp only [mkBlocks, List.reverse_nil, List.map_nil, tailChars, List.append_nil]
      rw [symbP_atom a ha]
      apply ok_sym_congr
      simp only [closeBlock, withCode, hjoin]
      have : (codeChars lg (countFrom (0, 0, 0) cs) ++ outerSuffix outer).isEmpty = false := by simp [hcode]
      simp only [this, Bool.false_eq_true, if_false]
      simp
    | cons b' rest' =>
      obtain ⟨lg', cs'⟩ := b'
      obtain ⟨_, _, hne', hok'⟩ := hok
      have hb' : cs' ≠ [] ∧ pureKind lg' cs' := by
        cases rest' with
        | nil => exact hok'
        | cons b'' rest'' => exact ⟨hok'.1, hok'.2.1⟩
      cases cs' with
      | nil => exact absurd rfl hb'.1
      | cons c' cs'' =>
        have hc' : c'.logical = lg' := hb'.2 c' (by simp)
        have hsw : symbP (some (lg, countFrom (0, 0, 0) cs)) outer (mkBlocks ((lg', c' :: cs'') :: rest') a)
            = symbP none (some (joinCode (codeChars lg (countFrom (0, 0, 0) cs)) outer))
                (mkBlocks ((lg', c' :: cs'') :: rest') a) := by
          simp only [mkBlocks, mkChain, List.foldr_cons]
          rw [symbP_switch lg _ c' (by rw [hc']; exact hne'), symbP_open]
        rw [hsw, ih hok' _ (by intro o ho'; injection ho' with ho'; rw [← ho']; exact hjne)]
        apply ok_sym_congr
        simp only [outerSuffix, hjoin, toBlock]
        simp

/-! ### prefixes of a suffix -/

/-- `_seg₁_seg₂…` -/
def renderSegs (segs : List (List Char)) : List Char := segs.flatMap (fun s => '_' :: s)

theorem renderSegs_form (segs : List (List Char)) :
    renderSegs segs = [] ∨ ∃ r, renderSegs segs = '_' :: r := by
  cases segs with
  | nil => exact Or.inl rfl
  | cons a as => exact Or.inr ⟨_, rfl⟩

/-- longest prefix without underscore -/
theorem split_first_underscore (r : List Char) :
    '_' ∉ r ∨ ∃ r0 r2, r = r0 ++ '_' :: r2 ∧ '_' ∉ r0 := by
  induction r with
  | nil => exact Or.inl (by simp)
  | cons x xs ih =>
    by_cases hx : x = '_'
    · exact Or.inr ⟨[], xs, by simp [hx], by simp⟩
    · rcases ih with h | ⟨r0, r2, h1, h2⟩
      · exact Or.inl (by simp [h, Ne.symm hx])
      · exact Or.inr ⟨x :: r0, r2, by simp [h1], by simp [h2, Ne.symm hx]⟩

/-- if a rendered list of segments starts with `r` followed by another rendered list of
    segments, then `r` is the rendering of an initial part of the segments -/
theorem renderSegs_prefix (A B : List (List Char)) (r : List Char) (hA : ∀ a ∈ A, '_' ∉ a)
    (h : renderSegs A = r ++ renderSegs B) : ∃ P Q, A = P ++ Q ∧ r = renderSegs P := by
  induction A generalizing r with
  | nil =>
    have : r = [] := by
      have := congrArg List.length h
      simp [renderSegs] at this
      exact List.eq_nil_of_length_eq_zero (by omega)
    exact ⟨[], [], rfl, by simp [this, renderSegs]⟩
  | cons a A ih =>
    cases r with
    | nil => exact ⟨[], a :: A, rfl, rfl⟩
    | cons x r' =>
      simp only [renderSegs, List.flatMap_cons, List.cons_append] at h
      injection h with hx h
      have ha := hA a (by simp)
      have hA' : ∀ b ∈ A, '_' ∉ b := fun b hb => hA b (by simp [hb])
      rcases split_first_underscore r' with hr | ⟨r0, r2, hr, hr0⟩
      · obtain ⟨e1, e2⟩ := split_at_underscore a r' _ _ ha hr (renderSegs_form A) (renderSegs_form B) h
        exact ⟨[a], A, rfl, by simp [renderSegs, ← hx, e1]⟩
      · rw [hr, List.append_assoc] at h
        obtain ⟨e1, e2⟩ := split_at_underscore a r0 _ _ ha hr0 (renderSegs_form A)
          (Or.inr ⟨_, rfl⟩) h
        obtain ⟨P, Q, hPQ, hP⟩ := ih ('_' :: r2) hA' (by simpa [renderSegs] using e2)
        refine ⟨a :: P, Q, by simp [hPQ], ?_⟩
        simp only [renderSegs, List.flatMap_cons] at hP ⊢
        rw [← hx, hr, ← e1, ← hP]
        simp

/-- the segments of what follows a function name -/
def segsOf (c : Option Nat) (bs : List Block) : List (List Char) :=
  (match c with | none => [] | some i => [Nat.toDigits 10 i]) ++ bs.map (fun b => codeChars b.lg b.n)

theorem tailChars_eq (bs : List Block) : tailChars bs = renderSegs (bs.map (fun b => codeChars b.lg b.n)) := by
  induction bs with
  | nil => rfl
  | cons b bs ih => simp [tailChars, renderSegs, ih] 

theorem suffix_eq_render (c : Option Nat) (bs : List Block) :
    compChars c ++ tailChars bs = renderSegs (segsOf c bs) := by
  cases c <;> simp [compChars, segsOf, tailChars_eq, renderSegs]

theorem segsOf_no_underscore (c : Option Nat) (bs : List Block) : ∀ a ∈ segsOf c bs, '_' ∉ a := by
  intro a ha
  simp only [segsOf, List.mem_append, List.mem_map] at ha
  rcases ha with ha | ⟨b, _, rfl⟩
  · cases c with
    | none => simp at ha
    | some i => simp at ha; subst ha; exact Nat.underscore_not_in_toDigits
  · exact codeChars_no_underscore _ _

/-- a non-empty initial part of a suffix is a suffix -/
theorem prefix_isSuffix (c : Option Nat) (bs : List Block) (hv : ∀ b ∈ bs, b.valid)
    (P Q : List (List Char)) (h : segsOf c bs = P ++ Q) (hP : P ≠ []) : IsSuffix (renderSegs P) := by
  cases c with
  | none =>
    simp only [segsOf, List.nil_append] at h
    obtain ⟨l1, l2, hbs, h1, h2⟩ := List.map_eq_append_iff.mp h
    refine ⟨none, l1, Or.inr ?_, fun b hb => hv b (by rw [hbs]; simp [hb]), ?_⟩
    · intro he; subst he; simp at h1; exact hP h1
    · rw [suffix_eq_render]; simp [segsOf, h1]
  | some i =>
    cases P with
    | nil => exact absurd rfl hP
    | cons p P' =>
      simp only [segsOf, List.cons_append, List.nil_append, List.cons.injEq] at h
      obtain ⟨hp, h⟩ := h
      obtain ⟨l1, l2, hbs, h1, h2⟩ := List.map_eq_append_iff.mp h
      refine ⟨some i, l1, Or.inl (by simp), fun b hb => hv b (by rw [hbs]; simp [hb]), ?_⟩
      rw [suffix_eq_render]; simp [segsOf, h1, hp]

/-- name and component of a function atom -/
def atomName : E → List Char × Option Nat
  | sf n _ => (n.toList, none)
  | vf n _ => (n.toList, none)
  | idx (vf n _) i => (n.toList, some i)
  | _ => ([], none)


theorem symbList_spec (code : Option (List Char)) (as ss : List E) :
    symbList code as = .ok ss ↔
      as.length = ss.length ∧ ∀ i (hi : i < as.length) (hj : i < ss.length), symbP none code as[i] = .ok ss[i] := by
  induction as generalizing ss with
  | nil =>
    cases ss with
    | nil => simp [symbList]
    | cons s ss => simp [symbList]
  | cons a as ih =>
    rw [symbList]
    cases ha : symbP none code a with
    | error x =>
      constructor
      · intro h; simp at h
      · rintro ⟨hl, h⟩
        cases ss with
        | nil => simp at hl
        | cons s ss => have := h 0 (by simp) (by simp); simp [ha] at this
    | ok a' =>
      cases has : symbList code as with
      | error x =>
        constructor
        · intro h; simp at h
        · rintro ⟨hl, h⟩
          cases ss with
          | nil => simp at hl
          | cons s ss' =>
            have : symbList code as = .ok ss' := (ih ss').mpr ⟨by simpa using hl, fun i hi hj => by
              have := h (i + 1) (by simp; omega) (by simp; omega); simpa using this⟩
            rw [has] at this; cases this
      | ok as' =>
        have ih0 := (ih as').mp has
        constructor
        · intro h
          simp only at h
          injection h with h; subst h
          refine ⟨by simp [ih0.1], ?_⟩
          intro i hi hj
          cases i with
          | zero => simpa using ha
          | succ i => simpa using ih0.2 i (by simp at hi; omega) (by simp at hj; omega)
        · rintro ⟨hl, h⟩
          cases ss with
          | nil => simp at hl
          | cons s ss' =>
            have h0 := h 0 (by simp) (by simp)
            simp only [List.getElem_cons_zero, ha] at h0
            injection h0 with h0
            have : symbList code as = .ok ss' := (ih ss').mpr ⟨by simpa using hl, fun i hi hj => by
              have := h (i + 1) (by simp; omega) (by simp; omega); simpa using this⟩
            rw [has] at this; injection this with this
            simp [h0, this]


end Sympde.Atoms
