/-
  Helper lemmas for C01 (`lower_sound`), part 4a: the unary operator steps — every (dimension,
  logical, operator, argument type, argument form) combination is either refuted by the typing or
  dispatched to the generated leaf index.
-/
import SympdeModel.Lemmas.LowerLeaf
namespace Sympde.Lower
open E Gen
open DRing (sumN)

variable {K : Type} [CommRing K] [Algebra ℚ K]

/-! ### unary operators -/

/-- one (dimension, logical, operator, argument type) combination for an argument of signature `c`:
    ill-typed combinations are refuted, the others are dispatched to the generated index — every
    table fact (`classKnown`, `lookup`, the indexed node, the shape of the formula) is checked by
    evaluation -/
syntax "leaf1_case " term ", " term ", " term ", " term ", " term : tactic
set_option hygiene false in
macro_rules
  | `(tactic| leaf1_case $c, $d, $hVF, $hsig, $prep) => `(tactic|
      first
      | (exfalso; simp [ty1] at hty; done)
      | (exfalso; simp at hτ; done)
      | (simp [ty1] at hty; subst hty
         simp only [op1Class, Option.some.injEq] at hcn; subst hcn
         refine leaf1_sound S $d (by decide) _ _ _ _ rfl _ $c _ (ph 0 $c $d) (by rfl) (by rfl) (by rfl)
           (by rfl) (by rfl) (by rfl) (by rfl) (by rfl) (by rfl)
           (by first | exact Or.inl rfl | exact Or.inr rfl) a _ $hVF $hsig hra ?_ IH
         simp only [$prep:term]
         reads_tac))

set_option maxRecDepth 100000 in
/-- argument lowered to a scalar form (signature `s`, or `d` for a derivative node in 1D) -/
theorem op1_step_sc (S : DRing K) (d : Nat) (hd : d = 1 ∨ d = 2 ∨ d = 3) (lg : Bool) (o : Op1)
    (τa τ : Ty) (hty : ty1 d o τa = some τ) (cn : String) (hcn : op1Class o = some cn) (a a' : E)
    (hLS : LS a' = true) (hτ : τa = .s ∨ d = 1) (hra : rank d a = rk τa)
    (IH : ∀ i j, InR d τa i j → den S a' i j = denG S d lg a i j) :
    (∃ t, applyLeaf d ((if lg then "Logical" else "") ++ cn ++ "_" ++ toString d ++ "d") [a'] = .ok t) ∧
    ∀ t, applyLeaf d ((if lg then "Logical" else "") ++ cn ++ "_" ++ toString d ++ "d") [a'] = .ok t →
      hasShape d τ t = true ∧ ∀ i j, InR d τ i j → den S t i j = denG S d lg (op1 o a) i j := by
  have hVF : VF a' = true := LS_VF a' hLS
  have hσ : sigmaOf d [a'] = [("@" ++ toString 0, a')] := by rw [sigmaOf_one, bindArg_LS_eq d 0 a' hLS]
  rcases sigOf_LS d a' hLS with hsig | ⟨hd1, hsig⟩
  · rcases hd with rfl | rfl | rfl
    · cases lg <;> cases o <;> cases τa <;> leaf1_case 's', 1, hVF, hsig, hσ
    · cases lg <;> cases o <;> cases τa <;> leaf1_case 's', 2, hVF, hsig, hσ
    · cases lg <;> cases o <;> cases τa <;> leaf1_case 's', 3, hVF, hsig, hσ
  · subst hd1
    cases lg <;> cases o <;> cases τa <;> leaf1_case 'd', 1, hVF, hsig, hσ

set_option maxRecDepth 100000 in
/-- argument lowered to a column (signature `v`; in 1D also what a matrix is lowered to) -/
theorem op1_step_vec (S : DRing K) (d : Nat) (hd : d = 1 ∨ d = 2 ∨ d = 3) (lg : Bool) (o : Op1)
    (τa τ : Ty) (hty : ty1 d o τa = some τ) (cn : String) (hcn : op1Class o = some cn) (a : E)
    (es : List E) (hes : LSList es = true) (hτ : τa = .v ∨ (τa = .m ∧ d = 1))
    (hra : rank d a = rk τa)
    (IH : ∀ i j, InR d τa i j → den S (mat d 1 es) i j = denG S d lg a i j) :
    (∃ t, applyLeaf d ((if lg then "Logical" else "") ++ cn ++ "_" ++ toString d ++ "d") [mat d 1 es] = .ok t) ∧
    ∀ t, applyLeaf d ((if lg then "Logical" else "") ++ cn ++ "_" ++ toString d ++ "d") [mat d 1 es] = .ok t →
      hasShape d τ t = true ∧ ∀ i j, InR d τ i j → den S t i j = denG S d lg (op1 o a) i j := by
  have hVF : VF (mat d 1 es) = true := by simpa [VF] using hes
  rcases hd with rfl | rfl | rfl
  · cases lg <;> cases o <;> cases τa <;>
      leaf1_case 'v', 1, hVF, (show sigOf 1 (mat 1 1 es) = some 'v' from rfl), sigmaOf_one
  · cases lg <;> cases o <;> cases τa <;>
      leaf1_case 'v', 2, hVF, (show sigOf 2 (mat 2 1 es) = some 'v' from rfl), sigmaOf_one
  · cases lg <;> cases o <;> cases τa <;>
      leaf1_case 'v', 3, hVF, (show sigOf 3 (mat 3 1 es) = some 'v' from rfl), sigmaOf_one

set_option maxRecDepth 100000 in
/-- argument lowered to a square matrix in dimension 2 or 3 (signature `m`) -/
theorem op1_step_mat (S : DRing K) (d : Nat) (hd : d = 2 ∨ d = 3) (lg : Bool) (o : Op1)
    (τa τ : Ty) (hty : ty1 d o τa = some τ) (cn : String) (hcn : op1Class o = some cn) (a : E)
    (es : List E) (hes : LSList es = true) (hτ : τa = .m) (hra : rank d a = rk τa)
    (IH : ∀ i j, InR d τa i j → den S (mat d d es) i j = denG S d lg a i j) :
    (∃ t, applyLeaf d ((if lg then "Logical" else "") ++ cn ++ "_" ++ toString d ++ "d") [mat d d es] = .ok t) ∧
    ∀ t, applyLeaf d ((if lg then "Logical" else "") ++ cn ++ "_" ++ toString d ++ "d") [mat d d es] = .ok t →
      hasShape d τ t = true ∧ ∀ i j, InR d τ i j → den S t i j = denG S d lg (op1 o a) i j := by
  have hVF : VF (mat d d es) = true := by simpa [VF] using hes
  rcases hd with rfl | rfl
  · cases lg <;> cases o <;> cases τa <;>
      leaf1_case 'm', 2, hVF, (show sigOf 2 (mat 2 2 es) = some 'm' from rfl), sigmaOf_one
  · cases lg <;> cases o <;> cases τa <;>
      leaf1_case 'm', 3, hVF, (show sigOf 3 (mat 3 3 es) = some 'm' from rfl), sigmaOf_one

end Sympde.Lower
