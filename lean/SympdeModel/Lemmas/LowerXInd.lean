/-
  Helper lemmas for C01 (`lower_sound_ext`), part 4: the budgeted typing judgement `tyk` of the fragment
  with scalar powers and elementary functions, the non-degeneracy hypothesis `NDG` on the generic
  expression, and the structural induction over the dispatcher.
-/
import SympdeModel.Lemmas.LowerXStep1
import SympdeModel.Lemmas.LowerXStep2
import SympdeModel.Lemmas.LowerInd
set_option linter.unusedTactic false
namespace Sympde.Lower
open E PD Gen
open DRing (sumN)

variable {K : Type} [CommRing K] [Algebra ℚ K]

/-! ### extended scalar forms as generic expressions -/

theorem denG_LX (S : DRing K) (d : Nat) (lg : Bool) (e : E) (h : LX e = true) :
    ∀ i j, denG S d lg e i j = den S e i j := by
  induction e using E.rec
    (motive_2 := fun as => ∀ a ∈ as, LX a = true → ∀ i j, denG S d lg a i j = den S a i j) with
  | num _ _ => intro i j; simp [denG, den]
  | cst _ => intro i j; simp [denG, den]
  | sym _ => intro i j; simp [denG, den]
  | sf _ _ => intro i j; simp [denG, den]
  | idx b k _ => cases b <;> simp_all [LX, denG, den]
  | pd c a ih => intro i j; simp only [denG, den]; rw [ih (by simpa [LX] using h) i j]
  | add as ih =>
    intro i j
    have hs : ∀ a ∈ as, LX a = true := fun a ha => LXList_mem (by simpa [LX] using h) ha
    simp only [denG, den]
    have key : ∀ (l : List E), (∀ a ∈ l, a ∈ as) → denGSum S d lg l i j = denSum S l i j := by
      intro l
      induction l with
      | nil => intro _; simp [denGSum, denSum]
      | cons a l ihl =>
        intro hl
        simp only [denGSum, denSum]
        rw [ih a (hl a (by simp)) (hs a (hl a (by simp))) i j, ihl (fun x hx => hl x (by simp [hx]))]
    exact key as (fun a ha => ha)
  | mul as ih =>
    intro i j
    have hs : ∀ a ∈ as, LX a = true := fun a ha => LXList_mem (by simpa [LX] using h) ha
    simp only [denG, den]
    have key : ∀ (l : List E), (∀ a ∈ l, a ∈ as) → denGProd S d lg l i j = denProd S l i j := by
      intro l
      induction l with
      | nil => intro _; simp [denGProd, denProd]
      | cons a l ihl =>
        intro hl
        simp only [denGProd, denProd]
        rw [ih a (hl a (by simp)) (hs a (hl a (by simp))) i j, ihl (fun x hx => hl x (by simp [hx]))]
    exact key as (fun a ha => ha)
  | pow b e ihb ihe =>
    intro i j
    simp only [LX, Bool.and_eq_true] at h
    simp only [denG, den]; rw [ihb h.1 i j, ihe h.2 i j]
  | fn f a ih => intro i j; simp only [denG, den]; rw [ih (by simpa [LX] using h) i j]
  | nil => cases ‹_ ∈ []›
  | cons a as iha ihas =>
    rename_i x hx hs i j
    rcases List.mem_cons.mp hx with rfl | hx
    · exact iha hs i j
    · exact ihas x hx hs i j
  | _ => simp [LX] at h

theorem rank_LX (d : Nat) (e : E) (h : LX e = true) : rank d e = 0 := by
  induction e using E.rec (motive_2 := fun as => ∀ a ∈ as, LX a = true → rank d a = 0) with
  | add as ih =>
    have hs : ∀ a ∈ as, LX a = true := fun a ha => LXList_mem (by simpa [LX] using h) ha
    cases as with
    | nil => simp [rank, rankHead]
    | cons a as => simp only [rank, rankHead]; exact ih a (by simp) (hs a (by simp))
  | mul as ih =>
    have hs : ∀ a ∈ as, LX a = true := fun a ha => LXList_mem (by simpa [LX] using h) ha
    simp only [rank]
    have key : ∀ (l : List E), (∀ a ∈ l, a ∈ as) → rankMax d l = 0 := by
      intro l
      induction l with
      | nil => intro _; simp [rankMax]
      | cons a l ihl =>
        intro hl
        simp only [rankMax]
        rw [ih a (hl a (by simp)) (hs a (hl a (by simp))), ihl (fun x hx => hl x (by simp [hx]))]
        rfl
    exact key as (fun a ha => ha)
  | pd c a ih => simp only [rank]; exact ih (by simpa [LX] using h)
  | idx b k _ => cases b <;> simp_all [LX, rank]
  | nil => cases ‹_ ∈ []›
  | cons a as iha ihas =>
    rename_i x hx hs
    rcases List.mem_cons.mp hx with rfl | hx
    · exact iha hs
    · exact ihas x hx hs
  | num _ _ => simp [rank]
  | cst _ => simp [rank]
  | sym _ => simp [rank]
  | sf _ _ => simp [rank]
  | pow _ _ _ _ => simp [rank]
  | fn _ _ _ => simp [rank]
  | _ => simp [LX] at h

/-! ### the budgeted typing judgement -/

/-- an exponent whose lowered form is an integer literal exactly when it is one itself: a literal,
    or an expression that is not headed by an operator (nor a degenerate one-term sum / product) -/
def headStable : E → Bool
  | num _ _ => true
  | cst _ => true
  | sym _ => true
  | sf _ _ => true
  | idx _ _ => true
  | pow _ _ => true
  | fn _ _ => true
  | add (_ :: _ :: _) => true
  | mul (_ :: _ :: _) => true
  | _ => false

mutual
/-- the type of a generic expression that will be differentiated `k` more times (`none` outside the
    fragment): the fragment of `ty`, plus `pow b e` for scalar `b`, `e` (any exponent: integer or
    rational literal, or a head-stable expression), `f(a)` for an elementary function of a scalar
    `a` of the fragment (differentiated only if `f` is in the derivative table of the model of
    `sympy.diff`; so `Abs` is never differentiated); an operator of order `ord` raises the budget of
    its arguments by `ord` -/
def tyk (d : Nat) : E → Nat → Option Ty
  | num _ _, _ => some .s
  | cst _, _ => some .s
  | sym _, _ => some .s
  | sf _ _, _ => some .s
  | vf _ _, _ => some .v
  | idx (vf _ _) _, _ => some .s
  | add as, k => tykAdd d as k
  | mul as, k => tykMul d as k
  | pow b e, k =>
      if tyk d b k == some .s && tyk d e k == some .s && headStable e then some .s else none
  | fn f a, k =>
      if tyk d a k == some .s && (k == 0 || knownFn f) then some .s else none
  | op1 o a, k => (tyk d a (k + ord1 o)).bind (ty1 d o)
  | op2 o a b, k =>
      (tyk d a (k + ord2 o)).bind (fun τa => (tyk d b (k + ord2 o)).bind (fun τb => ty2 d o τa τb))
  | _, _ => none
def tykAdd (d : Nat) : List E → Nat → Option Ty
  | [], _ => none
  | a :: as, k => (tyk d a k).bind (fun τ => if tykAll d τ as k then some τ else none)
def tykAll (d : Nat) (τ : Ty) : List E → Nat → Bool
  | [], _ => true
  | a :: as, k => (tyk d a k == some τ) && tykAll d τ as k
def tykMul (d : Nat) : List E → Nat → Option Ty
  | [], _ => none
  | a :: as, k => (tyk d a k).bind (fun τ => tykMulAcc d τ as k)
def tykMulAcc (d : Nat) (τ : Ty) : List E → Nat → Option Ty
  | [], _ => some τ
  | a :: as, k => (tyk d a k).bind (fun τa => (tmul τ τa).bind (fun τ' => tykMulAcc d τ' as k))
end

theorem tykAll_mem (d : Nat) (τ : Ty) (as : List E) (k : Nat) (h : tykAll d τ as k = true) :
    ∀ a ∈ as, tyk d a k = some τ := by
  induction as with
  | nil => intro a ha; cases ha
  | cons x xs ih =>
    simp only [tykAll, Bool.and_eq_true, beq_iff_eq] at h
    intro a ha
    rcases List.mem_cons.mp ha with rfl | ha
    · exact h.1
    · exact ih h.2 a ha

theorem tykMulAcc_rank (d : Nat) (as : List E) (k : Nat)
    (ih : ∀ a ∈ as, ∀ τ, tyk d a k = some τ → rank d a = rk τ) (τ0 τ : Ty)
    (h : tykMulAcc d τ0 as k = some τ) : rk τ = max (rk τ0) (rankMax d as) := by
  induction as generalizing τ0 with
  | nil =>
    simp only [tykMulAcc, Option.some.injEq] at h
    subst h; simp [rankMax]
  | cons x xs ihx =>
    simp only [tykMulAcc] at h
    cases hx : tyk d x k with
    | none => rw [hx] at h; simp at h
    | some τx =>
      rw [hx] at h
      simp only [Option.bind_some] at h
      cases hm : tmul τ0 τx with
      | none => rw [hm] at h; simp at h
      | some τ' =>
        rw [hm] at h
        simp only [Option.bind_some] at h
        have := ihx (fun a ha => ih a (by simp [ha])) τ' h
        rw [this, tmul_rk τ0 τx τ' hm, ← ih x (by simp) τx hx]
        simp only [rankMax]
        omega

/-- what the typing of a power says -/
theorem tyk_pow (d : Nat) (b e : E) (k : Nat) (τ : Ty) (h : tyk d (pow b e) k = some τ) :
    τ = .s ∧ tyk d b k = some .s ∧ tyk d e k = some .s ∧ headStable e = true := by
  simp only [tyk] at h
  split at h
  · rename_i hc
    simp only [Bool.and_eq_true, beq_iff_eq] at hc
    simp only [Option.some.injEq] at h
    exact ⟨h.symm, hc.1.1, hc.1.2, hc.2⟩
  · cases h

/-- what the typing of an elementary function says -/
theorem tyk_fn (d : Nat) (f : String) (a : E) (k : Nat) (τ : Ty) (h : tyk d (fn f a) k = some τ) :
    τ = .s ∧ tyk d a k = some .s ∧ (k = 0 ∨ knownFn f = true) := by
  simp only [tyk] at h
  split at h
  · rename_i hc
    simp only [Bool.and_eq_true, Bool.or_eq_true, beq_iff_eq] at hc
    simp only [Option.some.injEq] at h
    exact ⟨h.symm, hc.1, hc.2⟩
  · cases h

/-- **a well-typed expression has the rank of its type** -/
theorem tyk_rank (d : Nat) (e : E) (k : Nat) (τ : Ty) (h : tyk d e k = some τ) : rank d e = rk τ := by
  induction e using E.rec
    (motive_2 := fun as => ∀ a ∈ as, ∀ k τ, tyk d a k = some τ → rank d a = rk τ)
    generalizing k τ with
  | num _ _ => simp only [tyk, Option.some.injEq] at h; subst h; simp [rank, rk]
  | cst _ => simp only [tyk, Option.some.injEq] at h; subst h; simp [rank, rk]
  | sym _ => simp only [tyk, Option.some.injEq] at h; subst h; simp [rank, rk]
  | sf _ _ => simp only [tyk, Option.some.injEq] at h; subst h; simp [rank, rk]
  | vf _ _ => simp only [tyk, Option.some.injEq] at h; subst h; simp [rank, rk]
  | idx b i _ =>
    cases b <;> simp only [tyk] at h <;> first | (cases h; done) | skip
    simp only [Option.some.injEq] at h; subst h; simp [rank, rk]
  | pow b e _ _ => obtain ⟨rfl, _⟩ := tyk_pow d b e k τ h; simp [rank, rk]
  | fn f a _ => obtain ⟨rfl, _⟩ := tyk_fn d f a k τ h; simp [rank, rk]
  | add as ih =>
    simp only [tyk] at h
    cases as with
    | nil => simp [tykAdd] at h
    | cons a rest =>
      simp only [tykAdd] at h
      cases ha : tyk d a k with
      | none => rw [ha] at h; simp at h
      | some τa =>
        rw [ha] at h
        simp only [Option.bind_some] at h
        split at h
        · simp only [Option.some.injEq] at h; subst h
          simp only [rank, rankHead]
          exact ih a (by simp) k τa ha
        · cases h
  | mul as ih =>
    simp only [tyk] at h
    cases as with
    | nil => simp [tykMul] at h
    | cons a rest =>
      simp only [tykMul] at h
      cases ha : tyk d a k with
      | none => rw [ha] at h; simp at h
      | some τa =>
        rw [ha] at h
        simp only [Option.bind_some] at h
        have := tykMulAcc_rank d rest k (fun x hx => ih x (by simp [hx]) k) τa τ h
        simp only [rank, rankMax]
        rw [this, ih a (by simp) k τa ha]
  | op1 o a iha =>
    simp only [tyk] at h
    cases ha : tyk d a (k + ord1 o) with
    | none => rw [ha] at h; simp at h
    | some τa =>
      rw [ha] at h
      simp only [Option.bind_some] at h
      have hr := iha (k + ord1 o) τa ha
      cases o <;> cases τa <;> simp only [ty1] at h <;>
        first
        | (cases h; done)
        | (simp only [Option.some.injEq] at h; subst h; simp [rank, rk, hr])
        | (split at h <;> first
            | (cases h; done)
            | (simp only [Option.some.injEq] at h; subst h; simp_all [rank, rk])
            | (split at h <;> first
                | (simp only [Option.some.injEq] at h; subst h; simp_all [rank, rk])
                | (cases h; done)))
  | op2 o a b iha ihb =>
    simp only [tyk] at h
    cases ha : tyk d a (k + ord2 o) with
    | none => rw [ha] at h; simp at h
    | some τa =>
      rw [ha] at h
      simp only [Option.bind_some] at h
      cases hb : tyk d b (k + ord2 o) with
      | none => rw [hb] at h; simp at h
      | some τb =>
        rw [hb] at h
        simp only [Option.bind_some] at h
        have hra := iha (k + ord2 o) τa ha
        have hrb := ihb (k + ord2 o) τb hb
        cases o <;> cases τa <;> cases τb <;> simp only [ty2] at h <;>
          first
          | (cases h; done)
          | (simp only [Option.some.injEq] at h; subst h; simp [rank, rk, hra, hrb])
          | (split at h <;> first
              | (cases h; done)
              | (simp only [Option.some.injEq] at h; subst h; simp_all [rank, rk])
              | (split at h <;> first
                  | (simp only [Option.some.injEq] at h; subst h; simp_all [rank, rk])
                  | (cases h; done)))
  | nil => cases ‹_ ∈ []›
  | cons a as iha ihas =>
    rename_i x hx k' τ' hτ'
    rcases List.mem_cons.mp hx with rfl | hx
    · exact iha k' τ' hτ'
    · exact ihas x hx k' τ' hτ'
  | _ => simp [tyk] at h

theorem tykMulAcc_s (d : Nat) (as : List E) (k : Nat) (τ0 : Ty) (h : tykMulAcc d τ0 as k = some .s) :
    τ0 = .s ∧ ∀ a ∈ as, tyk d a k = some .s := by
  induction as generalizing τ0 with
  | nil =>
    simp only [tykMulAcc, Option.some.injEq] at h
    exact ⟨h, fun a ha => (by cases ha)⟩
  | cons x xs ih =>
    simp only [tykMulAcc] at h
    cases hx : tyk d x k with
    | none => rw [hx] at h; simp at h
    | some τx =>
      rw [hx] at h
      simp only [Option.bind_some] at h
      cases hm : tmul τ0 τx with
      | none => rw [hm] at h; simp at h
      | some τ' =>
        rw [hm] at h
        simp only [Option.bind_some] at h
        obtain ⟨rfl, hrest⟩ := ih τ' h
        obtain ⟨rfl, rfl⟩ := tmul_s τ0 τx hm
        refine ⟨rfl, fun a ha => ?_⟩
        rcases List.mem_cons.mp ha with rfl | ha
        · exact hx
        · exact hrest a ha

/-- **a scalar-typed expression has an index-free classical value** -/
theorem tyk_indexFree (S : DRing K) (d : Nat) (lg : Bool) (e : E) (k : Nat) (h : tyk d e k = some .s) :
    ∀ i j, denG S d lg e i j = denG S d lg e 0 0 := by
  induction e using E.rec
    (motive_2 := fun as => ∀ a ∈ as, ∀ k, tyk d a k = some .s →
      ∀ i j, denG S d lg a i j = denG S d lg a 0 0) generalizing k with
  | num _ _ => intro i j; simp [denG]
  | cst _ => intro i j; simp [denG]
  | sym _ => intro i j; simp [denG]
  | sf _ _ => intro i j; simp [denG]
  | vf _ _ => simp [tyk] at h
  | idx b i _ => intro i j; simp [denG]
  | pow b e ihb ihe =>
    intro i j
    obtain ⟨_, hb, he, _⟩ := tyk_pow d b e k _ h
    simp only [denG]; rw [ihb k hb i j, ihe k he i j]
  | fn f a iha =>
    intro i j
    obtain ⟨_, ha, _⟩ := tyk_fn d f a k _ h
    simp only [denG]
    rw [iha k ha i j]
  | add as ih =>
    intro i j
    simp only [tyk] at h
    cases as with
    | nil => simp [tykAdd] at h
    | cons a rest =>
      simp only [tykAdd] at h
      cases ha : tyk d a k with
      | none => rw [ha] at h; simp at h
      | some τa =>
        rw [ha] at h
        simp only [Option.bind_some] at h
        split at h
        · rename_i hall
          simp only [Option.some.injEq] at h; subst h
          simp only [denG]
          apply denGSum_congr'
          intro x hx
          rcases List.mem_cons.mp hx with rfl | hx'
          · exact ih x (by simp) k ha i j
          · exact ih x hx k (tykAll_mem d _ rest k hall x hx') i j
        · cases h
  | mul as ih =>
    intro i j
    simp only [tyk] at h
    cases as with
    | nil => simp [tykMul] at h
    | cons a rest =>
      simp only [tykMul] at h
      cases ha : tyk d a k with
      | none => rw [ha] at h; simp at h
      | some τa =>
        rw [ha] at h
        simp only [Option.bind_some] at h
        obtain ⟨rfl, hrest⟩ := tykMulAcc_s d rest k τa h
        simp only [denG]
        apply denGProd_congr'
        intro x hx
        rcases List.mem_cons.mp hx with rfl | hx'
        · exact ih x (by simp) k ha i j
        · exact ih x hx k (hrest x hx') i j
  | op1 o a iha =>
    intro i j
    simp only [tyk] at h
    cases ha : tyk d a (k + ord1 o) with
    | none => rw [ha] at h; simp at h
    | some τa =>
      rw [ha] at h
      simp only [Option.bind_some] at h
      have hr := tyk_rank d a _ τa ha
      cases o <;> cases τa <;> simp only [ty1] at h <;> try (cases h; done)
      -- curl v (d = 2)
      · have hd : d = 2 := by
          by_cases h3 : d = 3
          · simp [h3] at h
          · by_cases h2 : d = 2
            · exact h2
            · simp [h3, h2] at h
        subst hd
        simp [denG]
      -- rot s: the result is a vector
      · split at h <;> cases h
      -- div v
      · simp [denG, hr, rk]
      -- laplace s
      · simp only [denG]
        rw [iha _ ha i j]
  | op2 o a b iha ihb =>
    intro i j
    simp only [tyk] at h
    cases ha : tyk d a (k + ord2 o) with
    | none => rw [ha] at h; simp at h
    | some τa =>
      rw [ha] at h
      simp only [Option.bind_some] at h
      cases hb : tyk d b (k + ord2 o) with
      | none => rw [hb] at h; simp at h
      | some τb =>
        rw [hb] at h
        simp only [Option.bind_some] at h
        have hra := tyk_rank d a _ τa ha
        have hrb := tyk_rank d b _ τb hb
        cases o <;> cases τa <;> cases τb <;> simp only [ty2] at h <;> try (cases h; done)
        -- dot v v
        · simp [denG, hra, hrb, rk]
        -- cross v v (d = 2)
        · have hd : d = 2 := by
            by_cases h3 : d = 3
            · simp [h3] at h
            · by_cases h2 : d = 2
              · exact h2
              · simp [h3, h2] at h
          subst hd
          simp [denG]
        -- inner v v, inner m m
        · simp [denG]
        · simp [denG]
        -- bracket s s
        · simp [denG]
  | nil => cases ‹_ ∈ []›
  | cons a as iha ihas =>
    rename_i x hx k' hτ i j
    rcases List.mem_cons.mp hx with rfl | hx
    · exact iha k' hτ i j
    · exact ihas x hx k' hτ i j
  | _ => simp [tyk] at h

/-! ### the non-degeneracy hypothesis, on the generic expression -/

/-- the classical value of `b` is a unit (with inverse `S.inv`) at every component -/
def InvG (S : DRing K) (d : Nat) (lg : Bool) (b : E) : Prop :=
  ∀ i j, denG S d lg b i j * S.inv (denG S d lg b i j) = 1

def powCondG (S : DRing K) (d : Nat) (lg : Bool) (k : Nat) (b e : E) : Prop :=
  match intLit e with
  | some (Int.ofNat n) => k ≤ n ∨ InvG S d lg b
  | _ => k = 0 ∨ InvG S d lg b

def fnCondG (S : DRing K) (d : Nat) (lg : Bool) (k : Nat) (f : String) (a : E) : Prop :=
  k = 0 ∨ (knownFn f = true ∧ (f = "log" → InvG S d lg a) ∧
    (f = "tan" → k ≤ 3 ∨ InvG S d lg (fn "tan" a)))

mutual
/-- `NDG S d lg e k`: `e`, differentiated `k` more times, never needs the derivative of an inverse
    that does not exist: for every power `b ^ e'` inside `e` that ends up under `k'` derivatives,
    either `e'` is a literal `n ≥ k'`, or nothing differentiates it (`k' = 0`), or `b` is invertible;
    the argument of a differentiated `log` is invertible, `tan a` differentiated more than three
    times is invertible, and differentiated elementary functions are in the table.
    (Expressions without powers and functions satisfy it trivially: `NDG_of_ty`.) -/
def NDG (S : DRing K) (d : Nat) (lg : Bool) : E → Nat → Prop
  | pow b e, k => powCondG S d lg k b e ∧ NDG S d lg b k ∧ NDG S d lg e k
  | fn f a, k => fnCondG S d lg k f a ∧ NDG S d lg a k
  | add as, k => NDGList S d lg as k
  | mul as, k => NDGList S d lg as k
  | op1 o a, k => NDG S d lg a (k + ord1 o)
  | op2 o a b, k => NDG S d lg a (k + ord2 o) ∧ NDG S d lg b (k + ord2 o)
  | _, _ => True
def NDGList (S : DRing K) (d : Nat) (lg : Bool) : List E → Nat → Prop
  | [], _ => True
  | a :: as, k => NDG S d lg a k ∧ NDGList S d lg as k
end

theorem NDGList_mem (S : DRing K) (d : Nat) (lg : Bool) (as : List E) (k : Nat)
    (h : NDGList S d lg as k) (a : E) (ha : a ∈ as) : NDG S d lg a k := by
  induction as with
  | nil => cases ha
  | cons x xs ih =>
    simp only [NDGList] at h
    rcases List.mem_cons.mp ha with rfl | ha
    · exact h.1
    · exact ih h.2 ha

/-- on the fragment without powers and functions the hypothesis is void -/
theorem NDG_of_ty (S : DRing K) (d : Nat) (lg : Bool) (e : E) (τ : Ty) (h : ty d e = some τ) (k : Nat) :
    NDG S d lg e k := by
  induction e using E.rec
    (motive_2 := fun as => ∀ a ∈ as, ∀ τ, ty d a = some τ → ∀ k, NDG S d lg a k)
    generalizing τ k with
  | add as ih =>
    simp only [NDG]
    have hm : ∀ a ∈ as, ∃ τ, ty d a = some τ := by
      intro a ha
      simp only [ty] at h
      cases as with
      | nil => cases ha
      | cons x rest =>
        simp only [tyAdd] at h
        cases hx : ty d x with
        | none => rw [hx] at h; simp at h
        | some τx =>
          rw [hx] at h
          simp only [Option.bind_some] at h
          split at h
          · rename_i hall
            rcases List.mem_cons.mp ha with rfl | ha
            · exact ⟨τx, hx⟩
            · exact ⟨τx, tyAll_mem d τx rest hall a ha⟩
          · cases h
    have : ∀ (l : List E), (∀ a ∈ l, a ∈ as) → NDGList S d lg l k := by
      intro l
      induction l with
      | nil => intro _; trivial
      | cons a l ihl =>
        intro hl
        obtain ⟨τa, hτa⟩ := hm a (hl a (by simp))
        exact ⟨ih a (hl a (by simp)) τa hτa k, ihl (fun x hx => hl x (by simp [hx]))⟩
    exact this as (fun a ha => ha)
  | mul as ih =>
    simp only [NDG]
    have hm : ∀ a ∈ as, ∃ τ, ty d a = some τ := by
      intro a ha
      simp only [ty] at h
      cases as with
      | nil => cases ha
      | cons x rest =>
        simp only [tyMul] at h
        cases hx : ty d x with
        | none => rw [hx] at h; simp at h
        | some τx =>
          rw [hx] at h
          simp only [Option.bind_some] at h
          rcases List.mem_cons.mp ha with rfl | ha
          · exact ⟨τx, hx⟩
          · have : ∀ (l : List E) (τ0 : Ty), a ∈ l → tyMulAcc d τ0 l = some τ → ∃ τ', ty d a = some τ' := by
              intro l
              induction l with
              | nil => intro _ hm; cases hm
              | cons y ys ihl =>
                intro τ0 hm hacc
                simp only [tyMulAcc] at hacc
                cases hy : ty d y with
                | none => rw [hy] at hacc; simp at hacc
                | some τy =>
                  rw [hy] at hacc
                  simp only [Option.bind_some] at hacc
                  cases hmm : tmul τ0 τy with
                  | none => rw [hmm] at hacc; simp at hacc
                  | some τ'' =>
                    rw [hmm] at hacc
                    simp only [Option.bind_some] at hacc
                    rcases List.mem_cons.mp hm with rfl | hm
                    · exact ⟨τy, hy⟩
                    · exact ihl τ'' hm hacc
            exact this rest τx ha h
    have : ∀ (l : List E), (∀ a ∈ l, a ∈ as) → NDGList S d lg l k := by
      intro l
      induction l with
      | nil => intro _; trivial
      | cons a l ihl =>
        intro hl
        obtain ⟨τa, hτa⟩ := hm a (hl a (by simp))
        exact ⟨ih a (hl a (by simp)) τa hτa k, ihl (fun x hx => hl x (by simp [hx]))⟩
    exact this as (fun a ha => ha)
  | op1 o a iha =>
    simp only [ty] at h
    cases ha : ty d a with
    | none => rw [ha] at h; simp at h
    | some τa => simp only [NDG]; exact iha τa ha _
  | op2 o a b iha ihb =>
    simp only [ty] at h
    cases ha : ty d a with
    | none => rw [ha] at h; simp at h
    | some τa =>
      rw [ha] at h
      simp only [Option.bind_some] at h
      cases hb : ty d b with
      | none => rw [hb] at h; simp at h
      | some τb => simp only [NDG]; exact ⟨iha τa ha _, ihb τb hb _⟩
  | pow b e _ _ => simp [ty] at h
  | fn f a _ => simp [ty] at h
  | nil => cases ‹_ ∈ []›
  | cons a as iha ihas =>
    rename_i x hx τ' hτ' k'
    rcases List.mem_cons.mp hx with rfl | hx
    · exact iha τ' hτ' k'
    · exact ihas x hx τ' hτ' k'
  | _ => trivial

/-! ### the exponent of a lowered power -/

theorem addV_result (a b t : E) (h : addV a b = .ok t) :
    (∃ r c es, t = mat r c es) ∨ t = add [a, b] := by
  by_cases hma : ∃ r c es, a = mat r c es
  · obtain ⟨r, c, es, rfl⟩ := hma
    left
    cases b <;> simp only [addV] at h <;>
      first
      | (cases h; done)
      | (split at h <;> first | (injection h with h; exact ⟨_, _, _, h.symm⟩) | (cases h; done))
  · by_cases hmb : ∃ r c es, b = mat r c es
    · obtain ⟨r, c, es, rfl⟩ := hmb
      left
      cases a <;> simp only [addV] at h <;>
        first
        | (cases h; done)
        | (exact absurd ⟨_, _, _, rfl⟩ hma)
        | (split at h <;> first | (injection h with h; exact ⟨_, _, _, h.symm⟩) | (cases h; done))
    · right
      cases a <;> cases b <;>
        first
        | (injection h with h; exact h.symm)
        | (cases h; done)
        | (exact absurd ⟨_, _, _, rfl⟩ hma)
        | (exact absurd ⟨_, _, _, rfl⟩ hmb)

theorem mulV_result (a b t : E) (h : mulV a b = .ok t) :
    (∃ r c es, t = mat r c es) ∨ t = mul [a, b] := by
  by_cases hma : ∃ r c es, a = mat r c es
  · obtain ⟨r, c, es, rfl⟩ := hma
    left
    cases b <;> simp only [mulV, isMat] at h <;>
      first
      | (injection h with h; exact ⟨_, _, _, h.symm⟩)
      | (cases h; done)
      | (split at h <;> first | (injection h with h; exact ⟨_, _, _, h.symm⟩) | (cases h; done))
  · by_cases hmb : ∃ r c es, b = mat r c es
    · obtain ⟨r, c, es, rfl⟩ := hmb
      left
      cases a <;>
        first
        | (injection h with h; exact ⟨_, _, _, h.symm⟩)
        | (cases h; done)
        | (exact absurd ⟨_, _, _, rfl⟩ hma)
    · right
      cases a <;> cases b <;>
        first
        | (injection h with h; exact h.symm)
        | (cases h; done)
        | (exact absurd ⟨_, _, _, rfl⟩ hma)
        | (exact absurd ⟨_, _, _, rfl⟩ hmb)

theorem foldlM_last {α : Type} (f : α → α → Except Err α) (l : List α) (x acc t : α)
    (h : (x :: l).foldlM f acc = .ok t) : ∃ acc' z, f acc' z = .ok t := by
  induction l generalizing x acc with
  | nil =>
    simp only [List.foldlM_cons, List.foldlM_nil, bind, Except.bind, pure, Except.pure] at h
    cases h1 : f acc x with
    | error e => rw [h1] at h; cases h
    | ok v => rw [h1] at h; injection h with h; subst h; exact ⟨acc, x, h1⟩
  | cons y l ih =>
    rw [List.foldlM_cons] at h
    simp only [bind, Except.bind] at h
    cases h1 : f acc x with
    | error e => rw [h1] at h; cases h
    | ok v => rw [h1] at h; exact ih y v h

/-- an elementary function lowers its argument -/
theorem lower_fn (d : Nat) (lg : Bool) (f : String) (a : E) :
    lower d lg (fn f a) = (do .ok (fn f (← lower d lg a))) := by
  simp only [lower]

/-- lowering does not turn a head-stable expression into (or away from) an integer literal -/
theorem lower_intLit (d : Nat) (lg : Bool) (e e' : E) (hs : headStable e = true)
    (h : lower d lg e = .ok e') (hL : LX e' = true) : intLit e' = intLit e := by
  cases e with
  | num p q => simp only [lower] at h; injection h with h; subst h; rfl
  | cst n => simp only [lower] at h; injection h with h; subst h; rfl
  | sym n => simp only [lower] at h; injection h with h; subst h; rfl
  | sf n k => simp only [lower] at h; injection h with h; subst h; rfl
  | idx b i => simp only [lower] at h; injection h with h; subst h; rfl
  | pow b x =>
    simp only [lower, bind, Except.bind] at h
    cases hb : lower d lg b with
    | error err => rw [hb] at h; cases h
    | ok b' =>
      rw [hb] at h
      simp only at h
      cases hx : lower d lg x with
      | error err => rw [hx] at h; cases h
      | ok x' =>
        rw [hx] at h
        simp only at h
        split at h
        · cases h
        · injection h with h; subst h; rfl
  | fn f a =>
    rw [lower_fn] at h
    simp only [bind, Except.bind] at h
    cases ha : lower d lg a with
    | error err => rw [ha] at h; cases h
    | ok a' => rw [ha] at h; injection h with h; subst h; rfl
  | add as =>
    match as, hs with
    | x :: y :: rest, _ =>
      simp only [lower, bind, Except.bind] at h
      cases hls : lowerList d lg (x :: y :: rest) with
      | error err => rw [hls] at h; cases h
      | ok ts =>
        rw [hls] at h
        simp only at h
        have F := lowerList_spec d lg _ ts hls
        cases F with
        | cons _ F' =>
          cases F' with
          | cons _ _ =>
            simp only [foldV] at h
            obtain ⟨acc', z, hz⟩ := foldlM_last addV _ _ _ _ h
            rcases addV_result acc' z e' hz with ⟨r, c, es, rfl⟩ | rfl
            · simp [LX] at hL
            · rfl
  | mul as =>
    match as, hs with
    | x :: y :: rest, _ =>
      simp only [lower, bind, Except.bind] at h
      cases hls : lowerList d lg (x :: y :: rest) with
      | error err => rw [hls] at h; cases h
      | ok ts =>
        rw [hls] at h
        simp only at h
        have F := lowerList_spec d lg _ ts hls
        cases F with
        | cons _ F' =>
          cases F' with
          | cons _ _ =>
            simp only [foldV] at h
            obtain ⟨acc', z, hz⟩ := foldlM_last mulV _ _ _ _ h
            rcases mulV_result acc' z e' hz with ⟨r, c, es, rfl⟩ | rfl
            · simp [LX] at hL
            · rfl
  | _ => simp [headStable] at hs

/-! ### sums and products: from the members to the fold -/

/-- what the induction hypothesis says of a lowered member of type `τ` under `k` more derivatives -/
def GoodX (S : DRing K) (d : Nat) (lg : Bool) (k : Nat) (τ : Ty) (a t : E) : Prop :=
  hasShapeX d τ t = true ∧ VN S k t ∧ ∀ i j, InR d τ i j → den S t i j = denG S d lg a i j

theorem GoodX_LN (S : DRing K) (d : Nat) (lg : Bool) (k : Nat) (a t : E) (g : GoodX S d lg k .s a t) :
    LN S k t :=
  VN_LN S k t (hasShapeX_s_LX d t g.1) g.2.1

/-- a lowered scalar agrees with the classical value at every pair of indices -/
theorem GoodX_scalar (S : DRing K) (d : Nat) (hd : 1 ≤ d) (lg : Bool) (k : Nat) (a t : E)
    (hty : tyk d a k = some .s) (g : GoodX S d lg k .s a t) (i j : Nat) :
    den S t i j = denG S d lg a i j := by
  rw [den_LX_free S t (hasShapeX_s_LX d t g.1) i j, g.2.2 0 0 (InR_zero_zero d hd _),
    tyk_indexFree S d lg a k hty i j]

theorem sum_membersX (S : DRing K) (d : Nat) (lg : Bool) (k : Nat) (τ : Ty) (as ts : List E)
    (F : List.Forall₂ (GoodX S d lg k τ) as ts) :
    (∀ x ∈ ts, ShN S d k τ x) ∧
    ∀ i j, InR d τ i j → denSum S ts i j = denGSum S d lg as i j := by
  induction F with
  | nil => exact ⟨fun x hx => (by cases hx), fun i j _ => by simp [denSum, denGSum]⟩
  | @cons a t as ts hat _ ih =>
    refine ⟨fun x hx => ?_, fun i j hij => ?_⟩
    · rcases List.mem_cons.mp hx with rfl | hx
      · exact ⟨hat.1, hat.2.1⟩
      · exact ih.1 x hx
    · simp only [denSum, denGSum, hat.2.2 i j hij, ih.2 i j hij]

theorem tykMulAcc_mono (d : Nat) (as : List E) (k : Nat) (τ0 τ : Ty)
    (h : tykMulAcc d τ0 as k = some τ) : τ0 = .s ∨ τ0 = τ := by
  induction as generalizing τ0 with
  | nil => simp only [tykMulAcc, Option.some.injEq] at h; exact Or.inr h
  | cons x xs ih =>
    simp only [tykMulAcc] at h
    cases hx : tyk d x k with
    | none => rw [hx] at h; simp at h
    | some τx =>
      rw [hx] at h
      simp only [Option.bind_some] at h
      cases hm : tmul τ0 τx with
      | none => rw [hm] at h; simp at h
      | some τ' =>
        rw [hm] at h
        simp only [Option.bind_some] at h
        rcases tmul_cases τ0 τx τ' hm with ⟨h0, _⟩ | ⟨_, h'⟩
        · exact Or.inl h0
        · subst h'; exact ih τ' h

theorem tykMulAcc_typed (d : Nat) (as : List E) (k : Nat) (τ0 τ : Ty)
    (h : tykMulAcc d τ0 as k = some τ) : ∀ x ∈ as, ∃ τx, tyk d x k = some τx := by
  induction as generalizing τ0 with
  | nil => intro x hx; cases hx
  | cons y ys ih =>
    simp only [tykMulAcc] at h
    cases hy : tyk d y k with
    | none => rw [hy] at h; simp at h
    | some τy =>
      rw [hy] at h
      simp only [Option.bind_some] at h
      cases hm : tmul τ0 τy with
      | none => rw [hm] at h; simp at h
      | some τ' =>
        rw [hm] at h
        simp only [Option.bind_some] at h
        intro x hx
        rcases List.mem_cons.mp hx with rfl | hx
        · exact ⟨τy, hy⟩
        · exact ih τ' h x hx

theorem factor_denX (S : DRing K) (d : Nat) (hd : 1 ≤ d) (lg : Bool) (k : Nat) (b tb : E) (τb τ : Ty)
    (hty : tyk d b k = some τb) (hg : GoodX S d lg k τb b tb) (hτ : τb = .s ∨ τb = τ) (i j : Nat)
    (hij : InR d τ i j) : den S tb i j = denG S d lg b i j := by
  rcases hτ with rfl | rfl
  · exact GoodX_scalar S d hd lg k b tb hty hg i j
  · exact hg.2.2 i j hij

theorem mul_membersX (S : DRing K) (d : Nat) (hd : 1 ≤ d) (lg : Bool) (k : Nat) (as ts : List E)
    (F : List.Forall₂ (fun a t => ∃ τa, tyk d a k = some τa ∧ GoodX S d lg k τa a t) as ts)
    (τ0 τ : Ty) (h : tykMulAcc d τ0 as k = some τ) :
    ∃ τs, List.Forall₂ (fun x τx => ShN S d k τx x) ts τs ∧ tmulList τ0 τs = some τ ∧
      ∀ i j, InR d τ i j → denProd S ts i j = denGProd S d lg as i j := by
  induction F generalizing τ0 with
  | nil =>
    simp only [tykMulAcc, Option.some.injEq] at h
    exact ⟨[], List.Forall₂.nil, by simp [tmulList, h], fun i j _ => by simp [denProd, denGProd]⟩
  | @cons b tb as ts hb _ ih =>
    obtain ⟨τb, htb, hg⟩ := hb
    simp only [tykMulAcc, htb, Option.bind_some] at h
    cases hm : tmul τ0 τb with
    | none => rw [hm] at h; simp at h
    | some τ' =>
      rw [hm] at h
      simp only [Option.bind_some] at h
      obtain ⟨τs, hF, hτs, hden⟩ := ih τ' h
      refine ⟨τb :: τs, List.Forall₂.cons ⟨hg.1, hg.2.1⟩ hF, by simp [tmulList, hm, hτs],
        fun i j hij => ?_⟩
      have hτb : τb = .s ∨ τb = τ := by
        rcases tmul_cases τ0 τb τ' hm with ⟨_, h'⟩ | ⟨h', _⟩
        · subst h'; exact tykMulAcc_mono d as k _ τ h
        · exact Or.inl h'
      simp only [denProd, denGProd, hden i j hij, factor_denX S d hd lg k b tb τb τ htb hg hτb i j hij]

theorem powSem_congr_lit (S : DRing K) (x y : K) (e e' : E) (h : intLit e' = intLit e) :
    powSem S x e' y = powSem S x e y := by
  unfold powSem; rw [h]

/-! ### the structural induction -/

/-- **lowering a well-typed expression of the extended fragment preserves its classical meaning**,
    whenever it returns a value: in every differential ring with the derivative table of the
    elementary functions, under the non-degeneracy hypothesis `NDG` -/
theorem lower_tyk_sound (S : DRing K) (T : FnTable S) (d : Nat) (hd : d = 1 ∨ d = 2 ∨ d = 3)
    (lg : Bool) (e : E) (k : Nat) (τ : Ty) (t : E) (hty : tyk d e k = some τ)
    (hnd : NDG S d lg e k) (hl : lower d lg e = .ok t) : GoodX S d lg k τ e t := by
  have hd1 : 1 ≤ d := by omega
  induction e using E.rec
    (motive_2 := fun as => ∀ a ∈ as, ∀ k τ t, tyk d a k = some τ → NDG S d lg a k →
      lower d lg a = .ok t → GoodX S d lg k τ a t) generalizing k τ t with
  | num p q =>
    simp only [tyk, Option.some.injEq] at hty; subst hty
    simp only [lower] at hl; injection hl with hl; subst hl
    exact ⟨rfl, ⟨rfl, trivial⟩, fun i j _ => by simp [den, denG]⟩
  | cst n =>
    simp only [tyk, Option.some.injEq] at hty; subst hty
    simp only [lower] at hl; injection hl with hl; subst hl
    exact ⟨rfl, ⟨rfl, trivial⟩, fun i j _ => by simp [den, denG]⟩
  | sym n =>
    simp only [tyk, Option.some.injEq] at hty; subst hty
    simp only [lower] at hl; injection hl with hl; subst hl
    exact ⟨rfl, ⟨rfl, trivial⟩, fun i j _ => by simp [den, denG]⟩
  | sf n kd =>
    simp only [tyk, Option.some.injEq] at hty; subst hty
    simp only [lower] at hl; injection hl with hl; subst hl
    exact ⟨rfl, ⟨rfl, trivial⟩, fun i j _ => by simp [den, denG]⟩
  | vf n kd =>
    simp only [tyk, Option.some.injEq] at hty; subst hty
    simp only [lower] at hl; injection hl with hl; subst hl
    refine ⟨?_, ?_, fun i j hij => ?_⟩
    · simp only [hasShapeX, beq_self_eq_true, List.length_map, List.length_range, Bool.true_and]
      apply LXList_of_mem
      intro x hx
      obtain ⟨i, _, rfl⟩ := List.mem_map.mp hx
      rfl
    · intro x hx
      obtain ⟨i, _, rfl⟩ := List.mem_map.mp hx
      exact ⟨rfl, trivial⟩
    · obtain ⟨hi, rfl⟩ := hij
      rw [den_mat_nth, if_pos ⟨hi, by decide⟩, Nat.mul_one, Nat.add_zero, nth_map_range d _ i hi]
      simp [den, denG]
  | idx b i _ =>
    cases b <;> simp only [tyk] at hty <;> first | (cases hty; done) | skip
    simp only [Option.some.injEq] at hty; subst hty
    simp only [lower] at hl; injection hl with hl; subst hl
    exact ⟨rfl, ⟨rfl, trivial⟩, fun i j _ => by simp [den, denG]⟩
  | pow b x ihb ihx =>
    obtain ⟨rfl, hb, hx, hst⟩ := tyk_pow d b x k τ hty
    simp only [NDG] at hnd
    simp only [lower, bind, Except.bind] at hl
    cases hlb : lower d lg b with
    | error err => rw [hlb] at hl; cases hl
    | ok b' =>
      rw [hlb] at hl
      simp only at hl
      cases hlx : lower d lg x with
      | error err => rw [hlx] at hl; cases hl
      | ok x' =>
        rw [hlx] at hl
        simp only at hl
        split at hl
        · cases hl
        · injection hl with hl; subst hl
          have gb := ihb k .s b' hb hnd.2.1 hlb
          have gx := ihx k .s x' hx hnd.2.2 hlx
          have lb := GoodX_LN S d lg k b b' gb
          have lx := GoodX_LN S d lg k x x' gx
          have hlit := lower_intLit d lg x x' hst hlx lx.1
          have hinv : InvG S d lg b → Inv1 S b' := by
            intro h i j
            rw [GoodX_scalar S d hd1 lg k b b' hb gb i j]; exact h i j
          have hpc : powCond S k b' x' := by
            have := hnd.1
            unfold powCondG at this
            unfold powCond
            rw [hlit]
            split at this
            · rename_i n hn
              rw [hn]
              exact this.imp id hinv
            · rename_i hn
              split
              · rename_i n hn'
                exact absurd hn' (hn n)
              · exact this.imp id hinv
          have hln : LN S k (pow b' x') :=
            ⟨by simp [LX, lb.1, lx.1], by simp only [NDk]; exact ⟨hpc, lb.2, lx.2⟩⟩
          refine ⟨by simpa [hasShapeX] using hln.1, hln, fun i j _ => ?_⟩
          simp only [den, denG]
          rw [GoodX_scalar S d hd1 lg k b b' hb gb i j, GoodX_scalar S d hd1 lg k x x' hx gx i j]
          exact powSem_congr_lit S _ _ x x' hlit
  | fn f a iha =>
    obtain ⟨rfl, ha, _⟩ := tyk_fn d f a k τ hty
    simp only [NDG] at hnd
    rw [lower_fn] at hl
    simp only [bind, Except.bind] at hl
    cases hla : lower d lg a with
    | error err => rw [hla] at hl; cases hl
    | ok a' =>
      rw [hla] at hl
      injection hl with hl; subst hl
      have ga := iha k .s a' ha hnd.2 hla
      have la := GoodX_LN S d lg k a a' ga
      have hden : ∀ i j, den S a' i j = denG S d lg a i j :=
        GoodX_scalar S d hd1 lg k a a' ha ga
      have hc : fnCond S k f a' := by
        have := hnd.1
        unfold fnCondG at this
        unfold fnCond
        rcases this with h0 | ⟨h1, h2, h3⟩
        · exact Or.inl h0
        · refine Or.inr ⟨h1, fun hf i j => ?_, fun hf => ?_⟩
          · rw [hden i j]; exact h2 hf i j
          · rcases h3 hf with h | h
            · exact Or.inl h
            · refine Or.inr (fun i j => ?_)
              have := h i j
              simp only [denG] at this
              simp only [den, hden i j]
              exact this
      have hln : LN S k (fn f a') :=
        ⟨by simpa [LX] using la.1, by simp only [NDk]; exact ⟨hc, la.2⟩⟩
      refine ⟨by simpa [hasShapeX] using hln.1, hln, fun i j _ => ?_⟩
      simp only [den, denG]
      rw [hden i j]
  | add as ih =>
    simp only [tyk] at hty
    simp only [NDG] at hnd
    simp only [lower, bind, Except.bind] at hl
    cases hls : lowerList d lg as with
    | error e => rw [hls] at hl; cases hl
    | ok ts =>
      rw [hls] at hl
      simp only at hl
      have F := lowerList_spec d lg as ts hls
      cases as with
      | nil => simp [tykAdd] at hty
      | cons a rest =>
        simp only [tykAdd] at hty
        cases ha : tyk d a k with
        | none => rw [ha] at hty; simp at hty
        | some τa =>
          rw [ha] at hty
          simp only [Option.bind_some] at hty
          split at hty
          · rename_i hall
            simp only [Option.some.injEq] at hty; subst hty
            cases F with
            | cons hat Frest =>
              rename_i ta trest
              have ga := ih a (by simp) k τa ta ha (NDGList_mem S d lg _ k hnd a (by simp)) hat
              have Fg : List.Forall₂ (GoodX S d lg k τa) rest trest :=
                forall2_members d lg _ rest trest Frest (fun x hx tx hlx =>
                  ih x (by simp [hx]) k τa tx (tykAll_mem d τa rest k hall x hx)
                    (NDGList_mem S d lg _ k hnd x (by simp [hx])) hlx)
              have hs := sum_membersX S d lg k τa rest trest Fg
              simp only [foldV] at hl
              have := foldAdd_soundX S d k τa trest ta t ⟨ga.1, ga.2.1⟩ hs.1 hl
              refine ⟨this.1.1, this.1.2, fun i j hij => ?_⟩
              rw [this.2 i j hij, ga.2.2 i j hij, hs.2 i j hij]
              simp only [denG, denGSum]
          · cases hty
  | mul as ih =>
    simp only [tyk] at hty
    simp only [NDG] at hnd
    simp only [lower, bind, Except.bind] at hl
    cases hls : lowerList d lg as with
    | error e => rw [hls] at hl; cases hl
    | ok ts =>
      rw [hls] at hl
      simp only at hl
      have F := lowerList_spec d lg as ts hls
      cases as with
      | nil => simp [tykMul] at hty
      | cons a rest =>
        simp only [tykMul] at hty
        cases ha : tyk d a k with
        | none => rw [ha] at hty; simp at hty
        | some τa =>
          rw [ha] at hty
          simp only [Option.bind_some] at hty
          cases F with
          | cons hat Frest =>
            rename_i ta trest
            have ga := ih a (by simp) k τa ta ha (NDGList_mem S d lg _ k hnd a (by simp)) hat
            have hmem := tykMulAcc_typed d rest k τa τ hty
            have Fg : List.Forall₂ (fun a t => ∃ τa, tyk d a k = some τa ∧ GoodX S d lg k τa a t)
                rest trest :=
              forall2_members d lg _ rest trest Frest (fun x hx tx hlx => by
                obtain ⟨τx, hτx⟩ := hmem x hx
                exact ⟨τx, hτx, ih x (by simp [hx]) k τx tx hτx
                  (NDGList_mem S d lg _ k hnd x (by simp [hx])) hlx⟩)
            obtain ⟨τs, hF, hτs, hden⟩ := mul_membersX S d hd1 lg k rest trest Fg τa τ hty
            simp only [foldV] at hl
            have := foldMul_soundX S d k trest τs ta t τa τ ⟨ga.1, ga.2.1⟩ hF hτs hl
            refine ⟨this.1.1, this.1.2, fun i j hij => ?_⟩
            rw [this.2 i j, hden i j hij,
              factor_denX S d hd1 lg k a ta τa τ ha ga (tykMulAcc_mono d rest k τa τ hty) i j hij]
            simp only [denG, denGProd]
  | op1 o a iha =>
    simp only [tyk] at hty
    simp only [NDG] at hnd
    cases ha : tyk d a (k + ord1 o) with
    | none => rw [ha] at hty; simp at hty
    | some τa =>
      rw [ha] at hty
      simp only [Option.bind_some] at hty
      obtain ⟨cn, hcn⟩ := ty1_class d o τa τ hty
      rw [lower_op1 d lg o a cn hcn] at hl
      simp only [bind, Except.bind] at hl
      cases hla : lower d lg a with
      | error e => rw [hla] at hl; cases hl
      | ok a' =>
        rw [hla] at hl
        simp only at hl
        have ga := iha (k + ord1 o) τa a' ha hnd hla
        have hra := tyk_rank d a _ τa ha
        rcases shape_casesX d τa a' ga.1 with ⟨hLS, hτ⟩ | ⟨es, rfl, _, _, rfl⟩ | ⟨es, rfl, _, _, rfl⟩
        · exact op1X_step_sc S T d hd lg o τa τ hty cn hcn k a a' hLS ga.2.1 hτ hra ga.2.2 t hl
        · exact op1X_step_vec S T d hd lg o .v τ hty cn hcn k a es ga.2.1 (Or.inl rfl) hra ga.2.2 t hl
        · rcases hd with rfl | hd'
          · exact op1X_step_vec S T 1 (Or.inl rfl) lg o .m τ hty cn hcn k a es ga.2.1
              (Or.inr ⟨rfl, rfl⟩) hra ga.2.2 t hl
          · exact op1X_step_mat S T d hd' lg o .m τ hty cn hcn k a es ga.2.1 rfl hra ga.2.2 t hl
  | op2 o a b iha ihb =>
    simp only [tyk] at hty
    simp only [NDG] at hnd
    cases ha : tyk d a (k + ord2 o) with
    | none => rw [ha] at hty; simp at hty
    | some τa =>
      rw [ha] at hty
      simp only [Option.bind_some] at hty
      cases hb : tyk d b (k + ord2 o) with
      | none => rw [hb] at hty; simp at hty
      | some τb =>
        rw [hb] at hty
        simp only [Option.bind_some] at hty
        rw [lower_op2 d lg o a b] at hl
        simp only [bind, Except.bind] at hl
        cases hla : lower d lg a with
        | error e => rw [hla] at hl; cases hl
        | ok a' =>
          rw [hla] at hl
          simp only at hl
          cases hlb : lower d lg b with
          | error e => rw [hlb] at hl; cases hl
          | ok b' =>
            rw [hlb] at hl
            simp only at hl
            have ga := iha (k + ord2 o) τa a' ha hnd.1 hla
            have gb := ihb (k + ord2 o) τb b' hb hnd.2 hlb
            have hra := tyk_rank d a _ τa ha
            have hrb := tyk_rank d b _ τb hb
            have hsx : ∀ τ', ty2 d o .s τ' = some τ → τ' = .s := by
              intro τ' h; cases o <;> cases τ' <;> simp_all [ty2]
            have hxs : ∀ τ', ty2 d o τ' .s = some τ → τ' = .s := by
              intro τ' h; cases o <;> cases τ' <;> simp_all [ty2]
            rcases shape_casesX d τa a' ga.1 with
              ⟨hLSa, hτa⟩ | ⟨es, rfl, _, _, rfl⟩ | ⟨es, rfl, _, _, rfl⟩ <;>
            rcases shape_casesX d τb b' gb.1 with
              ⟨hLSb, hτb⟩ | ⟨es', rfl, _, _, rfl⟩ | ⟨es', rfl, _, _, rfl⟩
            · exact op2X_step_sc_sc S T d hd lg o τa τb τ hty a b a' b' hLSa hLSb hτa hτb k ga.2.1 gb.2.1
                hra hrb ga.2.2 gb.2.2 t hl
            · rcases hτa with rfl | rfl
              · exact absurd (hsx _ hty) (by decide)
              · exact op2X_step_sc_vec S T lg o τa .v τ hty a b a' es' hLSa k ga.2.1 gb.2.1 hra hrb
                  ga.2.2 gb.2.2 t hl
            · rcases hτa with rfl | rfl
              · exact absurd (hsx _ hty) (by decide)
              · exact op2X_step_sc_vec S T lg o τa .m τ hty a b a' es' hLSa k ga.2.1 gb.2.1 hra hrb
                  ga.2.2 gb.2.2 t hl
            · rcases hτb with rfl | rfl
              · exact absurd (hxs _ hty) (by decide)
              · exact op2X_step_vec_sc S T lg o .v τb τ hty a b b' es hLSb k ga.2.1 gb.2.1 hra hrb
                  ga.2.2 gb.2.2 t hl
            · exact op2X_step_vec_vec S T d hd lg o .v .v τ hty a b es es' (Or.inl rfl) (Or.inl rfl)
                k ga.2.1 gb.2.1 hra hrb ga.2.2 gb.2.2 t hl
            · rcases hd with rfl | hd'
              · exact op2X_step_vec_vec S T 1 (Or.inl rfl) lg o .v .m τ hty a b es es' (Or.inl rfl)
                  (Or.inr ⟨rfl, rfl⟩) k ga.2.1 gb.2.1 hra hrb ga.2.2 gb.2.2 t hl
              · exact op2X_step_vec_mat S T d hd' lg o .v .m τ hty a b es es' rfl rfl k ga.2.1 gb.2.1
                  hra hrb ga.2.2 gb.2.2 t hl
            · rcases hτb with rfl | rfl
              · exact absurd (hxs _ hty) (by decide)
              · exact op2X_step_vec_sc S T lg o .m τb τ hty a b b' es hLSb k ga.2.1 gb.2.1 hra hrb
                  ga.2.2 gb.2.2 t hl
            · rcases hd with rfl | hd'
              · exact op2X_step_vec_vec S T 1 (Or.inl rfl) lg o .m .v τ hty a b es es'
                  (Or.inr ⟨rfl, rfl⟩) (Or.inl rfl) k ga.2.1 gb.2.1 hra hrb ga.2.2 gb.2.2 t hl
              · exact op2X_step_mat_vec S T d hd' lg o .m .v τ hty a b es es' rfl rfl k ga.2.1 gb.2.1
                  hra hrb ga.2.2 gb.2.2 t hl
            · rcases hd with rfl | hd'
              · exact op2X_step_vec_vec S T 1 (Or.inl rfl) lg o .m .m τ hty a b es es'
                  (Or.inr ⟨rfl, rfl⟩) (Or.inr ⟨rfl, rfl⟩) k ga.2.1 gb.2.1 hra hrb ga.2.2 gb.2.2 t hl
              · exact op2X_step_mat_mat S T d hd' lg o .m .m τ hty a b es es' rfl rfl k ga.2.1 gb.2.1
                  hra hrb ga.2.2 gb.2.2 t hl
  | nil => cases ‹_ ∈ []›
  | cons a as iha ihas =>
    rename_i x hx k' τ' t' hτ' hnd' hl'
    rcases List.mem_cons.mp hx with rfl | hx
    · exact iha k' τ' t' hτ' hnd' hl'
    · exact ihas x hx k' τ' t' hτ' hnd' hl'
  | _ => simp [tyk] at hty

/-! ### the extended fragment contains the old one, at every budget -/

theorem tykAll_of (d : Nat) (τ : Ty) (as : List E) (k : Nat)
    (h : ∀ a ∈ as, tyk d a k = some τ) : tykAll d τ as k = true := by
  induction as with
  | nil => rfl
  | cons a as ih =>
    simp only [tykAll, Bool.and_eq_true, beq_iff_eq]
    exact ⟨h a (by simp), ih (fun x hx => h x (by simp [hx]))⟩

theorem tykMulAcc_of (d : Nat) (as : List E) (k : Nat)
    (ih : ∀ a ∈ as, ∀ τ, ty d a = some τ → tyk d a k = some τ) (τ0 τ : Ty)
    (h : tyMulAcc d τ0 as = some τ) : tykMulAcc d τ0 as k = some τ := by
  induction as generalizing τ0 with
  | nil => simpa [tyMulAcc, tykMulAcc] using h
  | cons x xs ihx =>
    simp only [tyMulAcc] at h
    cases hx : ty d x with
    | none => rw [hx] at h; simp at h
    | some τx =>
      rw [hx] at h
      simp only [Option.bind_some] at h
      cases hm : tmul τ0 τx with
      | none => rw [hm] at h; simp at h
      | some τ' =>
        rw [hm] at h
        simp only [Option.bind_some] at h
        simp only [tykMulAcc, ih x (by simp) τx hx, Option.bind_some, hm]
        exact ihx (fun a ha => ih a (by simp [ha])) τ' h

theorem tyk_of_ty (d : Nat) (e : E) (τ : Ty) (h : ty d e = some τ) (k : Nat) : tyk d e k = some τ := by
  induction e using E.rec
    (motive_2 := fun as => ∀ a ∈ as, ∀ τ, ty d a = some τ → ∀ k, tyk d a k = some τ)
    generalizing τ k with
  | num _ _ => simpa [ty, tyk] using h
  | cst _ => simpa [ty, tyk] using h
  | sym _ => simpa [ty, tyk] using h
  | sf _ _ => simpa [ty, tyk] using h
  | vf _ _ => simpa [ty, tyk] using h
  | idx b i _ => cases b <;> simp_all [ty, tyk]
  | add as ih =>
    simp only [ty] at h
    cases as with
    | nil => simp [tyAdd] at h
    | cons a rest =>
      simp only [tyAdd] at h
      cases ha : ty d a with
      | none => rw [ha] at h; simp at h
      | some τa =>
        rw [ha] at h
        simp only [Option.bind_some] at h
        split at h
        · rename_i hall
          simp only [Option.some.injEq] at h; subst h
          simp only [tyk, tykAdd, ih a (by simp) τa ha k, Option.bind_some]
          rw [tykAll_of d τa rest k (fun x hx => ih x (by simp [hx]) τa (tyAll_mem d τa rest hall x hx) k)]
          rfl
        · cases h
  | mul as ih =>
    simp only [ty] at h
    cases as with
    | nil => simp [tyMul] at h
    | cons a rest =>
      simp only [tyMul] at h
      cases ha : ty d a with
      | none => rw [ha] at h; simp at h
      | some τa =>
        rw [ha] at h
        simp only [Option.bind_some] at h
        simp only [tyk, tykMul, ih a (by simp) τa ha k, Option.bind_some]
        exact tykMulAcc_of d rest k (fun x hx τx hτx => ih x (by simp [hx]) τx hτx k) τa τ h
  | op1 o a iha =>
    simp only [ty] at h
    cases ha : ty d a with
    | none => rw [ha] at h; simp at h
    | some τa =>
      rw [ha] at h
      simp only [Option.bind_some] at h
      simp only [tyk, iha τa ha _, Option.bind_some, h]
  | op2 o a b iha ihb =>
    simp only [ty] at h
    cases ha : ty d a with
    | none => rw [ha] at h; simp at h
    | some τa =>
      rw [ha] at h
      simp only [Option.bind_some] at h
      cases hb : ty d b with
      | none => rw [hb] at h; simp at h
      | some τb =>
        rw [hb] at h
        simp only [Option.bind_some] at h
        simp only [tyk, iha τa ha _, ihb τb hb _, Option.bind_some, h]
  | nil => cases ‹_ ∈ []›
  | cons a as iha ihas =>
    rename_i x hx τ' hτ' k'
    rcases List.mem_cons.mp hx with rfl | hx
    · exact iha τ' hτ' k'
    · exact ihas x hx τ' hτ' k'
  | _ => simp [ty] at h

end Sympde.Lower
