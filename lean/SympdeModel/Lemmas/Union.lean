/-
  Helper lemmas for the Union model: `dedup`, stable insertion sort by a string key, the
  canonical list of a finite set (`canon`), and the structure of `mkUnion`.
-/
import SympdeModel.Model.Union
namespace Sympde
namespace USet

set_option linter.unusedSectionVars false

section canon
variable {α : Type} [DecidableEq α]

theorem mem_dedup (l : List α) (x : α) : x ∈ dedup l ↔ x ∈ l := by
  induction l with
  | nil => simp [dedup]
  | cons a as ih =>
    simp only [dedup]
    split
    · rename_i h
      rw [ih, List.mem_cons]
      constructor
      · exact Or.inr
      · rintro (rfl | h')
        · exact h
        · exact h'
    · simp [ih]

theorem nodup_dedup (l : List α) : (dedup l).Nodup := by
  induction l with
  | nil => simp [dedup]
  | cons a as ih =>
    simp only [dedup]
    split
    · exact ih
    · rename_i h
      exact List.nodup_cons.mpr ⟨fun h' => h ((mem_dedup as a).mp h'), ih⟩

theorem dedup_of_nodup (l : List α) (h : l.Nodup) : dedup l = l := by
  induction l with
  | nil => rfl
  | cons a as ih =>
    have := List.nodup_cons.mp h
    simp [dedup, this.1, ih this.2]

/-- sorted by key (non-strictly) -/
def Sorted (key : α → String) (l : List α) : Prop := l.Pairwise (fun a b => key a ≤ key b)

/-- the key is injective on the list: two members with the same string are the same member -/
def KeyInj (key : α → String) (l : List α) : Prop := ∀ a ∈ l, ∀ b ∈ l, key a = key b → a = b

theorem insertBy_perm (key : α → String) (a : α) (l : List α) : (insertBy key a l).Perm (a :: l) := by
  induction l with
  | nil => simp [insertBy]
  | cons b bs ih =>
    simp only [insertBy]
    split
    · exact List.Perm.refl _
    · exact (List.Perm.cons b ih).trans (List.Perm.swap a b bs)

theorem sortBy_perm (key : α → String) (l : List α) : (sortBy key l).Perm l := by
  induction l with
  | nil => simp [sortBy]
  | cons a as ih => exact (insertBy_perm key a _).trans (List.Perm.cons a ih)

theorem mem_insertBy (key : α → String) (a x : α) (l : List α) :
    x ∈ insertBy key a l ↔ x = a ∨ x ∈ l := by
  rw [(insertBy_perm key a l).mem_iff, List.mem_cons]

theorem mem_sortBy (key : α → String) (x : α) (l : List α) : x ∈ sortBy key l ↔ x ∈ l :=
  (sortBy_perm key l).mem_iff

theorem insertBy_sorted (key : α → String) (a : α) (l : List α) (h : Sorted key l) :
    Sorted key (insertBy key a l) := by
  induction l with
  | nil => simp [insertBy, Sorted]
  | cons b bs ih =>
    unfold Sorted at h ih ⊢
    simp only [insertBy]
    have hb := List.pairwise_cons.mp h
    split
    · rename_i hab
      refine List.pairwise_cons.mpr ⟨?_, h⟩
      intro x hx
      rcases List.mem_cons.mp hx with rfl | hx
      · exact hab
      · exact String.le_trans hab (hb.1 x hx)
    · rename_i hab
      have hba : key b ≤ key a := by
        rcases String.le_total (key a) (key b) with h1 | h1
        · exact absurd h1 hab
        · exact h1
      refine List.pairwise_cons.mpr ⟨?_, ih hb.2⟩
      intro x hx
      rcases (mem_insertBy key a x bs).mp hx with rfl | hx
      · exact hba
      · exact hb.1 x hx

theorem sortBy_sorted (key : α → String) (l : List α) : Sorted key (sortBy key l) := by
  induction l with
  | nil => simp [sortBy, Sorted]
  | cons a as ih => exact insertBy_sorted key a _ ih

theorem insertBy_of_le (key : α → String) (a : α) (l : List α) (h : ∀ x ∈ l, key a ≤ key x) :
    insertBy key a l = a :: l := by
  cases l with
  | nil => rfl
  | cons b bs => simp [insertBy, h b (by simp)]

theorem sortBy_of_sorted (key : α → String) (l : List α) (h : Sorted key l) : sortBy key l = l := by
  induction l with
  | nil => rfl
  | cons a as ih =>
    have hb := List.pairwise_cons.mp h
    simp only [sortBy]
    rw [ih hb.2]
    exact insertBy_of_le key a as hb.1

theorem eq_of_perm_sorted (key : α → String) (l₁ l₂ : List α) (inj : KeyInj key l₁)
    (hp : l₁.Perm l₂) (h₁ : Sorted key l₁) (h₂ : Sorted key l₂) : l₁ = l₂ := by
  induction l₁ generalizing l₂ with
  | nil => exact (List.Perm.nil_eq hp)
  | cons a t ih =>
    cases l₂ with
    | nil => exact absurd hp.symm (by simp)
    | cons b t' =>
      have p₁ := List.pairwise_cons.mp h₁
      have p₂ := List.pairwise_cons.mp h₂
      have hab : a = b := by
        have ha : a ∈ b :: t' := hp.mem_iff.mp (by simp)
        have hb : b ∈ a :: t := hp.mem_iff.mpr (by simp)
        rcases List.mem_cons.mp ha with h | ha'
        · exact h
        · rcases List.mem_cons.mp hb with h | hb'
          · exact h.symm
          · exact inj a (by simp) b (List.mem_cons_of_mem _ hb')
              (String.le_antisymm (p₁.1 b hb') (p₂.1 a ha'))
      subst hab
      have inj' : KeyInj key t := fun x hx y hy =>
        inj x (List.mem_cons_of_mem _ hx) y (List.mem_cons_of_mem _ hy)
      rw [ih t' inj' (List.Perm.cons_inv hp) p₁.2 p₂.2]

theorem mem_canon (key : α → String) (l : List α) (x : α) : x ∈ canon key l ↔ x ∈ l := by
  unfold canon; rw [mem_sortBy, mem_dedup]

theorem canon_nodup (key : α → String) (l : List α) : (canon key l).Nodup :=
  (sortBy_perm key (dedup l)).nodup_iff.mpr (nodup_dedup l)

theorem canon_sorted (key : α → String) (l : List α) : Sorted key (canon key l) :=
  sortBy_sorted key _

theorem KeyInj.of_subset {key : α → String} {l l' : List α} (h : KeyInj key l)
    (hs : ∀ x ∈ l', x ∈ l) : KeyInj key l' :=
  fun a ha b hb => h a (hs a ha) b (hs b hb)

/-- **the canonical list depends on the set only**: two lists with the same members (in any
    order, with any multiplicities) have the same canonical list -/
theorem canon_ext (key : α → String) (l₁ l₂ : List α) (inj : KeyInj key l₁)
    (h : ∀ x, x ∈ l₁ ↔ x ∈ l₂) : canon key l₁ = canon key l₂ := by
  apply eq_of_perm_sorted key
  · exact inj.of_subset (fun x hx => (mem_canon key l₁ x).mp hx)
  · apply (List.perm_ext_iff_of_nodup (canon_nodup key l₁) (canon_nodup key l₂)).mpr
    intro x; rw [mem_canon, mem_canon, h]
  · exact canon_sorted key l₁
  · exact canon_sorted key l₂

/-- a duplicate-free list sorted by key is its own canonical list -/
theorem canon_of_sorted_nodup (key : α → String) (l : List α) (hs : Sorted key l) (hn : l.Nodup) :
    canon key l = l := by
  unfold canon; rw [dedup_of_nodup l hn, sortBy_of_sorted key l hs]

theorem canon_idem (key : α → String) (l : List α) : canon key (canon key l) = canon key l :=
  canon_of_sorted_nodup key _ (canon_sorted key l) (canon_nodup key l)

/-- strictly increasing keys -/
def StrictSorted (key : α → String) (l : List α) : Prop := l.Pairwise (fun a b => key a < key b)

theorem canon_strict (key : α → String) (l : List α) (inj : KeyInj key l) :
    StrictSorted key (canon key l) := by
  have hs := canon_sorted key l
  have hn := canon_nodup key l
  have inj' : KeyInj key (canon key l) := inj.of_subset (fun x hx => (mem_canon key l x).mp hx)
  unfold StrictSorted
  unfold Sorted at hs
  generalize canon key l = c at hs hn inj'
  induction c with
  | nil => exact List.Pairwise.nil
  | cons a t ih =>
    have p := List.pairwise_cons.mp hs
    have n := List.nodup_cons.mp hn
    refine List.pairwise_cons.mpr ⟨?_, ih p.2 n.2 (inj'.of_subset (fun x hx => List.mem_cons_of_mem _ hx))⟩
    intro b hb
    apply Decidable.byContradiction
    intro hlt
    have hba : key b ≤ key a := String.not_lt.mp hlt
    have : a = b := inj' a (by simp) b (List.mem_cons_of_mem _ hb) (String.le_antisymm (p.1 b hb) hba)
    subst this; exact n.1 hb

theorem StrictSorted.sorted {key : α → String} {l : List α} (h : StrictSorted key l) : Sorted key l := by
  unfold StrictSorted at h; unfold Sorted
  exact h.imp (fun {a b} hab => by
    rcases String.le_total (key a) (key b) with h1 | h1
    · exact h1
    · exact absurd hab (String.not_lt.mpr h1))

theorem StrictSorted.nodup {key : α → String} {l : List α} (h : StrictSorted key l) : l.Nodup := by
  unfold StrictSorted at h
  exact h.imp (fun {a b} hab heq => by subst heq; exact String.lt_irrefl _ hab)

theorem StrictSorted.keyInj {key : α → String} {l : List α} (h : StrictSorted key l) : KeyInj key l := by
  unfold StrictSorted at h
  induction l with
  | nil => intro a ha; cases ha
  | cons x t ih =>
    have p := List.pairwise_cons.mp h
    intro a ha b hb hk
    rcases List.mem_cons.mp ha with ha1 | ha1
    · rcases List.mem_cons.mp hb with hb1 | hb1
      · rw [ha1, hb1]
      · subst ha1; exact absurd (hk ▸ p.1 b hb1) (String.lt_irrefl _)
    · rcases List.mem_cons.mp hb with hb1 | hb1
      · subst hb1; exact absurd (hk ▸ p.1 a ha1) (String.lt_irrefl _)
      · exact ih p.2 a ha1 b hb1 hk

end canon

/-! ### structure of `mkUnion` -/

theorem dedup_length_le_one_iff {β : Type} [DecidableEq β] (l : List β) :
    (dedup l).length ≤ 1 ↔ ∀ a ∈ l, ∀ b ∈ l, a = b := by
  constructor
  · intro h a ha b hb
    have ha' := (mem_dedup l a).mpr ha
    have hb' := (mem_dedup l b).mpr hb
    match hd : dedup l, h with
    | [], _ => rw [hd] at ha'; cases ha'
    | [x], _ =>
      rw [hd] at ha' hb'
      simp at ha' hb'
      rw [ha', hb']
    | _ :: _ :: _, h => simp at h
  · intro h
    have hn := nodup_dedup l
    match hd : dedup l with
    | [] => simp
    | [x] => simp
    | x :: y :: t =>
      exfalso
      rw [hd] at hn
      have hx : x ∈ l := (mem_dedup l x).mp (by rw [hd]; simp)
      have hy : y ∈ l := (mem_dedup l y).mp (by rw [hd]; simp)
      have := h x hx y hy
      subst this
      simp at hn

/-- the arguments that survive the `None` filter -/
def live (args : List Arg) : List Arg := args.filter (fun a => !a.isNone)

/-- the flattened list exactly as `Union.__new__` builds it: the non-Union arguments first,
    then the members of every Union argument -/
def flat (args : List Arg) : List Atom :=
  ((live args).filter (fun a => !a.isUnion)).flatMap Arg.members ++
    ((live args).filter Arg.isUnion).flatMap Arg.members

/-- all arguments are domains or None -/
def NoBad (args : List Arg) : Prop := ∀ a ∈ args, a.isBad = false

/-- all arguments other than None have the same dimension -/
def Uniform (args : List Arg) : Prop :=
  ∀ a ∈ args, ∀ b ∈ args, a.isNone = false → b.isNone = false → a.dim = b.dim

theorem mem_live (args : List Arg) (a : Arg) : a ∈ live args ↔ a ∈ args ∧ a.isNone = false := by
  simp [live]

/-- membership in the flattened list: `x` is a member of some argument -/
theorem mem_flat (args : List Arg) (x : Atom) : x ∈ flat args ↔ ∃ a ∈ args, x ∈ a.members := by
  simp only [flat, List.mem_append, List.mem_flatMap, List.mem_filter, mem_live]
  constructor
  · rintro (⟨a, ⟨⟨ha, _⟩, _⟩, hx⟩ | ⟨a, ⟨⟨ha, _⟩, _⟩, hx⟩) <;> exact ⟨a, ha, hx⟩
  · rintro ⟨a, ha, hx⟩
    have hn : a.isNone = false := by cases a <;> simp_all [Arg.members, Arg.isNone]
    cases hu : a.isUnion
    · exact Or.inl ⟨a, ⟨⟨ha, hn⟩, by simp [hu]⟩, hx⟩
    · exact Or.inr ⟨a, ⟨⟨ha, hn⟩, hu⟩, hx⟩

theorem mkUnion_bad (args : List Arg) (h : ∃ a ∈ args, a.isBad = true) :
    mkUnion args = .error .typeError := by
  obtain ⟨a, ha, hb⟩ := h
  have hl : a ∈ live args := (mem_live args a).mpr ⟨ha, by cases a <;> simp_all [Arg.isBad, Arg.isNone]⟩
  have : (live args).any Arg.isBad = true := List.any_eq_true.mpr ⟨a, hl, hb⟩
  unfold mkUnion
  simp only [live] at this
  simp [this]

theorem any_bad_false (args : List Arg) (h : NoBad args) : (live args).any Arg.isBad = false := by
  rw [List.any_eq_false]
  intro a ha
  have := h a ((mem_live args a).mp ha).1
  simp [this]

theorem mkUnion_mixed (args : List Arg) (hb : NoBad args) (h : ¬ Uniform args) :
    mkUnion args = .error .valueError := by
  have hany := any_bad_false args hb
  have : ¬ (dedup ((live args).map Arg.dim)).length ≤ 1 := by
    rw [dedup_length_le_one_iff]
    intro hall
    apply h
    intro a ha b hb' hna hnb
    exact hall _ (List.mem_map.mpr ⟨a, (mem_live args a).mpr ⟨ha, hna⟩, rfl⟩)
      _ (List.mem_map.mpr ⟨b, (mem_live args b).mpr ⟨hb', hnb⟩, rfl⟩)
  unfold mkUnion
  simp only [live] at hany this
  simp only [hany, Bool.false_eq_true, if_false]
  rw [if_pos (by omega)]

/-- **what `Union(*args)` returns on admissible arguments**: the canonical list of the set of
    all members, packed (None / the member itself / a Union object) -/
theorem mkUnion_ok (args : List Arg) (hb : NoBad args) (hu : Uniform args) :
    mkUnion args = .ok (pack (canon Atom.key (flat args))) := by
  have hany := any_bad_false args hb
  have : (dedup ((live args).map Arg.dim)).length ≤ 1 := by
    rw [dedup_length_le_one_iff]
    intro x hx y hy
    obtain ⟨a, ha, rfl⟩ := List.mem_map.mp hx
    obtain ⟨b, hb', rfl⟩ := List.mem_map.mp hy
    have ha' := (mem_live args a).mp ha
    have hb'' := (mem_live args b).mp hb'
    exact hu a ha'.1 b hb''.1 ha'.2 hb''.2
  unfold mkUnion
  simp only [live] at hany this
  simp only [hany, Bool.false_eq_true, if_false]
  rw [if_neg (by omega)]
  rfl

/-- conversely: a successful call had admissible arguments -/
theorem mkUnion_ok_inv (args : List Arg) (r : Res) (h : mkUnion args = .ok r) :
    NoBad args ∧ Uniform args ∧ r = pack (canon Atom.key (flat args)) := by
  have hb : NoBad args := by
    intro a ha
    cases hbad : a.isBad
    · rfl
    · rw [mkUnion_bad args ⟨a, ha, hbad⟩] at h; cases h
  have hu : Uniform args := by
    apply Classical.byContradiction
    intro hn
    rw [mkUnion_mixed args hb hn] at h; cases h
  refine ⟨hb, hu, ?_⟩
  rw [mkUnion_ok args hb hu] at h
  cases h; rfl

theorem members_pack (l : List Atom) : (pack l).members = l := by
  match l with
  | [] => rfl
  | [_] => rfl
  | _ :: _ :: _ => rfl

theorem mem_members_of_ok (args : List Arg) (r : Res) (h : mkUnion args = .ok r) (x : Atom) :
    x ∈ r.members ↔ ∃ a ∈ args, x ∈ a.members := by
  obtain ⟨_, _, rfl⟩ := mkUnion_ok_inv args r h
  rw [members_pack, mem_canon, mem_flat]

/-! ### results passed on as arguments -/

/-- a Union object passed as argument has members of one dimension (true of every object
    `Union.__new__` returns: `union_result_wf`) -/
def WFArg : Arg → Prop
  | .union hd tl => ∀ x ∈ tl, x.dim = hd.dim
  | _ => True

theorem members_toArg (r : Res) (h : ∃ l, r = pack l) : r.toArg.members = r.members := by
  obtain ⟨l, rfl⟩ := h
  match l with
  | [] => rfl
  | [_] => rfl
  | _ :: _ :: _ => rfl

theorem isPack_of_ok (args : List Arg) (r : Res) (h : mkUnion args = .ok r) : ∃ l, r = pack l :=
  ⟨_, (mkUnion_ok_inv args r h).2.2⟩

theorem toArg_notBad (r : Res) : r.toArg.isBad = false := by
  cases r with
  | null => rfl
  | single a => rfl
  | union ms => cases ms <;> rfl

/-- every member of an admissible argument has the dimension of the argument -/
theorem dim_of_member (a : Arg) (hw : WFArg a) (x : Atom) (hx : x ∈ a.members) : x.dim = a.dim := by
  cases a with
  | none => cases hx
  | bad => cases hx
  | atom b => simp [Arg.members] at hx; rw [hx]; rfl
  | union hd tl =>
    simp only [Arg.members, List.mem_cons] at hx
    rcases hx with rfl | hx
    · rfl
    · exact hw x hx

/-- an argument that is neither None nor a non-domain has a member -/
theorem exists_member (a : Arg) (hn : a.isNone = false) (hb : a.isBad = false) :
    ∃ x, x ∈ a.members := by
  cases a with
  | none => cases hn
  | bad => cases hb
  | atom b => exact ⟨b, by simp [Arg.members]⟩
  | union hd tl => exact ⟨hd, by simp [Arg.members]⟩

theorem not_none_of_member (a : Arg) (x : Atom) (hx : x ∈ a.members) : a.isNone = false := by
  cases a <;> simp_all [Arg.members, Arg.isNone]

/-- all members of a result have one dimension: the one of every non-None argument -/
theorem result_dim (args : List Arg) (r : Res) (h : mkUnion args = .ok r)
    (hw : ∀ a ∈ args, WFArg a) (x : Atom) (hx : x ∈ r.members) :
    ∀ b ∈ args, b.isNone = false → x.dim = b.dim := by
  obtain ⟨_, hu, _⟩ := mkUnion_ok_inv args r h
  obtain ⟨a, ha, hxa⟩ := (mem_members_of_ok args r h x).mp hx
  intro b hb hnb
  rw [dim_of_member a (hw a ha) x hxa]
  exact hu a ha b hb (not_none_of_member a x hxa) hnb

/-- the dimension of a non-null result seen as an argument is the dimension of its members -/
theorem toArg_dim (r : Res) (hp : ∃ l, r = pack l) (hn : r.toArg.isNone = false) :
    ∃ m ∈ r.members, r.toArg.dim = m.dim := by
  obtain ⟨l, rfl⟩ := hp
  match l with
  | [] => cases hn
  | [a] => exact ⟨a, by simp [pack, Res.members], rfl⟩
  | a :: b :: t => exact ⟨a, by simp [pack, Res.members], rfl⟩

theorem toArg_isNone (r : Res) (hp : ∃ l, r = pack l) : r.toArg.isNone = true ↔ r.members = [] := by
  obtain ⟨l, rfl⟩ := hp
  match l with
  | [] => simp [pack, Res.toArg, Arg.isNone, Res.members]
  | [a] => simp [pack, Res.toArg, Arg.isNone, Res.members]
  | a :: b :: t => simp [pack, Res.toArg, Arg.isNone, Res.members]

/-- the dimensions seen by the dimension check -/
def dimsOf (args : List Arg) : List (Option Nat) := (live args).map Arg.dim

theorem mem_dimsOf (args : List Arg) (d : Option Nat) :
    d ∈ dimsOf args ↔ ∃ a ∈ args, a.isNone = false ∧ a.dim = d := by
  simp only [dimsOf, List.mem_map, mem_live]
  constructor
  · rintro ⟨a, ⟨ha, hn⟩, rfl⟩; exact ⟨a, ha, hn, rfl⟩
  · rintro ⟨a, ha, hn, rfl⟩; exact ⟨a, ⟨ha, hn⟩, rfl⟩

theorem uniform_iff_dims (args : List Arg) :
    Uniform args ↔ ∀ d₁ ∈ dimsOf args, ∀ d₂ ∈ dimsOf args, d₁ = d₂ := by
  constructor
  · intro h d₁ h₁ d₂ h₂
    obtain ⟨a, ha, hna, rfl⟩ := (mem_dimsOf args d₁).mp h₁
    obtain ⟨b, hb, hnb, rfl⟩ := (mem_dimsOf args d₂).mp h₂
    exact h a ha b hb hna hnb
  · intro h a ha b hb hna hnb
    exact h _ ((mem_dimsOf args _).mpr ⟨a, ha, hna, rfl⟩) _ ((mem_dimsOf args _).mpr ⟨b, hb, hnb, rfl⟩)

theorem uniform_congr (a₁ a₂ : List Arg) (h : ∀ d, d ∈ dimsOf a₁ ↔ d ∈ dimsOf a₂) :
    Uniform a₁ ↔ Uniform a₂ := by
  rw [uniform_iff_dims, uniform_iff_dims]
  constructor
  · intro H d₁ h₁ d₂ h₂; exact H d₁ ((h d₁).mpr h₁) d₂ ((h d₂).mpr h₂)
  · intro H d₁ h₁ d₂ h₂; exact H d₁ ((h d₁).mp h₁) d₂ ((h d₂).mp h₂)

/-- a result seen as one argument shows the dimension check exactly the dimensions its own
    arguments showed -/
theorem dims_result (g : List Arg) (r : Res) (h : mkUnion g = .ok r) (hw : ∀ a ∈ g, WFArg a)
    (d : Option Nat) : d ∈ dimsOf [r.toArg] ↔ d ∈ dimsOf g := by
  have hp := isPack_of_ok g r h
  rw [mem_dimsOf, mem_dimsOf]
  constructor
  · rintro ⟨a, ha, hn, rfl⟩
    simp at ha; subst ha
    obtain ⟨m, hm, hd⟩ := toArg_dim r hp hn
    obtain ⟨a, ha, hma⟩ := (mem_members_of_ok g r h m).mp hm
    exact ⟨a, ha, not_none_of_member a m hma, by rw [hd, dim_of_member a (hw a ha) m hma]⟩
  · rintro ⟨a, ha, hn, rfl⟩
    have hba := (mkUnion_ok_inv g r h).1 a ha
    obtain ⟨x, hx⟩ := exists_member a hn hba
    have hxr : x ∈ r.members := (mem_members_of_ok g r h x).mpr ⟨a, ha, hx⟩
    have hnn : r.toArg.isNone = false := by
      cases hh : r.toArg.isNone
      · rfl
      · rw [(toArg_isNone r hp).mp hh] at hxr; cases hxr
    obtain ⟨m, hm, hd⟩ := toArg_dim r hp hnn
    exact ⟨r.toArg, by simp, hnn, by rw [hd]; exact result_dim g r h hw m hm a ha hn⟩

theorem dimsOf_append (a b : List Arg) : dimsOf (a ++ b) = dimsOf a ++ dimsOf b := by
  simp [dimsOf, live]

/-- `flat` of a list of plain domains is the list itself -/
theorem flat_atoms (l : List Atom) : flat (l.map Arg.atom) = l := by
  have h1 : live (l.map Arg.atom) = l.map Arg.atom := by
    simp [live, List.filter_eq_self, Arg.isNone]
  have h2 : (l.map Arg.atom).filter (fun a => !a.isUnion) = l.map Arg.atom := by
    simp [List.filter_eq_self, Arg.isUnion]
  have h3 : (l.map Arg.atom).filter Arg.isUnion = [] := by
    simp [List.filter_eq_nil_iff, Arg.isUnion]
  unfold flat
  rw [h1, h2, h3]
  simp [List.flatMap_map, Arg.members]

/-! ### helpers of the property theorems (Props/C14.lean) -/

theorem live_perm {a₁ a₂ : List Arg} (hp : a₁.Perm a₂) : (live a₁).Perm (live a₂) :=
  hp.filter _

theorem noBad_perm {a₁ a₂ : List Arg} (hp : a₁.Perm a₂) : NoBad a₁ ↔ NoBad a₂ := by
  unfold NoBad
  constructor
  · intro h a ha; exact h a (hp.mem_iff.mpr ha)
  · intro h a ha; exact h a (hp.mem_iff.mp ha)

theorem uniform_perm {a₁ a₂ : List Arg} (hp : a₁.Perm a₂) : Uniform a₁ ↔ Uniform a₂ := by
  unfold Uniform
  constructor
  · intro h a ha b hb; exact h a (hp.mem_iff.mpr ha) b (hp.mem_iff.mpr hb)
  · intro h a ha b hb; exact h a (hp.mem_iff.mp ha) b (hp.mem_iff.mp hb)


/-- the standing hygiene hypothesis, stated on the arguments: `str` is injective on all the
    members that occur in them -/
def Hygienic (args : List Arg) : Prop := KeyInj Atom.key (args.flatMap Arg.members)

theorem Hygienic.flat {args : List Arg} (h : Hygienic args) : KeyInj Atom.key (flat args) :=
  KeyInj.of_subset h (fun x hx => by
    obtain ⟨a, ha, hxa⟩ := (mem_flat args x).mp hx
    exact List.mem_flatMap.mpr ⟨a, ha, hxa⟩)


/-- the members of a Union object: at least two, strictly increasing `str`, one dimension -/
structure IsUnionObj (ms : List Atom) : Prop where
  strict : StrictSorted Atom.key ms
  dim : ∀ a ∈ ms, ∀ b ∈ ms, a.dim = b.dim

theorem complement_list (ms excl : List Atom) (h : IsUnionObj ms) :
    mkUnion ((ms.filter (fun i => i ∉ excl)).map Arg.atom) =
      .ok (pack (ms.filter (fun i => i ∉ excl))) := by
  have hsub : ∀ x ∈ ms.filter (fun i => i ∉ excl), x ∈ ms := fun x hx => (List.mem_filter.mp hx).1
  rw [mkUnion_ok]
  · rw [flat_atoms]
    congr 2
    apply canon_of_sorted_nodup
    · exact (h.strict.sorted).sublist List.filter_sublist
    · exact (h.strict.nodup).sublist List.filter_sublist
  · intro a ha
    obtain ⟨x, _, rfl⟩ := List.mem_map.mp ha
    rfl
  · intro a ha b hb _ _
    obtain ⟨x, hx, rfl⟩ := List.mem_map.mp ha
    obtain ⟨y, hy, rfl⟩ := List.mem_map.mp hb
    exact h.dim x (hsub x hx) y (hsub y hy)


theorem getElem?_append_zero (w : World) (i : Nat) (pos : Nat) (h : w[i]? = some pos) :
    (w ++ [0])[i]? = some pos := by
  have hi : i < w.length := by
    apply Decidable.byContradiction; intro hn
    rw [List.getElem?_eq_none (by omega)] at h; cases h
  rw [List.getElem?_append_left hi, h]


theorem exec_append_iter (ms : List Atom) (pre : List Op) (w : World) :
    exec ms w (pre ++ [Op.iter]) = exec ms w pre ++ [0] := by
  induction pre generalizing w with
  | nil => rfl
  | cons o os ih => exact ih (step ms w o).1


end USet
end Sympde
